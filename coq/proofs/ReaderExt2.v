(* Gap-freeness of the remap=True squeeze of postprocess_parsed_reaction: the numbers it returns are exactly 1..N. *)
From Coq Require Import ZArith List String Ascii Bool Lia.
From Model Require Import PyBase Tokenize Parser Reader.
From Proofs Require Import TokenizeProofs ParserProofs ReaderProofs ReaderExt.
Import ListNotations.
Open Scope Z_scope.

(* number of squeezed-out values below x *)
Definition cnt (lose : list Z) (x : Z) : Z := Z.of_nat (List.length (filter (fun j => j <? x) lose)).

Lemma cnt_all lose x : (forall j, In j lose -> j < x) -> cnt lose x = Z.of_nat (List.length lose).
Proof.
  unfold cnt. intros H. f_equal. f_equal. induction lose as [|j r IH]; [reflexivity|]. cbn.
  assert (E : (j <? x) = true) by (apply Z.ltb_lt; apply H; left; reflexivity). rewrite E. cbn. f_equal. apply IH. intros k Hk. apply H. right. exact Hk.
Qed.

(* closed form of the squeeze on a number that is kept *)
Lemma sqz_closed lose : desc lose -> forall x, ~ In x lose -> sqz lose x = x - cnt lose x.
Proof.
  unfold sqz. induction lose as [|j r IH]; intros D x Hx; cbn [fold_left]; [unfold cnt; cbn; lia|].
  destruct D as [D1 D2]. assert (Nx : x <> j) by (intros ->; apply Hx; left; reflexivity).
  unfold cnt. cbn [filter]. destruct (x <? j) eqn:E.
  - apply Z.ltb_lt in E. assert (E2 : (j <? x) = false) by (apply Z.ltb_ge; lia). rewrite E2.
    apply IH; [exact D2 | intros Hin; apply Hx; right; exact Hin].
  - apply Z.ltb_ge in E. assert (E2 : (j <? x) = true) by (apply Z.ltb_lt; lia). rewrite E2. cbn [List.length].
    rewrite IH; [|exact D2 | intros Hin; specialize (D1 _ Hin); lia].
    rewrite (cnt_all r (x - 1)) by (intros k Hk; specialize (D1 _ Hk); lia).
    rewrite Nat2Z.inj_succ. fold (cnt r x). rewrite (cnt_all r x) by (intros k Hk; specialize (D1 _ Hk); lia). lia.
Qed.

Lemma desc_nodup l : desc l -> NoDup l.
Proof.
  induction l as [|j r IH]; cbn; [constructor|]. intros [D1 D2]. constructor; [intros Hin; specialize (D1 _ Hin); lia | apply IH; exact D2].
Qed.

Lemma cnt_succ lose z : NoDup lose -> cnt lose (z + 1) = cnt lose z + (if zmem z lose then 1 else 0).
Proof.
  unfold cnt. induction lose as [|j r IH]; intros ND; [reflexivity|]. inversion ND; subst. specialize (IH H2).
  cbn [filter zmem existsb]. fold (zmem z r).
  destruct (Z.eq_dec z j) as [->|N].
  - rewrite Z.eqb_refl. cbn [orb]. assert (E1 : (j <? j + 1) = true) by (apply Z.ltb_lt; lia). assert (E2 : (j <? j) = false) by (apply Z.ltb_ge; lia).
    rewrite E1, E2. cbn [List.length]. assert (Z0 : zmem j r = false) by (destruct (zmem j r) eqn:E; [apply zmem_In in E; contradiction | reflexivity]).
    rewrite Z0 in IH. lia.
  - assert (E0 : (z =? j) = false) by (apply Z.eqb_neq; exact N). rewrite E0. cbn [orb].
    destruct (j <? z) eqn:E1.
    + apply Z.ltb_lt in E1. assert (E2 : (j <? z + 1) = true) by (apply Z.ltb_lt; lia). rewrite E2. cbn [List.length]. lia.
    + apply Z.ltb_ge in E1. assert (E2 : (j <? z + 1) = false) by (apply Z.ltb_ge; lia). rewrite E2. exact IH.
Qed.

(* every rank below the rank of a kept number is the rank of a kept number *)
Lemma ranks_gap_free lose : NoDup lose -> (forall j, In j lose -> 1 <= j) ->
  forall n : nat, forall k, 1 <= k <= Z.of_nat n - cnt lose (Z.of_nat n + 1) ->
  exists z, 1 <= z <= Z.of_nat n /\ ~ In z lose /\ z - cnt lose z = k.
Proof.
  intros ND H1. induction n as [|n IH]; intros k Hk.
  - assert (C : cnt lose (Z.of_nat 0 + 1) = 0).
    { unfold cnt. cbn. assert (F : filter (fun j => j <? 1) lose = []).
      { clear - H1. induction lose as [|j r IH]; [reflexivity|]. cbn. assert (E : (j <? 1) = false) by (apply Z.ltb_ge; apply H1; left; reflexivity).
        rewrite E. apply IH. intros x Hx. apply H1. right. exact Hx. }
      rewrite F. reflexivity. }
    rewrite C in Hk. cbn in Hk. lia.
  - rewrite Nat2Z.inj_succ in *. unfold Z.succ in *.
    pose proof (cnt_succ lose (Z.of_nat n + 1) ND) as S1.
    destruct (zmem (Z.of_nat n + 1) lose) eqn:Em.
    + destruct (IH k ltac:(lia)) as [z [A [B C]]]. exists z. repeat split; try assumption; lia.
    + destruct (Z_le_gt_dec k (Z.of_nat n - cnt lose (Z.of_nat n + 1))) as [L | G].
      * destruct (IH k ltac:(lia)) as [z [A [B C]]]. exists z. repeat split; try assumption; lia.
      * exists (Z.of_nat n + 1). split; [lia|]. split; [intros Hin; apply zmem_In in Hin; congruence|]. lia.
Qed.

Lemma number_loop_pos ignore maps : forall next used out n, (forall m, In m maps -> 0 <= m) -> 1 <= next ->
  number_loop ignore maps next used = Ok (out, n) -> forall x, In x out -> 1 <= x.
Proof.
  induction maps as [|m r IH]; intros next used out n Hm Hn H x Hx; cbn [number_loop] in H.
  - inversion H; subst. destruct Hx.
  - assert (Hr : forall m0, In m0 r -> 0 <= m0) by (intros m0 H0; apply Hm; right; exact H0).
    destruct (m =? 0) eqn:E0.
    + destruct (number_loop ignore r (next + 1) used) as [[o n']|] eqn:E; [|discriminate]. inversion H; subst.
      destruct Hx as [<- | Hx]; [lia | eapply (IH (next + 1) used o n Hr ltac:(lia) E); exact Hx].
    + apply Z.eqb_neq in E0. destruct (zmem m used).
      * destruct (negb ignore); [discriminate|].
        destruct (number_loop ignore r (next + 1) used) as [[o n']|] eqn:E; [|discriminate]. inversion H; subst.
        destruct Hx as [<- | Hx]; [lia | eapply (IH (next + 1) used o n Hr ltac:(lia) E); exact Hx].
      * destruct (number_loop ignore r next (m :: used)) as [[o n']|] eqn:E; [|discriminate]. inversion H; subst.
        destruct Hx as [<- | Hx]; [specialize (Hm m (or_introl eq_refl)); lia | eapply (IH next (m :: used) o n Hr Hn E); exact Hx].
Qed.

Lemma refresh_pos common g1 : forall acc n g2 n4, refresh common g1 (acc, n) = (g2, n4) ->
  (forall x, In x (acc ++ g1) -> 1 <= x) -> 1 <= n -> forall y, In y g2 -> 1 <= y.
Proof.
  unfold refresh. induction g1 as [|x r IH]; intros acc n g2 n4 H Hp Hn y Hy; cbn [fold_left fst snd] in H.
  - inversion H; subst. apply Hp. rewrite app_nil_r. exact Hy.
  - destruct (zmem x common).
    + eapply (IH (acc ++ [n]) (n + 1) g2 n4 H); [|lia | exact Hy].
      intros z Hz. rewrite <- app_assoc in Hz. apply in_app_or in Hz. destruct Hz as [Hz | [<- | Hz]]; [apply Hp; apply in_or_app; left; exact Hz | lia | apply Hp; apply in_or_app; right; right; exact Hz].
    + eapply (IH (acc ++ [x]) n g2 n4 H); [|exact Hn | exact Hy]. intros z Hz. apply Hp. rewrite <- app_assoc in Hz. exact Hz.
Qed.

(* postprocess_parsed_reaction(remap=True), atom maps >= 0 (what the reader produces): the numbers returned are exactly 1..N -
   every positive number up to a number in use is in use *)
Theorem squeeze_gap_free ignore rs ps gs mR' mP' mG' :
  (forall m, In m (List.concat rs ++ List.concat ps ++ List.concat gs) -> 0 <= m) ->
  pp_reaction true ignore rs ps gs = Ok (mR', mP', mG') ->
  let F := List.concat mR' ++ List.concat mP' ++ List.concat mG' in
  (forall v, In v F -> 1 <= v) /\ forall v k, In v F -> 1 <= k <= v -> In k F.
Proof.
  intros Hnn. unfold pp_reaction. destruct (negb _); [discriminate|].
  set (start := _ + 1).
  assert (Hs : forall m, (In m (List.concat rs) \/ In m (List.concat ps)) \/ In m (List.concat gs) -> m < start /\ 0 <= m).
  { intros m Hm. split; [|apply Hnn; repeat rewrite in_app_iff; tauto]. unfold start.
    pose proof (zmax_list_ge (List.concat rs) 0) as [_ A]. pose proof (zmax_list_ge (List.concat ps) 0) as [_ B].
    pose proof (zmax_list_ge (List.concat gs) 0) as [_ C].
    destruct Hm as [[Hm | Hm] | Hm]; [specialize (A m Hm) | specialize (B m Hm) | specialize (C m Hm)]; lia. }
  assert (S1 : 1 <= start).
  { unfold start. pose proof (zmax_list_ge (List.concat ps) 0) as [A _]. pose proof (zmax_list_ge (List.concat rs) 0) as [B _].
    pose proof (zmax_list_ge (List.concat gs) 0) as [C _]. lia. }
  destruct (number_loop ignore (List.concat rs) start []) as [[r1 n1]|e] eqn:E1; [|discriminate].
  destruct (number_loop_spec ignore _ start [] r1 n1 (fun m Hm => proj1 (Hs m (or_introl (or_introl Hm)))) (fun u Hu => match Hu with end) E1) as [R1 [_ [R3 _]]].
  pose proof (number_loop_pos ignore _ start [] r1 n1 (fun m Hm => proj2 (Hs m (or_introl (or_introl Hm)))) S1 E1) as RP.
  pose proof (number_loop_good ignore (List.concat rs) start []) as L1. rewrite E1 in L1. cbn in L1.
  destruct (number_loop ignore (List.concat ps) n1 []) as [[p1 n2]|e] eqn:E2; [|discriminate].
  destruct (number_loop_spec ignore _ n1 [] p1 n2 (fun m Hm => ltac:(destruct (Hs m (or_introl (or_intror Hm))); lia)) (fun u Hu => match Hu with end) E2) as [P1 [_ [P3 _]]].
  pose proof (number_loop_pos ignore _ n1 [] p1 n2 (fun m Hm => proj2 (Hs m (or_introl (or_intror Hm)))) ltac:(lia) E2) as PP.
  pose proof (number_loop_good ignore (List.concat ps) n1 []) as L2. rewrite E2 in L2. cbn in L2.
  destruct (number_loop ignore (List.concat gs) n2 []) as [[g1 n3]|e] eqn:E3; [|discriminate].
  destruct (number_loop_spec ignore _ n2 [] g1 n3 (fun m Hm => ltac:(destruct (Hs m (or_intror Hm)); lia)) (fun u Hu => match Hu with end) E3) as [G1 [G2 [G3 _]]].
  pose proof (number_loop_pos ignore _ n2 [] g1 n3 (fun m Hm => proj2 (Hs m (or_intror Hm))) ltac:(lia) E3) as GP.
  pose proof (number_loop_good ignore (List.concat gs) n2 []) as L3. rewrite E3 in L3. cbn in L3.
  assert (K : forall (g2 : list Z) (n4 : Z), List.length g2 = List.length g1 -> n3 <= n4 -> (forall x, In x g2 -> 1 <= x < n4) ->
     Ok (chunk (fold_left (fun acc j => map (fun x => if x <? j then x else x - 1) acc)
                  (rev (filter (fun x => negb (zmem x r1 || zmem x p1 || zmem x g2)) (zrange 1 n4))) r1) (map (@List.length Z) rs),
         chunk (fold_left (fun acc j => map (fun x => if x <? j then x else x - 1) acc)
                  (rev (filter (fun x => negb (zmem x r1 || zmem x p1 || zmem x g2)) (zrange 1 n4))) p1) (map (@List.length Z) ps),
         chunk (fold_left (fun acc j => map (fun x => if x <? j then x else x - 1) acc)
                  (rev (filter (fun x => negb (zmem x r1 || zmem x p1 || zmem x g2)) (zrange 1 n4))) g2) (map (@List.length Z) gs))
       = Ok (mR', mP', mG') ->
     let F := List.concat mR' ++ List.concat mP' ++ List.concat mG' in
     (forall v, In v F -> 1 <= v) /\ forall v k, In v F -> 1 <= k <= v -> In k F).
  { intros g2 n4 Hg Hn34 HG H. inversion H; subst. clear H.
    set (lose := rev (filter (fun x => negb (zmem x r1 || zmem x p1 || zmem x g2)) (zrange 1 n4))).
    assert (D : desc lose) by (apply desc_rev, asc_filter; unfold zrange; apply asc_zrange_from).
    assert (U : forall x, In x (r1 ++ p1 ++ g2) -> 1 <= x < n4).
    { intros x Hx. apply in_app_or in Hx. destruct Hx as [Hx | Hx]; [destruct (R3 x Hx); specialize (RP x Hx); lia|].
      apply in_app_or in Hx. destruct Hx as [Hx | Hx]; [destruct (P3 x Hx); specialize (PP x Hx); lia | apply HG; exact Hx]. }
    assert (NL : forall x, In x (r1 ++ p1 ++ g2) <-> (1 <= x < n4 /\ ~ In x lose)).
    { intros x. split.
      - intros Hx. split; [apply U; exact Hx|]. intros Hin. unfold lose in Hin. apply in_rev in Hin. apply filter_In in Hin. destruct Hin as [_ Hin].
        apply negb_true_iff in Hin. apply orb_false_iff in Hin. destruct Hin as [Hin H3]. apply orb_false_iff in Hin. destruct Hin as [H1 H2].
        apply in_app_or in Hx. destruct Hx as [Hx | Hx]; [apply zmem_In in Hx; congruence|].
        apply in_app_or in Hx. destruct Hx as [Hx | Hx]; apply zmem_In in Hx; congruence.
      - intros [Hr Hn]. destruct (zmem x r1 || zmem x p1 || zmem x g2) eqn:E.
        + apply orb_prop in E. destruct E as [E | E]; [apply orb_prop in E; destruct E as [E | E]|]; apply zmem_In in E; repeat rewrite in_app_iff; tauto.
        + exfalso. apply Hn. unfold lose. apply -> in_rev. apply filter_In. split; [apply zrange_In; lia | rewrite E; reflexivity]. }
    assert (J1 : forall j, In j lose -> 1 <= j).
    { intros j Hin. unfold lose in Hin. apply in_rev in Hin. apply filter_In in Hin. destruct Hin as [Hin _]. apply zrange_In in Hin. lia. }
    cbv zeta. rewrite !squeeze_map. rewrite !concat_chunk by (rewrite ?map_length; lia). rewrite <- !map_app.
    split.
    - intros v Hv. apply in_map_iff in Hv. destruct Hv as [x [<- Hx]]. apply NL in Hx. destruct Hx as [Hr Hn].
      destruct (sqz_bounds lose D J1 x Hn ltac:(lia)). lia.
    - intros v k Hv Hk. apply in_map_iff in Hv. destruct Hv as [x [<- Hx]]. apply NL in Hx. destruct Hx as [Hr Hn].
      rewrite (sqz_closed lose D x Hn) in Hk.
      assert (Cx : cnt lose (x + 1) = cnt lose x).
      { rewrite (cnt_succ lose x (desc_nodup lose D)). destruct (zmem x lose) eqn:E; [apply zmem_In in E; contradiction | lia]. }
      destruct (ranks_gap_free lose (desc_nodup lose D) J1 (Z.to_nat x) k) as [z [A [B C]]].
      { rewrite Z2Nat.id by lia. rewrite Cx. lia. }
      rewrite Z2Nat.id in A by lia.
      apply in_map_iff. exists z. split; [rewrite (sqz_closed lose D z B); exact C | apply NL; split; [lia | exact B]]. }
  destruct g1 as [|x0 g1'] eqn:Eg; [intros H; apply (K [] n3 eq_refl ltac:(lia) (fun x Hx => match Hx with end) H)|]. rewrite <- Eg in *. clear Eg x0 g1'.
  assert (GB : forall x, In x g1 -> 1 <= x < n3) by (intros x Hx; destruct (G3 x Hx); specialize (GP x Hx); lia).
  destruct (filter (fun x => zmem x r1 || zmem x p1) g1) as [|y cm] eqn:Ec; [intros H; apply (K g1 n3 eq_refl ltac:(lia) GB H)|].
  destruct (negb ignore); [discriminate|].
  fold (refresh (y :: cm) g1 ([], n3)).
  pose proof (refresh_length (y :: cm) g1 ([], n3)) as L. fold (refresh (y :: cm) g1 ([], n3)) in L.
  destruct (refresh (y :: cm) g1 ([], n3)) as [g2 n4] eqn:Ef. cbn [fst List.length] in L.
  destruct (refresh_spec (y :: cm) g1 [] n3 g2 n4 Ef G2 (fun x Hx => proj2 (GB x Hx))) as [F1 [F2 F3]].
  pose proof (refresh_pos (y :: cm) g1 [] n3 g2 n4 Ef (fun x Hx => proj1 (GB x Hx)) ltac:(lia)) as FP.
  intros H. apply (K g2 n4); [lia | exact F2 | | exact H].
  intros x Hx. split; [apply FP; exact Hx|]. destruct (F3 x Hx) as [[] | [[J _] | J]]; [destruct (GB x J); lia | lia].
Qed.

Example squeeze_gap_free_example :
  pp_reaction true true [[1; 0]; [7]] [[7; 1]] [[1; 0; 3]] = Ok ([[1; 4]; [3]], [[3; 1]], [[6; 5; 2]]).
Proof. vm_compute. reflexivity. Qed.
