(* C16 (extension 2): template application (to_delete = _get_deleted(...)) commutes with a renumbering of the structure *)
From Coq Require Import ZArith List Bool Lia.
From Model Require Import PyBase Graph Reactor ReactorStage.
From Proofs Require Import ReactorProofs ReactorEquiv.
Import ListNotations.
Open Scope Z_scope.

(* ---------- _patcher depends on to_delete only as a set ---------- *)
Lemma zmem_ext x a b : (forall y, In y a <-> In y b) -> zmem x a = zmem x b.
Proof.
  intros H. destruct (zmem x a) eqn:Ea, (zmem x b) eqn:Eb; try reflexivity.
  - apply zmem_In in Ea. apply H in Ea. apply zmem_In in Ea. congruence.
  - apply zmem_In in Eb. apply H in Eb. apply zmem_In in Eb. congruence.
Qed.

Lemma fold_left_ext {A S} (f h : S -> A -> S) : (forall s a, f s a = h s a) -> forall l s, fold_left f l s = fold_left h l s.
Proof. intros H. induction l as [|a l IH]; intros s; cbn; [reflexivity|]. rewrite H. apply IH. Qed.

Lemma fold_res_ext {A S} (f h : S -> A -> pyres S) : (forall s a, f s a = h s a) -> forall l s, fold_res f l s = fold_res h l s.
Proof. intros H. induction l as [|a l IH]; intros s; cbn; [reflexivity|]. rewrite H. destruct (h s a); [apply IH|reflexivity]. Qed.

Lemma patcher_del_ext g mapping tpl d1 d2 : (forall x, In x d1 <-> In x d2) -> patcher g mapping tpl d1 = patcher g mapping tpl d2.
Proof.
  intros H. unfold patcher. destruct (zmax_list (ids g)) as [mx|]; [|reflexivity].
  destruct (fold_res (patch_atom g) (t_atoms tpl) (mkP [] [] mapping mx)) as [s|]; [|reflexivity].
  destruct (fold_res (patch_bonds_of (p_map s)) (t_bonds tpl) (p_adj s)) as [adj2|]; [|reflexivity].
  rewrite (fold_left_ext (keep_atom (keys (p_atoms s)) d1) (keep_atom (keys (p_atoms s)) d2)).
  2:{ intros st a. unfold keep_atom. rewrite (zmem_ext (fst a) d1 d2 H). reflexivity. }
  destruct (fold_left (keep_atom (keys (p_atoms s)) d2) (m_atoms g) (p_atoms s, adj2)) as [atoms3 adj3].
  rewrite (fold_res_ext (keep_bonds_of (keys (p_atoms s)) d1) (keep_bonds_of (keys (p_atoms s)) d2)); [reflexivity|].
  intros adj nbs. unfold keep_bonds_of. rewrite (zmem_ext (fst nbs) d1 d2 H).
  destruct (zmem (fst nbs) d2); [reflexivity|]. apply fold_res_ext. intros adj' mb. rewrite (zmem_ext (fst mb) d1 d2 H). reflexivity.
Qed.

(* ---------- what _get_deleted returns are atoms of the structure ---------- *)
Lemma deleted_spec_keys g D K x : (forall a b, adj g a b -> adj g b a) -> (forall d, In d D -> In d (keys g)) ->
  deleted_spec g D K x -> In x (keys g).
Proof.
  intros Hsym HD [H|(_ & (d & n & _ & Hdn & Hnx) & _)]; [apply HD; exact H|].
  assert (Hn : In n (keys g)) by (eapply adj_key; apply Hsym; exact Hdn).
  clear Hdn. induction Hnx as [y _|y z w _ IH Ha _]; [exact Hn|]. eapply adj_key. apply Hsym. exact Ha.
Qed.

Lemma graph_of_rename_mol s g : graph_of (rename_mol s g) = rename_graph s (graph_of g).
Proof.
  unfold graph_of, rename_mol, rename_graph, ra, rk, rkv. cbn [m_adj]. rewrite !map_map. apply map_ext. intros [k l]. cbn [fst snd].
  f_equal. unfold keys. rewrite !map_map. reflexivity.
Qed.

Lemma keys_graph_of g : keys (graph_of g) = keys (m_adj g).
Proof. unfold graph_of, keys. rewrite map_map. reflexivity. Qed.

(* the whole call: for a renumbering s (injective, positive on the atoms of the structure) the product of the renumbered
   structure under the renumbered match is the renumbered product, new atoms mx + k -> mx' + k *)
Theorem template_application_equivariant : forall (s : Z -> Z) g mapping to_del tpl new mp' mx mx',
  (forall a b, s a = s b -> a = b) -> (forall x, In x (ids g) -> 0 < s x) ->
  wf_mol g = true -> (forall x, In x (ids g) -> 0 < x) ->
  zmax_list (ids g) = Some mx -> zmax_list (map s (ids g)) = Some mx' ->
  (forall k v, In (k, v) mapping -> In v (ids g)) ->
  (forall p, In p to_del -> exists v, zget mapping p = Some v) ->
  patcher_with get_deleted g mapping to_del tpl = Ok (new, mp') ->
  patcher_with get_deleted (rename_mol s g) (rename_match s mapping) to_del tpl =
    Ok (rename_mol (extend_renumbering s mx mx') new, rename_match (extend_renumbering s mx mx') mp').
Proof.
  intros s g mapping to_del tpl new mp' mx mx' Hinj Hspos Hwf Hpos Hmx Hmx' Hvals Htd Hrun.
  destruct (wf_mol_facts g Hwf) as (_ & Hkeys & _).
  pose proof (wf_mol_sym_graph g Hwf) as Hsym.
  assert (Hm : forall p, In p to_del -> exists v, zget mapping p = Some v /\ In v (keys (graph_of g))).
  { intros p Hp. destruct (Htd p Hp) as [v Ev]. exists v. split; [exact Ev|]. rewrite keys_graph_of, Hkeys.
    apply (Hvals p v). apply zget_Some_In. exact Ev. }
  unfold patcher_with in *. rewrite graph_of_rename_mol.
  destruct (get_deleted (graph_of g) mapping to_del) as [del|] eqn:Ed; [|discriminate].
  destruct (get_deleted_spec (graph_of g) mapping to_del Hsym Hm) as (r & Er & Hspec). rewrite Ed in Er. inversion Er; subst r.
  destruct (get_deleted_spec (rename_graph s (graph_of g)) (rename_match s mapping) to_del (sym_rename s Hinj (graph_of g) Hsym)) as (del2 & Ed2 & _).
  { intros p Hp. destruct (Hm p Hp) as (v & Ev & Hv). exists (s v). split; [rewrite zget_rename_match, Ev; reflexivity|].
    rewrite keys_rename_graph. apply in_map. exact Hv. }
  rewrite Ed2.
  pose proof (get_deleted_equivariant s Hinj (graph_of g) mapping to_del del del2 Hsym Hm Ed Ed2) as Heq.
  rewrite (patcher_del_ext _ _ _ del2 (map s del)).
  2:{ intros x. rewrite Heq, in_map_iff. split; intros (y & A & B); exists y; auto. }
  apply patcher_equivariant; try assumption.
  - intros a b _ _. apply Hinj.
  - intros x Hx. rewrite <- Hkeys, <- keys_graph_of.
    apply (deleted_spec_keys (graph_of g) (image mapping to_del) (kept mapping to_del)).
    + apply sym_graph_sym. exact Hsym.
    + intros d Hd. unfold image in Hd. destruct (map_image mapping to_del) as [vs|] eqn:Evs; [|destruct Hd].
      apply nodup_In in Hd. destruct (map_image_In _ _ _ _ Evs Hd) as (p & Hp & Ep).
      destruct (Hm p Hp) as (v & Ev & Hv). congruence.
    + apply Hspec. exact Hx.
Qed.

(* non-vacuity: ethyl acetate, x -> 10 - x, the ethyl group goes as in C16_patcher_example *)
Example template_application_equivariant_example :
  let s := fun x => 10 - x in
  (forall a b, s a = s b -> a = b) /\ (forall x, In x (ids ex_mol) -> 0 < s x) /\
  (forall p, In p [4] -> exists v, zget ex_mapping p = Some v) /\
  exists new mp', patcher_with get_deleted ex_mol ex_mapping [4] ex_tpl = Ok (new, mp') /\
    patcher_with get_deleted (rename_mol s ex_mol) (rename_match s ex_mapping) [4] ex_tpl =
      Ok (rename_mol (extend_renumbering s 6 9) new, rename_match (extend_renumbering s 6 9) mp') /\
    ids (rename_mol (extend_renumbering s 6 9) new) = [8; 7; 6; 10; 9].
Proof.
  cbn zeta. split; [intros a b E; lia|]. split.
  { intros x Hx. vm_compute in Hx. repeat (destruct Hx as [<-|Hx]; [reflexivity|]). destruct Hx. }
  split; [intros p [<-|[]]; eexists; vm_compute; reflexivity|].
  eexists _, _. split; [vm_compute; reflexivity|]. split; vm_compute; reflexivity.
Qed.
