(* C17 round 3 (3): _chains does not depend on the order in which the initial deque is filled (for min_radius = 1 it is filled
   from a set): from ANY permutation of the single-atom chains the loop terminates with a rearrangement of the same sequence of
   additions, hence the same set. *)
From Coq Require Import ZArith List Bool Lia Permutation.
From Model Require Import PyBase Graph PyHash Fingerprint ChainsTrace.
From Proofs Require Import FingerprintProofs.
Import ListNotations.
Open Scope Z_scope.

Lemma pushes_iter_perm g hi n : forall q q', Permutation q q' -> Permutation (pushes_iter g hi n q) (pushes_iter g hi n q').
Proof. induction n as [|n IH]; intros q q' H; cbn [pushes_iter]; [exact H|]. apply IH. apply Permutation_flat_map. exact H. Qed.

Lemma bfs_rounds_perm g lo hi n : forall q q', Permutation q q' -> Permutation (bfs_rounds g lo hi n q) (bfs_rounds g lo hi n q').
Proof.
  induction n as [|n IH]; intros q q' H; cbn [bfs_rounds]; [constructor|].
  apply Permutation_app; [apply Permutation_flat_map; exact H | apply IH; apply Permutation_flat_map; exact H].
Qed.

Theorem chains_loop_initial_order g lo hi q0 : wf_mol g = true -> Permutation q0 (singles g) ->
  exists r, chains_seq_loop_from (fuel_needed g hi (length (ids g)) q0) g lo hi q0 = Some r /\
            Permutation r (chains_seq g lo hi) /\ (forall p, In p r <-> In p (chains g lo hi)).
Proof.
  intros Hwf HP.
  assert (Hq : pushes_iter g hi (length (ids g)) q0 = []).
  { pose proof (pushes_iter_perm g hi (length (ids g)) q0 (singles g) HP) as H.
    rewrite (queue_exhausted g hi (wf_mol_sym_closed g Hwf)) in H. apply Permutation_nil. apply Permutation_sym. exact H. }
  assert (Hb : Permutation (bfs_rounds g lo hi (length (ids g)) q0) (bfs_rounds g lo hi (length (ids g)) (singles g)))
    by (apply bfs_rounds_perm; exact HP).
  assert (Fin : forall r, Permutation r (chains_seq g lo hi) -> forall p, In p r <-> In p (chains g lo hi)).
  { intros r Hr p. unfold chains. rewrite dedup_paths_In. split; apply Permutation_in; [|apply Permutation_sym]; exact Hr. }
  unfold chains_seq_loop_from. destruct (lo =? 1) eqn:E1; [destruct (hi =? 1) eqn:E2|].
  - exists q0. assert (P : Permutation q0 (chains_seq g lo hi)) by (unfold chains_seq; rewrite E1, E2; exact HP).
    split; [reflexivity|]. split; [exact P | apply Fin; exact P].
  - rewrite (chains_loop_rounds g lo hi _ q0 q0 Hq). eexists. split; [reflexivity|].
    assert (P : Permutation (q0 ++ bfs_rounds g lo hi (length (ids g)) q0) (chains_seq g lo hi))
      by (unfold chains_seq; rewrite E1, E2; apply Permutation_app; assumption).
    split; [exact P | apply Fin; exact P].
  - rewrite (chains_loop_rounds g lo hi _ q0 [] Hq). eexists. split; [reflexivity|]. cbn [app].
    assert (P : Permutation (bfs_rounds g lo hi (length (ids g)) q0) (chains_seq g lo hi))
      by (unfold chains_seq; rewrite E1; exact Hb).
    split; [exact P | apply Fin; exact P].
Qed.

(* non-vacuity: 2-propanol, the initial deque in another order *)
Lemma example_initial_order :
  Permutation [[4]; [1]; [3]; [2]] (singles ex_mol) /\
  chains_pops 100 ex_mol 3 [[4]; [1]; [3]; [2]] =
    Some [[4]; [1]; [3]; [2]; [4; 2]; [1; 2]; [3; 2]; [2; 1]; [2; 3]; [2; 4]] /\
  set_paths (match chains_seq_loop_from 100 ex_mol 1 3 [[4]; [1]; [3]; [2]] with Some r => r | None => [] end) =
  set_paths (chains ex_mol 1 3).
Proof.
  split.
  - unfold singles, ex_mol, ids, keys. cbn [m_atoms map fst].
    apply (perm_trans (l' := [[1]; [4]; [3]; [2]])); [apply perm_swap|]. apply perm_skip.
    apply (perm_trans (l' := [[3]; [4]; [2]])); [apply perm_swap|].
    apply (perm_trans (l' := [[3]; [2]; [4]])); [apply perm_skip; apply perm_swap|]. 
    apply (perm_trans (l' := [[2]; [3]; [4]])); [apply perm_swap | apply Permutation_refl].
  - split; vm_compute; reflexivity.
Qed.
