(* The numbering code of _mapping.py as TRANSLATED from /repo's source on every run (tools/gen_c03map.py -> Gen.MappingBody) is the
   hand-written model of Model.Reader:
     numbering_loop_translated      the translated body of the numbering loop of postprocess_parsed_molecule, folded over the maps of
                                    the atoms, computes number_loop (same numbers, same counter, same exception) from every state;
     numbering_rxn_loop_translated  the same for the loop `for m in tmp:` of postprocess_parsed_reaction (one role);
     pp_molecule_translated         the whole translated postprocess_parsed_molecule = pp_molecule for every list of maps >= 0
                                    (maps are written as digit strings; for a negative map Python's max() and the model's
                                    max-with-0 would differ - such a map cannot be written).
   mapping_numbers / squeeze_gap_free etc. are theorems about number_loop / pp_molecule, hence about the translation. *)
From Coq Require Import ZArith List Bool Lia.
From Model Require Import PyBase Tokenize Parser Reader MappingPrims.
From Gen Require Import MappingBody.
Import ListNotations.
Open Scope Z_scope.

Definition step_spec (f : nstate -> Z -> pyres nstate) (ignore : bool) : Prop :=
  forall st m, f st m =
    if m =? 0 then Ok (n_append_next st)
    else if zmem m (n_used st) then (if negb ignore then Err ValueError else Ok (n_append_next st))
    else Ok (n_use (n_append st m) m).

Lemma mol_step_spec ignore : step_spec (gen_mol_number_step ignore) ignore.
Proof. intros st m. unfold gen_mol_number_step. destruct (m =? 0), (zmem m (n_used st)), ignore; reflexivity. Qed.

Lemma rxn_step_spec ignore : step_spec (gen_rxn_number_step ignore) ignore.
Proof. intros st m. unfold gen_rxn_number_step. destruct (m =? 0), (zmem m (n_used st)), ignore; reflexivity. Qed.

Definition loop_agrees (r : pyres nstate) (st : nstate) (h : pyres (list Z * Z)) : Prop :=
  match r, h with
  | Ok st', Ok (o, n) => n_out st' = n_out st ++ o /\ n_next st' = n
  | Err e, Err e' => e = e'
  | _, _ => False
  end.

Lemma nfold_number_loop f ignore : step_spec f ignore -> forall maps st,
  loop_agrees (nfold f st maps) st (number_loop ignore maps (n_next st) (n_used st)).
Proof.
  intros Hf. induction maps as [|m r IH]; intros st; cbn [nfold number_loop].
  - cbn. split; [rewrite app_nil_r; reflexivity | reflexivity].
  - rewrite (Hf st m). destruct (m =? 0).
    + specialize (IH (n_append_next st)). cbn [n_append_next n_next n_used n_out] in IH. unfold loop_agrees in *.
      destruct (nfold f (n_append_next st) r) as [st'|e], (number_loop ignore r (n_next st + 1) (n_used st)) as [[o n]|e']; cbn in *; try exact IH.
      destruct IH as [A B]. split; [rewrite A; rewrite <- app_assoc; reflexivity | exact B].
    + destruct (zmem m (n_used st)).
      * destruct ignore; cbn [negb]; [|reflexivity].
        specialize (IH (n_append_next st)). cbn [n_append_next n_next n_used n_out] in IH. unfold loop_agrees in *.
        destruct (nfold f (n_append_next st) r) as [st'|e], (number_loop true r (n_next st + 1) (n_used st)) as [[o n]|e']; cbn in *; try exact IH.
        destruct IH as [A B]. split; [rewrite A; rewrite <- app_assoc; reflexivity | exact B].
      * specialize (IH (n_use (n_append st m) m)). cbn [n_use n_append n_next n_used n_out] in IH. unfold loop_agrees in *.
        destruct (nfold f (n_use (n_append st m) m) r) as [st'|e], (number_loop ignore r (n_next st) (m :: n_used st)) as [[o n]|e']; cbn in *; try exact IH.
        destruct IH as [A B]. split; [rewrite A; rewrite <- app_assoc; reflexivity | exact B].
Qed.

Theorem numbering_loop_translated : forall ignore maps st,
  loop_agrees (nfold (gen_mol_number_step ignore) st maps) st (number_loop ignore maps (n_next st) (n_used st)).
Proof. intros. apply nfold_number_loop. apply mol_step_spec. Qed.

Theorem numbering_rxn_loop_translated : forall ignore maps st,
  loop_agrees (nfold (gen_rxn_number_step ignore) st maps) st (number_loop ignore maps (n_next st) (n_used st)).
Proof. intros. apply nfold_number_loop. apply rxn_step_spec. Qed.

Lemma zmax_list_fold l : forall a, zmax_list l a = fold_left Z.max l a.
Proof. induction l as [|x r IH]; intros a; [reflexivity|]. cbn. apply IH. Qed.

Theorem pp_molecule_translated : forall remap ignore maps, Forall (fun m => 0 <= m) maps ->
  gen_pp_molecule remap ignore maps = pp_molecule remap ignore maps.
Proof.
  intros remap ignore maps Hpos. unfold gen_pp_molecule, pp_molecule. destruct remap; [reflexivity|].
  destruct maps as [|x r]; [reflexivity|].
  unfold nbind, py_max.
  assert (Hmx : fold_left Z.max r x = zmax_list (x :: r) 0).
  { inversion Hpos; subst. change (zmax_list (x :: r) 0) with (zmax_list r (Z.max 0 x)). rewrite (zmax_list_fold r (Z.max 0 x)).
    rewrite Z.max_r by assumption. reflexivity. }
  rewrite Hmx.
  pose proof (numbering_loop_translated ignore (x :: r) (mkN [] [] (zmax_list (x :: r) 0 + 1))) as H.
  cbn [n_next n_used n_out] in H. unfold loop_agrees in H.
  destruct (nfold (gen_mol_number_step ignore) _ (x :: r)) as [st'|e],
           (number_loop ignore (x :: r) (zmax_list (x :: r) 0 + 1) []) as [[o n]|e']; try contradiction.
  - destruct H as [A _]. cbn in A. rewrite A. reflexivity.
  - subst. reflexivity.
Qed.

Lemma py_max_default_nonneg l : Forall (fun m => 0 <= m) l -> py_max_default l 0 = zmax_list l 0.
Proof.
  intros H. destruct l as [|x r]; [reflexivity|]. inversion H; subst.
  change (zmax_list (x :: r) 0) with (zmax_list r (Z.max 0 x)). rewrite (zmax_list_fold r (Z.max 0 x)).
  rewrite Z.max_r by assumption. reflexivity.
Qed.

(* the first free number of a reaction as translated = the start value pp_reaction uses (maps >= 0) *)
Theorem rxn_first_number_translated : forall r0 p0 g0,
  Forall (fun m => 0 <= m) r0 -> Forall (fun m => 0 <= m) p0 -> Forall (fun m => 0 <= m) g0 ->
  gen_rxn_first_number r0 p0 g0 = Z.max (Z.max (zmax_list p0 0) (zmax_list r0 0)) (zmax_list g0 0) + 1.
Proof.
  intros r0 p0 g0 Hr Hp Hg. unfold gen_rxn_first_number.
  rewrite (py_max_default_nonneg r0 Hr), (py_max_default_nonneg p0 Hp), (py_max_default_nonneg g0 Hg). reflexivity.
Qed.

Example pp_molecule_translated_examples :
  gen_pp_molecule false true [0; 5; 0; 5; 2] = Ok [6; 5; 7; 8; 2] /\
  gen_pp_molecule false false [0; 5; 0; 5; 2] = Err ValueError /\
  gen_pp_molecule true true [0; 5; 0; 5; 2] = Ok [1; 2; 3; 4; 5] /\
  gen_pp_molecule false true [] = Err ValueError /\
  gen_pp_molecule false true [0; 5; 0; 5; 2] = pp_molecule false true [0; 5; 0; 5; 2] /\
  gen_rxn_first_number [1; 0] [2; 1] [7] = 8 /\ gen_rxn_first_number [] [] [] = 1.
Proof. repeat split; vm_compute; reflexivity. Qed.
