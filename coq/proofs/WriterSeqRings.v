(* C02, read_write_graph, ring-closure clause at the level of the reader's parser (extension round 3).
   The parser's digit table (`cycles`) against the writer's ring closures, for ANY written token list (linear simulation over the
   reader tokens; ring digits directly follow their atom token, so the parser's `last_num` is the position of that atom).
   The writer's closures are given by cycle identifiers: cyc n = the cycles written at atom n, in written order; num c = the number
   written for cycle c (at both ends); rb n c = the bond token written in front of it at atom n.
   run_atoms replays the closures by IDENTIFIER (first occurrence opens, second closes); disc_atoms is the discipline of the
   numbers: a number given to an opening cycle is not the number of a cycle that is open at that moment.  Under the discipline the
   parser's table (keyed by NUMBER) follows the identifier table, and every closing of a cycle c opened at position a and closed at
   position p leaves the bond (p, a, value) in the parsed record. *)
From Coq Require Import ZArith List Bool Lia Ascii.
From Model Require Import PyBase Graph Writer Tokenize Parser SmilesAst.
From Proofs Require Import WriterWfFlatten WriterWfTree WriterSeqFlatten WriterSeqTree DenoteProofs ParserProofs TokenizeProofs WriterSeqBonds.
Import ListNotations.
Open Scope Z_scope.

Lemma nodup_snoc {A} (l : list A) x : NoDup l -> ~ In x l -> NoDup (l ++ [x]).
Proof.
  induction l as [|y l IH]; intros ND Hx; cbn [app]; [constructor; [intros []|constructor]|].
  inversion ND as [|? ? Hy ND']; subst. constructor.
  - intros Hin. apply in_app_or in Hin. destruct Hin as [Hin | [-> | []]]; [exact (Hy Hin) | apply Hx; left; reflexivity].
  - apply IH; [exact ND' | intros Hin; apply Hx; right; exact Hin].
Qed.

Section Table.
  Variable num : Z -> Z.

  Definition ent_ok (e : Z * cyc) (oc : Z * Z) : Prop := fst e = num (fst oc) /\ fst (fst (snd e)) = snd oc.
  Definition Cyc (cy : list (Z * cyc)) (op : list (Z * Z)) : Prop := Forall2 ent_ok cy op.
  Definition nums (op : list (Z * Z)) : list Z := map (fun oc : Z * Z => num (fst oc)) op.

  Lemma zget_nums op c a : zget op c = Some a -> In (num c) (nums op).
  Proof.
    induction op as [|[c' a'] r IH]; cbn [zget nums map fst]; [discriminate|].
    destruct (c =? c') eqn:E; [apply Z.eqb_eq in E; subst; intros _; left; reflexivity | intros H; right; apply IH, H].
  Qed.

  Lemma cyc_get_none cy op k : Cyc cy op -> ~ In k (nums op) -> zget cy k = None.
  Proof.
    intros F; induction F as [|e oc cy op He F IH]; intros Hk; [reflexivity|]. destruct e as [k' v]. destruct oc as [c' a']. destruct He as [E1 E2].
    cbn [fst snd] in *. cbn [zget]. destruct (k =? k') eqn:E.
    - exfalso. apply Hk. apply Z.eqb_eq in E. left. cbn [fst]. congruence.
    - apply IH. intros Hin. apply Hk. right. exact Hin.
  Qed.

  Lemma cyc_get_some cy op c a : Cyc cy op -> NoDup (nums op) -> zget op c = Some a ->
    exists ob ind, zget cy (num c) = Some (a, ob, ind).
  Proof.
    intros F; induction F as [|e oc cy op He F IH]; intros ND H; [discriminate|]. destruct e as [k' [[a0 ob0] ind0]]. destruct oc as [c' a']. destruct He as [E1 E2].
    cbn [fst snd] in *. cbn [zget] in *. cbn [nums map fst] in ND. inversion ND as [|? ? Hn ND']; subst.
    destruct (c =? c') eqn:E.
    - apply Z.eqb_eq in E. subst c'. inversion H; subst. rewrite Z.eqb_refl. exists ob0, ind0. reflexivity.
    - assert (Hne : (num c =? num c') = false).
      { apply Z.eqb_neq. intros Heq. apply Hn. rewrite <- Heq. apply (zget_nums _ _ _ H). }
      rewrite Hne. apply IH; assumption.
  Qed.

  Lemma cyc_del cy op c a : Cyc cy op -> NoDup (nums op) -> zget op c = Some a -> Cyc (zdel cy (num c)) (zdel op c).
  Proof.
    intros F; induction F as [|e oc cy op He F IH]; intros ND H; [discriminate|]. destruct e as [k' v]. destruct oc as [c' a']. destruct He as [E1 E2].
    cbn [fst snd] in *. cbn [zget] in H. cbn [nums map fst] in ND. inversion ND as [|? ? Hn ND']; subst. cbn [zdel].
    destruct (c =? c') eqn:E.
    - apply Z.eqb_eq in E. subst c'. rewrite Z.eqb_refl. exact F.
    - assert (Hne : (num c =? num c') = false).
      { apply Z.eqb_neq. intros Heq. apply Hn. rewrite <- Heq. apply (zget_nums _ _ _ H). }
      rewrite Hne. constructor; [split; cbn [fst snd]; congruence | apply IH; assumption].
  Qed.

  Lemma nums_del_in op c x : In x (nums (zdel op c)) -> In x (nums op).
  Proof.
    induction op as [|[c' a'] r IH]; cbn [zdel nums map fst]; [intros []|].
    destruct (c =? c'); [intros H; right; exact H | cbn [nums map fst]; intros [H | H]; [left; exact H | right; apply IH, H]].
  Qed.
  Lemma nums_del_nodup op c : NoDup (nums op) -> NoDup (nums (zdel op c)).
  Proof.
    induction op as [|[c' a'] r IH]; cbn [zdel nums map fst]; intros ND; [constructor|].
    inversion ND as [|? ? Hn ND']; subst. destruct (c =? c'); [exact ND'|]. cbn [nums map fst]. constructor; [|apply IH, ND'].
    intros Hin. apply Hn. apply (nums_del_in _ _ _ Hin).
  Qed.

  Lemma cyc_snoc cy op c pos ob ind : Cyc cy op -> Cyc (cy ++ [(num c, (pos, ob, ind))]) (op ++ [(c, pos)]).
  Proof. intros F. apply Forall2_app; [exact F|]. constructor; [split; reflexivity | constructor]. Qed.
  Lemma nums_snoc op c pos : nums (op ++ [(c, pos)]) = nums op ++ [num c].
  Proof. unfold nums. rewrite map_app. reflexivity. Qed.

  (* ---- the parser's steps on the tokens of a ring closure *)
  Lemma step_bond_tok strong s ty v s' : zmem ty [1; 4; 9; 10; 12] = true -> step strong s (ty, v) = Ok s' ->
    s' = set_prev s (Some (ty, v)) /\ ps_prev s = None /\ ps_atoms s <> [].
  Proof.
    intros Hk H. unfold step in H.
    assert (E2 : (ty =? 2) = false) by (destruct (ty =? 2) eqn:E; [exfalso; zcontra | reflexivity]).
    assert (E3 : (ty =? 3) = false) by (destruct (ty =? 3) eqn:E; [exfalso; zcontra | reflexivity]).
    rewrite E2, E3, Hk in H. destruct (ps_prev s); [discriminate|]. destruct (ps_atoms s); [discriminate|].
    inversion H. repeat split. discriminate.
  Qed.

  Lemma step_digit strong s k s2 : step strong s (6, PInt k) = Ok s2 ->
    ps_last s2 = ps_last s /\ ps_n s2 = ps_n s /\ ps_prev s2 = None /\ ps_atoms s2 = ps_atoms s /\
    match zget (ps_cycles s) k with
    | None => ps_bonds s2 = ps_bonds s /\ exists ind, ps_cycles s2 = ps_cycles s ++ [(k, (ps_last s, ps_prev s, ind))]
    | Some (a, ob, ind) => ps_cycles s2 = zdel (ps_cycles s) k /\ exists b, ps_bonds s2 = ps_bonds s ++ [(ps_last s, a, b)]
    end.
  Proof.
    intros H. unfold step in H.
    change (6 =? 2) with false in H. change (6 =? 3) with false in H. change (zmem 6 [1; 4; 9; 10; 12]) with false in H.
    change (6 =? 6) with true in H. cbv beta iota in H.
    destruct (match ps_prev s with Some (pt, _) => pt =? 4 | None => false end); [discriminate|].
    destruct (zget (ps_cycles s) k) as [[[a ob] ind]|].
    - destruct (close_bond strong s a ob) as [[[[b sb] lg] x]|]; [|discriminate].
      destruct (od_set (ps_order s) a ind (Some (ps_last s))); [|discriminate]. inversion H. cbn.
      repeat split. exists b. reflexivity.
    - inversion H. cbn. repeat split. eexists. reflexivity.
  Qed.
End Table.

(* ------------------------------------------------------------------------------------------------ the replay by identifier *)
Section Run.
  Variable aty : Z -> Z.
  Variable atk : Z -> atomtok.
  Variable rings : Z -> list (option token * Z).
  Variable bnd : Z -> Z -> option token.
  Hypothesis Haty : forall n, zmem (aty n) [0; 8] = true.
  Hypothesis Hbnd : forall p c, bond_ok (bnd p c) = true.
  Variable cyc : Z -> list Z.                 (* the cycles written at an atom, in written order *)
  Variable num : Z -> Z.                      (* the number written for a cycle *)
  Variable rb : Z -> Z -> option token.       (* the bond token written in front of the number of cycle c at atom n *)
  Hypothesis Hcyc : forall n, rings n = map (fun c => (rb n c, num c)) (cyc n).
  Hypothesis Hrb : forall n c, bond_ok (rb n c) = true.

  (* open cycles: (identifier, position of the atom that opened it); closings: (identifier, opener position, closer position) *)
  Fixpoint op_cs (pos : Z) (cs : list Z) (op : list (Z * Z)) : list (Z * Z) :=
    match cs with
    | [] => op
    | c :: r => match zget op c with Some _ => op_cs pos r (zdel op c) | None => op_cs pos r (op ++ [(c, pos)]) end
    end.
  Fixpoint cl_cs (pos : Z) (cs : list Z) (op : list (Z * Z)) : list (Z * Z * Z) :=
    match cs with
    | [] => []
    | c :: r => match zget op c with Some a => (c, a, pos) :: cl_cs pos r (zdel op c) | None => cl_cs pos r (op ++ [(c, pos)]) end
    end.
  (* the discipline of the numbers: the number of an opening cycle is not the number of an open cycle *)
  Fixpoint disc_cs (pos : Z) (cs : list Z) (op : list (Z * Z)) : Prop :=
    match cs with
    | [] => True
    | c :: r => match zget op c with
                | Some _ => disc_cs pos r (zdel op c)
                | None => ~ In (num c) (nums num op) /\ disc_cs pos r (op ++ [(c, pos)])
                end
    end.
  Fixpoint op_atoms (pos : Z) (ats : list Z) (op : list (Z * Z)) : list (Z * Z) :=
    match ats with [] => op | n :: r => op_atoms (pos + 1) r (op_cs pos (cyc n) op) end.
  Fixpoint cl_atoms (pos : Z) (ats : list Z) (op : list (Z * Z)) : list (Z * Z * Z) :=
    match ats with [] => [] | n :: r => cl_cs pos (cyc n) op ++ cl_atoms (pos + 1) r (op_cs pos (cyc n) op) end.
  Fixpoint disc_atoms (pos : Z) (ats : list Z) (op : list (Z * Z)) : Prop :=
    match ats with [] => True | n :: r => disc_cs pos (cyc n) op /\ disc_atoms (pos + 1) r (op_cs pos (cyc n) op) end.

  Notation Cyc := (Cyc num).
  Notation nums := (nums num).

  Lemma set_prev_fields s p : ps_last (set_prev s p) = ps_last s /\ ps_n (set_prev s p) = ps_n s /\ ps_atoms (set_prev s p) = ps_atoms s /\
    ps_cycles (set_prev s p) = ps_cycles s /\ ps_bonds (set_prev s p) = ps_bonds s /\ ps_prev (set_prev s p) = p.
  Proof. destruct s. repeat split. Qed.

  (* an optional bond token and a ring number *)
  Lemma bond_then_digit strong s b k s1 : bond_ok b = true -> ps_prev s = None ->
    loop strong s (opt_bond b ++ [(6, PInt k)]) = Ok s1 ->
    ps_last s1 = ps_last s /\ ps_n s1 = ps_n s /\ ps_prev s1 = None /\ ps_atoms s1 = ps_atoms s /\
    match zget (ps_cycles s) k with
    | None => ps_bonds s1 = ps_bonds s /\ exists ob ind, ps_cycles s1 = ps_cycles s ++ [(k, (ps_last s, ob, ind))]
    | Some (a, ob, ind) => ps_cycles s1 = zdel (ps_cycles s) k /\ exists v, ps_bonds s1 = ps_bonds s ++ [(ps_last s, a, v)]
    end.
  Proof.
    intros Hb Hp H. destruct b as [[ty v]|]; cbn [opt_bond app loop] in H.
    - destruct (step strong s (ty, v)) as [s0|] eqn:E0; [|discriminate].
      destruct (step_bond_tok strong s ty v s0 Hb E0) as [-> _].
      destruct (step strong (set_prev s (Some (ty, v))) (6, PInt k)) as [s1'|] eqn:E1; [|discriminate]. inversion H; subst s1'.
      destruct (step_digit strong _ k s1 E1) as [D1 [D2 [D3 [D4 D5]]]].
      destruct (set_prev_fields s (Some (ty, v))) as [F1 [F2 [F3 [F4 [F5 F6]]]]].
      rewrite F1 in *. rewrite F2 in D2. rewrite F3 in D4. rewrite F4, F5 in D5.
      repeat split; try assumption.
      destruct (zget (ps_cycles s) k) as [[[a ob] ind]|]; [exact D5|].
      destruct D5 as [D5 [ind D6]]. split; [exact D5|]. eexists. exists ind. exact D6.
    - destruct (step strong s (6, PInt k)) as [s1'|] eqn:E1; [|discriminate]. inversion H; subst s1'.
      destruct (step_digit strong _ k s1 E1) as [D1 [D2 [D3 [D4 D5]]]].
      repeat split; try assumption.
      destruct (zget (ps_cycles s) k) as [[[a ob] ind]|]; [exact D5|].
      destruct D5 as [D5 [ind D6]]. split; [exact D5|]. eexists. exists ind. exact D6.
  Qed.

  Lemma ring_tokens_cons b k rs : ring_tokens ((b, k) :: rs) = (opt_bond b ++ [(6, PInt k)]) ++ ring_tokens rs.
  Proof. reflexivity. Qed.

  (* the ring closures of one atom *)
  Lemma rings_run strong n pos : forall cs s op s2,
    ps_last s = pos -> ps_prev s = None -> Cyc (ps_cycles s) op -> NoDup (nums op) -> disc_cs pos cs op ->
    loop strong s (ring_tokens (map (fun c => (rb n c, num c)) cs)) = Ok s2 ->
    ps_last s2 = pos /\ ps_prev s2 = None /\ ps_n s2 = ps_n s /\ ps_atoms s2 = ps_atoms s /\ (exists e, ps_bonds s2 = ps_bonds s ++ e) /\
    Cyc (ps_cycles s2) (op_cs pos cs op) /\ NoDup (nums (op_cs pos cs op)) /\
    forall c a p, In (c, a, p) (cl_cs pos cs op) -> exists v, In (p, a, v) (ps_bonds s2).
  Proof.
    induction cs as [|c r IH]; intros s op s2 HL HP HC HN HD H.
    - cbn in H. inversion H; subst s2. cbn [op_cs cl_cs]. repeat split; try assumption.
      + exists []. rewrite app_nil_r. reflexivity.
      + intros c a p [].
    - cbn [map] in H. rewrite ring_tokens_cons, loop_app in H.
      destruct (loop strong s (opt_bond (rb n c) ++ [(6, PInt (num c))])) as [s1|] eqn:E1; [|discriminate].
      destruct (bond_then_digit strong s _ _ s1 (Hrb n c) HP E1) as [D1 [D2 [D3 [D4 D5]]]].
      cbn [op_cs cl_cs disc_cs] in *. destruct (zget op c) as [a|] eqn:Eo.
      + destruct (cyc_get_some num _ _ _ _ HC HN Eo) as [ob [ind Eg]]. rewrite Eg in D5. destruct D5 as [D5 [v D6]].
        assert (HC1 : Cyc (ps_cycles s1) (zdel op c)) by (rewrite D5; apply (cyc_del num _ _ _ a HC HN Eo)).
        destruct (IH s1 (zdel op c) s2 (eq_trans D1 HL) D3 HC1 (nums_del_nodup num _ _ HN) HD H) as [R1 [R2 [R3 [R4 [[e R5] [R6 [R7 R8]]]]]]].
        repeat split; try assumption; try congruence.
        * exists ([(ps_last s, a, v)] ++ e). rewrite R5, D6, <- app_assoc. reflexivity.
        * intros c0 a0 p0 [Heq | Hin]; [|apply (R8 _ _ _ Hin)].
          inversion Heq; subst c0 a0 p0. exists v. rewrite R5, D6, HL. apply in_or_app. left. apply in_or_app. right. left. reflexivity.
      + destruct HD as [Hfresh HD].
        rewrite (cyc_get_none num _ _ _ HC Hfresh) in D5. destruct D5 as [D5 [ob [ind D6]]].
        assert (HC1 : Cyc (ps_cycles s1) (op ++ [(c, pos)])) by (rewrite D6, HL; apply cyc_snoc, HC).
        assert (HN1 : NoDup (nums (op ++ [(c, pos)]))) by (rewrite nums_snoc; apply nodup_snoc; assumption).
        destruct (IH s1 _ s2 (eq_trans D1 HL) D3 HC1 HN1 HD H) as [R1 [R2 [R3 [R4 [[e R5] [R6 [R7 R8]]]]]]].
        repeat split; try assumption; try congruence.
        exists e. rewrite R5, D5. reflexivity.
  Qed.

  (* the other tokens do not touch the table *)
  Lemma step_atom_facts strong s ty a s1 : zmem ty [0; 8] = true -> step strong s (ty, PAtom a) = Ok s1 ->
    ps_cycles s1 = ps_cycles s /\ ps_n s1 = ps_n s + 1 /\ ps_last s1 = ps_n s /\ ps_atoms s1 <> [] /\
    (exists e, ps_bonds s1 = ps_bonds s ++ e) /\ ((ps_atoms s = [] -> ps_prev s = None) -> ps_prev s1 = None).
  Proof.
    intros Hty H.
    assert (Hty2 : ty = 0 \/ ty = 8).
    { clear - Hty. cbn [zmem existsb] in Hty. destruct (ty =? 0) eqn:E0; [left; apply Z.eqb_eq; exact E0|].
      destruct (ty =? 8) eqn:E8; [right; apply Z.eqb_eq; exact E8 | discriminate]. }
    unfold step in H.
    destruct Hty2 as [-> | ->];
    [ change (0 =? 2) with false in H; change (0 =? 3) with false in H; change (zmem 0 [1; 4; 9; 10; 12]) with false in H;
      change (0 =? 6) with false in H
    | change (8 =? 2) with false in H; change (8 =? 3) with false in H; change (zmem 8 [1; 4; 9; 10; 12]) with false in H;
      change (8 =? 6) with false in H ]; cbv beta iota in H;
    (match type of H with match ?X with _ => _ end = _ => destruct X as [[[bonds order] sb]|] eqn:EX; [|discriminate] end;
     inversion H; subst s1; cbn;
     assert (HB : exists e, bonds = ps_bonds s ++ e);
     [ clear H; destruct (ps_atoms s); [inversion EX; exists []; rewrite app_nil_r; reflexivity|];
       destruct (ps_prev s) as [[bt b]|];
       [ destruct (bt =? 9);
         [ destruct (type_at s (ps_last s)); [|discriminate]; destruct (as_bool b); [|discriminate]; inversion EX; eexists; reflexivity
         | destruct (zmem bt [1; 10; 12]); inversion EX; [eexists; reflexivity | exists []; rewrite app_nil_r; reflexivity] ]
       | destruct (type_at s (ps_last s)); [|discriminate]; inversion EX; eexists; reflexivity ]
     | repeat split; try assumption;
       [ destruct (ps_atoms s); discriminate
       | intros HA; destruct (ps_atoms s); [apply HA; reflexivity | reflexivity] ] ]).
  Qed.

  Lemma step_paren strong s ty v s1 : ty = 2 \/ ty = 3 -> step strong s (ty, v) = Ok s1 ->
    ps_cycles s1 = ps_cycles s /\ ps_n s1 = ps_n s /\ ps_atoms s1 = ps_atoms s /\ ps_bonds s1 = ps_bonds s /\
    ((ps_atoms s = [] -> ps_prev s = None) -> (ps_atoms s1 = [] -> ps_prev s1 = None)).
  Proof.
    intros [-> | ->] H; unfold step in H; cbn [Z.eqb Pos.eqb] in H; cbv beta iota in H.
    - destruct (ps_prev s) as [[pt pv]|] eqn:EP.
      + destruct (negb (pt =? 4)); [discriminate|]. inversion H; subst s1. destruct s; cbn in *. repeat split.
      + inversion H; subst s1. destruct s; cbn in *. repeat split. intros HA _. exact EP.
    - destruct (ps_prev s) eqn:EP; [discriminate|]. destruct (ps_stack s); [discriminate|]. inversion H; subst s1.
      destruct s; cbn in *. repeat split. intros _ _. exact EP.
  Qed.

  (* the whole token list *)
  Lemma toks_run strong : forall smi s k op s',
    ps_n s = k -> (ps_atoms s = [] -> ps_prev s = None) -> Cyc (ps_cycles s) op -> NoDup (nums op) ->
    disc_atoms k (atoms_of smi) op -> loop strong s (ctoks aty atk rings bnd smi) = Ok s' ->
    (ps_atoms s' = [] -> ps_prev s' = None) /\ Cyc (ps_cycles s') (op_atoms k (atoms_of smi) op) /\
    NoDup (nums (op_atoms k (atoms_of smi) op)) /\ (exists e, ps_bonds s' = ps_bonds s ++ e) /\
    forall c a p, In (c, a, p) (cl_atoms k (atoms_of smi) op) -> exists v, In (p, a, v) (ps_bonds s').
  Proof.
    induction smi as [|t smi IH]; intros s k op s' HK HA HC HN HD H.
    - cbn in H. inversion H; subst s'. cbn [atoms_of op_atoms cl_atoms]. repeat split; try assumption.
      + exists []. rewrite app_nil_r. reflexivity.
      + intros c a p [].
    - change (ctoks aty atk rings bnd (t :: smi)) with (ctok aty atk rings bnd t ++ ctoks aty atk rings bnd smi) in H.
      rewrite loop_app in H. destruct (loop strong s (ctok aty atk rings bnd t)) as [sm|] eqn:Em; [|discriminate].
      destruct t as [n| | |p c]; cbn [ctok atoms_of] in *.
      + (* an atom and its ring closures *)
        cbn [loop] in Em. destruct (step strong s (aty n, PAtom (atk n))) as [s1|] eqn:E1; [|discriminate].
        destruct (step_atom_facts strong s _ _ s1 (Haty n) E1) as [A1 [A2 [A3 [A4 [[e1 A5] A6]]]]].
        rewrite Hcyc in Em. cbn [op_atoms cl_atoms disc_atoms] in *. destruct HD as [HD1 HD2].
        assert (HC1 : Cyc (ps_cycles s1) op) by (rewrite A1; exact HC).
        destruct (rings_run strong n k (cyc n) s1 op sm (eq_trans A3 HK) (A6 HA) HC1 HN HD1 Em) as [R1 [R2 [R3 [R4 [[e2 R5] [R6 [R7 R8]]]]]]].
        assert (HKm : ps_n sm = k + 1) by (rewrite R3, A2, HK; reflexivity).
        assert (HAm : ps_atoms sm = [] -> ps_prev sm = None) by (intros _; exact R2).
        destruct (IH sm (k + 1) _ s' HKm HAm R6 R7 HD2 H) as [I1 [I2 [I3 [[e3 I4] I5]]]].
        repeat split; try assumption.
        * exists (e1 ++ e2 ++ e3). rewrite I4, R5, A5, <- !app_assoc. reflexivity.
        * intros c0 a0 p0 Hin. apply in_app_or in Hin. destruct Hin as [Hin | Hin]; [|apply (I5 _ _ _ Hin)].
          destruct (R8 _ _ _ Hin) as [v Hv]. exists v. rewrite I4. apply in_or_app. left. exact Hv.
      + cbn [loop] in Em. destruct (step strong s (2, PNone)) as [s1|] eqn:E1; [|discriminate]. inversion Em; subst sm.
        destruct (step_paren strong s 2 PNone s1 (or_introl eq_refl) E1) as [P1 [P2 [P3 [P4 P5]]]].
        assert (HC1 : Cyc (ps_cycles s1) op) by (rewrite P1; exact HC).
        destruct (IH s1 k op s' (eq_trans P2 HK) (P5 HA) HC1 HN HD H) as [I1 [I2 [I3 [[e3 I4] I5]]]].
        repeat split; try assumption. exists e3. rewrite I4, P4. reflexivity.
      + cbn [loop] in Em. destruct (step strong s (3, PNone)) as [s1|] eqn:E1; [|discriminate]. inversion Em; subst sm.
        destruct (step_paren strong s 3 PNone s1 (or_intror eq_refl) E1) as [P1 [P2 [P3 [P4 P5]]]].
        assert (HC1 : Cyc (ps_cycles s1) op) by (rewrite P1; exact HC).
        destruct (IH s1 k op s' (eq_trans P2 HK) (P5 HA) HC1 HN HD H) as [I1 [I2 [I3 [[e3 I4] I5]]]].
        repeat split; try assumption. exists e3. rewrite I4, P4. reflexivity.
      + (* a tree bond *)
        pose proof (Hbnd p c) as Hb. destruct (bnd p c) as [[ty v]|]; cbn [opt_bond loop] in Em.
        * destruct (step strong s (ty, v)) as [s1|] eqn:E1; [|discriminate]. inversion Em; subst sm.
          destruct (step_bond_tok strong s ty v s1 Hb E1) as [-> [_ Hne]].
          destruct (set_prev_fields s (Some (ty, v))) as [F1 [F2 [F3 [F4 [F5 F6]]]]].
          assert (HC1 : Cyc (ps_cycles (set_prev s (Some (ty, v)))) op) by (rewrite F4; exact HC).
          assert (HA1 : ps_atoms (set_prev s (Some (ty, v))) = [] -> ps_prev (set_prev s (Some (ty, v))) = None).
          { rewrite F3. intros X. contradiction. }
          destruct (IH _ k op s' (eq_trans F2 HK) HA1 HC1 HN HD H) as [I1 [I2 [I3 [[e3 I4] I5]]]].
          repeat split; try assumption. exists e3. rewrite I4, F5. reflexivity.
        * inversion Em; subst sm. apply (IH s k op s' HK HA HC HN HD H).
  Qed.

  (* ---- what the replay means: a closing joins two atoms that both list the cycle *)
  Lemma zget_in_pair (op : list (Z * Z)) c a : zget op c = Some a -> In (c, a) op.
  Proof.
    induction op as [|[c' a'] r IH]; cbn [zget]; [discriminate|].
    destruct (c =? c') eqn:E; [apply Z.eqb_eq in E; subst; intros H; inversion H; left; reflexivity | intros H; right; apply IH, H].
  Qed.
  Lemma zdel_in (op : list (Z * Z)) c x : In x (zdel op c) -> In x op.
  Proof.
    induction op as [|[c' a'] r IH]; cbn [zdel]; [intros []|].
    destruct (c =? c'); [intros H; right; exact H | intros [H | H]; [left; exact H | right; apply IH, H]].
  Qed.

  Lemma op_cs_sound pos : forall cs op c a, In (c, a) (op_cs pos cs op) -> In (c, a) op \/ (a = pos /\ In c cs).
  Proof.
    induction cs as [|c0 r IH]; intros op c a H; cbn [op_cs] in H; [left; exact H|].
    destruct (zget op c0) eqn:E.
    - destruct (IH _ _ _ H) as [K | [K1 K2]]; [left; apply (zdel_in _ _ _ K) | right; split; [exact K1 | right; exact K2]].
    - destruct (IH _ _ _ H) as [K | [K1 K2]]; [|right; split; [exact K1 | right; exact K2]].
      apply in_app_or in K. destruct K as [K | [K | []]]; [left; exact K|]. inversion K; subst. right. split; [reflexivity | left; reflexivity].
  Qed.
  Lemma cl_cs_sound pos : forall cs op c a p, In (c, a, p) (cl_cs pos cs op) -> p = pos /\ In c cs /\ (In (c, a) op \/ a = pos).
  Proof.
    induction cs as [|c0 r IH]; intros op c a p H; cbn [cl_cs] in H; [destruct H|].
    destruct (zget op c0) eqn:E.
    - destruct H as [H | H].
      + inversion H; subst. split; [reflexivity|]. split; [left; reflexivity|]. left. apply zget_in_pair, E.
      + destruct (IH _ _ _ _ H) as [K1 [K2 K3]]. split; [exact K1|]. split; [right; exact K2|].
        destruct K3 as [K3 | K3]; [left; apply (zdel_in _ _ _ K3) | right; exact K3].
    - destruct (IH _ _ _ _ H) as [K1 [K2 K3]]. split; [exact K1|]. split; [right; exact K2|].
      destruct K3 as [K3 | K3]; [|right; exact K3]. apply in_app_or in K3. destruct K3 as [K3 | [K3 | []]]; [left; exact K3|].
      inversion K3; subst. right. reflexivity.
  Qed.

  Lemma op_atoms_sound : forall ats k op c a, In (c, a) (op_atoms k ats op) ->
    In (c, a) op \/ exists x, nth_error ats (Z.to_nat (a - k)) = Some x /\ In c (cyc x) /\ k <= a.
  Proof.
    induction ats as [|n r IH]; intros k op c a H; cbn [op_atoms] in H; [left; exact H|].
    destruct (IH _ _ _ _ H) as [K | [x [X1 [X2 X3]]]].
    - destruct (op_cs_sound _ _ _ _ _ K) as [K' | [K1 K2]]; [left; exact K'|]. right. exists n. subst a.
      replace (Z.to_nat (k - k)) with 0%nat by lia. repeat split; [exact K2 | lia].
    - right. exists x. replace (Z.to_nat (a - k)) with (S (Z.to_nat (a - (k + 1)))) by lia. repeat split; [exact X1 | exact X2 | lia].
  Qed.

  Lemma cl_atoms_sound : forall ats k op c a p, In (c, a, p) (cl_atoms k ats op) ->
    (exists y, nth_error ats (Z.to_nat (p - k)) = Some y /\ In c (cyc y) /\ k <= p) /\
    (In (c, a) op \/ exists x, nth_error ats (Z.to_nat (a - k)) = Some x /\ In c (cyc x) /\ k <= a <= p).
  Proof.
    induction ats as [|n r IH]; intros k op c a p H; cbn [cl_atoms] in H; [destruct H|].
    apply in_app_or in H. destruct H as [H | H].
    - destruct (cl_cs_sound _ _ _ _ _ _ H) as [K1 [K2 K3]]. subst p. split.
      + exists n. replace (Z.to_nat (k - k)) with 0%nat by lia. repeat split; [exact K2 | lia].
      + destruct K3 as [K3 | K3]; [left; exact K3|]. right. exists n. subst a.
        replace (Z.to_nat (k - k)) with 0%nat by lia. repeat split; [exact K2 | lia | lia].
    - destruct (IH _ _ _ _ _ H) as [[y [Y1 [Y2 Y3]]] K]. split.
      + exists y. replace (Z.to_nat (p - k)) with (S (Z.to_nat (p - (k + 1)))) by lia. repeat split; [exact Y1 | exact Y2 | lia].
      + destruct K as [K | [x [X1 [X2 X3]]]].
        * destruct (op_cs_sound _ _ _ _ _ K) as [K' | [K1 K2]]; [left; exact K'|]. right. exists n. subst a.
          replace (Z.to_nat (k - k)) with 0%nat by lia. repeat split; [exact K2 | lia | lia].
        * right. exists x. replace (Z.to_nat (a - k)) with (S (Z.to_nat (a - (k + 1)))) by lia. repeat split; [exact X1 | exact X2 | lia | lia].
  Qed.

  (* ---- and is complete: a cycle listed at an atom is closed, or still open at the end *)
  Lemma cs_keeps pos : forall cs op c a, In (c, a) op ->
    (exists a' p, In (c, a', p) (cl_cs pos cs op)) \/ exists a', In (c, a') (op_cs pos cs op).
  Proof.
    induction cs as [|c0 r IH]; intros op c a H; cbn [cl_cs op_cs]; [right; exists a; exact H|].
    destruct (zget op c0) as [a0|] eqn:E.
    - destruct (Z.eq_dec c c0) as [-> | Hne].
      + left. exists a0, pos. left. reflexivity.
      + assert (H' : In (c, a) (zdel op c0)).
        { clear - H Hne. induction op as [|[c' a'] op IHop]; [destruct H|]. cbn [zdel]. destruct (c0 =? c') eqn:E'.
          - destruct H as [H | H]; [inversion H; subst; apply Z.eqb_eq in E'; subst; contradiction | exact H].
          - destruct H as [H | H]; [left; exact H | right; apply IHop, H]. }
        destruct (IH _ _ _ H') as [[a' [p K]] | K]; [left; exists a', p; right; exact K | right; exact K].
    - apply (IH (op ++ [(c0, pos)]) c a). apply in_or_app. left. exact H.
  Qed.
  Lemma cs_complete pos : forall cs op c, In c cs ->
    (exists a p, In (c, a, p) (cl_cs pos cs op)) \/ exists a, In (c, a) (op_cs pos cs op).
  Proof.
    induction cs as [|c0 r IH]; intros op c H; [destruct H|]. cbn [cl_cs op_cs]. destruct H as [-> | H].
    - destruct (zget op c) as [a0|] eqn:E; [left; exists a0, pos; left; reflexivity|].
      apply (cs_keeps pos r (op ++ [(c, pos)]) c pos). apply in_or_app. right. left. reflexivity.
    - destruct (zget op c0) as [a0|] eqn:E.
      + destruct (IH (zdel op c0) c H) as [[a [p K]] | K]; [left; exists a, p; right; exact K | right; exact K].
      + apply IH, H.
  Qed.
  Lemma atoms_keeps : forall ats k op c a, In (c, a) op ->
    (exists a' p, In (c, a', p) (cl_atoms k ats op)) \/ exists a', In (c, a') (op_atoms k ats op).
  Proof.
    induction ats as [|n r IH]; intros k op c a H; cbn [cl_atoms op_atoms]; [right; exists a; exact H|].
    destruct (cs_keeps k (cyc n) op c a H) as [[a' [p K]] | [a' K]].
    - left. exists a', p. apply in_or_app. left. exact K.
    - destruct (IH (k + 1) _ c a' K) as [[a2 [p K2]] | K2]; [left; exists a2, p; apply in_or_app; right; exact K2 | right; exact K2].
  Qed.
  Lemma atoms_complete : forall ats k op c x, In x ats -> In c (cyc x) ->
    (exists a p, In (c, a, p) (cl_atoms k ats op)) \/ exists a, In (c, a) (op_atoms k ats op).
  Proof.
    induction ats as [|n r IH]; intros k op c x Hx Hc; [destruct Hx|]. cbn [cl_atoms op_atoms]. destruct Hx as [-> | Hx].
    - destruct (cs_complete k (cyc x) op c Hc) as [[a [p K]] | [a K]].
      + left. exists a, p. apply in_or_app. left. exact K.
      + destruct (atoms_keeps r (k + 1) _ c a K) as [[a2 [p K2]] | K2]; [left; exists a2, p; apply in_or_app; right; exact K2 | right; exact K2].
    - destruct (IH (k + 1) (op_cs k (cyc n) op) c x Hx Hc) as [[a [p K]] | K]; [left; exists a, p; apply in_or_app; right; exact K | right; exact K].
  Qed.

  (* read_write_graph, ring-closure clause: whenever the reader's parser accepts the reader tokens of a written token list whose
     closure numbers obey the discipline, every cycle listed at a written atom is closed by the replay, every closing joins two
     written atoms that both list the cycle (opener position a <= closer position p in the written atom order), and the bond
     (p, a, value) is in the parsed record *)
  Theorem written_ring_bonds_parsed : forall smi strong rec,
    parse (ctoks aty atk rings bnd smi) strong = Ok rec -> disc_atoms 0 (atoms_of smi) [] ->
    (forall x c, In x (atoms_of smi) -> In c (cyc x) -> exists a p, In (c, a, p) (cl_atoms 0 (atoms_of smi) [])) /\
    (forall c a p, In (c, a, p) (cl_atoms 0 (atoms_of smi) []) ->
       (exists x y, nth_error (atoms_of smi) (Z.to_nat a) = Some x /\ nth_error (atoms_of smi) (Z.to_nat p) = Some y /\
                    In c (cyc x) /\ In c (cyc y) /\ 0 <= a <= p) /\
       exists v, In (p, a, v) (p_bonds rec)).
  Proof.
    intros smi strong rec H HD. unfold parse in H. destruct (guard (ctoks aty atk rings bnd smi)); [|discriminate].
    destruct (loop strong p_init (ctoks aty atk rings bnd smi)) as [s|] eqn:E; [|discriminate].
    assert (HC0 : Cyc (ps_cycles p_init) []) by constructor.
    assert (HN0 : NoDup (nums [])) by constructor.
    destruct (toks_run strong smi p_init 0 [] s eq_refl (fun _ => eq_refl) HC0 HN0 HD E) as [_ [I2 [_ [_ I5]]]].
    unfold finish in H. destruct (ps_stack s); [|discriminate]. destruct (ps_cycles s) eqn:Ec; [|discriminate].
    destruct (ps_prev s); [discriminate|]. inversion H; subst rec. cbn [p_bonds].
    assert (Hop : op_atoms 0 (atoms_of smi) [] = []) by (inversion I2; reflexivity).
    split.
    - intros x c Hx Hc. destruct (atoms_complete (atoms_of smi) 0 [] c x Hx Hc) as [K | [a9 K]]; [exact K|].
      rewrite Hop in K. destruct K.
    - intros c0 a0 p0 Hin. split; [|apply (I5 _ _ _ Hin)].
      destruct (cl_atoms_sound _ _ _ _ _ _ Hin) as [[y [Y1 [Y2 Y3]]] [[] | [x [X1 [X2 X3]]]]].
      exists x, y. rewrite Z.sub_0_r in *. repeat split; try assumption; lia.
  Qed.
End Run.

(* non-vacuity: C1CC1 written with the cycle 7 numbered 1 *)
Example ring_bonds_example :
  let aty := fun _ : Z => 0 in
  let atk := fun n : Z => simple_atom (String.String "C"%char String.EmptyString) in
  let cyc := fun n : Z => if (n =? 10) || (n =? 30) then [7] else [] in
  let num := fun _ : Z => 1 in
  let rb := fun _ _ : Z => @None token in
  let rings := fun n => map (fun c => (rb n c, num c)) (cyc n) in
  let bnd := fun _ _ : Z => @None token in
  let smi := [TAtom 10; TBond 10 20; TAtom 20; TBond 20 30; TAtom 30] in
  disc_atoms cyc num 0 (atoms_of smi) [] /\ cl_atoms cyc 0 (atoms_of smi) [] = [(7, 0, 2)] /\
  exists rec, parse (ctoks aty atk rings bnd smi) true = Ok rec /\ p_bonds rec = [(1, 0, PInt 1); (2, 1, PInt 1); (2, 0, PInt 1)].
Proof.
  cbv zeta. split; [cbn; split; [split; [intros []|exact I]|split; [exact I|split; [exact I|exact I]]]|].
  split; [reflexivity|]. eexists. split; vm_compute; reflexivity.
Qed.
