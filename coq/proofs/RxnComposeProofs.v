(* C15 -- ReactionContainer.compose: when the molecules of each side carry pairwise disjoint atom numbers (every mapped
   reaction), reduce(or_, ...) is the plain concatenation of the atom and adjacency dicts, it is well formed, and the
   theorems about MoleculeContainer.compose lift to reactions. *)
From Coq Require Import ZArith List Bool Lia Permutation.
From Model Require Import PyBase Graph Compose.
From Proofs Require Import ComposeProofs.
Import ListNotations.
Open Scope Z_scope.

(* ---------- dict.update with fresh keys appends ---------- *)
Lemma zupdate_disjoint {V} (b : list (Z * V)) : forall a,
  NoDup (keys b) -> (forall k, In k (keys b) -> ~ In k (keys a)) -> zupdate a b = a ++ b.
Proof.
  unfold zupdate. induction b as [|[k v] b IH]; intros a Hn Hd; cbn [fold_left fst snd].
  - rewrite app_nil_r. reflexivity.
  - cbn [keys map fst] in Hn. inversion Hn as [|? ? Hk Hn']; subst.
    rewrite keys_zset_absent by (apply Hd; left; reflexivity).
    rewrite IH.
    + rewrite <- app_assoc. reflexivity.
    + exact Hn'.
    + intros k' Hk' Hin. rewrite keys_app in Hin. apply in_app_iff in Hin. destruct Hin as [Hin|Hin].
      * apply (Hd k'); [right; exact Hk'|exact Hin].
      * cbn in Hin. destruct Hin as [E|[]]. subst k'. apply Hk. exact Hk'.
Qed.

Lemma zget_app {V} (a b : list (Z * V)) k :
  zget (a ++ b) k = match zget a k with Some v => Some v | None => zget b k end.
Proof.
  induction a as [|[k0 v0] a IH]; cbn [app zget]; [reflexivity|]. destruct (Z.eqb k k0); [reflexivity|exact IH].
Qed.

Definition disjoint_ids (a b : mol) : Prop := forall x, In x (ids a) -> ~ In x (ids b).
Definition cat2 (a b : mol) : mol := mkMol (m_atoms a ++ m_atoms b) (m_adj a ++ m_adj b).

Lemma existsb_false_disjoint a b : disjoint_ids a b -> existsb (fun n => zmem n (ids a)) (ids b) = false.
Proof.
  intros H. destruct (existsb (fun n => zmem n (ids a)) (ids b)) eqn:E; [|reflexivity].
  apply existsb_exists in E. destruct E as [x [Hx Hm]]. apply zmem_In in Hm. exfalso. apply (H x Hm Hx).
Qed.

(* Graph.union without collisions *)
Lemma union_remap_disjoint a b : wf_mol a = true -> wf_mol b = true -> disjoint_ids a b -> union_remap a b = cat2 a b.
Proof.
  intros Ha Hb Hd. unfold union_remap. rewrite (existsb_false_disjoint a b Hd). unfold cat2.
  destruct (wf_keys a Ha) as [Ka Na]. destruct (wf_keys b Hb) as [Kb Nb]. f_equal.
  - apply zupdate_disjoint; [exact Nb|]. intros k Hk Hin. apply (Hd k Hin Hk).
  - apply zupdate_disjoint.
    + rewrite <- Kb. exact Nb.
    + intros k Hk Hin. rewrite <- Kb in Hk. rewrite <- Ka in Hin. apply (Hd k Hin Hk).
Qed.

(* ---------- lookups in a concatenation ---------- *)
Lemma ids_cat2 a b : ids (cat2 a b) = ids a ++ ids b.
Proof. unfold ids, cat2. cbn [m_atoms]. apply keys_app. Qed.

Lemma nbrs_cat2_l a b n : wf_mol a = true -> In n (ids a) -> nbrs (cat2 a b) n = nbrs a n.
Proof.
  intros Ha Hn. unfold nbrs, cat2. cbn [m_adj]. rewrite zget_app.
  destruct (zget (m_adj a) n) as [l|] eqn:E; [reflexivity|].
  apply zget_None_keys in E. destruct (wf_keys a Ha) as [Ka _]. rewrite <- Ka in E. contradiction.
Qed.

Lemma nbrs_cat2_r a b n : wf_mol a = true -> ~ In n (ids a) -> nbrs (cat2 a b) n = nbrs b n.
Proof.
  intros Ha Hn. unfold nbrs, cat2. cbn [m_adj]. rewrite zget_app.
  destruct (zget (m_adj a) n) as [l|] eqn:E; [|reflexivity].
  apply zget_In_keys in E. destruct (wf_keys a Ha) as [Ka _]. rewrite <- Ka in E. contradiction.
Qed.

Lemma atom_of_cat2 a b n : atom_of (cat2 a b) n = match atom_of a n with Some x => Some x | None => atom_of b n end.
Proof. unfold atom_of, cat2. cbn [m_atoms]. apply zget_app. Qed.

Lemma bond_of_cat2_l a b n m : wf_mol a = true -> In n (ids a) -> bond_of (cat2 a b) n m = bond_of a n m.
Proof. intros Ha Hn. unfold bond_of. rewrite nbrs_cat2_l by assumption. reflexivity. Qed.

Lemma bond_of_cat2_r a b n m : wf_mol a = true -> ~ In n (ids a) -> bond_of (cat2 a b) n m = bond_of b n m.
Proof. intros Ha Hn. unfold bond_of. rewrite nbrs_cat2_r by assumption. reflexivity. Qed.

Lemma NoDup_app_disjoint {A} (l1 l2 : list A) : NoDup l1 -> NoDup l2 -> (forall x, In x l1 -> ~ In x l2) -> NoDup (l1 ++ l2).
Proof.
  intros H1 H2 Hd. induction H1 as [|x l1 Hx H1 IH]; cbn [app]; [exact H2|].
  constructor.
  - rewrite in_app_iff. intros [Hi|Hi]; [contradiction|]. apply (Hd x); [left; reflexivity|exact Hi].
  - apply IH. intros y Hy. apply Hd. right. exact Hy.
Qed.

(* the per-entry test of wf_mol *)
Definition entry_ok (g : mol) (nl : Z * list (Z * bond)) : bool :=
  let n := fst nl in
  nodup_z (keys (snd nl)) &&
  forallb (fun mb => let m := fst mb in
     negb (m =? n) && zmem m (ids g) &&
     match bond_of g m n with Some b' => bond_eqb (snd mb) b' | None => false end) (snd nl).

Lemma wf_mol_unfold g : wf_mol g = (list_eqb Z.eqb (keys (m_atoms g)) (keys (m_adj g)) && nodup_z (ids g) && forallb (entry_ok g) (m_adj g)).
Proof. reflexivity. Qed.

Lemma wf_entries g : wf_mol g = true -> forall nl, In nl (m_adj g) -> entry_ok g nl = true.
Proof.
  intros H. rewrite wf_mol_unfold in H. apply andb_prop in H. destruct H as [_ H]. rewrite forallb_forall in H. exact H.
Qed.

(* an entry that is fine in g stays fine in any g' that agrees with g on the atoms the entry mentions *)
Lemma entry_ok_transfer g g' nl :
  entry_ok g nl = true ->
  (forall m, In m (keys (snd nl)) -> zmem m (ids g) = true -> zmem m (ids g') = true /\ bond_of g' m (fst nl) = bond_of g m (fst nl)) ->
  entry_ok g' nl = true.
Proof.
  unfold entry_ok. intros H T. apply andb_prop in H. destruct H as [H1 H2]. rewrite H1. cbn [andb].
  rewrite forallb_forall in *. intros mb Hmb. specialize (H2 mb Hmb). cbn zeta in *.
  apply andb_prop in H2. destruct H2 as [H2 H3]. apply andb_prop in H2. destruct H2 as [H2 H4].
  assert (Hk : In (fst mb) (keys (snd nl))) by (unfold keys; apply in_map; exact Hmb).
  destruct (T (fst mb) Hk H4) as [T1 T2]. rewrite H2, T1, T2. cbn [andb]. exact H3.
Qed.

Theorem wf_cat2 a b : wf_mol a = true -> wf_mol b = true -> disjoint_ids a b -> wf_mol (cat2 a b) = true.
Proof.
  intros Ha Hb Hd. destruct (wf_keys a Ha) as [Ka Na]. destruct (wf_keys b Hb) as [Kb Nb].
  rewrite wf_mol_unfold. apply andb_true_intro. split; [apply andb_true_intro; split|].
  - unfold cat2. cbn [m_atoms m_adj]. rewrite !keys_app, Ka, Kb. apply list_eqb_Z_refl.
  - apply nodup_z_NoDup. rewrite ids_cat2. apply NoDup_app_disjoint; assumption.
  - unfold cat2 at 2. cbn [m_adj]. rewrite forallb_app. apply andb_true_intro. split; apply forallb_forall; intros nl Hnl.
    + apply (entry_ok_transfer a); [apply (wf_entries a Ha); exact Hnl|].
      intros m _ Hm. apply zmem_In in Hm. split.
      * apply zmem_In. rewrite ids_cat2. apply in_app_iff. left. exact Hm.
      * apply bond_of_cat2_l; assumption.
    + apply (entry_ok_transfer b); [apply (wf_entries b Hb); exact Hnl|].
      intros m _ Hm. apply zmem_In in Hm. split.
      * apply zmem_In. rewrite ids_cat2. apply in_app_iff. right. exact Hm.
      * apply bond_of_cat2_r; [exact Ha|]. intros Hin. apply (Hd m Hin Hm).
Qed.

(* ---------- reduce(or_, molecules) over pairwise disjoint molecules ---------- *)
Definition cat_mols (l : list mol) : mol := mkMol (flat_map m_atoms l) (flat_map m_adj l).
Definition all_wf (l : list mol) : Prop := Forall (fun g => wf_mol g = true) l.
Definition pairwise_disjoint (l : list mol) : Prop := ForallOrdPairs disjoint_ids l.

Lemma ids_cat_mols l : ids (cat_mols l) = flat_map ids l.
Proof.
  unfold ids, cat_mols. cbn [m_atoms]. induction l as [|g l IH]; [reflexivity|]. cbn [flat_map]. rewrite keys_app, IH. reflexivity.
Qed.

Lemma fold_union_disjoint rest : forall acc,
  wf_mol acc = true -> all_wf rest -> Forall (disjoint_ids acc) rest -> pairwise_disjoint rest ->
  fold_left union_remap rest acc = cat2 acc (cat_mols rest) /\ wf_mol (cat2 acc (cat_mols rest)) = true.
Proof.
  induction rest as [|g rest IH]; intros acc Hacc Hw Hd Hp.
  - cbn [fold_left]. unfold cat2, cat_mols. cbn [flat_map m_atoms m_adj]. rewrite !app_nil_r. destruct acc; split; [reflexivity|exact Hacc].
  - inversion Hw as [|? ? Hg Hw']; subst. inversion Hd as [|? ? Hdg Hd']; subst. inversion Hp as [|? ? Hgr Hp']; subst.
    cbn [fold_left]. rewrite (union_remap_disjoint acc g Hacc Hg Hdg).
    assert (Hw2 : wf_mol (cat2 acc g) = true) by (apply wf_cat2; assumption).
    assert (Hd2 : Forall (disjoint_ids (cat2 acc g)) rest).
    { rewrite Forall_forall in *. intros h Hh x Hx. rewrite ids_cat2 in Hx. apply in_app_iff in Hx. destruct Hx as [Hx|Hx].
      - apply (Hd' h Hh x Hx).
      - apply (Hgr h Hh x Hx). }
    destruct (IH (cat2 acc g) Hw2 Hw' Hd2 Hp') as [E W].
    assert (Ecat : cat2 (cat2 acc g) (cat_mols rest) = cat2 acc (cat_mols (g :: rest))).
    { unfold cat2, cat_mols. cbn [flat_map m_atoms m_adj]. rewrite <- !app_assoc. reflexivity. }
    rewrite Ecat in *. split; assumption.
Qed.

Lemma wf_empty : wf_mol (mkMol [] []) = true. Proof. reflexivity. Qed.

(* reduce(or_, l) (and MoleculeContainer() for the empty list) is the concatenation of the dicts, and is well formed *)
Theorem union_all_disjoint l : all_wf l -> pairwise_disjoint l -> union_all l = cat_mols l /\ wf_mol (cat_mols l) = true.
Proof.
  intros Hw Hp. destruct l as [|x rest]; [split; reflexivity|].
  inversion Hw as [|? ? Hx Hw']; subst. inversion Hp as [|? ? Hxr Hp']; subst.
  cbn [union_all]. destruct (fold_union_disjoint rest x Hx Hw' Hxr Hp') as [E W].
  assert (Ec : cat2 x (cat_mols rest) = cat_mols (x :: rest)) by reflexivity.
  rewrite Ec in *. split; assumption.
Qed.

(* an atom / a bond of the union is that of the molecule that holds the atom *)
Lemma in_flat_ids l n : In n (flat_map ids l) <-> exists g, In g l /\ In n (ids g).
Proof. rewrite in_flat_map. reflexivity. Qed.

Lemma cat_mols_cons g l : cat_mols (g :: l) = cat2 g (cat_mols l). Proof. reflexivity. Qed.

Theorem cat_mols_lookup l : all_wf l -> pairwise_disjoint l -> forall g n, In g l -> In n (ids g) ->
  atom_of (cat_mols l) n = atom_of g n /\ forall m, bond_of (cat_mols l) n m = bond_of g n m.
Proof.
  induction l as [|x l IH]; intros Hw Hp g n Hg Hn; [contradiction|].
  inversion Hw as [|? ? Hx Hw']; subst. inversion Hp as [|? ? Hxr Hp']; subst.
  rewrite cat_mols_cons. destruct Hg as [Hg|Hg].
  - subst g. split.
    + rewrite atom_of_cat2. destruct (proj2 (atom_of_ids x n) Hn) as [a Ea]. rewrite Ea. reflexivity.
    + intros m. apply bond_of_cat2_l; assumption.
  - assert (Hnx : ~ In n (ids x)).
    { intros Hin. rewrite Forall_forall in Hxr. apply (Hxr g Hg n Hin Hn). }
    destruct (IH Hw' Hp' g n Hg Hn) as [IA IB]. split.
    + rewrite atom_of_cat2. destruct (atom_of x n) as [a|] eqn:Ea; [|exact IA].
      exfalso. apply Hnx. apply atom_of_ids. exists a. exact Ea.
    + intros m. rewrite bond_of_cat2_r by assumption. apply IB.
Qed.

(* ---------- ReactionContainer.compose = MoleculeContainer.compose of the two concatenations ---------- *)
Definition mapped_reaction (rs gs ps : list mol) : Prop :=
  all_wf (gs ++ rs) /\ all_wf ps /\ pairwise_disjoint (gs ++ rs) /\ pairwise_disjoint ps.
Definition left_side (rs gs : list mol) : mol := cat_mols (gs ++ rs).
Definition right_side (ps : list mol) : mol := cat_mols ps.

Theorem rxn_compose_is_compose rs gs ps o1 o2 o3 : mapped_reaction rs gs ps ->
  rxn_compose_ord o1 o2 o3 rs gs ps = compose_ord o1 o2 o3 (left_side rs gs) (right_side ps) /\
  wf_mol (left_side rs gs) = true /\ wf_mol (right_side ps) = true.
Proof.
  intros [W1 [W2 [D1 D2]]]. unfold rxn_compose_ord, left_side, right_side.
  destruct (union_all_disjoint _ W1 D1) as [E1 F1]. destruct (union_all_disjoint _ W2 D2) as [E2 F2].
  rewrite E1, E2. repeat split; assumption.
Qed.

(* the marks of the condensed graph of a reaction *)
Theorem rxn_compose_dynamic_iff rs gs ps o1 o2 o3 h : mapped_reaction rs gs ps ->
  orders_ok (left_side rs gs) (right_side ps) o1 o2 o3 -> rxn_compose_ord o1 o2 o3 rs gs ps = Ok h ->
  (forall n m, is_dynamic_bond h n m <->
               ord_in (left_side rs gs) n m <> ord_in (right_side ps) n m /\
               (is_common (left_side rs gs) (right_side ps) n = true \/ is_common (left_side rs gs) (right_side ps) m = true)) /\
  (forall n, is_dynamic_atom h n <->
             exists a b, atom_of (left_side rs gs) n = Some a /\ atom_of (right_side ps) n = Some b /\ (a_chg a <> a_chg b \/ a_rad a <> a_rad b)) /\
  (forall n, In n (center_atoms h) <-> is_dynamic_atom h n \/ exists m, is_dynamic_bond h n m).
Proof.
  intros M O E. destruct (rxn_compose_is_compose rs gs ps o1 o2 o3 M) as [Ec [Wl Wr]]. rewrite Ec in E.
  destruct (compose_dynamic_iff _ _ _ _ _ _ Wl Wr O E) as [A B]. split; [exact A|]. split; [exact B|].
  apply (compose_center_atoms _ _ _ _ _ _ Wl Wr O E).
Qed.

(* identical sides, no reagents: no reaction centre *)
Theorem rxn_compose_identity_no_center ms o1 o2 o3 : all_wf ms -> pairwise_disjoint ms ->
  orders_ok (cat_mols ms) (cat_mols ms) o1 o2 o3 ->
  exists h, rxn_compose_ord o1 o2 o3 ms [] ms = Ok h /\ center_atoms h = [] /\
            (forall n, ~ is_dynamic_atom h n) /\ (forall n m, ~ is_dynamic_bond h n m).
Proof.
  intros W D O. assert (M : mapped_reaction ms [] ms) by (unfold mapped_reaction; cbn [app]; auto).
  destruct (rxn_compose_is_compose ms [] ms o1 o2 o3 M) as [Ec [Wl _]]. rewrite Ec. unfold left_side, right_side in *. cbn [app] in *.
  apply compose_identity_no_center; assumption.
Qed.

(* non-vacuity: ethanol + water -> ethoxide + water, two molecules per side, numbers 1-3 and 4 *)
Definition ex_etoh : mol :=
  mkMol [(1, mkAtom 6 None 0 false (Some 3) None); (2, mkAtom 6 None 0 false (Some 2) None); (3, mkAtom 8 None 0 false (Some 1) None)]
        [(1, [(2, mkBond 1 None)]); (2, [(1, mkBond 1 None); (3, mkBond 1 None)]); (3, [(2, mkBond 1 None)])].
Definition ex_eto : mol :=
  mkMol [(1, mkAtom 6 None 0 false (Some 3) None); (2, mkAtom 6 None 0 false (Some 2) None); (3, mkAtom 8 None (-1) false (Some 0) None)]
        [(1, [(2, mkBond 1 None)]); (2, [(1, mkBond 1 None); (3, mkBond 1 None)]); (3, [(2, mkBond 1 None)])].
Definition ex_water : mol := mkMol [(4, mkAtom 8 None 0 false (Some 2) None)] [(4, [])].

Lemma pd2 a b : disjoint_ids a b -> pairwise_disjoint [a; b].
Proof. intros H. constructor; [constructor; [exact H|constructor]|constructor; [constructor|constructor]]. Qed.

Example rxn_compose_example :
  mapped_reaction [ex_etoh; ex_water] [] [ex_eto; ex_water] /\
  exists h, rxn_compose [ex_etoh; ex_water] [] [ex_eto; ex_water] = Ok h /\ list_eqb Z.eqb (center_atoms h) [3] = true.
Proof.
  split.
  - assert (Dd : forall x g, In x [1; 2; 3] -> ids g = [4] -> ~ In x (ids g)).
    { intros x g Hx Eg. rewrite Eg. cbn in *. lia. }
    unfold mapped_reaction. cbn [app]. repeat split.
    + repeat constructor.
    + repeat constructor.
    + apply pd2. intros x Hx. apply (Dd x ex_water Hx eq_refl).
    + apply pd2. intros x Hx. apply (Dd x ex_water Hx eq_refl).
  - eexists. split; vm_compute; reflexivity.
Qed.

(* ---------- the sorted list views used by the correspondence (dynamic_atoms / dynamic_bonds) list exactly the
   dynamic atoms / bonds ---------- *)
Lemma In_kinsert {V} (x y : Z * V) l : In y (kinsert x l) <-> y = x \/ In y l.
Proof.
  induction l as [|z l IH]; cbn [kinsert In]; [intuition|].
  destruct (fst x <=? fst z); cbn [In]; [intuition|]. rewrite IH. intuition.
Qed.

Lemma In_ksort {V} (y : Z * V) l : In y (ksort l) <-> In y l.
Proof.
  unfold ksort. induction l as [|x l IH]; cbn [fold_right In]; [reflexivity|]. rewrite In_kinsert, IH. intuition.
Qed.

Lemma In_zlsort x l : In x (zlsort l) <-> In x l.
Proof.
  unfold zlsort. rewrite in_map_iff. split.
  - intros [[y u] [E H]]. cbn in E. subst y. rewrite In_ksort in H. apply in_map_iff in H. destruct H as [z [Ez Hz]].
    inversion Ez. subst. exact Hz.
  - intros H. exists (x, tt). split; [reflexivity|]. rewrite In_ksort. apply in_map_iff. exists x. split; [reflexivity|exact H].
Qed.

Definition cgr_nodup (h : cgr) : Prop :=
  NoDup (keys (c_atoms h)) /\ NoDup (keys (c_adj h)) /\ forall n l, In (n, l) (c_adj h) -> NoDup (keys l).

Lemma wf_cgr_nodup h : wf_cgr h = true -> cgr_nodup h.
Proof.
  unfold wf_cgr. intros H. apply andb_prop in H. destruct H as [H W]. apply andb_prop in H. destruct H as [E N].
  apply list_eqb_Z_eq' in E. apply nodup_z_NoDup in N. split; [exact N|]. split; [rewrite <- E; exact N|].
  intros n l Hi. rewrite forallb_forall in W. specialize (W (n, l) Hi). cbn [fst snd] in W.
  apply andb_prop in W. destruct W as [W _]. apply nodup_z_NoDup. exact W.
Qed.

Theorem dynamic_atoms_spec h n : cgr_nodup h -> (In n (dynamic_atoms h) <-> is_dynamic_atom h n).
Proof.
  intros [Na _]. unfold dynamic_atoms, is_dynamic_atom, catom. rewrite In_zlsort, in_map_iff. split.
  - intros [[n' a] [E H]]. cbn in E. subst n'. apply filter_In in H. destruct H as [Hi Hd]. cbn in Hd.
    exists a. split; [apply In_zget; assumption|exact Hd].
  - intros [a [E Hd]]. exists (n, a). split; [reflexivity|]. apply filter_In. split; [apply zget_In; exact E|exact Hd].
Qed.

Theorem dynamic_bonds_spec h n m : cgr_nodup h -> (In (n, m) (dynamic_bonds h) <-> n < m /\ is_dynamic_bond h n m).
Proof.
  intros [_ [Nb Nl]]. unfold dynamic_bonds, is_dynamic_bond, cbond, cnbrs. rewrite in_flat_map. split.
  - intros [[n' l] [Hnl H]]. rewrite In_ksort in Hnl. cbn [fst snd] in H. apply in_map_iff in H.
    destruct H as [[m' b] [E H]]. cbn [fst] in E. inversion E. subst n' m'. apply filter_In in H. destruct H as [Hi Hc].
    rewrite In_ksort in Hi. cbn [fst snd] in Hc. apply andb_prop in Hc. destruct Hc as [Hlt Hd]. apply Z.ltb_lt in Hlt.
    split; [exact Hlt|]. exists b. split; [|exact Hd].
    rewrite (In_zget _ _ _ Nb Hnl). apply In_zget; [apply (Nl n l Hnl)|exact Hi].
  - intros [Hlt [b [E Hd]]]. destruct (zget (c_adj h) n) as [l|] eqn:El; [|discriminate].
    exists (n, l). split; [rewrite In_ksort; apply zget_In; exact El|]. cbn [fst snd]. apply in_map_iff.
    exists (m, b). split; [reflexivity|]. apply filter_In. split; [rewrite In_ksort; apply zget_In; exact E|].
    cbn [fst snd]. apply andb_true_intro. split; [apply Z.ltb_lt; exact Hlt|exact Hd].
Qed.

Theorem dynamic_lists_spec h : wf_cgr h = true ->
  (forall n, In n (dynamic_atoms h) <-> is_dynamic_atom h n) /\
  (forall n m, In (n, m) (dynamic_bonds h) <-> n < m /\ is_dynamic_bond h n m).
Proof.
  intros W. split; [intros n; apply dynamic_atoms_spec | intros n m; apply dynamic_bonds_spec]; apply wf_cgr_nodup; exact W.
Qed.
