(* C05 -- proofs about the Kekule / Thiele specification (model/Kekule.v): what every output accepted by the checkers
   kekule_rel / thiele_rel satisfies, idempotence at the level of the specification and of the driver model, what the
   driver model can never change whatever the (unmodelled, heuristic) search returns. *)
From Coq Require Import ZArith List Bool Lia.
From Model Require Import PyBase Graph Kekule.
Import ListNotations.
Open Scope Z_scope.

(* ------------------------------------------------------------------------------------------------
   generic list facts
   ------------------------------------------------------------------------------------------------ *)
Lemma forallb2_map {A B C : Type} (f : A -> B -> bool) (p : A -> C) (q : B -> C) :
  (forall x y, f x y = true -> p x = q y) ->
  forall l l', forallb2 f l l' = true -> map p l = map q l'.
Proof.
  intros H l. induction l as [|x r IH]; intros [|y s] E; simpl in *; try discriminate; auto.
  apply andb_true_iff in E. destruct E as [E1 E2]. f_equal; auto.
Qed.

Lemma forallb2_weaken {A B : Type} (f g : A -> B -> bool) :
  (forall x y, f x y = true -> g x y = true) ->
  forall l l', forallb2 f l l' = true -> forallb2 g l l' = true.
Proof.
  intros H l. induction l as [|x r IH]; intros [|y s] E; simpl in *; try discriminate; auto.
  apply andb_true_iff in E. destruct E as [E1 E2]. rewrite (H _ _ E1), (IH _ E2). reflexivity.
Qed.

Lemma forallb2_swap {A B : Type} (f : A -> B -> bool) (g : B -> A -> bool) :
  (forall x y, f x y = true -> g y x = true) ->
  forall l l', forallb2 f l l' = true -> forallb2 g l' l = true.
Proof.
  intros H l. induction l as [|x r IH]; intros [|y s] E; simpl in *; try discriminate; auto.
  apply andb_true_iff in E. destruct E as [E1 E2]. rewrite (H _ _ E1), (IH _ E2). reflexivity.
Qed.

Lemma forallb2_and {A B : Type} (f g : A -> B -> bool) :
  forall l l', forallb2 f l l' = true -> forallb2 g l l' = true -> forallb2 (fun x y => f x y && g x y) l l' = true.
Proof.
  intros l. induction l as [|x r IH]; intros [|y s] E1 E2; simpl in *; try discriminate; auto.
  apply andb_true_iff in E1. apply andb_true_iff in E2. destruct E1 as [a b], E2 as [c d].
  rewrite a, c, (IH _ b d). reflexivity.
Qed.

Lemma forallb2_forallb_r {A B : Type} (f : A -> B -> bool) (p : B -> bool) :
  (forall x y, f x y = true -> p y = true) ->
  forall l l', forallb2 f l l' = true -> forallb p l' = true.
Proof.
  intros H l. induction l as [|x r IH]; intros [|y s] E; simpl in *; try discriminate; auto.
  apply andb_true_iff in E. destruct E as [E1 E2]. rewrite (H _ _ E1), (IH _ E2). reflexivity.
Qed.

(* forallb2 with a side condition known for every element of the left list *)
Lemma forallb2_with_forallb {A B : Type} (f g : A -> B -> bool) (p : A -> bool) :
  (forall x y, p x = true -> f x y = true -> g x y = true) ->
  forall l l', forallb p l = true -> forallb2 f l l' = true -> forallb2 g l l' = true.
Proof.
  intros H l. induction l as [|x r IH]; intros [|y s] P E; simpl in *; try discriminate; auto.
  apply andb_true_iff in E. apply andb_true_iff in P. destruct E as [E1 E2], P as [P1 P2].
  rewrite (H _ _ P1 E1), (IH _ P2 E2). reflexivity.
Qed.

Lemma forallb2_refl {A : Type} (f : A -> A -> bool) (p : A -> bool) :
  (forall x, p x = true -> f x x = true) -> forall l, forallb p l = true -> forallb2 f l l = true.
Proof.
  intros H l. induction l as [|x r IH]; intros P; simpl in *; auto.
  apply andb_true_iff in P. destruct P as [P1 P2]. rewrite (H _ P1), (IH P2). reflexivity.
Qed.

Lemma forallb_true {A : Type} (l : list A) : forallb (fun _ => true) l = true.
Proof. induction l; simpl; auto. Qed.

Lemma map_fold_sum {A B : Type} (p : A -> Z) (q : B -> Z) :
  forall l l', map p l = map q l' ->
  fold_right (fun x s => p x + s) 0 l = fold_right (fun y s => q y + s) 0 l'.
Proof.
  intros l. induction l as [|x r IH]; intros [|y s] E; simpl in *; try discriminate; auto.
  injection E as E1 E2. rewrite E1, (IH _ E2). reflexivity.
Qed.

Lemma map_countb {A B : Type} (p : A -> bool) (q : B -> bool) :
  forall l l', map p l = map q l' -> countb p l = countb q l'.
Proof.
  intros l. induction l as [|x r IH]; intros [|y s] E; simpl in *; try discriminate; auto.
  injection E as E1 E2. rewrite E1, (IH _ E2). reflexivity.
Qed.

Lemma countb_nonneg {A : Type} (f : A -> bool) (l : list A) : 0 <= countb f l.
Proof. induction l as [|x r IH]; simpl; [lia | destruct (f x); lia]. Qed.

Lemma countb_zero {A : Type} (f : A -> bool) (l : list A) : countb f l = 0 <-> forallb (fun x => negb (f x)) l = true.
Proof.
  induction l as [|x r IH]; simpl; [tauto|].
  pose proof (countb_nonneg f r). destruct (f x); simpl.
  - split; [lia | discriminate].
  - rewrite <- IH. split; lia.
Qed.

Lemma option_eqb_Z_eq (a b : option Z) : option_eqb Z.eqb a b = true -> a = b.
Proof. destruct a, b; simpl; try discriminate; auto. intros E. apply Z.eqb_eq in E. subst. reflexivity. Qed.

Lemma option_eqb_bool_eq (a b : option bool) : option_eqb Bool.eqb a b = true -> a = b.
Proof. destruct a, b; simpl; try discriminate; auto. intros E. apply eqb_prop in E. subst. reflexivity. Qed.

Lemma option_eqb_Z_refl (a : option Z) : option_eqb Z.eqb a a = true.
Proof. destruct a; simpl; auto. apply Z.eqb_refl. Qed.

Lemma option_eqb_bool_refl (a : option bool) : option_eqb Bool.eqb a a = true.
Proof. destruct a; simpl; auto. apply eqb_reflx. Qed.

(* ------------------------------------------------------------------------------------------------
   1. kekule_rel preserves the molecule
   ------------------------------------------------------------------------------------------------ *)
Definition core4 (a : atom) : Z * option Z * Z * bool := (a_num a, a_iso a, a_chg a, a_rad a).

Lemma atom_core_eqb_eq a b : atom_core_eqb a b = true -> core4 a = core4 b.
Proof.
  unfold atom_core_eqb, core4. intros E.
  apply andb_true_iff in E. destruct E as [E E4].
  apply andb_true_iff in E. destruct E as [E E3].
  apply andb_true_iff in E. destruct E as [E1 E2].
  apply Z.eqb_eq in E1. apply option_eqb_Z_eq in E2. apply Z.eqb_eq in E3. apply eqb_prop in E4.
  congruence.
Qed.

Lemma atom_core_eqb_refl a : atom_core_eqb a a = true.
Proof. unfold atom_core_eqb. rewrite !Z.eqb_refl, option_eqb_Z_refl, eqb_reflx. reflexivity. Qed.

Lemma atom_core_eqb_sym a b : atom_core_eqb a b = true -> atom_core_eqb b a = true.
Proof.
  intros E. apply atom_core_eqb_eq in E. unfold core4 in E. injection E as E1 E2 E3 E4.
  unfold atom_core_eqb. rewrite E1, E2, E3, E4. apply atom_core_eqb_refl.
Qed.

Lemma kr_atoms_core g g' : kr_atoms g g' = true -> core_of g = core_of g'.
Proof.
  unfold kr_atoms, core_of. apply forallb2_map. intros x y E.
  apply andb_true_iff in E. destruct E as [E _]. apply andb_true_iff in E. destruct E as [E1 E2].
  apply Z.eqb_eq in E1. apply atom_core_eqb_eq in E2. unfold core4 in E2. injection E2 as A1 A2 A3 A4.
  rewrite E1, A1, A2, A3, A4. reflexivity.
Qed.

Lemma kr_atoms_stereo g g' : kr_atoms g g' = true ->
  map (fun x => a_stereo (snd x)) (m_atoms g) = map (fun x => a_stereo (snd x)) (m_atoms g').
Proof.
  unfold kr_atoms. apply forallb2_map. intros x y E.
  apply andb_true_iff in E. destruct E as [_ E]. apply option_eqb_bool_eq in E. exact E.
Qed.

Lemma core_ids g g' : core_of g = core_of g' -> ids g = ids g'.
Proof.
  unfold core_of, ids, keys. intros E.
  apply (f_equal (map fst)) in E. rewrite !map_map in E. simpl in E. exact E.
Qed.

Lemma core_total_charge g g' : core_of g = core_of g' -> total_charge g = total_charge g'.
Proof.
  unfold core_of, total_charge. intros E.
  apply (map_fold_sum (fun x => a_chg (snd x)) (fun x => a_chg (snd x))).
  apply (f_equal (map (fun c : Z * (Z * option Z * Z * bool) => snd (fst (snd c))))) in E.
  rewrite !map_map in E. simpl in E. exact E.
Qed.

Lemma core_radical_count g g' : core_of g = core_of g' -> radical_count g = radical_count g'.
Proof.
  unfold core_of, radical_count. intros E. apply map_countb.
  apply (f_equal (map (fun c : Z * (Z * option Z * Z * bool) => snd (snd c)))) in E.
  rewrite !map_map in E. simpl in E. exact E.
Qed.

Lemma core_element_count g g' z : core_of g = core_of g' -> element_count z g = element_count z g'.
Proof.
  unfold core_of, element_count. intros E. apply map_countb.
  apply (f_equal (map (fun c : Z * (Z * option Z * Z * bool) => fst (fst (fst (snd c))) =? z))) in E.
  rewrite !map_map in E. simpl in E. exact E.
Qed.

Lemma nbl_step_keys l l' : nbl_step l l' = true -> keys l = keys l'.
Proof.
  unfold nbl_step, keys. apply forallb2_map. intros p q E.
  apply andb_true_iff in E. destruct E as [E _]. apply Z.eqb_eq in E. exact E.
Qed.

Lemma kr_bonds_graph g g' : kr_bonds g g' = true -> graph_of g = graph_of g'.
Proof.
  unfold kr_bonds, graph_of. apply forallb2_map. intros x y E.
  apply andb_true_iff in E. destruct E as [E1 E2]. apply Z.eqb_eq in E1. apply nbl_step_keys in E2.
  rewrite E1, E2. reflexivity.
Qed.

Lemma core_split g g' : kekule_rel_core g g' = true -> kr_atoms g g' = true /\ kr_bonds g g' = true /\ kr_classes g g' = true.
Proof.
  unfold kekule_rel_core. intros E. apply andb_true_iff in E. destruct E as [E E3].
  apply andb_true_iff in E. destruct E as [E1 E2]. auto.
Qed.

(* same atoms with the same element / isotope / charge / radical state / stereo label, same skeleton with the same neighbour
   order, hence the same heavy-atom formula, total charge and number of radical centres *)
Theorem kekule_rel_preserves : forall g g', kekule_rel_core g g' = true ->
  ids g = ids g' /\ core_of g = core_of g' /\ graph_of g = graph_of g' /\
  map (fun x => a_stereo (snd x)) (m_atoms g) = map (fun x => a_stereo (snd x)) (m_atoms g') /\
  total_charge g = total_charge g' /\ radical_count g = radical_count g' /\
  (forall z, element_count z g = element_count z g').
Proof.
  intros g g' E. apply core_split in E. destruct E as [Ea [Eb _]].
  pose proof (kr_atoms_core _ _ Ea) as C.
  repeat split.
  - apply core_ids, C.
  - exact C.
  - apply kr_bonds_graph, Eb.
  - apply kr_atoms_stereo, Ea.
  - apply core_total_charge, C.
  - apply core_radical_count, C.
  - intros z. apply core_element_count, C.
Qed.

(* hydrogens: a count that was known is kept, atom by atom; when all were known the total (hence the formula) is kept *)
Lemma h_kept_lookup : forall (l l' : list (Z * atom)),
  forallb2 (fun x y => (fst x =? fst y) && h_kept (snd x) (snd y)) l l' = true ->
  forall n a h, zget l n = Some a -> a_h a = Some h -> exists a', zget l' n = Some a' /\ a_h a' = Some h.
Proof.
  intros l. induction l as [|[k a0] r IH]; intros [|[k' b0] s] E n a h Hg Hh; simpl in *; try discriminate.
  apply andb_true_iff in E. destruct E as [E1 E2]. apply andb_true_iff in E1. destruct E1 as [Ek Eh].
  apply Z.eqb_eq in Ek. subst k'. destruct (n =? k) eqn:Enk.
  - injection Hg as Hg. subst a0. exists b0. split; auto.
    unfold h_kept in Eh. rewrite Hh in Eh. apply option_eqb_Z_eq in Eh. exact Eh.
  - eapply IH; eauto.
Qed.

Lemma kr_keys_h g g' : kr_atoms g g' = true -> kr_h g g' = true ->
  forallb2 (fun x y => (fst x =? fst y) && h_kept (snd x) (snd y)) (m_atoms g) (m_atoms g') = true.
Proof.
  unfold kr_atoms, kr_h. intros A H.
  pose proof (forallb2_and _ _ _ _ A H) as AH. revert AH. apply forallb2_weaken.
  intros x y E. apply andb_true_iff in E. destruct E as [E1 E2].
  apply andb_true_iff in E1. destruct E1 as [E1 _]. apply andb_true_iff in E1. destruct E1 as [E1 _].
  rewrite E1, E2. reflexivity.
Qed.

Lemma all_known_h_map : forall (l l' : list (Z * atom)),
  forallb (fun x => h_known (snd x)) l = true ->
  forallb2 (fun x y => h_kept (snd x) (snd y)) l l' = true ->
  map (fun x => a_h (snd x)) l = map (fun x => a_h (snd x)) l'.
Proof.
  intros l. induction l as [|x r IH]; intros [|y s] K E; simpl in *; try discriminate; auto.
  apply andb_true_iff in E. apply andb_true_iff in K. destruct E as [E1 E2], K as [K1 K2].
  f_equal; [|apply IH; auto].
  unfold h_known in K1. unfold h_kept in E1. destruct (a_h (snd x)); try discriminate.
  apply option_eqb_Z_eq in E1. symmetry. exact E1.
Qed.

Theorem kekule_rel_hydrogens : forall g g', kekule_rel_core g g' = true -> kr_h g g' = true ->
  (forall n a h, atom_of g n = Some a -> a_h a = Some h -> exists a', atom_of g' n = Some a' /\ a_h a' = Some h) /\
  (all_h_known g = true -> total_h g = total_h g' /\ all_h_known g' = true).
Proof.
  intros g g' E H. apply core_split in E. destruct E as [Ea _]. split.
  - unfold atom_of. apply h_kept_lookup. apply kr_keys_h; assumption.
  - intros K. unfold all_h_known in K. unfold kr_h in H.
    pose proof (all_known_h_map _ _ K H) as M. split.
    + unfold total_h.
      apply (map_fold_sum (fun x => match a_h (snd x) with Some h => h | None => 0 end)
                          (fun x => match a_h (snd x) with Some h => h | None => 0 end)).
      apply (f_equal (map (fun o : option Z => match o with Some h => h | None => 0 end))) in M.
      rewrite !map_map in M. exact M.
    + unfold all_h_known.
      assert (Q : map (fun x : Z * atom => h_known (snd x)) (m_atoms g) = map (fun x : Z * atom => h_known (snd x)) (m_atoms g')).
      { apply (f_equal (map (fun o : option Z => match o with Some _ => true | None => false end))) in M.
        rewrite !map_map in M. exact M. }
      clear - K Q. revert Q K. generalize (m_atoms g') as l'. generalize (m_atoms g) as l.
      induction l as [|x r IH]; intros [|y s] Q K; simpl in *; try discriminate; auto.
      injection Q as Q1 Q2. apply andb_true_iff in K. destruct K as [K1 K2].
      rewrite <- Q1, K1. simpl. apply (IH _ Q2 K2).
Qed.

(* ------------------------------------------------------------------------------------------------
   2. an accepted Kekule form has no aromatic bond, known hydrogens on the former ring atoms,
      at most one new double bond per atom
   ------------------------------------------------------------------------------------------------ *)
Lemma bond_step_not4 b b' : bond_step b b' = true -> (b_ord b' =? 4) = false.
Proof.
  unfold bond_step. intros E. apply andb_true_iff in E. destruct E as [_ E].
  destruct (b_ord b =? 4) eqn:E4.
  - apply orb_true_iff in E. destruct E as [E|E]; apply Z.eqb_eq in E; rewrite E; reflexivity.
  - apply Z.eqb_eq in E. rewrite E. exact E4.
Qed.

Lemma nbl_step_no4 l l' : nbl_step l l' = true -> arom_deg l' = 0.
Proof.
  intros E. unfold arom_deg. apply countb_zero. revert E. unfold nbl_step. apply forallb2_forallb_r.
  intros p q E. apply andb_true_iff in E. destruct E as [_ E]. apply bond_step_not4 in E.
  unfold ord_is. rewrite E. reflexivity.
Qed.

Lemma kr_bonds_no_arom g g' : kr_bonds g g' = true -> no_arom g' = true.
Proof.
  unfold kr_bonds, no_arom. apply forallb2_forallb_r. intros x y E.
  apply andb_true_iff in E. destruct E as [_ E]. apply nbl_step_no4 in E. rewrite E. reflexivity.
Qed.

Lemma moved_le_count o o' : forall l l', 0 <= moved o o' l l' <= countb (ord_is o) l.
Proof.
  intros l. induction l as [|x r IH]; intros [|y s]; simpl.
  - lia.
  - lia.
  - pose proof (countb_nonneg (ord_is o) r). destruct (ord_is o x); lia.
  - specialize (IH s). destruct (ord_is o x); simpl; [destruct (ord_is o' y)|]; lia.
Qed.

Lemma dbl_ok_le1 c nd : dbl_ok c nd = true -> 0 <= nd <= 1.
Proof.
  unfold dbl_ok. destruct (dclass_of c); intros E.
  - apply Z.eqb_eq in E. lia.
  - apply Z.eqb_eq in E. lia.
  - apply orb_true_iff in E. destruct E as [E|E]; apply Z.eqb_eq in E; lia.
Qed.

Lemma kr_classes_le1 g g' : kr_classes g g' = true ->
  forallb2 (fun x y => new_doubles (snd x) (snd y) <=? 1) (m_adj g) (m_adj g') = true.
Proof.
  unfold kr_classes. apply forallb2_weaken. intros x y E. apply Z.leb_le.
  destruct (arom_deg (snd x) =? 0) eqn:E0.
  - apply Z.eqb_eq in E0. unfold new_doubles, arom_deg in *.
    pose proof (moved_le_count 4 2 (snd x) (snd y)). lia.
  - destruct (atom_class g (fst x) (snd x)); try discriminate. apply dbl_ok_le1 in E. lia.
Qed.

Theorem kekule_rel_valid : forall g g', kekule_rel_core g g' = true ->
  no_arom g' = true /\
  forallb2 (fun x y => new_doubles (snd x) (snd y) <=? 1) (m_adj g) (m_adj g') = true /\
  (kr_valence g g' = true ->
   forall n l, In (n, l) (m_adj g) -> arom_deg l <> 0 -> exists a', atom_of g' n = Some a' /\ h_known a' = true).
Proof.
  intros g g' E. apply core_split in E. destruct E as [_ [Eb Ec]]. repeat split.
  - apply kr_bonds_no_arom with g. exact Eb.
  - apply kr_classes_le1. exact Ec.
  - unfold kr_valence. intros V n l I D. rewrite forallb_forall in V. specialize (V _ I). simpl in V.
    destruct (arom_deg l =? 0) eqn:E0; [apply Z.eqb_eq in E0; contradiction|].
    destruct (atom_of g' n) as [a'|]; try discriminate. exists a'. auto.
Qed.

(* ------------------------------------------------------------------------------------------------
   3. idempotence: nothing can be done to a molecule without aromatic bonds
   ------------------------------------------------------------------------------------------------ *)
Lemma no_arom_nbl l : arom_deg l = 0 -> forallb (fun p => negb (ord_is 4 p)) l = true.
Proof. unfold arom_deg. apply countb_zero. Qed.

Lemma no_arom_adj g : no_arom g = true -> forallb (fun x => forallb (fun p => negb (ord_is 4 p)) (snd x)) (m_adj g) = true.
Proof.
  unfold no_arom. intros H. rewrite forallb_forall in *. intros x I. specialize (H x I).
  apply Z.eqb_eq in H. apply no_arom_nbl. exact H.
Qed.

(* spec level: every accepted "Kekule form" of a molecule without aromatic bonds has exactly the same bond orders *)
Theorem kekule_rel_noarom_same : forall g g', no_arom g = true -> kekule_rel_core g g' = true -> same_orders g g' = true.
Proof.
  intros g g' N E. apply core_split in E. destruct E as [_ [Eb _]].
  apply no_arom_adj in N. unfold kr_bonds in Eb. unfold same_orders.
  revert Eb. apply forallb2_with_forallb with (p := fun x => forallb (fun p => negb (ord_is 4 p)) (snd x)); [|exact N].
  intros x y P E. apply andb_true_iff in E. destruct E as [E1 E2]. rewrite E1. simpl.
  revert E2. unfold nbl_step. apply forallb2_with_forallb with (p := fun p => negb (ord_is 4 p)); [|exact P].
  intros p q P4 E. apply andb_true_iff in E. destruct E as [Ek Es]. rewrite Ek. simpl.
  unfold bond_step in Es. apply andb_true_iff in Es. destruct Es as [_ Es].
  unfold ord_is in P4. destruct (b_ord (snd p) =? 4); [discriminate|].
  rewrite Z.eqb_sym. exact Es.
Qed.

Lemma h_kept_refl a : h_kept a a = true.
Proof. unfold h_kept. destruct (a_h a) eqn:E; auto. simpl. apply Z.eqb_refl. Qed.

(* ... and the molecule itself is accepted: the relation is reflexive exactly there *)
Theorem kekule_rel_refl : forall g, no_arom g = true -> kekule_rel g g = true.
Proof.
  intros g N. unfold kekule_rel, kekule_rel_noh, kekule_rel_core.
  assert (A : kr_atoms g g = true).
  { unfold kr_atoms. apply forallb2_refl with (p := fun _ => true); [|apply forallb_true].
    intros x _. rewrite Z.eqb_refl, atom_core_eqb_refl, option_eqb_bool_refl. reflexivity. }
  assert (B : kr_bonds g g = true).
  { unfold kr_bonds. apply forallb2_refl with (p := fun x => forallb (fun p => negb (ord_is 4 p)) (snd x)); [|apply no_arom_adj, N].
    intros x P. rewrite Z.eqb_refl. simpl. unfold nbl_step.
    apply forallb2_refl with (p := fun p => negb (ord_is 4 p)); [|exact P].
    intros p P4. rewrite Z.eqb_refl. simpl. unfold bond_step. rewrite option_eqb_bool_refl. simpl.
    unfold ord_is in P4. destruct (b_ord (snd p) =? 4); [discriminate|]. apply Z.eqb_refl. }
  assert (C : kr_classes g g = true).
  { unfold kr_classes. unfold no_arom in N. apply forallb2_refl with (p := fun x => arom_deg (snd x) =? 0); [|exact N].
    intros x P. rewrite P. reflexivity. }
  assert (V : kr_valence g g = true).
  { unfold kr_valence. unfold no_arom in N. rewrite forallb_forall in *. intros x I. rewrite (N x I). reflexivity. }
  assert (H : kr_h g g = true).
  { unfold kr_h. apply forallb2_refl with (p := fun _ => true); [|apply forallb_true]. intros x _. apply h_kept_refl. }
  rewrite A, B, C, V, H. reflexivity.
Qed.

(* algorithm level: the driver model returns a molecule without aromatic bonds unchanged and reports "nothing found",
   whatever the ring set, the search and the hydrogen oracle are *)
Lemma filter_nil_countb {A : Type} (f : A -> bool) (l : list A) : countb f l = 0 -> filter f l = [].
Proof.
  intros H. apply countb_zero in H. induction l as [|x r IH]; simpl in *; auto.
  apply andb_true_iff in H. destruct H as [H1 H2]. destruct (f x); [discriminate|]. auto.
Qed.

Lemma scan_ord4_nil g : no_arom g = true -> scan_ord g 4 = [].
Proof.
  unfold no_arom, scan_ord. induction (m_adj g) as [|x r IH]; simpl; auto.
  intros H. apply andb_true_iff in H. destruct H as [H1 H2]. apply Z.eqb_eq in H1.
  unfold arom_deg in H1. rewrite (filter_nil_countb _ _ H1). simpl. auto.
Qed.

Lemma prepare_rings_no_arom g sssr : scan_ord g 4 = [] -> prepare_rings g sssr = Ok (mkPrep [] [] [] []).
Proof. intros H. unfold prepare_rings. rewrite H. reflexivity. Qed.

Theorem kekule_noop : forall g sssr search calc, no_arom g = true -> kekule_driver g sssr search calc = Ok (g, false).
Proof.
  intros g sssr search calc N. unfold kekule_driver.
  rewrite (prepare_rings_no_arom g sssr (scan_ord4_nil g N)). simpl. destruct g; reflexivity.
Qed.

(* ------------------------------------------------------------------------------------------------
   4. whatever the heuristic search returns, the driver cannot change atoms, charges, radicals or connectivity
   ------------------------------------------------------------------------------------------------ *)
Lemma keys_set_ord_nbl l m o : keys (set_ord_nbl l m o) = keys l.
Proof.
  unfold keys, set_ord_nbl. rewrite map_map. apply map_ext. intros mb. destruct (fst mb =? m); reflexivity.
Qed.

Lemma set_order_core g n m o : core_of (set_order g n m o) = core_of g.
Proof. reflexivity. Qed.

Lemma set_order_graph g n m o : graph_of (set_order g n m o) = graph_of g.
Proof.
  unfold graph_of, set_order. simpl. rewrite map_map. apply map_ext. intros nl.
  destruct (fst nl =? n); [|destruct (fst nl =? m)]; simpl; try rewrite keys_set_ord_nbl; reflexivity.
Qed.

Lemma apply_form_core form : forall g, core_of (apply_form g form) = core_of g /\ graph_of (apply_form g form) = graph_of g.
Proof.
  unfold apply_form. induction form as [|[[n m] o] r IH]; intros g; simpl; auto.
  destruct (IH (set_order g n m o)) as [A B]. rewrite A, B, set_order_graph. split; reflexivity.
Qed.

Lemma set_h_core g n h : core_of (set_h g n h) = core_of g /\ graph_of (set_h g n h) = graph_of g.
Proof.
  split; [|reflexivity]. unfold core_of, set_h. simpl. rewrite map_map. apply map_ext. intros na.
  destruct (fst na =? n); reflexivity.
Qed.

Lemma set_h_loop_core (calc : mol -> Z -> option Z) ns : forall g,
  core_of (fold_left (fun gg n => set_h gg n (calc gg n)) ns g) = core_of g /\
  graph_of (fold_left (fun gg n => set_h gg n (calc gg n)) ns g) = graph_of g.
Proof.
  induction ns as [|n r IH]; intros g; simpl; auto.
  destruct (IH (set_h g n (calc g n))) as [A B]. destruct (set_h_core g n (calc g n)) as [C D].
  rewrite A, B, C, D. split; reflexivity.
Qed.

Theorem kekule_driver_preserves : forall g sssr search calc g' r,
  kekule_driver g sssr search calc = Ok (g', r) ->
  ids g' = ids g /\ core_of g' = core_of g /\ graph_of g' = graph_of g /\
  total_charge g' = total_charge g /\ radical_count g' = radical_count g /\ (forall z, element_count z g' = element_count z g).
Proof.
  intros g sssr search calc g' r E.
  assert (CG : core_of g' = core_of g /\ graph_of g' = graph_of g).
  { unfold kekule_driver in E. destruct (prepare_rings g sssr) as [p|]; [|discriminate].
    pose proof (apply_form_core (map (fun nm => (fst nm, snd nm, 1)) (r_singled p)) g) as P1.
    destruct (r_rings p).
    - injection E as E _. subst g'. exact P1.
    - destruct (search _ _ _) as [[[|x form]|]|]; try discriminate.
      + injection E as E _. subst g'. exact P1.
      + injection E as E _. subst g'.
        destruct (set_h_loop_core calc (form_atoms (x :: form))
                    (apply_form (apply_form g (map (fun nm => (fst nm, snd nm, 1)) (r_singled p))) (x :: form))) as [A B].
        destruct (apply_form_core (x :: form) (apply_form g (map (fun nm => (fst nm, snd nm, 1)) (r_singled p)))) as [C D].
        destruct P1 as [P1 P2]. rewrite A, B, C, D, P1, P2. split; reflexivity.
      + injection E as E _. subst g'. exact P1. }
  destruct CG as [C G]. repeat split; auto.
  - apply core_ids, C.
  - apply core_total_charge, C.
  - apply core_radical_count, C.
  - intros z. apply core_element_count, C.
Qed.

(* ------------------------------------------------------------------------------------------------
   5. thiele_rel preserves the molecule; an accepted Kekule step is undone by an accepted Thiele step
   ------------------------------------------------------------------------------------------------ *)
Lemma tr_atoms_core g g' : tr_atoms g g' = true -> core_of g = core_of g'.
Proof.
  unfold tr_atoms, core_of. apply forallb2_map. intros x y E.
  apply andb_true_iff in E. destruct E as [E _]. apply andb_true_iff in E. destruct E as [E1 E2].
  apply Z.eqb_eq in E1. apply atom_core_eqb_eq in E2. unfold core4 in E2. injection E2 as A1 A2 A3 A4.
  rewrite E1, A1, A2, A3, A4. reflexivity.
Qed.

Lemma tr_bonds_graph g g' : tr_bonds g g' = true -> graph_of g = graph_of g'.
Proof.
  unfold tr_bonds, graph_of. apply forallb2_map. intros x y E.
  apply andb_true_iff in E. destruct E as [E1 E2]. apply Z.eqb_eq in E1.
  assert (K : keys (snd x) = keys (snd y)).
  { revert E2. unfold th_nbl_step, keys. apply forallb2_map. intros p q E.
    apply andb_true_iff in E. destruct E as [E _]. apply Z.eqb_eq in E. exact E. }
  rewrite E1, K. reflexivity.
Qed.

Theorem thiele_rel_preserves : forall g g', thiele_rel_noh g g' = true ->
  ids g = ids g' /\ core_of g = core_of g' /\ graph_of g = graph_of g' /\
  total_charge g = total_charge g' /\ radical_count g = radical_count g' /\
  (forall z, element_count z g = element_count z g') /\
  (tr_h g g' = true -> map (fun x => a_h (snd x)) (m_atoms g) = map (fun x => a_h (snd x)) (m_atoms g')).
Proof.
  intros g g' E. unfold thiele_rel_noh in E. apply andb_true_iff in E. destruct E as [E _].
  apply andb_true_iff in E. destruct E as [Ea Eb].
  pose proof (tr_atoms_core _ _ Ea) as C. repeat split.
  - apply core_ids, C.
  - exact C.
  - apply tr_bonds_graph, Eb.
  - apply core_total_charge, C.
  - apply core_radical_count, C.
  - intros z. apply core_element_count, C.
  - unfold tr_h. apply forallb2_map. intros x y H. apply option_eqb_Z_eq in H. exact H.
Qed.

Lemma stereo_kept_refl s : stereo_kept_or_dropped s s = true.
Proof. destruct s; simpl; auto. apply eqb_reflx. Qed.

Lemma moved_swap o o' : forall l l', moved o o' l l' = moved o' o l' l.
Proof.
  intros l. induction l as [|x r IH]; intros [|y s]; simpl; auto.
  rewrite (IH s), andb_comm. reflexivity.
Qed.

Theorem kekule_thiele_inverse : forall g k, kekule_rel_core g k = true -> thiele_rel_noh k g = true.
Proof.
  intros g k E. pose proof (kekule_rel_valid _ _ E) as [_ [L _]].
  apply core_split in E. destruct E as [Ea [Eb _]].
  unfold thiele_rel_noh. apply andb_true_iff. split; [apply andb_true_iff; split|].
  - revert Ea. unfold kr_atoms, tr_atoms. apply forallb2_swap. intros x y E.
    apply andb_true_iff in E. destruct E as [E E3]. apply andb_true_iff in E. destruct E as [E1 E2].
    apply Z.eqb_eq in E1. apply option_eqb_bool_eq in E3.
    rewrite E1, Z.eqb_refl, (atom_core_eqb_sym _ _ E2), E3, stereo_kept_refl. reflexivity.
  - revert Eb. unfold kr_bonds, tr_bonds. apply forallb2_swap. intros x y E.
    apply andb_true_iff in E. destruct E as [E1 E2]. apply Z.eqb_eq in E1. rewrite E1, Z.eqb_refl. simpl.
    revert E2. unfold nbl_step, th_nbl_step. apply forallb2_swap. intros p q E.
    apply andb_true_iff in E. destruct E as [Ek Es]. apply Z.eqb_eq in Ek. rewrite Ek, Z.eqb_refl. simpl.
    unfold bond_step in Es. unfold th_bond_step. apply andb_true_iff in Es. destruct Es as [S O].
    apply option_eqb_bool_eq in S. rewrite S, stereo_kept_refl. simpl.
    destruct (b_ord (snd p) =? 4) eqn:E4.
    + rewrite O. simpl. apply orb_true_r.
    + apply Z.eqb_eq in O. rewrite O, Z.eqb_refl. reflexivity.
  - revert L. unfold tr_doubles. apply forallb2_swap. intros x y E.
    unfold old_doubles. unfold new_doubles in E. rewrite moved_swap. exact E.
Qed.
