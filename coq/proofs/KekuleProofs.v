(* C05 -- proofs about the Kekule / Thiele specification (model/Kekule.v): what every output accepted by the checkers
   kekule_rel / thiele_rel satisfies, idempotence at the level of the specification and of the driver model, what the
   driver model can never change whatever the (unmodelled, heuristic) search returns. *)
From Coq Require Import ZArith List Bool Lia.
From Model Require Import PyBase Graph Kekule.
Import ListNotations.
Open Scope Z_scope.

(* ------------------------------------------------------------------------------------------------
   generic list facts
   ------------------------------------------------------------------------------------------------ *)
Lemma forallb2_map {A B C : Type} (f : A -> B -> bool) (p : A -> C) (q : B -> C) :
  (forall x y, f x y = true -> p x = q y) ->
  forall l l', forallb2 f l l' = true -> map p l = map q l'.
Proof.
  intros H l. induction l as [|x r IH]; intros [|y s] E; simpl in *; try discriminate; auto.
  apply andb_true_iff in E. destruct E as [E1 E2]. f_equal; auto.
Qed.

Lemma forallb2_weaken {A B : Type} (f g : A -> B -> bool) :
  (forall x y, f x y = true -> g x y = true) ->
  forall l l', forallb2 f l l' = true -> forallb2 g l l' = true.
Proof.
  intros H l. induction l as [|x r IH]; intros [|y s] E; simpl in *; try discriminate; auto.
  apply andb_true_iff in E. destruct E as [E1 E2]. rewrite (H _ _ E1), (IH _ E2). reflexivity.
Qed.

Lemma forallb2_swap {A B : Type} (f : A -> B -> bool) (g : B -> A -> bool) :
  (forall x y, f x y = true -> g y x = true) ->
  forall l l', forallb2 f l l' = true -> forallb2 g l' l = true.
Proof.
  intros H l. induction l as [|x r IH]; intros [|y s] E; simpl in *; try discriminate; auto.
  apply andb_true_iff in E. destruct E as [E1 E2]. rewrite (H _ _ E1), (IH _ E2). reflexivity.
Qed.

Lemma forallb2_and {A B : Type} (f g : A -> B -> bool) :
  forall l l', forallb2 f l l' = true -> forallb2 g l l' = true -> forallb2 (fun x y => f x y && g x y) l l' = true.
Proof.
  intros l. induction l as [|x r IH]; intros [|y s] E1 E2; simpl in *; try discriminate; auto.
  apply andb_true_iff in E1. apply andb_true_iff in E2. destruct E1 as [a b], E2 as [c d].
  rewrite a, c, (IH _ b d). reflexivity.
Qed.

Lemma forallb2_forallb_r {A B : Type} (f : A -> B -> bool) (p : B -> bool) :
  (forall x y, f x y = true -> p y = true) ->
  forall l l', forallb2 f l l' = true -> forallb p l' = true.
Proof.
  intros H l. induction l as [|x r IH]; intros [|y s] E; simpl in *; try discriminate; auto.
  apply andb_true_iff in E. destruct E as [E1 E2]. rewrite (H _ _ E1), (IH _ E2). reflexivity.
Qed.

(* forallb2 with a side condition known for every element of the left list *)
Lemma forallb2_with_forallb {A B : Type} (f g : A -> B -> bool) (p : A -> bool) :
  (forall x y, p x = true -> f x y = true -> g x y = true) ->
  forall l l', forallb p l = true -> forallb2 f l l' = true -> forallb2 g l l' = true.
Proof.
  intros H l. induction l as [|x r IH]; intros [|y s] P E; simpl in *; try discriminate; auto.
  apply andb_true_iff in E. apply andb_true_iff in P. destruct E as [E1 E2], P as [P1 P2].
  rewrite (H _ _ P1 E1), (IH _ P2 E2). reflexivity.
Qed.

Lemma forallb2_refl {A : Type} (f : A -> A -> bool) (p : A -> bool) :
  (forall x, p x = true -> f x x = true) -> forall l, forallb p l = true -> forallb2 f l l = true.
Proof.
  intros H l. induction l as [|x r IH]; intros P; simpl in *; auto.
  apply andb_true_iff in P. destruct P as [P1 P2]. rewrite (H _ P1), (IH P2). reflexivity.
Qed.

Lemma forallb_true {A : Type} (l : list A) : forallb (fun _ => true) l = true.
Proof. induction l; simpl; auto. Qed.

Lemma map_fold_sum {A B : Type} (p : A -> Z) (q : B -> Z) :
  forall l l', map p l = map q l' ->
  fold_right (fun x s => p x + s) 0 l = fold_right (fun y s => q y + s) 0 l'.
Proof.
  intros l. induction l as [|x r IH]; intros [|y s] E; simpl in *; try discriminate; auto.
  injection E as E1 E2. rewrite E1, (IH _ E2). reflexivity.
Qed.

Lemma map_countb {A B : Type} (p : A -> bool) (q : B -> bool) :
  forall l l', map p l = map q l' -> countb p l = countb q l'.
Proof.
  intros l. induction l as [|x r IH]; intros [|y s] E; simpl in *; try discriminate; auto.
  injection E as E1 E2. rewrite E1, (IH _ E2). reflexivity.
Qed.

Lemma countb_nonneg {A : Type} (f : A -> bool) (l : list A) : 0 <= countb f l.
Proof. induction l as [|x r IH]; simpl; [lia | destruct (f x); lia]. Qed.

Lemma countb_zero {A : Type} (f : A -> bool) (l : list A) : countb f l = 0 <-> forallb (fun x => negb (f x)) l = true.
Proof.
  induction l as [|x r IH]; [simpl; tauto|]. cbn [countb forallb].
  pose proof (countb_nonneg f r). destruct (f x); cbn [negb andb].
  - split; [intros; exfalso; lia | discriminate].
  - rewrite <- IH. split; lia.
Qed.

Lemma option_eqb_Z_eq (a b : option Z) : option_eqb Z.eqb a b = true -> a = b.
Proof. destruct a, b; simpl; try discriminate; auto. intros E. apply Z.eqb_eq in E. subst. reflexivity. Qed.

Lemma option_eqb_bool_eq (a b : option bool) : option_eqb Bool.eqb a b = true -> a = b.
Proof. destruct a, b; simpl; try discriminate; auto. intros E. apply eqb_prop in E. subst. reflexivity. Qed.

Lemma option_eqb_Z_refl (a : option Z) : option_eqb Z.eqb a a = true.
Proof. destruct a; simpl; auto. apply Z.eqb_refl. Qed.

Lemma option_eqb_bool_refl (a : option bool) : option_eqb Bool.eqb a a = true.
Proof. destruct a; simpl; auto. apply eqb_reflx. Qed.

(* ------------------------------------------------------------------------------------------------
   1. kekule_rel preserves the molecule
   ------------------------------------------------------------------------------------------------ *)
Definition core4 (a : atom) : Z * option Z * Z * bool := (a_num a, a_iso a, a_chg a, a_rad a).

Lemma atom_core_eqb_eq a b : atom_core_eqb a b = true -> core4 a = core4 b.
Proof.
  unfold atom_core_eqb, core4. intros E.
  apply andb_true_iff in E. destruct E as [E E4].
  apply andb_true_iff in E. destruct E as [E E3].
  apply andb_true_iff in E. destruct E as [E1 E2].
  apply Z.eqb_eq in E1. apply option_eqb_Z_eq in E2. apply Z.eqb_eq in E3. apply eqb_prop in E4.
  congruence.
Qed.

Lemma atom_core_eqb_refl a : atom_core_eqb a a = true.
Proof. unfold atom_core_eqb. rewrite !Z.eqb_refl, option_eqb_Z_refl, eqb_reflx. reflexivity. Qed.

Lemma atom_core_eqb_sym a b : atom_core_eqb a b = true -> atom_core_eqb b a = true.
Proof.
  intros E. apply atom_core_eqb_eq in E. unfold core4 in E. injection E as E1 E2 E3 E4.
  unfold atom_core_eqb. rewrite E1, E2, E3, E4. apply atom_core_eqb_refl.
Qed.

Lemma kr_atoms_core g g' : kr_atoms g g' = true -> core_of g = core_of g'.
Proof.
  unfold kr_atoms, core_of. apply forallb2_map. intros x y E.
  apply andb_true_iff in E. destruct E as [E _]. apply andb_true_iff in E. destruct E as [E1 E2].
  apply Z.eqb_eq in E1. apply atom_core_eqb_eq in E2. unfold core4 in E2. injection E2 as A1 A2 A3 A4.
  rewrite E1, A1, A2, A3, A4. reflexivity.
Qed.

Lemma kr_atoms_stereo g g' : kr_atoms g g' = true ->
  map (fun x => a_stereo (snd x)) (m_atoms g) = map (fun x => a_stereo (snd x)) (m_atoms g').
Proof.
  unfold kr_atoms. apply forallb2_map. intros x y E.
  apply andb_true_iff in E. destruct E as [_ E]. apply option_eqb_bool_eq in E. exact E.
Qed.

Lemma core_ids g g' : core_of g = core_of g' -> ids g = ids g'.
Proof.
  unfold core_of, ids, keys. intros E.
  apply (f_equal (map fst)) in E. rewrite !map_map in E. simpl in E. exact E.
Qed.

Lemma core_total_charge g g' : core_of g = core_of g' -> total_charge g = total_charge g'.
Proof.
  unfold core_of, total_charge. intros E.
  apply (map_fold_sum (fun x => a_chg (snd x)) (fun x => a_chg (snd x))).
  apply (f_equal (map (fun c : Z * (Z * option Z * Z * bool) => snd (fst (snd c))))) in E.
  rewrite !map_map in E. simpl in E. exact E.
Qed.

Lemma core_radical_count g g' : core_of g = core_of g' -> radical_count g = radical_count g'.
Proof.
  unfold core_of, radical_count. intros E. apply map_countb.
  apply (f_equal (map (fun c : Z * (Z * option Z * Z * bool) => snd (snd c)))) in E.
  rewrite !map_map in E. simpl in E. exact E.
Qed.

Lemma core_element_count g g' z : core_of g = core_of g' -> element_count z g = element_count z g'.
Proof.
  unfold core_of, element_count. intros E. apply map_countb.
  apply (f_equal (map (fun c : Z * (Z * option Z * Z * bool) => fst (fst (fst (snd c))) =? z))) in E.
  rewrite !map_map in E. simpl in E. exact E.
Qed.

Lemma nbl_step_keys l l' : nbl_step l l' = true -> keys l = keys l'.
Proof.
  unfold nbl_step, keys. apply forallb2_map. intros p q E.
  apply andb_true_iff in E. destruct E as [E _]. apply Z.eqb_eq in E. exact E.
Qed.

Lemma kr_bonds_graph g g' : kr_bonds g g' = true -> graph_of g = graph_of g'.
Proof.
  unfold kr_bonds, graph_of. apply forallb2_map. intros x y E.
  apply andb_true_iff in E. destruct E as [E1 E2]. apply Z.eqb_eq in E1. apply nbl_step_keys in E2.
  f_equal; assumption.
Qed.

Lemma core_split g g' : kekule_rel_core g g' = true -> kr_atoms g g' = true /\ kr_bonds g g' = true /\ kr_classes g g' = true.
Proof.
  unfold kekule_rel_core. intros E. apply andb_true_iff in E. destruct E as [E E3].
  apply andb_true_iff in E. destruct E as [E1 E2]. auto.
Qed.

(* same atoms with the same element / isotope / charge / radical state / stereo label, same skeleton with the same neighbour
   order, hence the same heavy-atom formula, total charge and number of radical centres *)
Theorem kekule_rel_preserves : forall g g', kekule_rel_core g g' = true ->
  ids g = ids g' /\ core_of g = core_of g' /\ graph_of g = graph_of g' /\
  map (fun x => a_stereo (snd x)) (m_atoms g) = map (fun x => a_stereo (snd x)) (m_atoms g') /\
  total_charge g = total_charge g' /\ radical_count g = radical_count g' /\
  (forall z, element_count z g = element_count z g').
Proof.
  intros g g' E. apply core_split in E. destruct E as [Ea [Eb _]].
  pose proof (kr_atoms_core _ _ Ea) as C.
  repeat split.
  - apply core_ids, C.
  - exact C.
  - apply kr_bonds_graph, Eb.
  - apply kr_atoms_stereo, Ea.
  - apply core_total_charge, C.
  - apply core_radical_count, C.
  - intros z. apply core_element_count, C.
Qed.

(* hydrogens: a count that was known is kept, atom by atom; when all were known the total (hence the formula) is kept *)
Lemma h_kept_lookup : forall (l l' : list (Z * atom)),
  forallb2 (fun x y => (fst x =? fst y) && h_kept (snd x) (snd y)) l l' = true ->
  forall n a h, zget l n = Some a -> a_h a = Some h -> exists a', zget l' n = Some a' /\ a_h a' = Some h.
Proof.
  intros l. induction l as [|[k a0] r IH]; intros [|[k' b0] s] E n a h Hg Hh; simpl in *; try discriminate.
  apply andb_true_iff in E. destruct E as [E1 E2]. apply andb_true_iff in E1. destruct E1 as [Ek Eh].
  apply Z.eqb_eq in Ek. subst k'. destruct (n =? k) eqn:Enk.
  - injection Hg as Hg. subst a0. exists b0. split; auto.
    unfold h_kept in Eh. rewrite Hh in Eh. apply option_eqb_Z_eq in Eh. exact Eh.
  - eapply IH; eauto.
Qed.

Lemma kr_keys_h g g' : kr_atoms g g' = true -> kr_h g g' = true ->
  forallb2 (fun x y => (fst x =? fst y) && h_kept (snd x) (snd y)) (m_atoms g) (m_atoms g') = true.
Proof.
  unfold kr_atoms, kr_h. intros A H.
  pose proof (forallb2_and _ _ _ _ A H) as AH. revert AH. apply forallb2_weaken.
  intros x y E. apply andb_true_iff in E. destruct E as [E1 E2].
  apply andb_true_iff in E1. destruct E1 as [E1 _]. apply andb_true_iff in E1. destruct E1 as [E1 _].
  rewrite E1, E2. reflexivity.
Qed.

Lemma all_known_h_map : forall (l l' : list (Z * atom)),
  forallb (fun x => h_known (snd x)) l = true ->
  forallb2 (fun x y => h_kept (snd x) (snd y)) l l' = true ->
  map (fun x => a_h (snd x)) l = map (fun x => a_h (snd x)) l'.
Proof.
  intros l. induction l as [|x r IH]; intros [|y s] K E; simpl in *; try discriminate; auto.
  apply andb_true_iff in E. apply andb_true_iff in K. destruct E as [E1 E2], K as [K1 K2].
  f_equal; [|apply IH; auto].
  unfold h_known in K1. unfold h_kept in E1. destruct (a_h (snd x)); try discriminate.
  apply option_eqb_Z_eq in E1. symmetry. exact E1.
Qed.

Theorem kekule_rel_hydrogens : forall g g', kekule_rel_core g g' = true -> kr_h g g' = true ->
  (forall n a h, atom_of g n = Some a -> a_h a = Some h -> exists a', atom_of g' n = Some a' /\ a_h a' = Some h) /\
  (all_h_known g = true -> total_h g = total_h g' /\ all_h_known g' = true).
Proof.
  intros g g' E H. apply core_split in E. destruct E as [Ea _]. split.
  - unfold atom_of. apply h_kept_lookup. apply kr_keys_h; assumption.
  - intros K. unfold all_h_known in K. unfold kr_h in H.
    pose proof (all_known_h_map _ _ K H) as M. split.
    + unfold total_h.
      apply (map_fold_sum (fun x => match a_h (snd x) with Some h => h | None => 0 end)
                          (fun x => match a_h (snd x) with Some h => h | None => 0 end)).
      apply (f_equal (map (fun o : option Z => match o with Some h => h | None => 0 end))) in M.
      rewrite !map_map in M. exact M.
    + unfold all_h_known.
      assert (Q : map (fun x : Z * atom => h_known (snd x)) (m_atoms g) = map (fun x : Z * atom => h_known (snd x)) (m_atoms g')).
      { apply (f_equal (map (fun o : option Z => match o with Some _ => true | None => false end))) in M.
        rewrite !map_map in M. exact M. }
      clear - K Q. revert Q K. generalize (m_atoms g') as l'. generalize (m_atoms g) as l.
      induction l as [|x r IH]; intros [|y s] Q K; simpl in *; try discriminate; auto.
      injection Q as Q1 Q2. apply andb_true_iff in K. destruct K as [K1 K2].
      rewrite <- Q1, K1. simpl. apply (IH _ Q2 K2).
Qed.

(* ------------------------------------------------------------------------------------------------
   2. an accepted Kekule form has no aromatic bond, known hydrogens on the former ring atoms,
      at most one new double bond per atom
   ------------------------------------------------------------------------------------------------ *)
Lemma bond_step_not4 b b' : bond_step b b' = true -> (b_ord b' =? 4) = false.
Proof.
  unfold bond_step. intros E. apply andb_true_iff in E. destruct E as [_ E].
  destruct (b_ord b =? 4) eqn:E4.
  - apply orb_true_iff in E. destruct E as [E|E]; apply Z.eqb_eq in E; rewrite E; reflexivity.
  - apply Z.eqb_eq in E. rewrite E. exact E4.
Qed.

Lemma nbl_step_no4 l l' : nbl_step l l' = true -> arom_deg l' = 0.
Proof.
  intros E. unfold arom_deg. apply countb_zero. revert E. unfold nbl_step. apply forallb2_forallb_r.
  intros p q E. apply andb_true_iff in E. destruct E as [_ E]. apply bond_step_not4 in E.
  unfold ord_is. rewrite E. reflexivity.
Qed.

Lemma kr_bonds_no_arom g g' : kr_bonds g g' = true -> no_arom g' = true.
Proof.
  unfold kr_bonds, no_arom. apply forallb2_forallb_r. intros x y E.
  apply andb_true_iff in E. destruct E as [_ E]. apply nbl_step_no4 in E. rewrite E. reflexivity.
Qed.

Lemma moved_le_count o o' : forall l l', 0 <= moved o o' l l' <= countb (ord_is o) l.
Proof.
  intros l. induction l as [|x r IH]; intros [|y s]; cbn [moved countb].
  - lia.
  - lia.
  - pose proof (countb_nonneg (ord_is o) r). destruct (ord_is o x); lia.
  - specialize (IH s). destruct (ord_is o x); cbn [andb]; [destruct (ord_is o' y)|]; lia.
Qed.

Lemma dbl_ok_le1 c nd : dbl_ok c nd = true -> 0 <= nd <= 1.
Proof.
  unfold dbl_ok. destruct (dclass_of c); intros E.
  - apply Z.eqb_eq in E. lia.
  - apply Z.eqb_eq in E. lia.
  - apply orb_true_iff in E. destruct E as [E|E]; apply Z.eqb_eq in E; lia.
Qed.

Lemma kr_classes_le1 g g' : kr_classes g g' = true ->
  forallb2 (fun x y => new_doubles (snd x) (snd y) <=? 1) (m_adj g) (m_adj g') = true.
Proof.
  unfold kr_classes. apply forallb2_weaken. intros x y E. apply Z.leb_le.
  destruct (arom_deg (snd x) =? 0) eqn:E0.
  - apply Z.eqb_eq in E0. unfold new_doubles, arom_deg in *.
    pose proof (moved_le_count 4 2 (snd x) (snd y)). lia.
  - destruct (atom_class g (fst x) (snd x)); try discriminate. apply dbl_ok_le1 in E. lia.
Qed.

Theorem kekule_rel_valid : forall g g', kekule_rel_core g g' = true ->
  no_arom g' = true /\
  forallb2 (fun x y => new_doubles (snd x) (snd y) <=? 1) (m_adj g) (m_adj g') = true /\
  (kr_valence g g' = true ->
   forall n l, In (n, l) (m_adj g) -> arom_deg l <> 0 -> exists a', atom_of g' n = Some a' /\ h_known a' = true).
Proof.
  intros g g' E. apply core_split in E. destruct E as [_ [Eb Ec]]. repeat split.
  - apply kr_bonds_no_arom with g. exact Eb.
  - apply kr_classes_le1. exact Ec.
  - unfold kr_valence. intros V n l I D. rewrite forallb_forall in V. specialize (V _ I). simpl in V.
    destruct (arom_deg l =? 0) eqn:E0; [apply Z.eqb_eq in E0; contradiction|].
    destruct (atom_of g' n) as [a'|]; try discriminate. exists a'. auto.
Qed.

(* ------------------------------------------------------------------------------------------------
   3. idempotence: nothing can be done to a molecule without aromatic bonds
   ------------------------------------------------------------------------------------------------ *)
Lemma no_arom_nbl l : arom_deg l = 0 -> forallb (fun p => negb (ord_is 4 p)) l = true.
Proof. unfold arom_deg. apply countb_zero. Qed.

Lemma no_arom_adj g : no_arom g = true -> forallb (fun x => forallb (fun p => negb (ord_is 4 p)) (snd x)) (m_adj g) = true.
Proof.
  unfold no_arom. intros H. rewrite forallb_forall in *. intros x I. specialize (H x I).
  apply Z.eqb_eq in H. apply no_arom_nbl. exact H.
Qed.

(* spec level: every accepted "Kekule form" of a molecule without aromatic bonds has exactly the same bond orders *)
Theorem kekule_rel_noarom_same : forall g g', no_arom g = true -> kekule_rel_core g g' = true -> same_orders g g' = true.
Proof.
  intros g g' N E. apply core_split in E. destruct E as [_ [Eb _]].
  apply no_arom_adj in N. unfold kr_bonds in Eb. unfold same_orders.
  revert Eb. apply forallb2_with_forallb with (p := fun x => forallb (fun p => negb (ord_is 4 p)) (snd x)); [|exact N].
  intros x y P E. apply andb_true_iff in E. destruct E as [E1 E2]. apply andb_true_iff. split; [exact E1|].
  revert E2. unfold nbl_step. apply forallb2_with_forallb with (p := fun p => negb (ord_is 4 p)); [|exact P].
  intros p q P4 E. apply andb_true_iff in E. destruct E as [Ek Es]. apply andb_true_iff. split; [exact Ek|].
  unfold bond_step in Es. apply andb_true_iff in Es. destruct Es as [_ Es].
  unfold ord_is in P4. destruct (b_ord (snd p) =? 4); [discriminate|].
  rewrite Z.eqb_sym. exact Es.
Qed.

Lemma h_kept_refl a : h_kept a a = true.
Proof. unfold h_kept. destruct (a_h a) eqn:E; auto. simpl. apply Z.eqb_refl. Qed.

(* ... and the molecule itself is accepted: the relation is reflexive exactly there *)
Theorem kekule_rel_refl : forall g, no_arom g = true -> kekule_rel g g = true.
Proof.
  intros g N. unfold kekule_rel, kekule_rel_noh, kekule_rel_core.
  assert (A : kr_atoms g g = true).
  { unfold kr_atoms. apply forallb2_refl with (p := fun _ => true); [|apply forallb_true].
    intros x _. rewrite Z.eqb_refl, atom_core_eqb_refl, option_eqb_bool_refl. reflexivity. }
  assert (B : kr_bonds g g = true).
  { unfold kr_bonds. apply forallb2_refl with (p := fun x => forallb (fun p => negb (ord_is 4 p)) (snd x)); [|apply no_arom_adj, N].
    intros x P. rewrite Z.eqb_refl. simpl. unfold nbl_step.
    apply forallb2_refl with (p := fun p => negb (ord_is 4 p)); [|exact P].
    intros p P4. rewrite Z.eqb_refl. simpl. unfold bond_step. rewrite option_eqb_bool_refl. simpl.
    unfold ord_is in P4. destruct (b_ord (snd p) =? 4); [discriminate|]. apply Z.eqb_refl. }
  assert (C : kr_classes g g = true).
  { unfold kr_classes. unfold no_arom in N. apply forallb2_refl with (p := fun x => arom_deg (snd x) =? 0); [|exact N].
    intros x P. rewrite P. reflexivity. }
  assert (V : kr_valence g g = true).
  { unfold kr_valence. unfold no_arom in N. rewrite forallb_forall in *. intros x I. rewrite (N x I). reflexivity. }
  assert (H : kr_h g g = true).
  { unfold kr_h. apply forallb2_refl with (p := fun _ => true); [|apply forallb_true]. intros x _. apply h_kept_refl. }
  rewrite A, B, C, V, H. reflexivity.
Qed.

(* algorithm level: the driver model returns a molecule without aromatic bonds unchanged and reports "nothing found",
   whatever the ring set, the search and the hydrogen oracle are *)
Lemma filter_nil_countb {A : Type} (f : A -> bool) (l : list A) : countb f l = 0 -> filter f l = [].
Proof.
  intros H. apply countb_zero in H. induction l as [|x r IH]; simpl in *; auto.
  apply andb_true_iff in H. destruct H as [H1 H2]. destruct (f x); [discriminate|]. auto.
Qed.

Lemma scan_ord4_nil g : no_arom g = true -> scan_ord g 4 = [].
Proof.
  unfold no_arom, scan_ord. induction (m_adj g) as [|[n l] r IH]; simpl; auto.
  intros H. apply andb_true_iff in H. destruct H as [H1 H2]. apply Z.eqb_eq in H1.
  unfold arom_deg in H1. rewrite (filter_nil_countb _ _ H1). simpl. auto.
Qed.

Lemma prepare_rings_no_arom g sssr : scan_ord g 4 = [] -> prepare_rings g sssr = Ok (mkPrep [] [] [] []).
Proof. intros H. unfold prepare_rings. rewrite H. reflexivity. Qed.

Theorem kekule_noop : forall g sssr search calc, no_arom g = true -> kekule_driver g sssr search calc = Ok (g, false).
Proof.
  intros g sssr search calc N. unfold kekule_driver.
  rewrite (prepare_rings_no_arom g sssr (scan_ord4_nil g N)). simpl. destruct g; reflexivity.
Qed.

(* ------------------------------------------------------------------------------------------------
   4. whatever the heuristic search returns, the driver cannot change atoms, charges, radicals or connectivity
   ------------------------------------------------------------------------------------------------ *)
Lemma keys_set_ord_nbl l m o : keys (set_ord_nbl l m o) = keys l.
Proof.
  unfold keys, set_ord_nbl. rewrite map_map. apply map_ext. intros [k b]. simpl. destruct (k =? m); reflexivity.
Qed.

Lemma set_order_core g n m o : core_of (set_order g n m o) = core_of g.
Proof. reflexivity. Qed.

Lemma set_order_graph g n m o : graph_of (set_order g n m o) = graph_of g.
Proof.
  unfold graph_of, set_order. simpl. rewrite map_map. apply map_ext. intros [k l]. simpl.
  destruct (k =? n); [|destruct (k =? m)]; simpl; try rewrite keys_set_ord_nbl; reflexivity.
Qed.

Lemma apply_form_core form : forall g, core_of (apply_form g form) = core_of g /\ graph_of (apply_form g form) = graph_of g.
Proof.
  unfold apply_form. induction form as [|[[n m] o] r IH]; intros g; simpl; auto.
  destruct (IH (set_order g n m o)) as [A B]. rewrite A, B, set_order_graph. split; reflexivity.
Qed.

Lemma set_h_core g n h : core_of (set_h g n h) = core_of g /\ graph_of (set_h g n h) = graph_of g.
Proof.
  split; [|reflexivity]. unfold core_of, set_h. simpl. rewrite map_map. apply map_ext. intros [k a]. simpl.
  destruct (k =? n); reflexivity.
Qed.

Lemma set_h_loop_core (calc : mol -> Z -> option Z) ns : forall g,
  core_of (fold_left (fun gg n => set_h gg n (calc gg n)) ns g) = core_of g /\
  graph_of (fold_left (fun gg n => set_h gg n (calc gg n)) ns g) = graph_of g.
Proof.
  induction ns as [|n r IH]; intros g; simpl; auto.
  destruct (IH (set_h g n (calc g n))) as [A B]. destruct (set_h_core g n (calc g n)) as [C D].
  rewrite A, B, C, D. split; reflexivity.
Qed.

Theorem kekule_driver_preserves : forall g sssr search calc g' r,
  kekule_driver g sssr search calc = Ok (g', r) ->
  ids g' = ids g /\ core_of g' = core_of g /\ graph_of g' = graph_of g /\
  total_charge g' = total_charge g /\ radical_count g' = radical_count g /\ (forall z, element_count z g' = element_count z g).
Proof.
  intros g sssr search calc g' r E.
  assert (CG : core_of g' = core_of g /\ graph_of g' = graph_of g).
  { unfold kekule_driver in E. destruct (prepare_rings g sssr) as [p|]; [|discriminate].
    pose proof (apply_form_core (map (fun nm => (fst nm, snd nm, 1)) (r_singled p)) g) as P1.
    destruct (r_rings p).
    - injection E as E _. subst g'. exact P1.
    - destruct (search _ _ _) as [[[|x form]|]|]; try discriminate.
      + injection E as E _. subst g'. exact P1.
      + injection E as E _. subst g'.
        destruct (set_h_loop_core calc (form_atoms (x :: form))
                    (apply_form (apply_form g (map (fun nm => (fst nm, snd nm, 1)) (r_singled p))) (x :: form))) as [A B].
        destruct (apply_form_core (x :: form) (apply_form g (map (fun nm => (fst nm, snd nm, 1)) (r_singled p)))) as [C D].
        destruct P1 as [P1 P2]. split.
        * etransitivity; [exact A|]. etransitivity; [exact C|exact P1].
        * etransitivity; [exact B|]. etransitivity; [exact D|exact P2].
      + injection E as E _. subst g'. exact P1. }
  destruct CG as [C G]. repeat split; auto.
  - apply core_ids, C.
  - apply core_total_charge, C.
  - apply core_radical_count, C.
  - intros z. apply core_element_count, C.
Qed.

(* ------------------------------------------------------------------------------------------------
   5. thiele_rel preserves the molecule; an accepted Kekule step is undone by an accepted Thiele step
   ------------------------------------------------------------------------------------------------ *)
Lemma tr_atoms_core g g' : tr_atoms g g' = true -> core_of g = core_of g'.
Proof.
  unfold tr_atoms, core_of. apply forallb2_map. intros x y E.
  apply andb_true_iff in E. destruct E as [E _]. apply andb_true_iff in E. destruct E as [E1 E2].
  apply Z.eqb_eq in E1. apply atom_core_eqb_eq in E2. unfold core4 in E2. injection E2 as A1 A2 A3 A4.
  rewrite E1, A1, A2, A3, A4. reflexivity.
Qed.

Lemma tr_bonds_graph g g' : tr_bonds g g' = true -> graph_of g = graph_of g'.
Proof.
  unfold tr_bonds, graph_of. apply forallb2_map. intros x y E.
  apply andb_true_iff in E. destruct E as [E1 E2]. apply Z.eqb_eq in E1.
  assert (K : keys (snd x) = keys (snd y)).
  { revert E2. unfold th_nbl_step, keys. apply forallb2_map. intros p q E.
    apply andb_true_iff in E. destruct E as [E _]. apply Z.eqb_eq in E. exact E. }
  f_equal; assumption.
Qed.

Theorem thiele_rel_preserves : forall g g', thiele_rel_core g g' = true ->
  ids g = ids g' /\ core_of g = core_of g' /\ graph_of g = graph_of g' /\
  total_charge g = total_charge g' /\ radical_count g = radical_count g' /\
  (forall z, element_count z g = element_count z g') /\
  (tr_h g g' = true -> map (fun x => a_h (snd x)) (m_atoms g) = map (fun x => a_h (snd x)) (m_atoms g')).
Proof.
  intros g g' E. unfold thiele_rel_core in E. apply andb_true_iff in E. destruct E as [E _].
  apply andb_true_iff in E. destruct E as [Ea Eb].
  pose proof (tr_atoms_core _ _ Ea) as C. repeat split.
  - apply core_ids, C.
  - exact C.
  - apply tr_bonds_graph, Eb.
  - apply core_total_charge, C.
  - apply core_radical_count, C.
  - intros z. apply core_element_count, C.
  - unfold tr_h. apply forallb2_map. intros x y H. apply option_eqb_Z_eq in H. exact H.
Qed.

Lemma stereo_kept_refl s : stereo_kept_or_dropped s s = true.
Proof. destruct s; simpl; auto. apply eqb_reflx. Qed.

Lemma moved_swap o o' : forall l l', moved o o' l l' = moved o' o l' l.
Proof.
  intros l. induction l as [|x r IH]; intros [|y s]; simpl; auto.
  rewrite (IH s), andb_comm. reflexivity.
Qed.

Theorem kekule_thiele_inverse : forall g k, kekule_rel_core g k = true -> thiele_rel_core k g = true.
Proof.
  intros g k E. pose proof (kekule_rel_valid _ _ E) as [_ [L _]].
  apply core_split in E. destruct E as [Ea [Eb _]].
  unfold thiele_rel_core. apply andb_true_iff. split; [apply andb_true_iff; split|].
  - revert Ea. unfold kr_atoms, tr_atoms. apply forallb2_swap. intros x y E.
    apply andb_true_iff in E. destruct E as [E E3]. apply andb_true_iff in E. destruct E as [E1 E2].
    apply Z.eqb_eq in E1. apply option_eqb_bool_eq in E3.
    rewrite E1, Z.eqb_refl, (atom_core_eqb_sym _ _ E2), E3, stereo_kept_refl. reflexivity.
  - revert Eb. unfold kr_bonds, tr_bonds. apply forallb2_swap. intros x y E.
    apply andb_true_iff in E. destruct E as [E1 E2]. apply Z.eqb_eq in E1. rewrite E1, Z.eqb_refl. simpl.
    revert E2. unfold nbl_step, th_nbl_step. apply forallb2_swap. intros p q E.
    apply andb_true_iff in E. destruct E as [Ek Es]. apply Z.eqb_eq in Ek. rewrite Ek, Z.eqb_refl. simpl.
    unfold bond_step in Es. unfold th_bond_step. apply andb_true_iff in Es. destruct Es as [S O].
    apply option_eqb_bool_eq in S. rewrite S, stereo_kept_refl. simpl.
    destruct (b_ord (snd p) =? 4) eqn:E4.
    + rewrite O. simpl. apply orb_true_r.
    + apply Z.eqb_eq in O. rewrite O, Z.eqb_refl. reflexivity.
  - revert L. unfold tr_doubles. apply forallb2_swap. intros x y E.
    unfold old_doubles. unfold new_doubles in E. rewrite moved_swap. exact E.
Qed.

(* ------------------------------------------------------------------------------------------------
   6. the atom classifier of __prepare_rings: equal, for ALL integers, to a table over finitely many classes
   ------------------------------------------------------------------------------------------------ *)
Inductive eclass := E5 | E6 | E7 | E8 | E15 | E16 | E33 | E34 | E52 | EOther.
Inductive cclass := Cm1 | C0 | C1 | COther.
Inductive nclass := N2 | N3 | N4 | NOther.
Inductive hclass := HNone | H0 | H1 | HOther.

Definition eclass_of (num : Z) : eclass :=
  if num =? 5 then E5 else if num =? 6 then E6 else if num =? 7 then E7 else if num =? 8 then E8
  else if num =? 15 then E15 else if num =? 16 then E16 else if num =? 33 then E33 else if num =? 34 then E34
  else if num =? 52 then E52 else EOther.
Definition cclass_of (chg : Z) : cclass := if chg =? -1 then Cm1 else if chg =? 0 then C0 else if chg =? 1 then C1 else COther.
Definition nclass_of (nb : Z) : nclass := if nb =? 2 then N2 else if nb =? 3 then N3 else if nb =? 4 then N4 else NOther.
Definition hclass_of (h : option Z) : hclass :=
  match h with None => HNone | Some hh => if hh =? 0 then H0 else if hh =? 1 then H1 else HOther end.

Definition rep_e (e : eclass) : Z :=
  match e with E5 => 5 | E6 => 6 | E7 => 7 | E8 => 8 | E15 => 15 | E16 => 16 | E33 => 33 | E34 => 34 | E52 => 52 | EOther => 1 end.
Definition rep_c (c : cclass) : Z := match c with Cm1 => -1 | C0 => 0 | C1 => 1 | COther => 2 end.
Definition rep_n (n : nclass) : Z := match n with N2 => 2 | N3 => 3 | N4 => 4 | NOther => 0 end.
Definition rep_h (h : hclass) : option Z := match h with HNone => None | H0 => Some 0 | H1 => Some 1 | HOther => Some 2 end.

(* the table, written from the comments of the Python function: P = "pyrrole or pyridine" (goes to `pyrroles`),
   D = takes no double bond inside the ring (goes to `double_bonded`), K = plain ring atom (needs one double bond)
   unless it already is in double_bonded, X = InvalidAromaticRing *)
Definition tP (indb : bool) : pyres (bool * bool) := Ok (true, indb).
Definition tD : pyres (bool * bool) := Ok (false, true).
Definition tK (indb : bool) : pyres (bool * bool) := Ok (false, indb).
Definition tX : pyres (bool * bool) := Err OtherError.
Definition t_by_h (h : hclass) (indb : bool) : pyres (bool * bool) :=
  match h with HNone => tP indb | H1 => tD | H0 => tK indb | HOther => tX end.

Definition class_table (e : eclass) (c : cclass) (rad : bool) (n : nclass) (h : hclass) (indb : bool) : pyres (bool * bool) :=
  match e with
  | E6 =>                                                            (* carbon *)
      match c, rad, n with
      | C0, _, (N2 | N3) => tK indb
      | (Cm1 | C1), true, N2 => tD
      | (Cm1 | C1), false, N3 => tD
      | (Cm1 | C1), false, N2 => tP indb
      | _, _, _ => tX
      end
  | E7 | E15 | E33 =>                                                (* N, P, As *)
      match c, rad, n with
      | C0, true, N2 => tD
      | C0, false, N3 => match e with E7 => tD | _ => tP indb end
      | C0, false, N2 => t_by_h h indb
      | C0, false, N4 => match e with E7 => tX | _ => tK indb end
      | Cm1, false, N2 => tD
      | C1, true, N2 => tK indb
      | C1, false, N2 => tP indb
      | C1, false, N3 => tK indb
      | _, _, _ => tX
      end
  | E8 =>                                                            (* O *)
      match n, c, rad with
      | N2, C0, false => tD
      | N2, C1, _ => Ok (false, rad || indb)
      | _, _, _ => tX
      end
  | E16 | E34 | E52 =>                                               (* S, Se, Te *)
      if indb then tD else
      match n, rad, c with
      | N2, true, C1 => tD
      | N2, false, C0 => tD
      | N2, false, C1 => Ok (false, false)
      | N3, true, C0 => tD
      | N3, false, C1 => tD
      | N3, false, C0 => Ok (false, false)
      | _, _, _ => tX
      end
  | E5 =>                                                            (* B *)
      match c, n, rad with
      | C0, N2, true => tD
      | C0, N2, false => t_by_h h indb
      | C0, _, false => tD
      | C1, N2, false => tD
      | Cm1, N2, false => tP indb
      | Cm1, N2, true => tK indb
      | Cm1, _, true => tD
      | Cm1, _, false => tP indb
      | _, _, _ => tX
      end
  | EOther => tX
  end.

Lemma classify_norm_e num chg rad nb h indb :
  classify_atom num chg rad nb h indb = classify_atom (rep_e (eclass_of num)) chg rad nb h indb.
Proof.
  unfold eclass_of.
  destruct (num =? 5) eqn:A5; [apply Z.eqb_eq in A5; subst; reflexivity|].
  destruct (num =? 6) eqn:A6; [apply Z.eqb_eq in A6; subst; reflexivity|].
  destruct (num =? 7) eqn:A7; [apply Z.eqb_eq in A7; subst; reflexivity|].
  destruct (num =? 8) eqn:A8; [apply Z.eqb_eq in A8; subst; reflexivity|].
  destruct (num =? 15) eqn:A15; [apply Z.eqb_eq in A15; subst; reflexivity|].
  destruct (num =? 16) eqn:A16; [apply Z.eqb_eq in A16; subst; reflexivity|].
  destruct (num =? 33) eqn:A33; [apply Z.eqb_eq in A33; subst; reflexivity|].
  destruct (num =? 34) eqn:A34; [apply Z.eqb_eq in A34; subst; reflexivity|].
  destruct (num =? 52) eqn:A52; [apply Z.eqb_eq in A52; subst; reflexivity|].
  unfold classify_atom, is_NPAs, is_SSeTe. rewrite A5, A6, A7, A8, A15, A16, A33, A34, A52. reflexivity.
Qed.

Lemma classify_norm_c num chg rad nb h indb :
  classify_atom num chg rad nb h indb = classify_atom num (rep_c (cclass_of chg)) rad nb h indb.
Proof.
  unfold cclass_of.
  destruct (chg =? -1) eqn:A; [apply Z.eqb_eq in A; subst; reflexivity|].
  destruct (chg =? 0) eqn:B; [apply Z.eqb_eq in B; subst; reflexivity|].
  destruct (chg =? 1) eqn:C; [apply Z.eqb_eq in C; subst; reflexivity|].
  unfold classify_atom. rewrite A, B, C. reflexivity.
Qed.

Lemma classify_norm_n num chg rad nb h indb :
  classify_atom num chg rad nb h indb = classify_atom num chg rad (rep_n (nclass_of nb)) h indb.
Proof.
  unfold nclass_of.
  destruct (nb =? 2) eqn:A; [apply Z.eqb_eq in A; subst; reflexivity|].
  destruct (nb =? 3) eqn:B; [apply Z.eqb_eq in B; subst; reflexivity|].
  destruct (nb =? 4) eqn:C; [apply Z.eqb_eq in C; subst; reflexivity|].
  unfold classify_atom. rewrite A, B, C. reflexivity.
Qed.

Lemma by_hydrogens_norm h indb : by_hydrogens h indb = by_hydrogens (rep_h (hclass_of h)) indb.
Proof.
  destruct h as [hh|]; [|reflexivity]. unfold hclass_of.
  destruct (hh =? 0) eqn:A; [apply Z.eqb_eq in A; subst; reflexivity|].
  destruct (hh =? 1) eqn:B; [apply Z.eqb_eq in B; subst; reflexivity|].
  unfold by_hydrogens. rewrite A, B. reflexivity.
Qed.

Lemma classify_norm_h num chg rad nb h indb :
  classify_atom num chg rad nb h indb = classify_atom num chg rad nb (rep_h (hclass_of h)) indb.
Proof. unfold classify_atom. rewrite (by_hydrogens_norm h indb). reflexivity. Qed.

Lemma class_table_reps e c rad n h indb :
  classify_atom (rep_e e) (rep_c c) rad (rep_n n) (rep_h h) indb = class_table e c rad n h indb.
Proof. destruct e, c, rad, n, h, indb; reflexivity. Qed.

Theorem prepare_rings_classes : forall num chg rad nb h indb,
  classify_atom num chg rad nb h indb =
  class_table (eclass_of num) (cclass_of chg) rad (nclass_of nb) (hclass_of h) indb.
Proof.
  intros. rewrite classify_norm_e, classify_norm_c, classify_norm_n, classify_norm_h. apply class_table_reps.
Qed.

(* total: the only exception is InvalidAromaticRing; raised for every element outside B C N O P S As Se Te *)
Theorem classify_total : forall num chg rad nb h indb,
  match classify_atom num chg rad nb h indb with Ok _ => True | Err e => e = OtherError end.
Proof.
  intros. rewrite prepare_rings_classes.
  destruct (eclass_of num), (cclass_of chg), rad, (nclass_of nb), (hclass_of h), indb; simpl; auto.
Qed.

Theorem classify_elements : forall num chg rad nb h indb,
  ~ In num [5; 6; 7; 8; 15; 16; 33; 34; 52] -> classify_atom num chg rad nb h indb = Err OtherError.
Proof.
  intros num chg rad nb h indb N. rewrite prepare_rings_classes.
  assert (E : eclass_of num = EOther).
  { unfold eclass_of.
    repeat match goal with
    | |- context [num =? ?c] => let H := fresh "H" in destruct (num =? c) eqn:H; [exfalso; apply N; apply Z.eqb_eq in H; subst; simpl; tauto|]
    end. reflexivity. }
  rewrite E. reflexivity.
Qed.

(* every listed element has accepted states: the table is not trivially X *)
Theorem classify_accepts_each_element :
  forallb (fun num => existsb (fun chg => existsb (fun nb =>
     match classify_atom num chg false nb None false with Ok _ => true | Err _ => false end) [2; 3; 4]) [-1; 0; 1])
    [5; 6; 7; 8; 15; 16; 33; 34; 52] = true.
Proof. vm_compute. reflexivity. Qed.

(* ------------------------------------------------------------------------------------------------
   7. the statements are not vacuous: concrete rings accepted and rejected by the checkers, the driver on benzene
   ------------------------------------------------------------------------------------------------ *)
(* atoms 1..n in a cycle; bond i joins atom i and atom i+1 (bond n closes the ring) *)
Definition ring (ats : list atom) (os : list Z) : mol :=
  let n := Z.of_nat (List.length ats) in
  mkMol (combine (zrange 1 (n + 1)) ats)
        (map (fun i => (i, [(if i =? 1 then n else i - 1, mkBond (znth os (if i =? 1 then n - 1 else i - 2) 0) None);
                            (if i =? n then 1 else i + 1, mkBond (znth os (i - 1) 0) None)])) (zrange 1 (n + 1))).
Definition cH : atom := mkAtom 6 None 0 false (Some 1) None.
Definition nH : atom := mkAtom 7 None 0 false (Some 1) None.
Definition n_ (h : option Z) : atom := mkAtom 7 None 0 false h None.
Definition benzene_a := ring [cH; cH; cH; cH; cH; cH] [4; 4; 4; 4; 4; 4].
Definition benzene_k := ring [cH; cH; cH; cH; cH; cH] [2; 1; 2; 1; 2; 1].
Definition pyrrole_a := ring [nH; cH; cH; cH; cH] [4; 4; 4; 4; 4].
Definition pyrrole_k := ring [nH; cH; cH; cH; cH] [1; 2; 1; 2; 1].
Definition pyridine_a := ring [n_ None; cH; cH; cH; cH; cH] [4; 4; 4; 4; 4; 4].
Definition pyridine_k := ring [n_ (Some 0); cH; cH; cH; cH; cH] [2; 1; 2; 1; 2; 1].

(* p-benzoquinone: ring atoms 1..6, O = 7 on C1, O = 8 on C4 *)
Definition quinone (os : list Z) : mol :=
  let c0 := mkAtom 6 None 0 false (Some 0) None in
  let o0 := mkAtom 8 None 0 false (Some 0) None in
  let b := fun i => mkBond (znth os i 0) None in
  mkMol [(1, c0); (2, cH); (3, cH); (4, c0); (5, cH); (6, cH); (7, o0); (8, o0)]
        [(1, [(6, b 5); (2, b 0); (7, mkBond 2 None)]); (2, [(1, b 0); (3, b 1)]); (3, [(2, b 1); (4, b 2)]);
         (4, [(3, b 2); (5, b 3); (8, mkBond 2 None)]); (5, [(4, b 3); (6, b 4)]); (6, [(5, b 4); (1, b 5)]);
         (7, [(1, mkBond 2 None)]); (8, [(4, mkBond 2 None)])].
Definition quinone_k := quinone [1; 2; 1; 1; 2; 1].
Definition quinone_a := quinone [4; 4; 4; 4; 4; 4].

Theorem kekule_rel_examples :
  (* accepted *)
  kekule_rel benzene_a benzene_k = true /\ kekule_rel pyrrole_a pyrrole_k = true /\ kekule_rel pyridine_a pyridine_k = true /\
  thiele_rel benzene_k benzene_a = true /\ thiele_rel pyrrole_k pyrrole_a = true /\
  (* rejected: two double bonds on one atom; a double bond on the pyrrole N-H; a pyridine-type N left without double bond
     although its hydrogen count says 0 ... *)
  kekule_rel benzene_a (ring [cH; cH; cH; cH; cH; cH] [2; 2; 1; 1; 2; 1]) = false /\
  kekule_rel pyrrole_a (ring [nH; cH; cH; cH; cH] [2; 1; 2; 1; 1]) = false /\
  kekule_rel (ring [n_ (Some 0); cH; cH; cH; cH; cH] [4; 4; 4; 4; 4; 4]) (ring [n_ (Some 0); cH; cH; cH; cH; cH] [1; 2; 1; 2; 1; 1]) = false /\
  (* ... an aromatic bond left; a changed charge; a changed hydrogen count; a changed element *)
  kekule_rel benzene_a (ring [cH; cH; cH; cH; cH; cH] [2; 1; 2; 1; 4; 4]) = false /\
  kekule_rel benzene_a (ring [mkAtom 6 None 1 false (Some 1) None; cH; cH; cH; cH; cH] [2; 1; 2; 1; 2; 1]) = false /\
  kekule_rel benzene_a (ring [mkAtom 6 None 0 false (Some 2) None; cH; cH; cH; cH; cH] [2; 1; 2; 1; 2; 1]) = false /\
  kekule_rel benzene_a (ring [n_ (Some 1); cH; cH; cH; cH; cH] [2; 1; 2; 1; 2; 1]) = false /\
  (* thiele: a triple bond cannot become aromatic, two double bonds of one atom cannot both be absorbed *)
  thiele_rel (ring [cH; cH; cH; cH; cH; cH] [3; 1; 2; 1; 2; 1]) benzene_a = false /\
  thiele_rel (ring [cH; cH; cH; cH; cH; cH] [2; 2; 1; 1; 2; 1]) benzene_a = false /\
  (* quinone exclusion: p-benzoquinone must not come out with an aromatic ring *)
  thiele_rel quinone_k quinone_k = true /\ thiele_rel quinone_k quinone_a = false.
Proof. vm_compute. repeat split; reflexivity. Qed.

Definition benzene_form : list (Z * Z * Z) := [(2, 1, 2); (3, 2, 1); (4, 3, 2); (5, 4, 1); (6, 5, 2); (1, 6, 1)].

Theorem kekule_driver_examples :
  (* __prepare_rings: pyrrole N-H goes to double_bonded (takes no double bond), pyridine N (hydrogens unknown) to pyrroles *)
  prep_eqb (prepare_rings pyrrole_a [[1; 2; 3; 4; 5]]) [(1, [5; 2]); (2, [1; 3]); (3, [2; 4]); (4, [3; 5]); (5, [4; 1])] [] [1] = true /\
  prep_eqb (prepare_rings pyridine_a [[1; 2; 3; 4; 5; 6]])
           [(1, [6; 2]); (2, [1; 3]); (3, [2; 4]); (4, [3; 5]); (5, [4; 6]); (6, [5; 1])] [1] [] = true /\
  (* an aromatic bond outside any ring is refused *)
  prep_raises (prepare_rings (mkMol [(1, cH); (2, cH)] [(1, [(2, mkBond 4 None)]); (2, [(1, mkBond 4 None)])]) []) = true /\
  (* the driver with the form the search returns, and the checker accepts what it produces *)
  match kekule_driver benzene_a [[1; 2; 3; 4; 5; 6]] (fun _ _ _ => Ok (Some benzene_form)) (fun _ _ => Some 1) with
  | Ok (g', r) => mol_eqb g' benzene_k && r && kekule_rel benzene_a g'
  | Err _ => false
  end = true.
Proof. vm_compute. repeat split; reflexivity. Qed.

(* ------------------------------------------------------------------------------------------------
   8. shape of the result of __prepare_rings
   ------------------------------------------------------------------------------------------------ *)
(* the atom loop only ever adds the atoms it walks *)
Lemma atom_loop_subset g qdb : forall ks pyr db pyr' db',
  atom_loop g ks qdb pyr db = Ok (pyr', db') ->
  (forall n, In n pyr' -> In n pyr \/ In n ks) /\ (forall n, In n db' -> In n db \/ In n ks).
Proof.
  induction ks as [|k r IH]; intros pyr db pyr' db' E; simpl in E.
  - injection E as E1 E2. subst. split; intros n H; left; exact H.
  - destruct (atom_of g k) as [a|]; [|discriminate].
    destruct (classify_atom _ _ _ _ _ _) as [[p d]|]; [|discriminate].
    apply IH in E. destruct E as [E1 E2]. split; intros n H.
    + apply E1 in H. destruct H as [H|H]; [|right; right; exact H].
      destruct p; [|left; exact H]. apply in_app_or in H. destruct H as [H|[H|[]]]; [left; exact H|right; left; exact H].
    + apply E2 in H. destruct H as [H|H]; [|right; right; exact H].
      destruct (d && negb (zmem k qdb)); [|left; exact H].
      apply in_app_or in H. destruct H as [H|[H|[]]]; [left; exact H|right; left; exact H].
Qed.

(* shape of every successful __prepare_rings result: every skeleton atom has two or three skeleton neighbours, pyrroles and
   double_bonded are atoms of the skeleton *)
Theorem prepare_rings_shape : forall g sssr p, prepare_rings g sssr = Ok p ->
  (forall n ms, In (n, ms) (r_rings p) -> List.length ms = 2%nat \/ List.length ms = 3%nat) /\
  (forall n, In n (r_pyrroles p) -> In n (keys (r_rings p))) /\
  (forall n, In n (r_double p) -> In n (keys (r_rings p))).
Proof.
  intros g sssr p E. unfold prepare_rings in E.
  destruct (scan_ord g 4) as [|x0 r0] eqn:S4.
  - injection E as E. subst p. simpl. repeat split; intros; contradiction.
  - destruct (existsb _ (triple_bonded g)); [discriminate|].
    destruct (fold_left unring_step _ _) as [[seen rings] singled] eqn:U.
    destruct (existsb _ rings) eqn:D23; [discriminate|].
    match type of E with (if ?c then _ else _) = _ => destruct c eqn:Q2; [discriminate|] end.
    match type of E with (if ?c then _ else _) = _ => destruct c eqn:Q3; [discriminate|] end.
    match type of E with context [atom_loop g (keys rings) ?q [] ?q] => set (qdb := q) in * end.
    destruct (atom_loop g (keys rings) qdb [] qdb) as [[pyr db]|] eqn:L; [|discriminate].
    injection E as E. subst p. simpl.
    apply atom_loop_subset in L. destruct L as [L1 L2]. repeat split.
    + intros n ms I.
      assert (F := D23). rewrite <- not_true_iff_false in F.
      destruct (Nat.eq_dec (List.length ms) 2) as [A|A]; [left; exact A|].
      destruct (Nat.eq_dec (List.length ms) 3) as [B|B]; [right; exact B|].
      exfalso. apply F. apply existsb_exists. exists (n, ms). split; [exact I|]. simpl.
      destruct (Z.of_nat (List.length ms) =? 2) eqn:E2; [apply Z.eqb_eq in E2; lia|].
      destruct (Z.of_nat (List.length ms) =? 3) eqn:E3; [apply Z.eqb_eq in E3; lia|]. reflexivity.
    + intros n H. apply L1 in H. destruct H as [[]|H]. exact H.
    + intros n H. apply L2 in H. destruct H as [H|H]; [|exact H].
      (* quinone atoms: keys of p_dbl filtered on membership in rings *)
      unfold qdb in H. unfold keys in H. apply in_map_iff in H. destruct H as [[k l] [Hk Hf]]. simpl in Hk. subst k.
      apply filter_In in Hf. destruct Hf as [_ Hf]. simpl in Hf. destruct l; [discriminate|].
      unfold al_has in Hf. destruct (zget rings n) eqn:Z; [|discriminate].
      clear - Z. induction rings as [|[k v] r IH]; simpl in *; [discriminate|].
      destruct (n =? k) eqn:Ek; [apply Z.eqb_eq in Ek; left; symmetry; exact Ek|right; apply IH; exact Z].
Qed.

(* ------------------------------------------------------------------------------------------------
   9. the specifications do not depend on the atom numbering
   ------------------------------------------------------------------------------------------------ *)
Definition ren_nbl (pi : Z -> Z) (l : nbl) : nbl := map (fun mb => (pi (fst mb), snd mb)) l.
Definition rename (pi : Z -> Z) (g : mol) : mol :=
  mkMol (map (fun na => (pi (fst na), snd na)) (m_atoms g))
        (map (fun nl => (pi (fst nl), ren_nbl pi (snd nl))) (m_adj g)).

Section Rename.
Variable pi : Z -> Z.
Hypothesis pi_inj : forall x y, pi x = pi y -> x = y.

Lemma pi_eqb x y : (pi x =? pi y) = (x =? y).
Proof.
  destruct (x =? y) eqn:E.
  - apply Z.eqb_eq in E. subst. apply Z.eqb_refl.
  - apply Z.eqb_neq. intros H. apply pi_inj in H. apply Z.eqb_neq in E. contradiction.
Qed.

Lemma forallb2_map_both {A B A' B' : Type} (f : A' -> B' -> bool) (f0 : A -> B -> bool) (p : A -> A') (q : B -> B') :
  (forall x y, f (p x) (q y) = f0 x y) -> forall l l', forallb2 f (map p l) (map q l') = forallb2 f0 l l'.
Proof.
  intros H l. induction l as [|x r IH]; intros [|y s]; simpl; auto. rewrite H, IH. reflexivity.
Qed.

Lemma forallb2_ext {A B : Type} (f f0 : A -> B -> bool) :
  (forall x y, f x y = f0 x y) -> forall l l', forallb2 f l l' = forallb2 f0 l l'.
Proof.
  intros H l. induction l as [|x r IH]; intros [|y s]; simpl; auto. rewrite H, IH. reflexivity.
Qed.

Lemma countb_ren (f : Z * bond -> bool) (l : nbl) :
  (forall k b, f (pi k, b) = f (k, b)) -> countb f (ren_nbl pi l) = countb f l.
Proof.
  intros H. induction l as [|[k b] r IH]; simpl; auto. rewrite H, IH. reflexivity.
Qed.

Lemma arom_deg_ren l : arom_deg (ren_nbl pi l) = arom_deg l.
Proof. unfold arom_deg. apply countb_ren. reflexivity. Qed.

Lemma neighbors_ren l : neighbors (ren_nbl pi l) = neighbors l.
Proof. unfold neighbors. apply countb_ren. reflexivity. Qed.

Lemma has_ord_ren o l : has_ord o (ren_nbl pi l) = has_ord o l.
Proof. unfold has_ord. induction l as [|[k b] r IH]; simpl; auto. rewrite IH. reflexivity. Qed.

Lemma moved_ren o o' : forall l l', moved o o' (ren_nbl pi l) (ren_nbl pi l') = moved o o' l l'.
Proof.
  intros l. induction l as [|[k b] r IH]; intros [|[k' b'] s]; simpl; auto. rewrite IH. reflexivity.
Qed.

Lemma zget_ren {V : Type} (l : list (Z * V)) n : zget (map (fun na => (pi (fst na), snd na)) l) (pi n) = zget l n.
Proof.
  induction l as [|[k v] r IH]; simpl; auto. rewrite pi_eqb, IH. reflexivity.
Qed.

Lemma atom_of_ren g n : atom_of (rename pi g) (pi n) = atom_of g n.
Proof. unfold atom_of, rename. simpl. apply zget_ren. Qed.

Lemma atom_class_ren g n l : atom_class (rename pi g) (pi n) (ren_nbl pi l) = atom_class g n l.
Proof.
  unfold atom_class. rewrite atom_of_ren. destruct (atom_of g n); auto.
  rewrite !has_ord_ren, neighbors_ren. reflexivity.
Qed.

Lemma nbl_step_ren l l' : nbl_step (ren_nbl pi l) (ren_nbl pi l') = nbl_step l l'.
Proof.
  unfold nbl_step, ren_nbl. apply forallb2_map_both. intros [k b] [k' b']. simpl. rewrite pi_eqb. reflexivity.
Qed.

Lemma th_nbl_step_ren l l' : th_nbl_step (ren_nbl pi l) (ren_nbl pi l') = th_nbl_step l l'.
Proof.
  unfold th_nbl_step, ren_nbl. apply forallb2_map_both. intros [k b] [k' b']. simpl. rewrite pi_eqb. reflexivity.
Qed.

Lemma nbrs_ren g m : nbrs (rename pi g) (pi m) = ren_nbl pi (nbrs g m).
Proof.
  unfold nbrs, rename. simpl. induction (m_adj g) as [|[k l] r IH]; simpl; auto.
  rewrite pi_eqb. destruct (m =? k); auto.
Qed.

Lemma exo_terminal_ren g l : exo_terminal (rename pi g) (ren_nbl pi l) = exo_terminal g l.
Proof.
  unfold exo_terminal. induction l as [|[m b] r IH]; simpl; auto.
  rewrite IH, nbrs_ren. unfold ren_nbl. rewrite map_length. reflexivity.
Qed.

Theorem kekule_rel_rename : forall g g', kekule_rel (rename pi g) (rename pi g') = kekule_rel g g'.
Proof.
  intros g g'. unfold kekule_rel, kekule_rel_noh, kekule_rel_core.
  assert (A : kr_atoms (rename pi g) (rename pi g') = kr_atoms g g').
  { unfold kr_atoms, rename. simpl. apply forallb2_map_both. intros [k a] [k' a']. simpl. rewrite pi_eqb. reflexivity. }
  assert (B : kr_bonds (rename pi g) (rename pi g') = kr_bonds g g').
  { unfold kr_bonds, rename. simpl. apply forallb2_map_both. intros [k l] [k' l']. simpl. rewrite pi_eqb, nbl_step_ren. reflexivity. }
  assert (C : kr_classes (rename pi g) (rename pi g') = kr_classes g g').
  { unfold kr_classes. change (m_adj (rename pi g)) with (map (fun nl => (pi (fst nl), ren_nbl pi (snd nl))) (m_adj g)).
    change (m_adj (rename pi g')) with (map (fun nl => (pi (fst nl), ren_nbl pi (snd nl))) (m_adj g')).
    apply forallb2_map_both. intros [k l] [k' l']. simpl.
    rewrite arom_deg_ren, atom_class_ren. unfold new_doubles. rewrite moved_ren. reflexivity. }
  assert (V : kr_valence (rename pi g) (rename pi g') = kr_valence g g').
  { unfold kr_valence. change (m_adj (rename pi g)) with (map (fun nl => (pi (fst nl), ren_nbl pi (snd nl))) (m_adj g)).
    induction (m_adj g) as [|[k l] r IH]; simpl; auto. rewrite arom_deg_ren, atom_of_ren, IH. reflexivity. }
  assert (H : kr_h (rename pi g) (rename pi g') = kr_h g g').
  { unfold kr_h, rename. simpl. apply forallb2_map_both. intros [k a] [k' a']. reflexivity. }
  rewrite A, B, C, V, H. reflexivity.
Qed.

Theorem thiele_rel_rename : forall g g', thiele_rel (rename pi g) (rename pi g') = thiele_rel g g'.
Proof.
  intros g g'. unfold thiele_rel, thiele_rel_noh, thiele_rel_core.
  assert (A : tr_atoms (rename pi g) (rename pi g') = tr_atoms g g').
  { unfold tr_atoms, rename. simpl. apply forallb2_map_both. intros [k a] [k' a']. simpl. rewrite pi_eqb. reflexivity. }
  assert (B : tr_bonds (rename pi g) (rename pi g') = tr_bonds g g').
  { unfold tr_bonds, rename. simpl. apply forallb2_map_both. intros [k l] [k' l']. simpl. rewrite pi_eqb, th_nbl_step_ren. reflexivity. }
  assert (D : tr_doubles (rename pi g) (rename pi g') = tr_doubles g g').
  { unfold tr_doubles, rename. simpl. apply forallb2_map_both. intros [k l] [k' l']. simpl. unfold old_doubles. rewrite moved_ren. reflexivity. }
  assert (Q : tr_quinone (rename pi g) (rename pi g') = tr_quinone g g').
  { unfold tr_quinone. change (m_adj (rename pi g)) with (map (fun nl => (pi (fst nl), ren_nbl pi (snd nl))) (m_adj g)).
    change (m_adj (rename pi g')) with (map (fun nl => (pi (fst nl), ren_nbl pi (snd nl))) (m_adj g')).
    apply forallb2_map_both. intros [k l] [k' l']. simpl. unfold gained_arom.
    rewrite !moved_ren, exo_terminal_ren. reflexivity. }
  assert (H : tr_h (rename pi g) (rename pi g') = tr_h g g').
  { unfold tr_h, rename. simpl. apply forallb2_map_both. intros [k a] [k' a']. reflexivity. }
  rewrite A, B, D, Q, H. reflexivity.
Qed.
End Rename.

(* ------------------------------------------------------------------------------------------------
   10. the search model: whatever it yields is a list of `size` bonds of order 1 or 2 (loop invariant over the stack)
   ------------------------------------------------------------------------------------------------ *)
Definition ok_item (x : kitem) : Prop := let '(_, _, o, _) := x in o = 1 \/ o = 2.
Definition ok_entry (x : kentry) : Prop := let '(_, _, o) := x in o = 1 \/ o = 2.
Definition ok_form (size : Z) (y : list kentry) : Prop := Forall ok_entry y /\ Z.of_nat (List.length y) = size.
Definition k_inv (size : Z) (s : kstate) : Prop :=
  Forall (Forall ok_item) (k_stack s) /\ Forall ok_entry (k_path s) /\ Forall (ok_form size) (k_buffer s).

Lemma Forall_rev' {A : Type} (P : A -> Prop) l : Forall P (rev l) -> Forall P l.
Proof. intros H. rewrite <- (rev_involutive l). apply Forall_rev. exact H. Qed.

Lemma pop_last_Forall {A : Type} (P : A -> Prop) l x r : pop_last l = Some (x, r) -> Forall P l -> P x /\ Forall P r.
Proof.
  unfold pop_last. intros E H. apply Forall_rev in H. destruct (rev l) as [|y t]; [discriminate|].
  injection E as E1 E2. subst. inversion H; subst. split; [assumption | apply Forall_rev; assumption].
Qed.

Lemma firstn_Forall {A : Type} (P : A -> Prop) n l : Forall P l -> Forall P (firstn n l).
Proof. revert l. induction n as [|n IH]; intros [|x l] H; simpl; auto. inversion H; subst. constructor; auto. Qed.

Lemma cut_path_inv stack path p : cut_path stack path = Ok p -> Forall ok_entry path -> Forall ok_entry p.
Proof.
  unfold cut_path. intros E H. destruct stack as [|top rest]; [injection E as E; subst; exact H|].
  destruct (pop_last top) as [[[[[a b] c] [k|]] r]|]; try discriminate; injection E as E; subst; auto using firstn_Forall.
Qed.

Lemma backtrack_inv rest path st p : backtrack rest path = Ok (st, p) ->
  Forall (Forall ok_item) rest -> Forall ok_entry path -> Forall (Forall ok_item) st /\ Forall ok_entry p.
Proof.
  unfold backtrack. intros E R H. destruct (cut_path rest path) eqn:C; [|discriminate]. injection E as E1 E2. subst.
  split; [exact R | eapply cut_path_inv; eauto].
Qed.

Lemma remove_kitem_inv x : forall l l', remove_kitem x l = Some l' -> Forall ok_item l -> Forall ok_item l'.
Proof.
  induction l as [|y r IH]; intros l' E H; simpl in E; [discriminate|]. inversion H; subst.
  destruct (kitem_eqb x y); [injection E as E; subst; assumption|].
  destruct (remove_kitem x r) eqn:R; [|discriminate]. injection E as E. subst. constructor; auto.
Qed.

Lemma do_closures_inv atom : forall cl top path top' path', do_closures atom cl top path = Ok (top', path') ->
  Forall ok_item top -> Forall ok_entry path -> Forall ok_item top' /\ Forall ok_entry path'.
Proof.
  induction cl as [|c r IH]; intros top path top' path' E T P; simpl in E.
  - injection E as E1 E2. subst. auto.
  - destruct (remove_kitem (atom, c, 1, None) top) eqn:R; [|discriminate].
    eapply IH; eauto using remove_kitem_inv.
    apply Forall_app. split; [exact P|]. constructor; [left; reflexivity | constructor].
Qed.

Ltac disc := match goal with H : _ = Ok _ |- _ => first [discriminate H | cbv beta iota zeta in H; discriminate H | simpl in H; discriminate H] end.
Lemma soft_closures_inv atom : forall cl top path top' path', soft_closures atom cl top path = (top', path') ->
  Forall ok_item top -> Forall ok_entry path -> Forall ok_item top' /\ Forall ok_entry path'.
Proof.
  induction cl as [|c r IH]; intros top path top' path' E T P; simpl in E.
  - injection E as E1 E2. subst. auto.
  - destruct (remove_kitem (atom, c, 1, None) top) eqn:R; [|eapply IH; eauto].
    eapply IH; eauto using remove_kitem_inv.
    apply Forall_app. split; [exact P|]. constructor; [left; reflexivity | constructor].
Qed.

Ltac ok_lit := first [left; reflexivity | right; reflexivity].
Ltac ok_items :=
  repeat match goal with
  | |- _ /\ _ => split
  | |- Forall _ (_ ++ _) => apply Forall_app; split
  | |- Forall _ (_ :: _) => constructor
  | |- Forall _ [] => constructor
  | |- ok_item _ => simpl; first [assumption | ok_lit]
  | |- ok_entry _ => simpl; first [assumption | ok_lit]
  | _ => assumption
  end.

Lemma grow_inv db pyr top rest path atom bond cl fs st p :
  grow db pyr top rest path atom bond cl fs = Ok (st, p) ->
  Forall ok_item top -> Forall (Forall ok_item) rest -> Forall ok_entry path ->
  Forall (Forall ok_item) st /\ Forall ok_entry p.
Proof.
  unfold grow. intros E T R P.
  destruct ((bond =? 2) || indb db atom).
  - destruct (do_closures atom cl top path) as [[top1 path1]|] eqn:D; [|simpl in E; discriminate E].
    injection E as E1 E2. subst. destruct (do_closures_inv _ _ _ _ _ _ D T P) as [T1 P1].
    ok_items. clear. induction fs; simpl; constructor; auto. simpl. left. reflexivity.
  - destruct fs as [|n1 [|n2 [|n3 fs]]].
    + destruct cl as [|c0 cl0]; [injection E as E1 E2; subst; ok_items|].
      destruct (inpyr pyr atom); [|eapply backtrack_inv; eauto].
      destruct (soft_closures atom (c0 :: cl0) top path) as [top1 path1] eqn:SC. injection E as E1 E2. subst.
      destruct (soft_closures_inv _ _ _ _ _ _ SC T P). ok_items.
    + destruct (indb db n1).
      * destruct (inpyr pyr atom); [injection E as E1 E2; subst; ok_items | eapply backtrack_inv; eauto].
      * destruct (inpyr pyr atom); [injection E as E1 E2; subst; ok_items|].
        destruct cl as [|c cl']; [injection E as E1 E2; subst; ok_items|].
        destruct (remove_kitem _ _) eqn:Rm; [|simpl in E; discriminate E].
        injection E as E1 E2. subst. split.
        -- constructor; [|exact R]. eapply remove_kitem_inv; [exact Rm|]. ok_items.
        -- ok_items.
    + destruct (indb db n1).
      * destruct (indb db n2).
        -- destruct (inpyr pyr atom); [injection E as E1 E2; subst; ok_items | eapply backtrack_inv; eauto].
        -- destruct (inpyr pyr atom); injection E as E1 E2; subst; ok_items.
      * destruct (indb db n2).
        -- destruct (inpyr pyr atom); injection E as E1 E2; subst; ok_items.
        -- destruct (inpyr pyr atom); injection E as E1 E2; subst; ok_items.
    + discriminate E.
Qed.

Lemma kstep_inv rings db pyr start size s s' ys :
  kstep rings db pyr start size s = Ok (s', ys) -> k_inv size s -> k_inv size s' /\ Forall (ok_form size) ys.
Proof.
  unfold kstep, k_inv. intros E [S [P B]].
  destruct (k_stack s) as [|top0 rest] eqn:KS.
  - injection E as E1 E2. subst. rewrite KS. repeat split; auto.
  - inversion S as [|? ? T0 R]; subst.
    destruct (pop_last top0) as [[[[[atom prev] bond] c] top]|] eqn:PL; [|simpl in E; discriminate E].
    destruct (pop_last_Forall ok_item _ _ _ PL T0) as [OB T]. simpl in OB.
    assert (P' : Forall ok_entry (k_path s ++ [(atom, prev, bond)])) by (apply Forall_app; split; [exact P | constructor; [exact OB | constructor]]).
    set (path := k_path s ++ [(atom, prev, bond)]) in *.
    destruct (Z.of_nat (List.length path) =? size) eqn:SZ.
    + apply Z.eqb_eq in SZ. assert (F : ok_form size path) by (split; assumption).
      assert (BA : Forall (ok_form size) (k_buffer s ++ [path])) by (apply Forall_app; split; auto).
      destruct (nonempty pyr && negb (k_bsize s =? 0));
        [destruct (2 <=? countb (fun n => gsum n path =? 2) pyr); [destruct (Z.of_nat (List.length (k_buffer s)) =? k_bsize s)|]|];
        cbv beta iota zeta in E; destruct (cut_path rest path) eqn:C; try (simpl in E; discriminate E);
        injection E as E1 E2; subst; simpl; repeat split; auto; try (eapply cut_path_inv; eauto).
    + destruct (negb (atom =? start)).
      * destruct (scan_nbrs rings start atom prev path) as [[lp cl] fs]. cbv beta iota zeta in E.
        assert (G : forall top' bond' st p, Forall ok_item top' ->
                    grow db pyr top' rest path atom bond' cl fs = Ok (st, p) -> Forall (Forall ok_item) st /\ Forall ok_entry p).
        { intros top' bond' st p T' Gr. eapply grow_inv; eauto. }
        assert (BT : forall st p, backtrack rest path = Ok (st, p) -> Forall (Forall ok_item) st /\ Forall ok_entry p).
        { intros st p Bt. eapply backtrack_inv; eauto. }
        assert (TL : forall o, o = 1 \/ o = 2 -> Forall ok_item ((lp, atom, o, None) :: top)) by (intros o Ho; constructor; [exact Ho | exact T]).
        repeat match type of E with
        | (if ?c then _ else _) = _ => destruct c
        end;
        cbv beta iota zeta in E;
        match type of E with
        | context [grow db pyr ?t rest path atom ?bb cl fs] =>
            destruct (grow db pyr t rest path atom bb cl fs) as [[st p]|] eqn:Gr; [|simpl in E; discriminate E];
            injection E as E1 E2; subst; simpl;
            first [assert (GG := G _ _ _ _ T Gr) | assert (GG := G _ _ _ _ (TL 1 (or_introl eq_refl)) Gr)
                  | assert (GG := G _ _ _ _ (TL 2 (or_intror eq_refl)) Gr)]; destruct GG; repeat split; auto
        | context [backtrack rest path] =>
            destruct (backtrack rest path) as [[st p]|] eqn:Bt; [|simpl in E; discriminate E];
            injection E as E1 E2; subst; simpl; destruct (BT _ _ eq_refl); repeat split; auto
        end.
      * injection E as E1 E2. subst. simpl. repeat split; auto.
Qed.

Lemma kloop_inv rings db pyr start size : forall fuel maxy s acc ys r c,
  kloop rings db pyr start size fuel maxy s acc = Ok (ys, r, c) ->
  k_inv size s -> Forall (ok_form size) acc -> Forall (ok_form size) ys.
Proof.
  induction fuel as [|f IH]; intros maxy s acc ys r c E I A; simpl in E.
  - destruct (maxy <=? List.length acc)%nat; [injection E as E1 E2 E3; subst; apply firstn_Forall; exact A|].
    destruct (k_stack s); [|simpl in E; discriminate E].
    destruct (k_never s); injection E as E1 E2 E3; subst; auto.
    apply firstn_Forall. apply Forall_app. split; [exact A | apply I].
  - destruct (maxy <=? List.length acc)%nat; [injection E as E1 E2 E3; subst; apply firstn_Forall; exact A|].
    destruct (k_stack s) eqn:KS.
    + destruct (k_never s); injection E as E1 E2 E3; subst; auto.
      apply firstn_Forall. apply Forall_app. split; [exact A | apply I].
    + destruct (kstep rings db pyr start size s) as [[s' ys']|] eqn:K; [|simpl in E; discriminate E].
      destruct (kstep_inv _ _ _ _ _ _ _ _ K I) as [I' Y].
      eapply IH; eauto. apply Forall_app. split; assumption.
Qed.

(* every form the search model yields, for any component, sets, buffer size, cut and fuel: exactly `size` entries
   (size = number of skeleton bonds), each of order 1 or 2 *)
Theorem kekule_component_forms : forall rings db db_start pyr bs maxy fuel ys r c,
  kekule_component rings db db_start pyr bs maxy fuel = Ok (ys, r, c) ->
  Forall (ok_form (Z.of_nat (fold_right (fun nl s => (List.length (snd nl) + s)%nat) O rings) / 2)) ys.
Proof.
  intros rings db db_start pyr bs maxy fuel ys r c E. unfold kekule_component in E.
  set (size := Z.of_nat (fold_right (fun nl s => (List.length (snd nl) + s)%nat) O rings) / 2) in *.
  assert (RUN : forall db' start bond all_nbrs, (bond = 1 \/ bond = 2) ->
     match al_get rings start with
     | [] => Err StopIteration
     | n0 :: more =>
         kloop rings db' pyr start size fuel maxy
           (mkK (if all_nbrs : bool then rev (map (fun nx => [((nx, start, bond, Some 0) : kitem)]) (n0 :: more))
                 else [[((n0, start, bond, Some 0) : kitem)]]) [] [] bs true) []
     end = Ok (ys, r, c) -> Forall (ok_form size) ys).
  { intros db' start bond all_nbrs OB R. destruct (al_get rings start) as [|n0 more]; [discriminate|].
    eapply kloop_inv; [exact R| |constructor]. unfold k_inv. cbn [k_stack k_path k_buffer]. repeat split; try constructor.
    destruct all_nbrs; cbv beta iota.
    - apply Forall_rev. clear - OB.
      assert (H : forall l, Forall (Forall ok_item) (map (fun nx => [((nx, start, bond, Some 0) : kitem)]) l)).
      { induction l; simpl; constructor; auto; repeat (constructor; try exact OB). }
      apply (H (n0 :: more)).
    - repeat (constructor; try exact OB). }
  destruct db as [|d0 db].
  - destruct (find_start rings pyr true) as [z|]; [exact (RUN [] z 1 true (or_introl eq_refl) E)|].
    destruct (find_start rings pyr false) as [z|]; [exact (RUN [] z 1 true (or_introl eq_refl) E)|].
    destruct rings as [|nl rr]; [discriminate E|]. exact (RUN [fst nl] (fst nl) 2 true (or_intror eq_refl) E).
  - exact (RUN (d0 :: db) db_start 1 false (or_introl eq_refl) E).
Qed.

(* the search model at work: benzene has two forms, pyrrole (N-H in double_bonded) one, a five-ring of plain ring atoms none
   (the generator raises InvalidAromaticRing); and the driver fed with the search model converts benzene *)
Definition ring_adj (n : Z) : adjl :=
  map (fun i => (i, [if i =? 1 then n else i - 1; if i =? n then 1 else i + 1])) (zrange 1 (n + 1)).
Definition search_model (fuel : nat) (rings : adjl) (pyr db : list Z) : pyres (option (list (Z * Z * Z))) :=
  match kekule_component rings db (hd 0 db) pyr 7 1 fuel with
  | Ok (y :: _, _, _) => Ok (Some y)
  | Ok ([], true, _) => Err OtherError
  | Ok ([], false, _) => Ok None
  | Err e => Err e
  end.

Theorem kekule_component_examples :
  match kekule_component (ring_adj 6) [] 0 [] 7 10 1000 with Ok (ys, r, c) => (List.length ys =? 2)%nat && negb r && c | Err _ => false end = true /\
  match kekule_component (ring_adj 5) [1] 1 [] 7 10 1000 with Ok (ys, r, c) => (List.length ys =? 1)%nat && negb r && c | Err _ => false end = true /\
  match kekule_component (ring_adj 5) [] 0 [] 7 10 1000 with Ok (ys, r, c) => (List.length ys =? 0)%nat && r && c | Err _ => false end = true /\
  match kekule_driver benzene_a [[1; 2; 3; 4; 5; 6]] (search_model 1000) (fun _ _ => Some 1) with
  | Ok (g', r) => r && kekule_rel benzene_a g' && no_arom g'
  | Err _ => false
  end = true.
Proof. vm_compute. repeat split; reflexivity. Qed.
