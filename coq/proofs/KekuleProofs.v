(* C05 -- proofs about the Kekule / Thiele specification and the classifier (see model/Kekule.v). *)
From Coq Require Import ZArith List Bool Lia.
From Model Require Import PyBase Graph Kekule.
Import ListNotations.
Open Scope Z_scope.

Lemma prepare_rings_no_arom g sssr : scan_ord g 4 = [] -> prepare_rings g sssr = Ok (mkPrep [] [] [] []).
Proof. intros H. unfold prepare_rings. rewrite H. reflexivity. Qed.
