(* C11: the atom numbers of a written REACTION come back.  Composition of the reaction block theorems (parse_rxn_v2000 / parse_rxn_v3000 of
   what RDFWrite / ERDFWrite wrote, with any further lines) with postprocess_parsed_reaction (pp_reaction_written): for a reaction whose
   atom numbers are non-zero, distinct inside each role, the agents sharing none with reactants / products, the mapping the reader hands
   to create_reaction is, role by role and molecule by molecule, the list of the ORIGINAL atom numbers in the ORIGINAL order; nothing is logged. *)
From Coq Require Import ZArith List String Ascii Bool Lia.
From Model Require Import PyBase Mdl MdlMap MdlMapRxn.
From Proofs Require Import MdlProofs MdlV2000 MdlV3000 MdlRxn MdlMapProofs MdlMapRxnProofs.
Import ListNotations.
Open Scope Z_scope.
Local Notation length := List.length.
Local Notation concat := List.concat.

(* atom.get('parsed_mapping') of every atom of every molecule of a role *)
Definition rxn_maps (l : list parsed3) : list (list (option Z)) := map (fun p => map (fun a => Some (pa_map a)) (p_atoms (p3 p))) l.
Definition role_nums (gs : list wmol) : list (list Z) := map (fun g => map wa_num (wm_atoms g)) gs.
(* postprocess_parsed_reaction(tmp, remap=False, ignore=ig) on what a reaction parser returned *)
Definition read_rxn_numbers (ig : bool) (r : rparsed) : pyres ppr_result :=
  pp_reaction false ig (rxn_maps (r_reactants r)) (rxn_maps (r_products r)) (rxn_maps (r_reagents r)).

Lemma atom_maps_expected atoms fs : length atoms = length fs ->
  map (fun a => Some (pa_map a)) (map2 (expected_atom true) atoms fs) = map Some (map wa_num atoms).
Proof. intros H. rewrite <- (expected_maps atoms fs H), map_map. reflexivity. Qed.
Lemma rxn_maps_expected2 gs fss : Forall2 wf_wmol2 gs fss -> rxn_maps (map2 (expected_mol2 true) gs fss) = map (map Some) (role_nums gs).
Proof.
  induction 1 as [|g fs gs fss Hw _ IH]; [reflexivity|]. cbn [map2 rxn_maps role_nums map]. f_equal; [| exact IH].
  cbn [expected_mol2 p3 expected_mol p_atoms]. apply atom_maps_expected. exact (Forall2_len _ _ _ (w2_atoms _ _ Hw)).
Qed.
Lemma rxn_maps_expected3 gs fss : Forall2 wf_wmol3 gs fss -> rxn_maps (map2 (expected_ctab3 true) gs fss) = map (map Some) (role_nums gs).
Proof.
  induction 1 as [|g fs gs fss Hw _ IH]; [reflexivity|]. cbn [map2 rxn_maps role_nums map]. f_equal; [| exact IH].
  cbn [expected_ctab3 p3 expected_mol p_atoms]. apply atom_maps_expected. exact (Forall2_len _ _ _ (w3_atoms _ _ Hw)).
Qed.

Record rxn_numbers_ok (r : wrxn) : Prop := {
  rn_r : NoDup (concat (role_nums (wr_reactants r)));
  rn_p : NoDup (concat (role_nums (wr_products r)));
  rn_g : NoDup (concat (role_nums (wr_reagents r)));
  rz_r : Forall (fun m => m <> 0) (concat (role_nums (wr_reactants r)));
  rz_p : Forall (fun m => m <> 0) (concat (role_nums (wr_products r)));
  rz_g : Forall (fun m => m <> 0) (concat (role_nums (wr_reagents r)));
  rn_apart : forall x, In x (concat (role_nums (wr_reagents r))) -> ~ In x (concat (role_nums (wr_reactants r)) ++ concat (role_nums (wr_products r))) }.
Definition rxn_numbers_expected (r : wrxn) : ppr_result :=
  mk_pprr (role_nums (wr_reactants r)) (role_nums (wr_products r)) (role_nums (wr_reagents r)) 0%nat
          (repeat 0%nat (length (wr_reactants r)) ++ repeat 0%nat (length (wr_products r)) ++ repeat 0%nat (length (wr_reagents r))).
Lemma role_nums_length gs : length (role_nums gs) = length gs.
Proof. apply map_length. Qed.

Theorem rxn_v2000_numbers_roundtrip : forall ig r fr fp fg,
  Forall2 wf_wmol2 (wr_reactants r) fr -> Forall2 wf_wmol2 (wr_products r) fp -> Forall2 wf_wmol2 (wr_reagents r) fg ->
  (length (wr_reactants r) <= 999)%nat -> (length (wr_products r) <= 999)%nat -> (length (wr_reagents r) <= 999)%nat ->
  rxn_mols r <> [] -> rxn_numbers_ok r ->
  exists lines, rxn_lines_v2000 true r = Ok lines /\
    forall tail, (do p <- parse_rxn_v2000 (map add_nl lines ++ tail); read_rxn_numbers ig p) = Ok (rxn_numbers_expected r).
Proof.
  intros ig r fr fp fg Wr Wp Wg Lr Lp Lg Hne [N1 N2 N3 Z1 Z2 Z3 D].
  destruct (rxn_v2000_fields_roundtrip true r fr fp fg Wr Wp Wg Lr Lp Lg Hne) as (lines & Hl & Hp).
  exists lines. split; [exact Hl|]. intros tail. rewrite Hp. cbn [bind]. unfold read_rxn_numbers. cbn [r_reactants r_products r_reagents].
  rewrite (rxn_maps_expected2 _ _ Wr), (rxn_maps_expected2 _ _ Wp), (rxn_maps_expected2 _ _ Wg).
  rewrite (pp_reaction_written ig _ _ _ N1 N2 N3 Z1 Z2 Z3 D). rewrite !role_nums_length. reflexivity.
Qed.
Theorem rxn_v3000_numbers_roundtrip : forall ig r fr fp fg,
  Forall2 wf_wmol3 (wr_reactants r) fr -> Forall2 wf_wmol3 (wr_products r) fp -> Forall2 wf_wmol3 (wr_reagents r) fg ->
  rxn_mols r <> [] -> rxn_numbers_ok r ->
  exists lines, rxn_lines_v3000 true r = Ok lines /\
    forall tail, (do p <- parse_rxn_v3000 (map add_nl lines ++ tail); read_rxn_numbers ig p) = Ok (rxn_numbers_expected r).
Proof.
  intros ig r fr fp fg Wr Wp Wg Hne [N1 N2 N3 Z1 Z2 Z3 D].
  destruct (rxn_v3000_fields_roundtrip true r fr fp fg Wr Wp Wg Hne) as (lines & Hl & Hp).
  exists lines. split; [exact Hl|]. intros tail. rewrite Hp. cbn [bind]. unfold read_rxn_numbers. cbn [r_reactants r_products r_reagents].
  rewrite (rxn_maps_expected3 _ _ Wr), (rxn_maps_expected3 _ _ Wp), (rxn_maps_expected3 _ _ Wg).
  rewrite (pp_reaction_written ig _ _ _ N1 N2 N3 Z1 Z2 Z3 D). rewrite !role_nums_length. reflexivity.
Qed.

(* non-vacuity: the 3-atom example molecule (numbers 7, 3, 12) as reactant and as product, an agent-free reaction, through the theorem *)
Definition ex_rxn_numbers : wrxn := mk_wrxn (L "numbers") [ex_mol_named (L "a") ex_mol] [ex_mol_named (L "b") ex_mol] [].
Lemma ex_rxn_numbers_ok : rxn_numbers_ok ex_rxn_numbers.
Proof.
  assert (N : NoDup [7; 3; 12]) by (repeat constructor; cbn; intuition lia).
  assert (Z : Forall (fun m => m <> 0) [7; 3; 12]) by (repeat constructor; lia).
  constructor; try exact N; try exact Z; try constructor. intros x [].
Qed.
Example rxn_numbers_example :
  exists lines, rxn_lines_v2000 true ex_rxn_numbers = Ok lines /\
    (do p <- parse_rxn_v2000 (map add_nl lines ++ ex_tail); read_rxn_numbers true p) = Ok (mk_pprr [[7; 3; 12]] [[7; 3; 12]] [] 0%nat [0; 0]%nat).
Proof.
  destruct (rxn_v2000_numbers_roundtrip true ex_rxn_numbers [ex_fs] [ex_fs] []) as (lines & Hl & Hp).
  - repeat (apply Forall2_cons; [apply ex_wf2|]); apply Forall2_nil.
  - repeat (apply Forall2_cons; [apply ex_wf2|]); apply Forall2_nil.
  - apply Forall2_nil.
  - cbn. lia.
  - cbn. lia.
  - cbn. lia.
  - discriminate.
  - exact ex_rxn_numbers_ok.
  - exists lines. split; [exact Hl|]. rewrite Hp. reflexivity.
Qed.
