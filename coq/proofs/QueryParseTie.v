(* C08 -- TIE BY TRANSLATION of _query_parse: the function generated statement by statement from the source
   (Gen.QueryParseBody.g_query_parse, tools/gen_queryparse.py) equals the hand-written model Query.query_parse, which all
   theorems about bracket atoms are stated for, on EVERY token.  A behaviour-changing edit of the source changes the
   generated function and breaks g_query_parse_eq. *)
From Coq Require Import ZArith List String Ascii Bool Lia.
From Gen Require Import SmartsTables QueryParseBody.
From Model Require Import PyBase Tokenize Query.
From Proofs Require Import SmartsProofs SmartsRoundtrip.
Import ListNotations.
Open Scope Z_scope.

(* the record of the hand-written model as the dict of the source: a one-item element list is the scalar case *)
Definition inj_elts (l : list elt) : elval := match l with [e] => EScalar e | _ => EList l end.
Definition inj_parsed (p : parsed) : gparsed :=
  mkG (p_isotope p) (p_charge p) (p_mapping p) (p_stereo p) (Some (inj_elts (p_element p))) (p_nb p) (p_h p) (p_rings p) (p_het p)
      (p_hyb p) (p_masked p).
Definition lift (r : pyres parsed) : pyres gparsed := match r with Ok p => Ok (inj_parsed p) | Err e => Err e end.

(* ---------------------------------------------------------------- helper facts *)
Lemma truthy_exists ps : negb (forallb g_truthy ps) = existsb (fun x => str_eqb x []) ps.
Proof. induction ps as [|a r IH]; [reflexivity|]. cbn. unfold g_truthy at 1. destruct (str_eqb a []); cbn; [reflexivity|exact IH]. Qed.

Lemma glen1 {A} (l : list A) : (g_len l =? 1) = Nat.eqb (List.length l) 1.
Proof.
  unfold g_len. destruct l as [|a [|b r]]; [reflexivity|reflexivity|]. cbn [List.length Nat.eqb].
  apply Z.eqb_neq. lia.
Qed.

Lemma all_same_true a l : all_same (a :: l) = true -> forall x, In x l -> x = a.
Proof.
  revert a. induction l as [|b r IH]; intros a H x Hx; [destruct Hx|].
  cbn [all_same] in H. apply andb_true_iff in H. destruct H as [E H]. apply Ascii.eqb_eq in E. subst b.
  destruct Hx as [<-|Hx]; [reflexivity|]. exact (IH a H x Hx).
Qed.
Lemma all_same_false a l : all_same (a :: l) = false -> exists x, In x l /\ x <> a.
Proof.
  revert a. induction l as [|b r IH]; intros a H; [discriminate|].
  cbn [all_same] in H. destruct (ceq a b) eqn:E.
  - apply Ascii.eqb_eq in E. subst b. cbn in H. destruct (IH a H) as [x [Hx Hn]]. exists x. split; [right; exact Hx|exact Hn].
  - exists b. split; [left; reflexivity|]. intros ->. unfold ceq in E. rewrite Ascii.eqb_refl in E. discriminate.
Qed.
Lemma nodup_const a l : (forall x, In x l -> x = a) -> (List.length (nodup ascii_dec l) <= 1)%nat.
Proof.
  induction l as [|b r IH]; intros H; [cbn; lia|]. cbn [nodup].
  assert (Hr : forall x, In x r -> x = a) by (intros x Hx; apply H; right; exact Hx).
  destruct (in_dec ascii_dec b r) as [Hi|Hn]; [exact (IH Hr)|].
  destruct r as [|c r']; [cbn; lia|]. exfalso. apply Hn. left. rewrite (Hr c (or_introl eq_refl)). symmetry. apply H. left. reflexivity.
Qed.
Lemma nodup_two (l : list ascii) a b : In a l -> In b l -> a <> b -> (2 <= List.length (nodup ascii_dec l))%nat.
Proof.
  intros Ha Hb Hn. apply (nodup_In ascii_dec) in Ha. apply (nodup_In ascii_dec) in Hb.
  destruct (nodup ascii_dec l) as [|x [|y r]]; [destruct Ha| |cbn; lia].
  destruct Ha as [<-|[]]. destruct Hb as [<-|[]]. congruence.
Qed.
Lemma set_len l : (g_len (g_set l) >? 1) = negb (all_same l).
Proof.
  unfold g_len, g_set. destruct l as [|a r]; [reflexivity|]. rewrite Z.gtb_ltb.
  destruct (all_same (a :: r)) eqn:E; cbn [negb].
  - apply Z.ltb_ge. pose proof (nodup_const a (a :: r)) as H.
    assert (forall x, In x (a :: r) -> x = a) as Hx.
    { intros x [<-|Hx]; [reflexivity|]. exact (all_same_true a r E x Hx). }
    specialize (H Hx). lia.
  - apply Z.ltb_lt. destruct (all_same_false a r E) as [x [Hx Hn]].
    pose proof (nodup_two (a :: r) a x (or_introl eq_refl) (or_intror Hx) (fun e => Hn (eq_sym e))). lia.
Qed.

Lemma remap_int ps :
  g_remap ValueError IncorrectSmarts (map_res (fun x => g_int (tl x)) ps) =
  map_res (fun x => match Query.py_int (tl x) with Some n => Ok n | None => Err IncorrectSmarts end) ps.
Proof.
  induction ps as [|a r IH]; [reflexivity|]. cbn [map_res]. unfold g_int at 1.
  destruct (Query.py_int (tl a)) as [n|]; [|reflexivity]. rewrite <- IH.
  destruct (map_res (fun x => g_int (tl x)) r) as [ys|e]; [reflexivity|]. cbn. destruct (pyexn_eqb e ValueError); reflexivity.
Qed.

Lemma map_res_ext {A B} (f g : A -> pyres B) l : (forall x, f x = g x) -> map_res f l = map_res g l.
Proof. intros H. induction l as [|a r IH]; [reflexivity|]. cbn. rewrite H, IH. reflexivity. Qed.

(* ---------------------------------------------------------------- the loop over the primitives *)
Ltac tail_tac :=
  rewrite remap_int;
  match goal with |- context [g_hd (split_on ?c ?p)] => destruct (split_on c p) as [|[|? ?] ?] end; [reflexivity|reflexivity|];
  cbn [g_hd]; cbv beta iota; unfold prim_letter; cbn [existsb];
  match goal with |- context [ceq ?t "D"%char] => destruct (ceq t "D"), (ceq t "h"), (ceq t "r"), (ceq t "x"), (ceq t "z") end;
  cbn [negb orb]; try reflexivity;
  match goal with |- context [map_res ?f ?l] => destruct (map_res f l) end; reflexivity.
Lemma body_eq out p :
  g_qp_loop0_body (inj_parsed out) p = match prim_step out p with Ok o => Ok (CNext, inj_parsed o) | Err e => Err e end.
Proof.
  unfold g_qp_loop0_body, prim_step.
  destruct (str_eqb p []); [reflexivity|].
  destruct (str_eqb p ["a"%char]); [reflexivity|].
  destruct (str_eqb p ["A"%char]); [reflexivity|].
  destruct (str_eqb p ["!"%char; "R"%char]); [reflexivity|].
  destruct (str_eqb p ["M"%char]); [reflexivity|].
  cbv zeta. rewrite truthy_exists.
  destruct (existsb (fun x => str_eqb x []) (split_on "," p)); [reflexivity|].
  rewrite glen1. unfold first_chars_res.
  destruct (Nat.eqb (List.length (split_on "," p)) 1); cbn [negb andb].
  - tail_tac.
  - (* several alternatives: the first characters are compared *)
    change (fun x : list ascii => match x with [] => Err IndexError | c :: _ => Ok c end) with (fun v_x : list ascii => @g_hd ascii v_x).
    destruct (map_res (fun v_x : list ascii => g_hd v_x) (split_on "," p)) as [firsts|e]; [|reflexivity].
    cbv beta iota. rewrite set_len. destruct (negb (all_same firsts)); [reflexivity|]. tail_tac.
Qed.

Lemma loop_eq ps : forall out, g_qp_loop0 (inj_parsed out) ps = lift (prim_loop out ps).
Proof.
  induction ps as [|x r IH]; intros out; [reflexivity|].
  cbn [g_qp_loop0 prim_loop]. rewrite body_eq. destruct (prim_step out x) as [o|e]; [apply IH|reflexivity].
Qed.

(* ---------------------------------------------------------------- the head: the four scans, the element *)
Lemma py_int_digits ds : ds <> [] -> forallb is_digit ds = true -> Query.py_int ds = Some (horner ds).
Proof.
  intros Hn Hd. destruct ds as [|c r]; [congruence|].
  assert (Hc : is_digit c = true) by (cbn in Hd; apply andb_true_iff in Hd; tauto).
  assert (G : int_body (c :: r) 0 false = Some (horner (c :: r))).
  { rewrite int_body_digits; [|exact Hd | left; discriminate]. reflexivity. }
  unfold Query.py_int. destruct c as [[] [] [] [] [] [] [] []]; try exact G; vm_compute in Hc; discriminate.
Qed.
Lemma span_all f l : forall ds r, span f l = (ds, r) -> forallb f ds = true.
Proof.
  induction l as [|c t IH]; intros ds r H; cbn in H; [inversion H; reflexivity|].
  destruct (f c) eqn:E; [|inversion H; reflexivity].
  destruct (span f t) as [a b0] eqn:Es. inversion H; subst. cbn. rewrite E. eapply IH. reflexivity.
Qed.
Lemma mpp_digits l : forall a d, mpp_search l = Some (a, d) -> d <> [] /\ forallb is_digit d = true.
Proof.
  induction l as [|c r IH]; intros a d H; cbn [mpp_search] in H; [discriminate|].
  destruct (ceq c ":" && mpp_here r) eqn:E.
  - inversion H; subst. apply andb_true_iff in E. destruct E as [_ E]. unfold mpp_here in E.
    destruct d as [|d0 ds]; [discriminate|]. split; [discriminate|].
    apply andb_true_iff in E. destruct E as [E1 E2]. apply andb_true_iff in E1. destruct E1 as [E1 _]. cbn. rewrite E1. exact E2.
  - destruct (mpp_search r) as [[a' d']|] eqn:Em; [|discriminate]. inversion H; subst. exact (IH a' d eq_refl).
Qed.
Lemma charge_lookup l a g b : chg_search l = Some (a, g, b) ->
  g_remap KeyError IncorrectSmarts (g_charge_dict g) = match Query.charge_dict g with Some c => Ok c | None => Err IncorrectSmarts end.
Proof.
  intros H. apply chg_search_group in H. cbn in H.
  repeat (destruct H as [<-|H]; [vm_compute; reflexivity|]). destruct H.
Qed.
Lemma elt_eq x :
  (if g_startswith x ["#"%char] then match g_int (tl x) with Err e => Err e | Ok n => Ok (ENum n) end else Ok (ESym x)) = parse_elt x.
Proof.
  destruct x as [|c r]; [reflexivity|]. unfold parse_elt, g_int. cbn [g_startswith tl].
  destruct c as [[] [] [] [] [] [] [] []]; cbn; try reflexivity. destruct (Query.py_int r); reflexivity.
Qed.
Lemma elval_eq (els : list elt) :
  (if g_len els =? 1 then match g_hd els with Err e => Err e | Ok r => Ok (EScalar r) end else Ok (EList els)) = Ok (inj_elts els).
Proof. rewrite glen1. destruct els as [|e [|e' r]]; reflexivity. Qed.

Lemma tail_eq iso chg mp st t4 :
  (match g_qp_s5 t4 with Err e_ => Err e_ | Ok v_primitives =>
   match g_qp_s6 v_primitives with Err e_ => Err e_ | Ok v_element =>
   match g_qp_s7 (mkG iso chg mp st None None None None None None false) v_element with Err e_ => Err e_ | Ok v_out =>
   match g_qp_s8 v_out v_primitives with Err e_ => Err e_ | Ok v_out => g_qp_s9 v_out end end end end)
  = lift (match split_on ";" t4 with
          | [] => Err IncorrectSmarts
          | e0 :: prims =>
              if str_eqb e0 [] then Err IncorrectSmarts
              else match map_res parse_elt (split_on "," e0) with
                   | Err e => Err e
                   | Ok els => prim_loop (mkParsed iso chg mp st els None None None None None false) prims
                   end
          end).
Proof.
  unfold g_qp_s5, g_qp_s6, g_qp_s7, g_qp_s8, g_qp_s9.
  destruct (split_on ";" t4) as [|e0 prims] eqn:E; [exfalso; eapply SmartsProofs.split_on_nonempty; exact E|].
  cbn [g_hd tl]. unfold g_truthy. destruct (str_eqb e0 []); cbn [negb]; [reflexivity|].
  match goal with |- context [map_res ?f (split_on "," e0)] => rewrite (map_res_ext f parse_elt (split_on "," e0) elt_eq) end.
  destruct (map_res parse_elt (split_on "," e0)) as [els|e]; [|reflexivity].
  cbv beta iota. rewrite elval_eq. cbv beta iota.
  change (set_element (mkG iso chg mp st None None None None None None false) (inj_elts els))
    with (inj_parsed (mkParsed iso chg mp st els None None None None None false)).
  rewrite loop_eq. destruct (prim_loop _ prims); reflexivity.
Qed.

Theorem g_query_parse_eq t : g_query_parse t = lift (query_parse t).
Proof.
  unfold g_query_parse, query_parse, g_qp_s0, g_qp_s1, g_qp_s2, g_qp_s3, g_qp_s4.
  unfold re_match_iso_re, re_search_chg_re, re_search_mpp_re, re_search_str_re.
  destruct (span is_digit t) as [ds r] eqn:Hs.
  pose proof (span_all _ _ _ _ Hs) as Hd.
  destruct ds as [|d0 ds']; cbv beta iota zeta.
  2: (unfold g_int at 1; cbn [m_grp m_post fst snd]; rewrite (py_int_digits (d0 :: ds') ltac:(discriminate) Hd); cbv beta iota).
  all: match goal with |- context [chg_search ?x] => destruct (chg_search x) as [[[a g] b]|] eqn:Ec end; cbv beta iota zeta.
  all: try (cbn [m_grp m_pre m_post fst snd]; rewrite (charge_lookup _ _ _ _ Ec); destruct (charge_dict g); cbv beta iota zeta; [|reflexivity]).
  all: match goal with |- context [mpp_search ?x] => destruct (mpp_search x) as [[a1 d]|] eqn:Em end; cbv beta iota zeta.
  all: try (cbn [m_grp m_pre m_post fst snd tl]; unfold g_int at 1; destruct (mpp_digits _ _ _ Em) as [Hn Hd1]; rewrite (py_int_digits d Hn Hd1); cbv beta iota zeta).
  all: match goal with |- context [str_search ?x] => destruct (str_search x) as [[[a2 g2] b2]|] end; cbv beta iota zeta.
  all: cbn [m_grp m_pre m_post fst snd].
  all: apply tail_eq.
Qed.

(* ---------------------------------------------------------------- consequences stated for the GENERATED function *)
(* an empty segment (what a ';'-separated charge or stereo mark leaves behind) is skipped: the loop goes on *)
Lemma g_empty_segment_skipped out ps : g_qp_loop0 out ([] :: ps) = g_qp_loop0 out ps.
Proof. reflexivity. Qed.
(* the exceptions of the generated function are those of the model *)
Lemma g_query_parse_errors t e : g_query_parse t = Err e -> e = IncorrectSmarts \/ e = ValueError.
Proof.
  rewrite g_query_parse_eq. destruct (query_parse t) as [p|e'] eqn:E; [discriminate|]. cbn. intros H; inversion H; subst.
  exact (query_parse_errors t e E).
Qed.
Lemma g_query_parse_example :
  g_query_parse (s2l "13C,#7;@@;D1,D2;-2;h0;!R;M:7") =
    Ok (mkG (Some 13) (Some (-2)) (Some 7) (Some false) (Some (EList [ESym (s2l "C"); ENum 7])) (Some [1; 2]) (Some [0]) (Some (IInt 0)) None None true) /\
  g_query_parse (s2l "N;+;D3") = Ok (mkG None (Some 1) None None (Some (EScalar (ESym (s2l "N")))) (Some [3]) None None None None false) /\
  g_query_parse (s2l "N;D3;+") = g_query_parse (s2l "N+;D3") /\
  g_query_parse (s2l "C;D1,h1") = Err IncorrectSmarts /\ g_query_parse (s2l "#x") = Err ValueError.
Proof. vm_compute. repeat split; reflexivity. Qed.
