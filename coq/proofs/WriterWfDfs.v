(* C02, writer_wellformed, part 4: invariants of the DFS of Smiles._smiles (dfs_step), for any sort key and any number of steps:
   - every tree edge and every ring-closure pair is a bond of the molecule (nothing is written that is not there);
   - every cycle number sits in the closure lists of exactly two different atoms, once in each, with the partner recorded;
   so the closure lists of ANY traversal satisfy the hypothesis wf_events of C02_closure_numbers_consistent, provided the
   flattened token list mentions no atom twice (WriterWfFlatten2). *)
From Coq Require Import ZArith List Bool Lia Permutation.
From Model Require Import PyBase Graph Writer.
From Proofs Require Import WriterProofsClosures WriterWfAtoms WriterWfStream.
Import ListNotations.
Open Scope Z_scope.

(* ------------------------------------------------------------------------------------------------ the graph *)
Definition loop_free (g : mol) : Prop := forall n, ~ In n (nbr_ids g n).
Definition adj_sym (g : mol) : Prop := forall n m, In m (nbr_ids g n) -> In n (nbr_ids g m).

Lemma zget_key_In {V} (l : list (Z * V)) k v : zget l k = Some v -> In k (keys l).
Proof.
  induction l as [|[a b] l IH]; cbn [zget keys map fst]; [discriminate|].
  destruct (k =? a) eqn:E; intros H; [apply Z.eqb_eq in E; left; symmetry; exact E | right; apply IH; exact H].
Qed.

Lemma wf_mol_graph g : wf_mol g = true -> loop_free g /\ adj_sym g.
Proof.
  unfold wf_mol. intros H. apply andb_true_iff in H. destruct H as [_ H]. rewrite forallb_forall in H.
  assert (Hn : forall n m, In m (nbr_ids g n) -> m <> n /\ In n (nbr_ids g m)).
  { intros n m Hm. unfold nbr_ids, nbrs in Hm. destruct (zget (m_adj g) n) as [l|] eqn:El; [|destruct Hm].
    specialize (H (n, l) (zget_In _ _ _ El)). cbn [fst snd] in H. apply andb_true_iff in H. destruct H as [_ H].
    rewrite forallb_forall in H. unfold keys in Hm. apply in_map_iff in Hm. destruct Hm as [[m' b] [Em Hmb]]. cbn in Em. subst m'.
    specialize (H (m, b) Hmb). cbn [fst snd] in H. apply andb_true_iff in H. destruct H as [H H3].
    apply andb_true_iff in H. destruct H as [H1 _]. apply negb_true_iff in H1. apply Z.eqb_neq in H1. split; [exact H1|].
    unfold bond_of in H3. destruct (zget (nbrs g m) n) eqn:Eb; [|discriminate]. unfold nbr_ids. apply (zget_key_In _ _ _ Eb). }
  split.
  - intros n Hin. destruct (Hn n n Hin) as [Hne _]. apply Hne. reflexivity.
  - intros n m Hm. apply (Hn n m Hm).
Qed.

(* ------------------------------------------------------------------------------------------------ zapp *)
Lemma zgetl_zapp {V} (d : list (Z * list V)) k x k' :
  zgetl (zapp d k x) k' = if k' =? k then zgetl d k ++ [x] else zgetl d k'.
Proof.
  unfold zgetl. induction d as [|[a l] d IH]; cbn [zapp zget].
  - destruct (k' =? k); reflexivity.
  - destruct (k =? a) eqn:E.
    + apply Z.eqb_eq in E. subst a. cbn [zget]. rewrite ?Z.eqb_refl. destruct (k' =? k); reflexivity.
    + cbn [zget]. rewrite ?E. destruct (k' =? a) eqn:E2; [|exact IH].
      destruct (k' =? k) eqn:E3; [|reflexivity].
      apply Z.eqb_eq in E2. apply Z.eqb_eq in E3. subst. rewrite Z.eqb_refl in E. discriminate.
Qed.

(* ------------------------------------------------------------------------------------------------ the invariant *)
Section Dfs.
  Variable g : mol.
  Variable key : Z -> Z -> list Z.
  Variable cycle0 : Z.
  Hypothesis Hloop : loop_free g.
  Hypothesis Hsym : adj_sym g.

  Definition cyc (tokens : list (Z * list (Z * Z))) (a : Z) : list Z := map snd (zgetl tokens a).

  Record DI (st : dfs_st) : Prop := mkDI {
    di_stack : forall p d ch, In (p, d, ch) (ds_stack st) -> forall c, In c ch -> In c (nbr_ids g p);
    di_edges : forall p c, In c (zgetl (ds_edges st) p) -> In c (nbr_ids g p);
    di_tok : forall a m c, In (m, c) (zgetl (ds_tokens st) a) -> In m (nbr_ids g a) /\ cycle0 < c <= ds_cycle st;
    di_nodup : forall a, NoDup (cyc (ds_tokens st) a);
    di_pair : forall c, (forall a, ~ In c (cyc (ds_tokens st) a)) \/
                        (exists p ch, p <> ch /\ forall a, In c (cyc (ds_tokens st) a) <-> (a = p \/ a = ch));
    di_cycle : cycle0 <= ds_cycle st
  }.

  Lemma dfs_step_DI st st' : DI st -> dfs_step g key st = Some st' -> DI st'.
  Proof.
    intros I H. unfold dfs_step in H. destruct (ds_stack st) as [|[[parent depth] children] rest] eqn:Es; [discriminate|].
    destruct children as [|child children'].
    - inversion H. subst st'. destruct I. constructor; cbn [ds_stack ds_edges ds_tokens ds_cycle]; try assumption.
      intros p d ch Hin. apply (di_stack0 p d ch). rewrite Es. right. exact Hin.
    - assert (Hchild : In child (nbr_ids g parent)).
      { apply (di_stack _ I parent depth (child :: children')); [rewrite Es; left; reflexivity | left; reflexivity]. }
      assert (Hstack1 : forall p d ch, In (p, d, ch) ((parent, depth, children') :: rest) -> forall c, In c ch -> In c (nbr_ids g p)).
      { intros p d ch [E | Hin] c Hc.
        - injection E as E1 E2 E3. subst p d ch. apply (di_stack _ I parent depth (child :: children')); [rewrite Es; left; reflexivity | right; exact Hc].
        - apply (di_stack _ I p d ch); [rewrite Es; right; exact Hin | exact Hc]. }
      destruct (negb (zhas (ds_visited st) child)).
      + (* tree edge *)
        inversion H. subst st'. clear H. destruct I. constructor; cbn [ds_stack ds_edges ds_tokens ds_cycle]; try assumption.
        * destruct (1 <? depth); [|exact Hstack1].
          destruct (filter (fun m => negb (m =? parent)) (nbr_ids g child)) as [|f0 front] eqn:Ef; [exact Hstack1|].
          intros p d ch [E | Hin] c Hc; [|apply (Hstack1 p d ch Hin c Hc)].
          injection E as E1 E2 E3. subst p d ch.
          change (In c (sort_by (key child) (f0 :: front))) in Hc. apply In_sort_by in Hc. rewrite <- Ef in Hc. apply filter_In in Hc. apply Hc.
        * intros p c Hc. rewrite zgetl_zapp in Hc. destruct (p =? parent) eqn:Ep; [|apply di_edges0; exact Hc].
          apply Z.eqb_eq in Ep. subst p. apply in_app_or in Hc. destruct Hc as [Hc | [<- | []]]; [apply di_edges0; exact Hc | exact Hchild].
      + destruct (negb (pair_mem (child, parent) (ds_disc st))).
        * (* ring closure: a new cycle number on both ends *)
          inversion H. subst st'. clear H.
          assert (Hne : parent <> child) by (intros E; subst; exact (Hloop _ Hchild)).
          set (c := ds_cycle st + 1).
          assert (Hfresh : forall a, ~ In c (cyc (ds_tokens st) a)).
          { intros a Hin. unfold cyc in Hin. apply in_map_iff in Hin. destruct Hin as [[m c'] [E Hin]]. cbn in E. subst c'.
            destruct (di_tok _ I a m c Hin) as [_ Hb]. unfold c in Hb. lia. }
          assert (Hcyc : forall a, cyc (zapp (zapp (ds_tokens st) parent (child, c)) child (parent, c)) a =
                                   cyc (ds_tokens st) a ++ (if (a =? parent) || (a =? child) then [c] else [])).
          { intros a. unfold cyc. rewrite zgetl_zapp. destruct (a =? child) eqn:Ec.
            - apply Z.eqb_eq in Ec. subst a. rewrite zgetl_zapp. destruct (child =? parent) eqn:E2; [apply Z.eqb_eq in E2; symmetry in E2; contradiction|].
              rewrite map_app. cbn [map snd orb]. reflexivity.
            - rewrite zgetl_zapp. rewrite orb_false_r. destruct (a =? parent) eqn:Ep; [apply Z.eqb_eq in Ep; subst a; rewrite map_app; reflexivity | rewrite app_nil_r; reflexivity]. }
          destruct I. constructor; cbn [ds_stack ds_edges ds_tokens ds_cycle]; try assumption.
          -- intros a m c' Hin. rewrite zgetl_zapp in Hin. destruct (a =? child) eqn:Ec.
             ++ apply Z.eqb_eq in Ec. subst a. apply in_app_or in Hin. destruct Hin as [Hin | [E | []]].
                ** rewrite zgetl_zapp in Hin. destruct (child =? parent) eqn:E2; [apply Z.eqb_eq in E2; symmetry in E2; contradiction|].
                   destruct (di_tok0 child m c' Hin) as [A B]. split; [exact A | lia].
                ** inversion E. subst. split; [apply Hsym; exact Hchild | unfold c; lia].
             ++ rewrite zgetl_zapp in Hin. destruct (a =? parent) eqn:Ep.
                ** apply Z.eqb_eq in Ep. subst a. apply in_app_or in Hin. destruct Hin as [Hin | [E | []]].
                   --- destruct (di_tok0 parent m c' Hin) as [A B]. split; [exact A | lia].
                   --- inversion E. subst. split; [exact Hchild | unfold c; lia].
                ** destruct (di_tok0 a m c' Hin) as [A B]. split; [exact A | lia].
          -- intros a. rewrite Hcyc. destruct ((a =? parent) || (a =? child)); [|rewrite app_nil_r; apply di_nodup0].
             apply NoDup_snoc; [apply di_nodup0 | apply Hfresh].
          -- intros c'. destruct (Z.eq_dec c' c) as [-> | Hc'].
             ++ right. exists parent, child. split; [exact Hne|]. intros a. rewrite Hcyc. split.
                ** intros Hin. apply in_app_or in Hin. destruct Hin as [Hin | Hin]; [exfalso; exact (Hfresh a Hin)|].
                   destruct (a =? parent) eqn:E1; [left; apply Z.eqb_eq; exact E1|].
                   destruct (a =? child) eqn:E2; [right; apply Z.eqb_eq; exact E2 | destruct Hin].
                ** intros [-> | ->]; apply in_or_app; right.
                   --- rewrite Z.eqb_refl. left. reflexivity.
                   --- rewrite Z.eqb_refl, orb_true_r. left. reflexivity.
             ++ destruct (di_pair0 c') as [Hno | [p [ch [Hd Hiff]]]].
                ** left. intros a Hin. rewrite Hcyc in Hin. apply in_app_or in Hin. destruct Hin as [Hin | Hin]; [exact (Hno a Hin)|].
                   destruct ((a =? parent) || (a =? child)); [destruct Hin as [E | []]; symmetry in E; contradiction | destruct Hin].
                ** right. exists p, ch. split; [exact Hd|]. intros a. rewrite Hcyc. rewrite <- Hiff. split.
                   --- intros Hin. apply in_app_or in Hin. destruct Hin as [Hin | Hin]; [exact Hin|].
                       destruct ((a =? parent) || (a =? child)); [destruct Hin as [E | []]; symmetry in E; contradiction | destruct Hin].
                   --- intros Hin. apply in_or_app. left. exact Hin.
          -- unfold c. lia.
        * inversion H. subst st'. destruct I. constructor; cbn [ds_stack ds_edges ds_tokens ds_cycle]; assumption.
  Qed.

  Lemma iter_opt_inv {S} (P : S -> Prop) (step : S -> option S) :
    (forall s s', P s -> step s = Some s' -> P s') -> forall fuel s r, P s -> iter_opt fuel step s = Some r -> P r.
  Proof.
    intros Hstep. induction fuel as [|fuel IH]; intros s r Hs H; cbn [iter_opt] in H; [discriminate|].
    destruct (step s) as [s'|] eqn:E; [apply (IH s' r (Hstep s s' Hs E) H) | inversion H; subst; exact Hs].
  Qed.

  Lemma dfs_run_DI fuel st d : DI st -> iter_opt fuel (dfs_step g key) st = Some d -> DI d.
  Proof. apply (iter_opt_inv DI (dfs_step g key)). exact dfs_step_DI. Qed.
End Dfs.

(* ------------------------------------------------------------------------------------------------ any traversal *)
Theorem traverse_DI : forall g w tb o all st t, loop_free g -> adj_sym g ->
  traverse g w tb o all st = Ok t -> DI g (ws_cycle st) (tr_dfs t).
Proof.
  intros g w tb o all st t Hl Hs H. unfold traverse in H.
  destruct (min_by (key_start w tb o all) (ws_atoms st)) as [start|]; [|discriminate].
  match type of H with context [iter_opt ?f ?step ?s0] => destruct (iter_opt f step s0) as [d|] eqn:Ed; [|discriminate] end.
  inversion H. subst t. cbn [tr_dfs].
  eapply dfs_run_DI; [exact Hl | exact Hs | | exact Ed].
  constructor; cbn [ds_stack ds_edges ds_tokens ds_cycle].
  - intros p d0 ch [E | []] c Hc. injection E as E1 E2 E3. subst p d0 ch. apply In_sort_by in Hc. exact Hc.
  - intros p c [].
  - intros a m c [].
  - intros a. constructor.
  - intros c. left. intros a [].
  - lia.
Qed.

(* ------------------------------------------------------------------------------------------------ counting *)
Lemma count_le_1_NoDup (l : list Z) c : NoDup l -> (count_occ Z.eq_dec l c <= 1)%nat.
Proof.
  intros H. destruct (in_dec Z.eq_dec c l) as [Hin | Hnin].
  - rewrite (proj1 (NoDup_count_occ' Z.eq_dec l) H c Hin). lia.
  - rewrite (proj1 (count_occ_not_In Z.eq_dec l c) Hnin). lia.
Qed.

Lemma count_concat_map (f : Z -> list Z) c : forall L,
  count_occ Z.eq_dec (concat (map f L)) c = fold_right (fun a acc => (count_occ Z.eq_dec (f a) c + acc)%nat) O L.
Proof.
  induction L as [|a L IH]; cbn [map concat fold_right]; [reflexivity|]. rewrite count_occ_app, IH. reflexivity.
Qed.

(* a cycle that occurs only at two atoms, at most once in each, occurs at most twice along a duplicate-free atom list *)
Lemma count_two (f : Z -> list Z) c p ch : (forall a, NoDup (f a)) -> (forall a, In c (f a) -> a = p \/ a = ch) ->
  forall L, NoDup L ->
  (fold_right (fun a acc => (count_occ Z.eq_dec (f a) c + acc)%nat) O L <=
   (if in_dec Z.eq_dec p L then 1 else 0) + (if in_dec Z.eq_dec ch L then (if Z.eq_dec p ch then 0 else 1) else 0))%nat.
Proof.
  intros Hnd Hin. induction L as [|a L IH]; intros HL; cbn [fold_right]; [lia|].
  inversion HL as [|? ? Ha HL']. subst. specialize (IH HL').
  pose proof (count_le_1_NoDup (f a) c (Hnd a)) as H1.
  destruct (in_dec Z.eq_dec c (f a)) as [Hc | Hc].
  - destruct (Hin a Hc) as [-> | ->].
    + destruct (in_dec Z.eq_dec p (p :: L)) as [_ | n]; [|exfalso; apply n; left; reflexivity].
      destruct (in_dec Z.eq_dec p L) as [i | _]; [contradiction|].
      destruct (in_dec Z.eq_dec ch (p :: L)) as [i1 | n1]; destruct (in_dec Z.eq_dec ch L) as [i2 | n2]; destruct (Z.eq_dec p ch); try lia.
      * exfalso. apply n1. right. exact i2.
    + destruct (in_dec Z.eq_dec ch (ch :: L)) as [_ | n]; [|exfalso; apply n; left; reflexivity].
      destruct (in_dec Z.eq_dec ch L) as [i | _]; [contradiction|].
      destruct (Z.eq_dec p ch) as [-> | Hne].
      * destruct (in_dec Z.eq_dec ch (ch :: L)) as [_ | n]; [|exfalso; apply n; left; reflexivity].
        destruct (in_dec Z.eq_dec ch L); [contradiction | lia].
      * destruct (in_dec Z.eq_dec p (ch :: L)) as [i1 | n1]; destruct (in_dec Z.eq_dec p L) as [i2 | n2]; try lia.
        -- exfalso. apply n1. right. exact i2.
  - rewrite (proj1 (count_occ_not_In Z.eq_dec (f a) c) Hc).
    destruct (in_dec Z.eq_dec p (a :: L)) as [i1 | n1]; destruct (in_dec Z.eq_dec p L) as [i2 | n2];
    destruct (in_dec Z.eq_dec ch (a :: L)) as [i3 | n3]; destruct (in_dec Z.eq_dec ch L) as [i4 | n4]; destruct (Z.eq_dec p ch); try lia;
    try (exfalso; apply n1; right; exact i2); try (exfalso; apply n3; right; exact i4).
Qed.

(* ------------------------------------------------------------------------------------------------ wf_events from counts *)
Definition status (open seen : list Z) (c : Z) : nat :=
  if in_dec Z.eq_dec c open then 1%nat else if in_dec Z.eq_dec c seen then 2%nat else 0%nat.

Lemma wf_events_of_counts : forall evs open seen,
  Forall (@NoDup Z) evs -> (forall c, In c open -> In c seen) ->
  (forall c, (count_occ Z.eq_dec (concat evs) c + status open seen c <= 2)%nat) ->
  wf_events open seen evs.
Proof.
  induction evs as [|cs r IH]; intros open seen Hnd Hos Hcnt; cbn [wf_events]; [exact I|].
  inversion Hnd as [|? ? Hcs Hr]. subst.
  assert (Hclass : forall c, In c cs -> In c open \/ ~ In c seen).
  { intros c Hc. destruct (in_dec Z.eq_dec c open) as [Ho | Hno]; [left; exact Ho|]. right. intros Hs.
    specialize (Hcnt c). cbn [concat] in Hcnt. rewrite count_occ_app in Hcnt. unfold status in Hcnt.
    destruct (in_dec Z.eq_dec c open); [contradiction|]. destruct (in_dec Z.eq_dec c seen); [|contradiction].
    pose proof (proj1 (count_occ_In Z.eq_dec cs c) Hc). lia. }
  split; [exact Hcs|]. split; [exact Hclass|].
  apply IH; [exact Hr | |].
  - intros c Hc. unfold open_after in Hc. apply in_app_or in Hc. apply in_or_app. destruct Hc as [Hc | Hc].
    + apply filter_In in Hc. left. apply Hos. apply Hc.
    + right. exact Hc.
  - intros c. specialize (Hcnt c). cbn [concat] in Hcnt. rewrite count_occ_app in Hcnt.
    assert (Hin_open' : In c (open_after open seen cs) <-> (In c open /\ ~ In c cs) \/ (In c cs /\ ~ In c seen)).
    { unfold open_after, opening. rewrite in_app_iff, !filter_In. split.
      - intros [[A B] | [A B]].
        + left. split; [exact A|]. apply negb_true_iff in B. intros Hc. apply zmem_In in Hc. congruence.
        + right. split; [exact A|]. apply negb_true_iff in B. intros Hc. apply zmem_In in Hc. congruence.
      - intros [[A B] | [A B]].
        + left. split; [exact A|]. apply negb_true_iff. apply not_true_iff_false. rewrite zmem_In. exact B.
        + right. split; [exact A|]. apply negb_true_iff. apply not_true_iff_false. rewrite zmem_In. exact B. }
    assert (Hin_seen' : In c (seen ++ opening seen cs) <-> In c seen \/ In c cs).
    { unfold opening. rewrite in_app_iff, filter_In. split.
      - intros [A | [A _]]; [left | right]; exact A.
      - intros [A | A]; [left; exact A|]. destruct (in_dec Z.eq_dec c seen) as [Hs | Hns]; [left; exact Hs|].
        right. split; [exact A|]. apply negb_true_iff. apply not_true_iff_false. rewrite zmem_In. exact Hns. }
    unfold status in *.
    destruct (in_dec Z.eq_dec c cs) as [Hc | Hnc].
    + pose proof (proj1 (count_occ_In Z.eq_dec cs c) Hc) as H1.
      destruct (in_dec Z.eq_dec c (open_after open seen cs)) as [Ho' | Hno'].
      * apply Hin_open' in Ho'. destruct Ho' as [[_ B] | [_ B]]; [contradiction|].
        destruct (in_dec Z.eq_dec c open) as [Ho | _]; [exfalso; apply B; apply Hos; exact Ho|].
        destruct (in_dec Z.eq_dec c seen); [contradiction | lia].
      * destruct (in_dec Z.eq_dec c (seen ++ opening seen cs)) as [_ | Hns']; [|exfalso; apply Hns'; apply Hin_seen'; right; exact Hc].
        destruct (in_dec Z.eq_dec c open) as [Ho | Hno]; [lia|].
        destruct (in_dec Z.eq_dec c seen) as [Hs | Hns]; [lia|].
        exfalso. apply Hno'. apply Hin_open'. right. split; assumption.
    + rewrite (proj1 (count_occ_not_In Z.eq_dec cs c) Hnc) in Hcnt.
      destruct (in_dec Z.eq_dec c (open_after open seen cs)) as [Ho' | Hno'].
      * apply Hin_open' in Ho'. destruct Ho' as [[A _] | [A _]]; [|contradiction].
        destruct (in_dec Z.eq_dec c open); [lia | contradiction].
      * destruct (in_dec Z.eq_dec c open) as [Ho | Hno]; [exfalso; apply Hno'; apply Hin_open'; left; split; assumption|].
        destruct (in_dec Z.eq_dec c (seen ++ opening seen cs)) as [Hs' | Hns'].
        -- apply Hin_seen' in Hs'. destruct Hs' as [Hs | Hs]; [|contradiction]. destruct (in_dec Z.eq_dec c seen); [lia | contradiction].
        -- destruct (in_dec Z.eq_dec c seen) as [Hs | _]; [exfalso; apply Hns'; apply Hin_seen'; left; exact Hs | lia].
Qed.
