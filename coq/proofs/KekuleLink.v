(* C05 -- from a sound form to an accepted Kekule structure: applying a form_sound form to a well-drawn aromatic molecule gives a
   molecule accepted by kekule_rel_core *)
From Coq Require Import ZArith List Bool Lia Permutation.
From Model Require Import PyBase Graph Kekule.
From Proofs Require Import KekuleProofs KekuleSound.
Import ListNotations.
Open Scope Z_scope.

(* ---------------- what apply_form does to the adjacency ---------------- *)
Definition hit (e : kentry) (k m : Z) : bool := let '(a, p, _) := e in if k =? a then m =? p else if k =? p then m =? a else false.
(* the order the form writes on bond k-m (the last entry wins) *)
Fixpoint ford (form : list kentry) (k m : Z) : option Z :=
  match form with
  | [] => None
  | e :: r => match ford r k m with Some o => Some o | None => if hit e k m then Some (snd e) else None end
  end.
Definition upd_entry (form : list kentry) (k : Z) (mb : Z * bond) : Z * bond :=
  match ford form k (fst mb) with Some o => (fst mb, mkBond o (b_stereo (snd mb))) | None => mb end.
Definition upd_row (form : list kentry) (nl : Z * nbl) : Z * nbl := (fst nl, map (upd_entry form (fst nl)) (snd nl)).

Lemma map_same {A} (f : A -> A) l : (forall x, f x = x) -> map f l = l.
Proof. intros H. induction l; simpl; congruence. Qed.

Lemma apply_form_atoms form : forall g, m_atoms (apply_form g form) = m_atoms g.
Proof. unfold apply_form. induction form as [|[[a p] o] r IH]; intros g; simpl; auto. rewrite IH. reflexivity. Qed.

Lemma apply_form_adj form : forall g, m_adj (apply_form g form) = map (upd_row form) (m_adj g).
Proof.
  unfold apply_form. induction form as [|[[a p] o] r IH]; intros g.
  - simpl. symmetry. apply map_same. intros [k l]. unfold upd_row, upd_entry. simpl. f_equal. apply map_same. reflexivity.
  - simpl. rewrite IH. unfold set_order. simpl. rewrite map_map. apply map_ext. intros [k l]. unfold upd_row. simpl.
    destruct (k =? a) eqn:Ka.
    + simpl. f_equal. unfold set_ord_nbl. rewrite map_map. apply map_ext. intros [m b]. unfold upd_entry. simpl.
      destruct (m =? p) eqn:Mp; simpl.
      * destruct (ford r k m); rewrite ?Ka, ?Mp; reflexivity.
      * destruct (ford r k m); rewrite ?Ka, ?Mp; reflexivity.
    + destruct (k =? p) eqn:Kp.
      * simpl. f_equal. unfold set_ord_nbl. rewrite map_map. apply map_ext. intros [m b]. unfold upd_entry. simpl.
        destruct (m =? a) eqn:Ma; simpl; destruct (ford r k m); rewrite ?Ka, ?Kp, ?Ma; reflexivity.
      * simpl. f_equal. apply map_ext. intros [m b]. unfold upd_entry. simpl. destruct (ford r k m); rewrite ?Ka, ?Kp; reflexivity.
Qed.

(* ---------------- small facts ---------------- *)
Lemma forallb2_map_r {A B : Type} (f : A -> B -> bool) (h : A -> B) : forall l, forallb2 f l (map h l) = forallb (fun x => f x (h x)) l.
Proof. induction l as [|x r IH]; simpl; auto. rewrite IH. reflexivity. Qed.

Lemma hit_iff a p o k m : hit (a, p, o) k m = true <-> (k = a /\ m = p) \/ (k = p /\ m = a).
Proof.
  unfold hit. destruct (k =? a) eqn:Ka.
  - apply Z.eqb_eq in Ka. rewrite Z.eqb_eq. split; [auto|]. intros [[_ H]|[H1 H2]]; congruence.
  - apply Z.eqb_neq in Ka. destruct (k =? p) eqn:Kp.
    + apply Z.eqb_eq in Kp. rewrite Z.eqb_eq. split; [auto|]. intros [[H _]|[_ H]]; [contradiction | exact H].
    + apply Z.eqb_neq in Kp. split; [discriminate|]. intros [[H _]|[H _]]; contradiction.
Qed.
Lemma hit_key a p o k m : hit (a, p, o) k m = true <-> bond_key a p = bond_key k m.
Proof. rewrite hit_iff, bond_key_eq. split; intros [[H1 H2]|[H1 H2]]; subst; auto. Qed.

Lemma ford_in : forall form k m o, ford form k m = Some o -> exists a p, In (a, p, o) form /\ hit (a, p, o) k m = true.
Proof.
  induction form as [|[[a p] o'] r IH]; simpl; intros k m o H; [discriminate|].
  destruct (ford r k m) eqn:F.
  - injection H as H. subst z. destruct (IH _ _ _ F) as (a' & p' & I & Hh). exists a', p'. auto.
  - destruct (if k =? a then m =? p else if k =? p then m =? a else false) eqn:Hh; [|discriminate]. injection H as H. subst o'.
    exists a, p. split; [left; reflexivity | exact Hh].
Qed.
Lemma ford_some : forall form k m a p o, NoDup (form_bonds form) -> In (a, p, o) form -> hit (a, p, o) k m = true -> ford form k m = Some o.
Proof.
  induction form as [|[[a' p'] o'] r IH]; simpl; intros k m a p o ND I Hh; [contradiction|].
  inversion ND as [|? ? NI ND']. subst. destruct I as [I|I].
  - injection I as E1 E2 E3. subst a' p' o'. destruct (ford r k m) eqn:F.
    + exfalso. apply NI. destruct (ford_in _ _ _ _ F) as (a2 & p2 & I2 & H2). apply hit_key in H2.
      assert (Hk : bond_key a p = bond_key k m) by (apply (hit_key a p o); exact Hh). rewrite Hk, <- H2. unfold form_bonds. apply in_map_iff. exists (a2, p2, z). split; [reflexivity | exact I2].
    + unfold hit in Hh. rewrite Hh. reflexivity.
  - rewrite (IH k m a p o ND' I Hh). reflexivity.
Qed.

Lemma count_one_NoDup : forall l : list (Z * Z), (forall k, In k l -> countb (zpair_eqb k) l = 1) -> NoDup l.
Proof.
  induction l as [|x r IH]; intros H; constructor.
  - intros I. pose proof (H x (or_introl eq_refl)) as C. simpl in C.
    assert (T : zpair_eqb x x = true) by (apply zpair_eqb_eq; reflexivity). rewrite T in C.
    pose proof (countb_ge1 (zpair_eqb x) r x I T). lia.
  - apply IH. intros k I. pose proof (H k (or_intror I)) as C. simpl in C.
    assert (T : zpair_eqb k k = true) by (apply zpair_eqb_eq; reflexivity).
    pose proof (countb_ge1 (zpair_eqb k) r k I T). destruct (zpair_eqb k x); lia.
Qed.

Lemma countb_length {A : Type} (f : A -> bool) : forall l, countb f l = Z.of_nat (List.length (filter f l)).
Proof. induction l as [|x r IH]; simpl; auto. destruct (f x); simpl List.length; rewrite IH; lia. Qed.

Lemma NoDup_map_filter {A B : Type} (h : A -> B) (f : A -> bool) : forall l, NoDup (map h l) -> NoDup (map h (filter f l)).
Proof.
  induction l as [|x r IH]; simpl; intros ND; [constructor|]. inversion ND as [|? ? NI ND']. subst. destruct (f x); simpl; auto.
  constructor; auto. intros I. apply NI. apply in_map_iff in I. destruct I as (y & E & I). apply filter_In in I.
  apply in_map_iff. exists y. tauto.
Qed.

Lemma moved_map (h : Z * bond -> Z * bond) o o' : forall l, moved o o' l (map h l) = countb (fun mb => ord_is o mb && ord_is o' (h mb)) l.
Proof. induction l as [|x r IH]; simpl; auto. rewrite IH. reflexivity. Qed.

Lemma countb_nonneg {A : Type} (f : A -> bool) l : 0 <= countb f l.
Proof. induction l as [|x r IH]; simpl; [lia|]. destruct (f x); lia. Qed.

(* ---------------- the side condition: g is drawn as (rings, db, pyr) say ---------------- *)
(* every row of g: distinct neighbours; its aromatic bonds are exactly the skeleton neighbours rings[n]; an atom with aromatic
   bonds has the class (atom_class: from its own attributes and bonds) that membership in double_bonded / pyrroles says *)
Definition drawn (g : mol) (rings : adjl) (db pyr : list Z) : bool :=
  forallb (fun nl => let n := fst nl in let l := snd nl in
     nodup_z (keys l) &&
     forallb (fun mb => Bool.eqb (ord_is 4 mb) (zmem (fst mb) (al_get rings n))) l &&
     forallb (fun m => zmem m (keys l)) (al_get rings n) &&
     (if arom_deg l =? 0 then true
      else match atom_class g n l with
           | Ok (p, d) => al_has rings n && Bool.eqb d (zmem n db) && (d || Bool.eqb p (zmem n pyr))
           | Err _ => false
           end)) (m_adj g).

(* form_sound, clause by clause *)
Definition need_at (db pyr : list Z) (n d : Z) : Prop := if zmem n db then d = 0 else if zmem n pyr then d <= 1 else d = 1.
Definition FSp (rings : adjl) (db pyr : list Z) (form : list kentry) : Prop :=
  (forall k, In k (skeleton_bonds rings) -> countb (zpair_eqb k) (form_bonds form) = 1) /\
  (forall k, In k (form_bonds form) -> In k (skeleton_bonds rings)) /\
  (forall a p o, In (a, p, o) form -> o = 1 \/ o = 2) /\
  (forall n l, In (n, l) rings -> need_at db pyr n (doubles_at n form)).

Lemma form_sound_FSp rings db pyr form : form_sound rings db pyr form = true <-> FSp rings db pyr form.
Proof.
  unfold form_sound, FSp. rewrite !andb_true_iff, !forallb_forall. split.
  - intros [[[A B] C] D]. repeat split.
    + intros k I. apply Z.eqb_eq. apply A. exact I.
    + intros k I. apply existsb_zpair. apply B. exact I.
    + intros a p o I. specialize (C _ I). simpl in C. apply orb_true_iff in C. rewrite !Z.eqb_eq in C. exact C.
    + intros n l I. specialize (D _ I). simpl in D. unfold need_at. destruct (zmem n db); [apply Z.eqb_eq; exact D|].
      destruct (zmem n pyr); [apply Z.leb_le; exact D | apply Z.eqb_eq; exact D].
  - intros (A & B & C & D). repeat split.
    + intros k I. apply Z.eqb_eq. apply A. exact I.
    + intros k I. apply existsb_zpair. apply B. exact I.
    + intros [[a p] o] I. apply orb_true_iff. rewrite !Z.eqb_eq. apply (C _ _ _ I).
    + intros [n l] I. specialize (D _ _ I). unfold need_at in D. simpl. destruct (zmem n db); [apply Z.eqb_eq; exact D|].
      destruct (zmem n pyr); [apply Z.leb_le; exact D | apply Z.eqb_eq; exact D].
Qed.

(* a simple symmetric skeleton (no connectivity asked: the skeleton of a whole molecule) *)
Definition rings_sym (rings : adjl) : bool :=
  nodup_z (keys rings) &&
  forallb (fun nl => negb (zmem (fst nl) (snd nl)) && forallb (fun m => zmem (fst nl) (al_get rings m)) (snd nl)) rings.

Section Link.
Variables (g : mol) (rings : adjl) (db pyr : list Z) (form : list kentry).
Hypothesis SY : rings_sym rings = true.
Hypothesis DR : drawn g rings db pyr = true.
Hypothesis FS : FSp rings db pyr form.

Lemma fs_parts : FSp rings db pyr form.
Proof. exact FS. Qed.

Lemma Hnd : NoDup (keys rings).
Proof. unfold rings_sym in SY. apply andb_true_iff in SY. apply nodup_z_NoDup. tauto. Qed.
Lemma Hrow n l : In (n, l) rings -> ~ In n l /\ (forall m, In m l -> In n (al_get rings m)).
Proof.
  intros I. unfold rings_sym in SY. apply andb_true_iff in SY. destruct SY as [_ A]. rewrite forallb_forall in A. specialize (A _ I).
  simpl in A. apply andb_true_iff in A. destruct A as [A B]. split.
  - apply negb_true_iff in A. apply zmem_false. exact A.
  - intros m J. rewrite forallb_forall in B. apply zmem_true. apply B. exact J.
Qed.
Lemma Hsym a b : adj rings a b -> adj rings b a.
Proof. intros H. unfold adj in *. pose proof (al_get_In _ _ _ H) as I. apply (Hrow _ _ I). exact H. Qed.
Lemma Hirr a : ~ adj rings a a.
Proof. intros H. unfold adj in *. pose proof (al_get_In _ _ _ H) as I. apply (Hrow _ _ I). exact H. Qed.
Lemma Hskel a b : adj rings a b -> In (bond_key a b) (skeleton_bonds rings).
Proof.
  intros H. pose proof (Hsym _ _ H) as H'. assert (N : a <> b) by (intros E; subst; apply (Hirr b); exact H).
  assert (G : forall x y, x < y -> adj rings y x -> In (x, y) (skeleton_bonds rings)).
  { intros x y L A. unfold skeleton_bonds. apply in_flat_map. exists (x, al_get rings x). split; [apply (al_get_In _ _ _ A)|].
    simpl. apply in_map_iff. exists y. split; [reflexivity|]. apply filter_In. split; [exact A | apply Z.ltb_lt; exact L]. }
  unfold bond_key. destruct (a <=? b) eqn:E.
  - apply Z.leb_le in E. apply G; [lia | exact H'].
  - apply Z.leb_gt in E. apply G; [lia | exact H].
Qed.

Lemma form_nodup : NoDup (form_bonds form).
Proof. destruct fs_parts as (A & B & _). apply count_one_NoDup. intros k I. apply A, B, I. Qed.

Lemma skel_adj a p : In (bond_key a p) (skeleton_bonds rings) -> adj rings a p.
Proof.
  assert (G : forall x y, In (x, y) (skeleton_bonds rings) -> adj rings y x).
  { intros x y I. unfold skeleton_bonds in I. apply in_flat_map in I. destruct I as ([n l] & I & J). simpl in J.
    apply in_map_iff in J. destruct J as (m & E & J). injection E as E1 E2. subst. apply filter_In in J. destruct J as [J _].
    unfold adj. rewrite (al_get_unique rings x l Hnd I). exact J. }
  unfold bond_key. destruct (a <=? p); intros I; apply G in I; [apply Hsym|]; exact I.
Qed.

(* an entry that hits k-m, when m is a skeleton neighbour of k *)
Lemma adj_entry k m : adj rings m k -> exists a p o, In (a, p, o) form /\ hit (a, p, o) k m = true.
Proof.
  intros A. destruct fs_parts as (F1 & _). pose proof (F1 _ (Hskel _ _ A)) as C.
  assert (E : exists e, In e form /\ (let '(a, p, _) := e in bond_key a p) = bond_key m k).
  { clear - C. unfold form_bonds in C. induction form as [|e r IH]; simpl in C; [lia|].
    destruct (zpair_eqb (bond_key m k) (let '(a, p, _) := e in bond_key a p)) eqn:Z.
    - apply zpair_eqb_eq in Z. exists e. split; [left; reflexivity | auto].
    - destruct IH as (e' & I & H); [lia|]. exists e'. split; [right; exact I | exact H]. }
  destruct E as ([[a p] o] & I & H). exists a, p, o. split; [exact I|]. apply hit_key. rewrite H. apply bond_key_sym.
Qed.

Lemma entry_adj a p o k m : In (a, p, o) form -> hit (a, p, o) k m = true -> adj rings m k.
Proof.
  intros I H. destruct fs_parts as (_ & F2 & _). apply hit_key in H. apply Hsym. apply skel_adj. rewrite <- H.
  apply F2. unfold form_bonds. apply in_map_iff. exists (a, p, o). auto.
Qed.

Lemma row_facts n l : In (n, l) (m_adj g) ->
  NoDup (keys l) /\
  (forall m b, In (m, b) l -> (b_ord b = 4 <-> adj rings m n)) /\
  (forall m, adj rings m n -> In m (keys l)) /\
  (arom_deg l <> 0 -> exists p d, atom_class g n l = Ok (p, d) /\ In (n, al_get rings n) rings /\ d = zmem n db /\ (d = true \/ p = zmem n pyr)).
Proof.
  intros I. unfold drawn in DR. rewrite forallb_forall in DR. specialize (DR _ I). simpl in DR.
  rewrite !andb_true_iff in DR. destruct DR as [[[A B] C] D]. split; [|split; [|split]].
  - apply nodup_z_NoDup. exact A.
  - intros m b Hm. rewrite forallb_forall in B. specialize (B _ Hm). unfold ord_is in B. simpl in B. split; intros H.
    + apply Z.eqb_eq in H. rewrite H in B. apply eqb_prop in B. symmetry in B. apply zmem_true in B. exact B.
    + apply zmem_true in H. rewrite H in B. apply eqb_prop in B. apply Z.eqb_eq. exact B.
  - intros m H. rewrite forallb_forall in C. apply zmem_true. apply C. exact H.
  - intros N. apply Z.eqb_neq in N. rewrite N in D. destruct (atom_class g n l) as [[p d]|]; [|discriminate].
    rewrite !andb_true_iff in D. destruct D as [[D1 D2] D3]. exists p, d. split; [reflexivity|]. split; [|split].
    + unfold al_has in D1. unfold al_get. destruct (zget rings n) eqn:Z; [|discriminate]. apply zget_In. exact Z.
    + apply eqb_prop. exact D2.
    + apply orb_true_iff in D3. destruct D3 as [D3|D3]; [left; exact D3 | right; apply eqb_prop; exact D3].
Qed.

Lemma link_atoms : kr_atoms g (apply_form g form) = true.
Proof.
  unfold kr_atoms. rewrite apply_form_atoms. apply forallb2_refl with (p := fun _ => true); [|apply forallb_true].
  intros x _. rewrite Z.eqb_refl, atom_core_eqb_refl, option_eqb_bool_refl. reflexivity.
Qed.

Lemma link_bonds : kr_bonds g (apply_form g form) = true.
Proof.
  unfold kr_bonds. rewrite apply_form_adj, forallb2_map_r. apply forallb_forall. intros [n l] I. simpl. rewrite Z.eqb_refl. simpl.
  unfold nbl_step. rewrite forallb2_map_r. apply forallb_forall. intros [m b] J.
  destruct (row_facts n l I) as (_ & R2 & _). specialize (R2 m b J). destruct fs_parts as (_ & _ & F3 & _).
  unfold upd_entry. simpl. destruct (ford form n m) as [o|] eqn:F; simpl; rewrite Z.eqb_refl; simpl; unfold bond_step; simpl;
    rewrite option_eqb_bool_refl; simpl.
  - destruct (ford_in _ _ _ _ F) as (a & p & Ie & Hh). destruct (b_ord b =? 4) eqn:B4.
    + destruct (F3 _ _ _ Ie); subst o; reflexivity.
    + exfalso. apply Z.eqb_neq in B4. apply B4. apply R2. apply (entry_adj _ _ _ _ _ Ie Hh).
  - destruct (b_ord b =? 4) eqn:B4; [|apply Z.eqb_refl]. exfalso. apply Z.eqb_eq in B4. apply R2 in B4.
    destruct (adj_entry _ _ B4) as (a & p & o & Ie & Hh). rewrite (ford_some _ _ _ _ _ _ form_nodup Ie Hh) in F. discriminate.
Qed.

Definition other (n : Z) (e : kentry) : Z := let '(a, p, _) := e in if a =? n then p else a.
Definition dEn (n : Z) (e : kentry) : bool := let '(a, p, o) := e in (o =? 2) && ((a =? n) || (p =? n)).

Lemma dEn_hit n a p o : dEn n (a, p, o) = true -> o = 2 /\ hit (a, p, o) n (other n (a, p, o)) = true.
Proof.
  unfold dEn, other. intros H. apply andb_true_iff in H. destruct H as [H1 H2]. apply Z.eqb_eq in H1. split; [exact H1|].
  apply hit_iff. destruct (a =? n) eqn:A.
  - apply Z.eqb_eq in A. left. auto.
  - simpl in H2. apply Z.eqb_eq in H2. right. auto.
Qed.
Lemma hit_dEn n m a p : hit (a, p, 2) n m = true -> dEn n (a, p, 2) = true /\ (adj rings m n -> other n (a, p, 2) = m).
Proof.
  intros H. apply hit_iff in H. unfold dEn, other. simpl. destruct H as [[H1 H2]|[H1 H2]].
  - subst a p. rewrite Z.eqb_refl. auto.
  - subst p a. rewrite Z.eqb_refl, orb_true_r. split; [reflexivity|]. intros _. destruct (m =? n) eqn:E; [|reflexivity].
    apply Z.eqb_eq in E. symmetry. exact E.
Qed.

Lemma link_doubles n l : In (n, l) (m_adj g) -> new_doubles l (map (upd_entry form n) l) = doubles_at n form.
Proof.
  intros I. destruct (row_facts n l I) as (R1 & R2 & R3 & _). unfold new_doubles. rewrite moved_map. unfold doubles_at.
  rewrite !countb_length. f_equal.
  set (f1 := fun mb : Z * bond => ord_is 4 mb && ord_is 2 (upd_entry form n mb)).
  change (List.length (filter f1 l) = List.length (filter (dEn n) form)).
  rewrite <- (map_length fst (filter f1 l)), <- (map_length (other n) (filter (dEn n) form)).
  assert (NA : NoDup (map fst (filter f1 l))) by (apply NoDup_map_filter; exact R1).
  assert (NB : NoDup (map (other n) (filter (dEn n) form))).
  { apply (NoDup_map_inv (fun m => bond_key n m)). rewrite map_map.
    rewrite (map_ext_in _ (fun e : kentry => let '(a, p, _) := e in bond_key a p)).
    - apply NoDup_map_filter. exact form_nodup.
    - intros [[a p] o] J. apply filter_In in J. destruct J as [_ J]. apply dEn_hit in J. destruct J as [_ J]. apply hit_key in J.
      symmetry. exact J. }
  assert (AB : incl (map fst (filter f1 l)) (map (other n) (filter (dEn n) form))).
  { intros m J. apply in_map_iff in J. destruct J as ([m' b] & E & J). simpl in E. subst m'. apply filter_In in J. destruct J as [J K].
    unfold f1 in K. apply andb_true_iff in K. destruct K as [K4 K2]. unfold ord_is in K4, K2. simpl in K4. apply Z.eqb_eq in K4.
    unfold upd_entry in K2. simpl in K2. destruct (ford form n m) as [o|] eqn:F.
    - simpl in K2. apply Z.eqb_eq in K2. subst o. destruct (ford_in _ _ _ _ F) as (a & p & Ie & Hh).
      destruct (hit_dEn _ _ _ _ Hh) as [D O]. apply in_map_iff. exists (a, p, 2). split.
      + apply O. apply R2 with (b := b); assumption.
      + apply filter_In. auto.
    - simpl in K2. apply Z.eqb_eq in K2. lia. }
  assert (BA : incl (map (other n) (filter (dEn n) form)) (map fst (filter f1 l))).
  { intros m J. apply in_map_iff in J. destruct J as ([[a p] o] & E & J). apply filter_In in J. destruct J as [J K].
    destruct (dEn_hit _ _ _ _ K) as [O2 Hh]. rewrite E in Hh. subst o.
    pose proof (entry_adj _ _ _ _ _ J Hh) as A. pose proof (R3 _ A) as Km. apply in_map_iff in Km. destruct Km as ([m' b] & E' & Km).
    simpl in E'. subst m'. apply in_map_iff. exists (m, b). split; [reflexivity|]. apply filter_In. split; [exact Km|].
    unfold f1, ord_is. simpl. apply (R2 _ _ Km) in A. rewrite A. simpl. unfold upd_entry. simpl.
    rewrite (ford_some _ _ _ _ _ _ form_nodup J Hh). reflexivity. }
  apply Nat.le_antisymm; apply NoDup_incl_length; assumption.
Qed.

Lemma link_classes : kr_classes g (apply_form g form) = true.
Proof.
  unfold kr_classes. rewrite apply_form_adj, forallb2_map_r. apply forallb_forall. intros [n l] I. simpl.
  destruct (arom_deg l =? 0) eqn:AD; [reflexivity|]. apply Z.eqb_neq in AD.
  destruct (row_facts n l I) as (_ & _ & _ & R4). destruct (R4 AD) as (p & d & AC & IR & Ed & Ep). rewrite AC.
  rewrite (link_doubles n l I). destruct fs_parts as (_ & _ & _ & F4). specialize (F4 _ _ IR). unfold need_at in F4.
  unfold dbl_ok, dclass_of. rewrite <- Ed in F4. destruct d.
  - apply Z.eqb_eq. exact F4.
  - destruct Ep as [Ep|Ep]; [discriminate|]. rewrite <- Ep in F4. destruct p.
    + assert (NN : 0 <= doubles_at n form) by (unfold doubles_at; apply countb_nonneg).
      apply orb_true_iff. rewrite !Z.eqb_eq. lia.
    + apply Z.eqb_eq. exact F4.
Qed.

Theorem form_accepted_sec : kekule_rel_core g (apply_form g form) = true.
Proof. unfold kekule_rel_core. rewrite link_atoms, link_bonds, link_classes. reflexivity. Qed.
End Link.

(* a sound form, written into a molecule drawn as (rings, double_bonded, pyrroles) say, gives a Kekule structure that
   kekule_rel_core accepts *)
Theorem form_accepted : forall g rings db pyr form,
  rings_sym rings = true -> drawn g rings db pyr = true -> form_sound rings db pyr form = true ->
  kekule_rel_core g (apply_form g form) = true.
Proof. intros g rings db pyr form S D F. apply form_sound_FSp in F. exact (form_accepted_sec g rings db pyr form S D F). Qed.
Print Assumptions form_accepted.

(* ---------------- several components: the forms of the components, concatenated ---------------- *)
Definition closed (R : adjl) : Prop := forall n l m, In (n, l) R -> In m l -> In m (keys R).

Lemma sb_in R x y : In (x, y) (skeleton_bonds R) -> exists l, In (x, l) R /\ In y l.
Proof.
  unfold skeleton_bonds. intros I. apply in_flat_map in I. destruct I as ([n l] & I & J). simpl in J. apply in_map_iff in J.
  destruct J as (m & E & J). injection E as E1 E2. subst. apply filter_In in J. exists l. tauto.
Qed.
Lemma sb_keys R x y : closed R -> In (x, y) (skeleton_bonds R) -> In x (keys R) /\ In y (keys R).
Proof.
  intros C I. destruct (sb_in _ _ _ I) as (l & I1 & I2). split; [|apply (C _ _ _ I1 I2)]. apply in_map_iff. exists (x, l). auto.
Qed.
Lemma sb_incl R R' : incl R R' -> incl (skeleton_bonds R) (skeleton_bonds R').
Proof. intros H k I. unfold skeleton_bonds in *. apply in_flat_map in I. destruct I as (nl & I & J). apply in_flat_map. exists nl. auto. Qed.
Lemma sb_app R1 R2 : skeleton_bonds (R1 ++ R2) = skeleton_bonds R1 ++ skeleton_bonds R2.
Proof. unfold skeleton_bonds. apply flat_map_app. Qed.

Lemma entry_keys R db pyr f a p o : closed R -> FSp R db pyr f -> In (a, p, o) f -> In a (keys R) /\ In p (keys R).
Proof.
  intros C (_ & F2 & _) I. assert (K : In (bond_key a p) (skeleton_bonds R)).
  { apply F2. unfold form_bonds. apply in_map_iff. exists (a, p, o). auto. }
  unfold bond_key in K. destruct (a <=? p); apply (sb_keys _ _ _ C) in K; tauto.
Qed.

Lemma form_bonds_app f1 f2 : form_bonds (f1 ++ f2) = form_bonds f1 ++ form_bonds f2.
Proof. unfold form_bonds. apply map_app. Qed.
Lemma doubles_at_app n f1 f2 : doubles_at n (f1 ++ f2) = doubles_at n f1 + doubles_at n f2.
Proof. unfold doubles_at. apply countb_app. Qed.
Lemma doubles_at_0 n f : (forall a p o, In (a, p, o) f -> a <> n /\ p <> n) -> doubles_at n f = 0.
Proof.
  intros H. unfold doubles_at. apply countb_0. intros [[a p] o] I. destruct (H _ _ _ I) as [A B].
  apply Z.eqb_neq in A, B. rewrite A, B. apply andb_false_r.
Qed.

Lemma FSp_app R1 R2 db pyr f1 f2 : closed R1 -> closed R2 -> (forall n, In n (keys R1) -> ~ In n (keys R2)) ->
  FSp R1 db pyr f1 -> FSp R2 db pyr f2 -> FSp (R1 ++ R2) db pyr (f1 ++ f2).
Proof.
  intros C1 C2 DJ S1 S2. pose proof S1 as (A1 & B1 & D1 & E1). pose proof S2 as (A2 & B2 & D2 & E2).
  assert (X12 : forall k, In k (skeleton_bonds R1) -> forall x, In x (form_bonds f2) -> zpair_eqb k x = false).
  { intros [x y] I k' J. destruct (zpair_eqb (x, y) k') eqn:Z; [|reflexivity]. apply zpair_eqb_eq in Z. subst k'.
    apply B2 in J. apply (sb_keys _ _ _ C1) in I. apply (sb_keys _ _ _ C2) in J. exfalso. apply (DJ x); tauto. }
  assert (X21 : forall k, In k (skeleton_bonds R2) -> forall x, In x (form_bonds f1) -> zpair_eqb k x = false).
  { intros [x y] I k' J. destruct (zpair_eqb (x, y) k') eqn:Z; [|reflexivity]. apply zpair_eqb_eq in Z. subst k'.
    apply B1 in J. apply (sb_keys _ _ _ C2) in I. apply (sb_keys _ _ _ C1) in J. exfalso. apply (DJ x); tauto. }
  unfold FSp. split; [|split; [|split]].
  - intros k I. rewrite sb_app in I. rewrite form_bonds_app, countb_app. apply in_app_or in I. destruct I as [I|I].
    + rewrite (A1 _ I), (countb_0 _ _ (X12 _ I)). reflexivity.
    + rewrite (A2 _ I), (countb_0 _ _ (X21 _ I)). reflexivity.
  - intros k I. rewrite form_bonds_app in I. rewrite sb_app. apply in_or_app. apply in_app_or in I. destruct I; [left|right]; auto.
  - intros a p o I. apply in_app_or in I. destruct I as [I|I]; [apply (D1 _ _ _ I) | apply (D2 _ _ _ I)].
  - intros n l I. rewrite doubles_at_app. apply in_app_or in I. destruct I as [I|I].
    + rewrite (doubles_at_0 n f2); [rewrite Z.add_0_r; apply (E1 _ _ I)|]. intros a p o J.
      destruct (entry_keys _ _ _ _ _ _ _ C2 S2 J) as [Ka Kp]. assert (Kn : In n (keys R1)) by (apply in_map_iff; exists (n, l); auto).
      split; intros E; subst; apply (DJ n); assumption.
    + rewrite (doubles_at_0 n f1); [apply (E2 _ _ I)|]. intros a p o J.
      destruct (entry_keys _ _ _ _ _ _ _ C1 S1 J) as [Ka Kp]. assert (Kn : In n (keys R2)) by (apply in_map_iff; exists (n, l); auto).
      split; intros E; subst; apply (DJ n); assumption.
Qed.

Lemma closed_app R1 R2 : closed R1 -> closed R2 -> closed (R1 ++ R2).
Proof.
  intros C1 C2 n l m I J. unfold keys. rewrite map_app. apply in_or_app. apply in_app_or in I. destruct I as [I|I]; [left; apply (C1 _ _ _ I J) | right; apply (C2 _ _ _ I J)].
Qed.

Lemma NoDup_app_disj {A : Type} (l l' : list A) : NoDup (l ++ l') -> forall x, In x l -> ~ In x l'.
Proof.
  induction l as [|a r IH]; simpl; intros ND x I; [contradiction|]. inversion ND as [|? ? NI ND']. subst. destruct I as [I|I].
  - subst. intros J. apply NI. apply in_or_app. right. exact J.
  - apply IH; assumption.
Qed.

Lemma FSp_concat db pyr : forall comps : list (adjl * list kentry),
  NoDup (keys (concat (map fst comps))) -> (forall c, In c comps -> closed (fst c) /\ FSp (fst c) db pyr (snd c)) ->
  FSp (concat (map fst comps)) db pyr (concat (map snd comps)) /\ closed (concat (map fst comps)).
Proof.
  induction comps as [|[R f] cs IH]; simpl; intros ND H.
  - split; [|intros n l m []]. unfold FSp. simpl. repeat split; intros; contradiction.
  - unfold keys in ND. rewrite map_app in ND. destruct (H (R, f) (or_introl eq_refl)) as [CR SR]. simpl in CR, SR.
    destruct IH as [S C]; [apply (NoDup_app_remove_l _ _ ND) | intros c I; apply H; right; exact I|].
    split; [|apply closed_app; assumption]. apply FSp_app; auto. apply (NoDup_app_disj _ _ ND).
Qed.

Lemma FSp_equiv R R' db pyr f : (forall x, In x R <-> In x R') -> FSp R db pyr f -> FSp R' db pyr f.
Proof.
  intros E (A & B & C & D). unfold FSp. split; [|split; [|split]]; auto.
  - intros k I. apply A. revert I. apply sb_incl. intros x. apply E.
  - intros k I. apply B in I. revert I. apply sb_incl. intros x. apply E.
  - intros n l I. apply (D n l). apply E. exact I.
Qed.

Lemma FSp_agree R db pyr db' pyr' f : (forall n, In n (keys R) -> zmem n db' = zmem n db /\ zmem n pyr' = zmem n pyr) ->
  FSp R db' pyr' f -> FSp R db pyr f.
Proof.
  intros E (A & B & C & D). unfold FSp. split; [|split; [|split]]; auto. intros n l I. specialize (D n l I). unfold need_at in *.
  destruct (E n) as [E1 E2]; [apply in_map_iff; exists (n, l); auto|]. rewrite <- E1, <- E2. exact D.
Qed.

Lemma wf_closed R db pyr : rings_wf2 R db pyr = true -> closed R.
Proof. intros WF n l m I J. destruct (wf_entry R db pyr WF n l I) as (_ & _ & _ & S). apply S in J. apply al_get_In in J. apply in_map_iff. exists (m, al_get R m). auto. Qed.

(* the whole skeleton is split into the components *)
Definition split_ok (rings : adjl) (Rs : list adjl) : bool :=
  let C := concat Rs in
  nodup_z (keys C) && forallb (fun nl => al_has rings (fst nl) && list_eqb Z.eqb (al_get rings (fst nl)) (snd nl)) C &&
  forallb (fun nl => al_has C (fst nl)) rings.
(* one component as _kekule_component gets it: its two sets agree with the whole sets on its atoms *)
Definition comp_agree (db pyr : list Z) (R : adjl) (dbi pyri : list Z) : bool :=
  forallb (fun n => Bool.eqb (zmem n dbi) (zmem n db) && Bool.eqb (zmem n pyri) (zmem n pyr)) (keys R).

Lemma list_eqb_Z_eq : forall a b, list_eqb Z.eqb a b = true -> a = b.
Proof.
  induction a as [|x r IH]; destruct b as [|y s]; simpl; intros H; try discriminate; auto. apply andb_true_iff in H. destruct H as [H1 H2].
  apply Z.eqb_eq in H1. subst. f_equal. apply IH. exact H2.
Qed.

Lemma split_equiv rings Rs : NoDup (keys rings) -> split_ok rings Rs = true ->
  NoDup (keys (concat Rs)) /\ forall x, In x (concat Rs) <-> In x rings.
Proof.
  intros ND H. unfold split_ok in H. rewrite !andb_true_iff in H. destruct H as [[A B] C]. rewrite forallb_forall in B, C.
  split; [apply nodup_z_NoDup; exact A|]. intros [n l]. split; intros I.
  - specialize (B _ I). simpl in B. apply andb_true_iff in B. destruct B as [B1 B2]. apply list_eqb_Z_eq in B2.
    unfold al_has in B1. unfold al_get in B2. destruct (zget rings n) eqn:Z; [|discriminate]. subst. apply zget_In. exact Z.
  - specialize (C _ I). simpl in C. unfold al_has in C. destruct (zget (concat Rs) n) as [l'|] eqn:Z; [|discriminate]. apply zget_In in Z.
    specialize (B _ Z). simpl in B. apply andb_true_iff in B. destruct B as [_ B2]. apply list_eqb_Z_eq in B2.
    rewrite (al_get_unique rings n l ND I) in B2. subst. exact Z.
Qed.

(* the forms of all components, one after the other, written into the molecule *)
Theorem forms_accepted : forall g rings db pyr (comps : list (adjl * list Z * list Z * list kentry)),
  rings_sym rings = true -> drawn g rings db pyr = true ->
  split_ok rings (map (fun c => fst (fst (fst c))) comps) = true ->
  (forall R dbi pyri f, In (R, dbi, pyri, f) comps ->
     rings_wf2 R dbi pyri = true /\ comp_agree db pyr R dbi pyri = true /\ form_sound R dbi pyri f = true) ->
  kekule_rel_core g (apply_form g (concat (map snd comps))) = true.
Proof.
  intros g rings db pyr comps SY DR SP H.
  assert (ND : NoDup (keys rings)) by (unfold rings_sym in SY; apply andb_true_iff in SY; apply nodup_z_NoDup; tauto).
  destruct (split_equiv _ _ ND SP) as [NC EQ].
  set (cs := map (fun c : adjl * list Z * list Z * list kentry => (fst (fst (fst c)), snd c)) comps).
  assert (E1 : map fst cs = map (fun c => fst (fst (fst c))) comps) by (unfold cs; rewrite map_map; reflexivity).
  assert (E2 : map snd cs = map snd comps) by (unfold cs; rewrite map_map; reflexivity).
  destruct (FSp_concat db pyr cs) as [S _].
  - rewrite E1. exact NC.
  - intros c I. unfold cs in I. apply in_map_iff in I. destruct I as ([[[R dbi] pyri] f] & E & I). subst c. simpl.
    destruct (H _ _ _ _ I) as (W & A & F). split; [apply (wf_closed _ _ _ W)|]. apply form_sound_FSp in F.
    apply (FSp_agree _ _ _ dbi pyri); [|exact F]. intros n K. unfold comp_agree in A. rewrite forallb_forall in A. specialize (A _ K).
    apply andb_true_iff in A. destruct A as [A1 A2]. apply eqb_prop in A1, A2. auto.
  - rewrite E1, E2 in S. apply (form_accepted_sec g rings db pyr _ SY DR). apply (FSp_equiv _ _ _ _ _ EQ). exact S.
Qed.

(* ... and with the search itself: every combination of forms the component searches yield is accepted *)
Theorem kekule_search_accepted : forall g rings db pyr (comps : list (adjl * list Z * list Z * list kentry)),
  rings_sym rings = true -> drawn g rings db pyr = true ->
  split_ok rings (map (fun c => fst (fst (fst c))) comps) = true ->
  (forall R dbi pyri f, In (R, dbi, pyri, f) comps ->
     rings_wf2 R dbi pyri = true /\ comp_agree db pyr R dbi pyri = true /\
     exists db_start bs maxy fuel ys r c, (dbi <> [] -> In db_start dbi) /\
       kekule_component R dbi db_start pyri bs maxy fuel = Ok (ys, r, c) /\ In f ys) ->
  kekule_rel_core g (apply_form g (concat (map snd comps))) = true.
Proof.
  intros g rings db pyr comps SY DR SP H. apply (forms_accepted g rings db pyr comps SY DR SP). intros R dbi pyri f I.
  destruct (H _ _ _ _ I) as (W & A & db_start & bs & maxy & fuel & ys & r & c & S & K & J). split; [exact W|]. split; [exact A|].
  pose proof (kekule_component_sound _ _ _ _ _ _ _ _ _ _ W S K) as F. rewrite forallb_forall in F. apply F. exact J.
Qed.
Print Assumptions kekule_search_accepted.

(* all the decidable hypotheses in one boolean (the check evaluates it on every input molecule) *)
Definition chain_hyp (g : mol) (rings : adjl) (db pyr : list Z) (comps : list (adjl * list Z * list Z)) : bool :=
  rings_sym rings && drawn g rings db pyr && split_ok rings (map (fun c => fst (fst c)) comps) &&
  forallb (fun c => let '(R, dbi, pyri) := c in rings_wf2 R dbi pyri && comp_agree db pyr R dbi pyri) comps.

Theorem kekule_chain : forall g rings db pyr (comps : list (adjl * list Z * list Z * list kentry)),
  chain_hyp g rings db pyr (map fst comps) = true ->
  (forall R dbi pyri f, In (R, dbi, pyri, f) comps ->
     exists db_start bs maxy fuel ys r c, (dbi <> [] -> In db_start dbi) /\
       kekule_component R dbi db_start pyri bs maxy fuel = Ok (ys, r, c) /\ In f ys) ->
  kekule_rel_core g (apply_form g (concat (map snd comps))) = true.
Proof.
  intros g rings db pyr comps H K. unfold chain_hyp in H. rewrite !andb_true_iff in H. destruct H as [[[A B] C] D].
  apply (kekule_search_accepted g rings db pyr comps A B).
  - rewrite map_map in C. exact C.
  - intros R dbi pyri f I. rewrite forallb_forall in D. specialize (D (R, dbi, pyri)). simpl in D.
    assert (J : In (R, dbi, pyri) (map fst comps)) by (apply in_map_iff; exists (R, dbi, pyri, f); auto).
    specialize (D J). apply andb_true_iff in D. destruct D as [D1 D2]. split; [exact D1|]. split; [exact D2|]. apply (K _ _ _ _ I).
Qed.
Print Assumptions kekule_chain.

(* benzene, pyridine-like and pyrrole: the hypotheses hold and the conclusion is computed as well *)
Definition chain_of (g : mol) (sssr : list (list Z)) : bool :=
  match prepare_rings g sssr with
  | Ok p => chain_hyp g (r_rings p) (r_double p) (r_pyrroles p) [(r_rings p, r_double p, r_pyrroles p)]
  | Err _ => false
  end.
Theorem kekule_chain_examples :
  chain_of benzene_a [[1; 2; 3; 4; 5; 6]] = true /\ chain_of pyrrole_a [[1; 2; 3; 4; 5]] = true /\
  chain_of pyridine_a [[1; 2; 3; 4; 5; 6]] = true /\
  (* not drawn as the skeleton says: one ring bond of benzene written single (c1ccc-cc1 is repaired by __prepare_rings) *)
  chain_of (ring [cH; cH; cH; cH; cH; cH] [4; 4; 4; 1; 4; 4]) [[1; 2; 3; 4; 5; 6]] = false.
Proof. vm_compute. repeat split; reflexivity. Qed.
