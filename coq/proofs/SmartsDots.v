(* C08 -- denotation of multi-component SMARTS:  tree ( "." tree )*.  The atoms of all components are numbered in the order
   written; every atom is bonded to its parent in its own tree; nothing joins two components (token level). *)
From Coq Require Import ZArith List String Ascii Bool Lia.
From Gen Require Import Elements TokenTables SmartsTables.
From Model Require Import PyBase Graph PeriodicTable Tokenize Smarts Query SmartsFull.
From Model Require Parser.
From Proofs Require Import SmartsDenote SmartsTree.
Import ListNotations.
Open Scope Z_scope.
Import Parser.

(* the first atom of a component: "." atom - no bond *)
Lemma TI_dot_atom k bs st last s a : TI k bs st last s ->
  exists s1 s', step false s (4, PNone) = Ok s1 /\ step false s1 (0, PAtom a) = Ok s' /\ TI (k + 1) bs st k s'.
Proof.
  intros HC. destruct HC as [H1 [H2 [H3 [H4 [H5 [H6 [H7 [H8 [H9 [H10 H11]]]]]]]]]].
  destruct s as [atoms types bonds order n lst stack cycles satoms sbonds prev lg].
  cbn [ps_n ps_last ps_atoms ps_types ps_bonds ps_stack ps_cycles ps_sbonds ps_prev] in *. subst.
  destruct atoms as [|a0 ar]; [cbn in H1; lia|].
  eexists. eexists. split; [reflexivity|]. split; [reflexivity|].
  unfold TI. cbn [set_prev ps_n ps_last ps_atoms ps_types ps_bonds ps_stack ps_cycles ps_sbonds ps_prev].
  repeat split; try lia; try reflexivity.
  - rewrite app_length. cbn [List.length]. lia.
  - rewrite app_length. cbn [List.length]. change [0] with (repeat 0 1). rewrite <- repeat_app. reflexivity.
Qed.

(* components after the first one *)
Fixpoint tok_comps (ts : list tree) : list token :=
  match ts with [] => [] | t :: r => ((4, PNone) :: tok_tree t ++ tok_comps r)%list end.
Fixpoint atoms_comps (ts : list tree) : list Query.parsed :=
  match ts with [] => [] | t :: r => (atoms_tree t ++ atoms_comps r)%list end.
Fixpoint bonds_comps (ts : list tree) (start : Z) : list (Z * Z * payload) :=
  match ts with
  | [] => []
  | t :: r => (bonds_forest (kids_of t) start (start + 1) ++ bonds_comps r (start + size_tree t))%list
  end.
Definition size_comps (ts : list tree) : Z := Z.of_nat (List.length (atoms_comps ts)).

Lemma comps_loop ts : forall s k bs last rest, TI k bs [] last s -> Forall ok_tree ts ->
  exists s' last', loop false s (tok_comps ts ++ rest) = loop false s' rest /\
                   TI (k + size_comps ts) (bs ++ bonds_comps ts k) [] last' s'.
Proof.
  induction ts as [|t r IH]; intros s k bs last rest HT Hok.
  - exists s, last. split; [reflexivity|]. unfold size_comps. cbn. rewrite app_nil_r, Z.add_0_r. exact HT.
  - inversion Hok as [|? ? Ht Hr]; subst. destruct t as [p f]. cbn [tok_comps tok_tree app loop].
    destruct (TI_dot_atom k bs [] last s (mkAt ""%string None None 0 None (p_stereo p)) HT) as [s1 [s2 [E1 [E2 T2]]]].
    rewrite E1. cbn [loop]. unfold atom_token. rewrite E2. rewrite <- app_assoc.
    destruct (proj2 tree_forest_loop f s2 (k + 1) bs [] k (tok_comps r ++ rest) T2 Ht) as [s3 [E3 T3]]. rewrite E3.
    destruct (IH s3 _ _ _ rest T3 Hr) as [s' [last' [E' T']]]. exists s', last'. split; [exact E'|].
    unfold size_comps in *. cbn [atoms_comps bonds_comps kids_of atoms_tree]. rewrite app_length. cbn [List.length].
    rewrite <- app_assoc in T'. unfold size_tree. cbn [atoms_tree List.length]. unfold size_forest in T'.
    replace (k + Z.of_nat (S (List.length (atoms_forest f)) + List.length (atoms_comps r)))
      with (k + 1 + Z.of_nat (List.length (atoms_forest f)) + Z.of_nat (List.length (atoms_comps r))) by lia.
    replace (k + Z.of_nat (S (List.length (atoms_forest f)))) with (k + 1 + Z.of_nat (List.length (atoms_forest f))) by lia.
    exact T'.
Qed.

(* a pattern of components *)
Definition tok_pattern (t : tree) (ts : list tree) : list token := (tok_tree t ++ tok_comps ts)%list.
Definition atoms_pattern (t : tree) (ts : list tree) : list Query.parsed := (atoms_tree t ++ atoms_comps ts)%list.
Definition bonds_pattern (t : tree) (ts : list tree) : list (Z * Z * payload) :=
  (bonds_forest (kids_of t) 0 1 ++ bonds_comps ts (size_tree t))%list.

Theorem pattern_parse t ts : ok_tree t -> Forall ok_tree ts ->
  exists pr, parse (tok_pattern t ts) false = Ok pr /\ p_bonds pr = bonds_pattern t ts /\ p_stereo_bonds pr = [].
Proof.
  destruct t as [p f]. intros Hok Hts. unfold parse, tok_pattern. cbn [tok_tree app]. unfold atom_token at 1.
  cbn [guard Z.eqb Pos.eqb zmem existsb orb loop].
  assert (F : exists s1, step false p_init (0, PAtom (mkAt ""%string None None 0 None (p_stereo p))) = Ok s1 /\ TI 1 [] [] 0 s1).
  { eexists. split; [reflexivity|]. unfold TI. cbn. repeat split; lia. }
  destruct F as [s1 [E1 T1]]. unfold atom_token. rewrite E1. rewrite <- (app_nil_r (tok_comps ts)).
  destruct (proj2 tree_forest_loop f s1 1 [] [] 0 (tok_comps ts ++ []) T1 Hok) as [s2 [E2 T2]]. rewrite E2.
  destruct (comps_loop ts s2 _ _ _ [] T2 Hts) as [s' [last' [E' T']]]. rewrite E'. cbn [loop].
  destruct T' as [H1 [H2 [H3 [H4 [H5 [H6 [H7 [H8 [H9 [H10 H11]]]]]]]]]]. unfold finish. rewrite H8, H9, H11.
  eexists. split; [reflexivity|]. cbn [p_bonds p_stereo_bonds]. split; [|exact H10].
  rewrite H7. unfold bonds_pattern. cbn [kids_of app]. rewrite size_tree_node. reflexivity.
Qed.

Lemma bonds_comps_incr ts : forall start, 0 <= start -> incrb start (start + size_comps ts) (bonds_comps ts start).
Proof.
  induction ts as [|t r IH]; intros start H; [unfold size_comps; cbn; lia|].
  cbn [bonds_comps]. destruct t as [p f]. cbn [kids_of].
  assert (S : size_comps (Node p f :: r) = size_tree (Node p f) + size_comps r).
  { unfold size_comps, size_tree. cbn [atoms_comps]. rewrite app_length. lia. }
  rewrite S. apply (incrb_app _ start (start + size_tree (Node p f))).
  - rewrite size_tree_node. replace (start + (1 + size_forest f)) with (start + 1 + size_forest f) by lia.
    eapply incrb_weaken; [|apply (proj2 bonds_incr f start (start + 1)); lia]. lia.
  - replace (start + (size_tree (Node p f) + size_comps r)) with (start + size_tree (Node p f) + size_comps r) by lia.
    apply IH. pose proof (size_tree_pos (Node p f)). lia.
Qed.

(* the denotation of a multi-component pattern (token level) *)
Theorem pattern_denotation t ts qs :
  ok_tree t -> Forall ok_tree ts ->
  Forall2 (fun p q => build_atom p = Ok q) (atoms_pattern t ts) qs ->
  NoDup (explicit_maps (atoms_pattern t ts)) ->
  Forall payload_valid (bonds_pattern t ts) ->
  full_of_tokens (tok_pattern t ts) (atoms_pattern t ts) =
  Ok (map (fun pq => atom_result (fst pq) (snd pq)) (combine (atoms_pattern t ts) qs), map to_sbond (bonds_pattern t ts)).
Proof.
  intros Hok Hts Hat Hnd Hv. unfold full_of_tokens.
  destruct (pattern_parse t ts Hok Hts) as [pr [E [B1 B2]]]. rewrite E.
  rewrite (atoms_loop_ok _ _ [] Hat Hnd) by (intros k _ []).
  rewrite B1, B2.
  rewrite (bonds_loop_incr _ 1 (size_tree t + size_comps ts) []); [reflexivity | | exact Hv | intros p []].
  unfold bonds_pattern. apply (incrb_app _ 1 (size_tree t)).
  - destruct t as [p f]. cbn [kids_of]. rewrite size_tree_node. apply (proj2 bonds_incr f 0 1). lia.
  - apply bonds_comps_incr. pose proof (size_tree_pos t). lia.
Qed.
