(* C15 -- the Morgan ranks of a condensed graph do not depend on the iteration order CPython chooses for the three sets
   compose walks (nor on any other insertion order of the dicts): instance of Proofs.MorganProofs.morgan_perm. *)
From Coq Require Import ZArith List Bool Lia Permutation.
From Model Require Import PyBase Graph Morgan Compose CgrMorgan.
From Proofs Require Import MorganProofs ComposeProofs RxnComposeProofs CgrMorganProofs.
Import ListNotations.
Open Scope Z_scope.

Lemma NoDup_of_keys {V} (a : list (Z * V)) : NoDup (keys a) -> NoDup a.
Proof. unfold keys. apply NoDup_map_inv. Qed.

(* two dicts with the same lookups hold the same items *)
Lemma assoc_perm {V} (a b : list (Z * V)) : NoDup (keys a) -> NoDup (keys b) -> (forall k, zget a k = zget b k) -> Permutation a b.
Proof.
  intros Na Nb H. apply NoDup_Permutation; [apply NoDup_of_keys; exact Na|apply NoDup_of_keys; exact Nb|].
  intros [k v]. split; intros Hi.
  - apply zget_In. rewrite <- H. apply In_zget; assumption.
  - apply zget_In. rewrite H. apply In_zget; assumption.
Qed.

Lemma zget_map_key {V W} (g : Z -> W) (d : list (Z * V)) k :
  zget (map (fun kv => (fst kv, g (fst kv))) d) k = match zget d k with Some _ => Some (g k) | None => None end.
Proof.
  induction d as [|[k0 v0] d IH]; cbn [map zget fst snd]; [reflexivity|].
  destruct (Z.eqb k k0) eqn:E; [apply Z.eqb_eq in E; subst; reflexivity|exact IH].
Qed.

Section SetOrder.
Variable h : list Z -> Z.

Theorem cgr_atoms_order_perm c c' : wf_cgr c = true -> wf_cgr c' = true ->
  (forall n, catom c n = catom c' n) -> (forall n m, cbond c n m = cbond c' n m) ->
  res_perm (cgr_atoms_order h c) (cgr_atoms_order h c').
Proof.
  intros W W' Ha Hb.
  destruct (wf_cgr_nodup c W) as [Na [Nb Nl]]. destruct (wf_cgr_nodup c' W') as [Na' [Nb' Nl']].
  destruct (wf_cgr_inner c W) as [K _]. destruct (wf_cgr_inner c' W') as [K' _].
  assert (Pa : Permutation (c_atoms c) (c_atoms c')) by (apply assoc_perm; assumption).
  (* the adjacency dicts *)
  assert (Hin : forall n, In n (keys (c_adj c)) <-> In n (keys (c_adj c'))).
  { intros n. rewrite <- K, <- K'. unfold keys. split; intros H; [apply (Permutation_in _ (Permutation_map fst Pa))|
      apply (Permutation_in _ (Permutation_map fst (Permutation_sym Pa)))]; exact H. }
  assert (Pn : forall n, Permutation (cnbrs c n) (cnbrs c' n)).
  { intros n. apply assoc_perm.
    - unfold cnbrs. destruct (zget (c_adj c) n) as [l|] eqn:E; [apply (Nl n l (zget_In _ _ _ E))|constructor].
    - unfold cnbrs. destruct (zget (c_adj c') n) as [l|] eqn:E; [apply (Nl' n l (zget_In _ _ _ E))|constructor].
    - intros m. apply (Hb n m). }
  set (mid0 := map (fun nl : Z * list (Z * dbond) => (fst nl, cnbrs c' (fst nl))) (c_adj c)).
  assert (Km : keys mid0 = keys (c_adj c)) by (unfold mid0, keys; rewrite map_map; reflexivity).
  assert (Pm : Permutation mid0 (c_adj c')).
  { apply assoc_perm; [rewrite Km; exact Nb|exact Nb'|]. intros k. unfold mid0. rewrite (zget_map_key (cnbrs c')).
    destruct (zget (c_adj c) k) as [l|] eqn:E.
    - assert (Hk : In k (keys (c_adj c'))) by (apply Hin; apply (zget_In_keys _ _ _ E)).
      unfold cnbrs. destruct (zget (c_adj c') k) as [l'|] eqn:E'; [reflexivity|]. apply zget_None_keys in E'. contradiction.
    - destruct (zget (c_adj c') k) as [l'|] eqn:E'; [|reflexivity]. exfalso. apply zget_None_keys in E. apply E. apply Hin.
      apply (zget_In_keys _ _ _ E'). }
  assert (Padj : adj_perm (cgr_int_adjacency h c) (cgr_int_adjacency h c')).
  { exists (map (fun nl => (fst nl, map (fun mb => (fst mb, dbond_invariant h (snd mb))) (snd nl))) mid0). split.
    - unfold cgr_int_adjacency, mid0. rewrite map_map. cbn [fst snd].
      assert (G : forall l0, (forall x, In x l0 -> In x (c_adj c)) ->
                Forall2 nb_perm (map (fun nl => (fst nl, map (fun mb => (fst mb, dbond_invariant h (snd mb))) (snd nl))) l0)
                                (map (fun x => (fst x, map (fun mb => (fst mb, dbond_invariant h (snd mb))) (cnbrs c' (fst x)))) l0)).
      { induction l0 as [|[n l] l0 IH]; intros Hsub; cbn [map fst snd]; constructor.
        - split; cbn [fst snd]; [reflexivity|]. apply Permutation_map.
          assert (El : cnbrs c n = l).
          { unfold cnbrs. rewrite (In_zget _ _ _ Nb (Hsub (n, l) (or_introl eq_refl))). reflexivity. }
          rewrite <- El. apply Pn.
        - apply IH. intros x Hx. apply Hsub. right. exact Hx. }
      apply G. auto.
    - apply Permutation_map. exact Pm. }
  (* the three cases of atoms_order *)
  unfold cgr_atoms_order. pose proof (Permutation_length Pa) as Len.
  destruct (c_atoms c) as [|na [|nb r]] eqn:E, (c_atoms c') as [|na' [|nb' r']] eqn:E'; cbn [List.length] in Len; try discriminate Len.
  - cbn [res_perm]. constructor.
  - cbn [res_perm]. apply Permutation_length_1_inv in Pa. inversion Pa. subst. apply Permutation_refl.
  - rewrite <- E, <- E' in *. apply (morgan_perm h).
    + rewrite keys_cgr_atom_labels. exact Na.
    + rewrite keys_cgr_int_adjacency. exact Nb.
    + unfold cgr_atom_labels. apply Permutation_map. exact Pa.
    + exact Padj.
Qed.

(* whatever orders CPython chooses for the three sets of compose, Morgan.atoms_order of the result holds the same
   (atom, rank) pairs *)
Theorem compose_atoms_order_set_order_free r p o1 o2 o3 o1' o2' o3' c c' :
  wf_mol r = true -> wf_mol p = true -> orders_ok r p o1 o2 o3 -> orders_ok r p o1' o2' o3' ->
  compose_ord o1 o2 o3 r p = Ok c -> compose_ord o1' o2' o3' r p = Ok c' ->
  res_perm (cgr_atoms_order h c) (cgr_atoms_order h c').
Proof.
  intros Hr Hp Ho Ho' E E'.
  destruct (compose_symmetric_wf r p _ _ _ c Hr Hp Ho E) as [W _]. destruct (compose_symmetric_wf r p _ _ _ c' Hr Hp Ho' E') as [W' _].
  destruct (compose_order_independent r p _ _ _ _ _ _ c c' Hr Hp Ho Ho' E E') as [_ [A B]].
  apply cgr_atoms_order_perm; assumption.
Qed.
End SetOrder.

(* non-vacuity: the example reaction composed with two different iteration orders of its common atoms *)
Example compose_atoms_order_set_order_example :
  exists c c', compose_ord [] [] [1; 2; 3] example_r example_p = Ok c /\ compose_ord [] [] [3; 1; 2] example_r example_p = Ok c' /\
    keys (c_atoms c) = [1; 2; 3] /\ keys (c_atoms c') = [3; 1; 2] /\
    z_cgr_atoms_order c = Ok [(3, 1); (2, 2); (1, 3)] /\ z_cgr_atoms_order c' = Ok [(3, 1); (2, 2); (1, 3)].
Proof. eexists. eexists. split; [vm_compute; reflexivity|]. split; [vm_compute; reflexivity|]. repeat split; vm_compute; reflexivity. Qed.
