(* C01: the body of chython/algorithms/morgan.py::_morgan, translated statement by statement from /repo's SOURCE on every run
   (Gen.MorganBody, tools/gen_morganbody.py), IS the hand-written model Model.Morgan (morgan_labels / dense_rank / morgan), for every
   hash function, every label dict and every adjacency (malformed ones included: KeyError).  A behaviour-changing edit of `_morgan`
   changes the generated file and breaks this file. *)
From Coq Require Import ZArith List Bool Lia.
From Gen Require Import MorganBody.
From Model Require Import PyBase PyHash Graph Morgan.
From Proofs Require Import MorganProofs.
Import ListNotations.
Open Scope Z_scope.

(* ---- dict lookups ---- *)
Lemma zmem_keys_zget (d : labels) (k : Z) : zmem k (keys d) = match zget d k with Some _ => true | None => false end.
Proof.
  induction d as [|[k' v] d IH]; simpl; [reflexivity|].
  unfold zmem in *. simpl. rewrite Z.eqb_sym. destruct (k' =? k) eqn:E.
  - reflexivity.
  - simpl. exact IH.
Qed.

Lemma py_sub_lbl (d : labels) (k : Z) :
  py_sub d k = if zmem k (keys d) then Ok (lbl d k) else Err KeyError.
Proof. unfold py_sub, lbl. rewrite zmem_keys_zget. destruct (zget d k); reflexivity. Qed.

(* ---- the inner generator: (atoms[m], b) for m, b in ms.items() ---- *)
Lemma inner_pairs (atoms : labels) (ms : list (Z * Z)) :
  py_mapM (fun '(m, b) => py_bind (py_sub atoms m) (fun y0 => py_bind (Ok b) (fun y1 => Ok (y0, y1)))) ms =
  if forallb (fun mb => zmem (fst mb) (keys atoms)) ms
  then Ok (map (fun mb => (lbl atoms (fst mb), snd mb)) ms) else Err KeyError.
Proof.
  induction ms as [|[m b] ms IH]; [reflexivity|].
  cbn [py_mapM forallb map fst snd]. rewrite IH, py_sub_lbl.
  destruct (zmem m (keys atoms)); [|reflexivity].
  destruct (forallb _ ms); reflexivity.
Qed.

(* ---- the round: the dict comprehension over bonds.items() ---- *)
Definition g_round_fun (h : list Z -> Z) (atoms : labels) : Z * list (Z * Z) -> pyres (Z * Z) :=
  fun '(n, ms) => py_bind (py_bind (py_sub atoms n) (fun x0 => py_bind (py_bind (py_bind
    (py_mapM (fun '(m, b) => py_bind (py_sub atoms m) (fun y0 => py_bind (Ok b) (fun y1 => Ok (y0, y1)))) ms)
    (fun ps => Ok (isort pair_leb ps))) (fun ps => Ok (flat_pairs ps))) (fun xs => Ok (h (x0 :: xs))))) (fun v => Ok (n, v)).

Lemma round_item (h : list Z -> Z) (atoms : labels) (n : Z) (ms : list (Z * Z)) :
  g_round_fun h atoms (n, ms) =
  if zmem n (keys atoms) && forallb (fun mb => zmem (fst mb) (keys atoms)) ms
  then Ok (n, h (round_tuple atoms n ms)) else Err KeyError.
Proof.
  unfold g_round_fun. rewrite py_sub_lbl, inner_pairs.
  destruct (zmem n (keys atoms)); simpl; [|reflexivity].
  destruct (forallb _ ms); reflexivity.
Qed.

Lemma round_translated (h : list Z -> Z) (atoms : labels) (bonds : iadj) :
  py_mapM (g_round_fun h atoms) bonds = if closed atoms bonds then Ok (round h atoms bonds) else Err KeyError.
Proof.
  induction bonds as [|[n ms] bonds IH]; [reflexivity|].
  cbn [py_mapM]. rewrite round_item, IH. unfold closed, round. cbn [forallb map fst snd].
  destruct (zmem n (keys atoms) && forallb (fun mb => zmem (fst mb) (keys atoms)) ms); simpl; [|reflexivity].
  fold (closed atoms bonds). destruct (closed atoms bonds); reflexivity.
Qed.

(* ---- one iteration, then the loop ---- *)
Lemma body_translated (h : list Z -> Z) (bonds : iadj) (atoms : labels) (tries numb stab old_numb : Z) :
  g_body h bonds (atoms, tries, numb, stab, old_numb) =
  if closed atoms bonds then
    let atoms' := round h atoms bonds in
    let numb' := ndistinct (map snd atoms') in
    if numb' =? Z.of_nat (List.length atoms') then Ok ((atoms', tries, numb', stab, numb), true)
    else if numb' =? numb then (if stab =? 3 then Ok ((atoms', tries, numb', stab, numb), true)
                                else Ok ((atoms', tries, numb', stab + 1, numb), false))
    else if negb (stab =? 0) then Ok ((atoms', tries, numb', 0, numb), false)
    else Ok ((atoms', tries, numb', stab, numb), false)
  else Err KeyError.
Proof.
  unfold g_body. fold (g_round_fun h atoms). rewrite round_translated.
  destruct (closed atoms bonds); reflexivity.
Qed.

Definition st_atoms (r : pyres g_state) : pyres labels :=
  match r with Err e => Err e | Ok st => let '(atoms, _, _, _, _) := st in Ok atoms end.

Lemma loop_translated (h : list Z -> Z) (bonds : iadj) (fuel : nat) :
  forall (atoms : labels) (tries numb stab old_numb : Z),
    st_atoms (for_range (g_body h bonds) fuel (atoms, tries, numb, stab, old_numb)) = refine h bonds fuel atoms numb stab.
Proof.
  induction fuel as [|k IH]; intros; [reflexivity|].
  cbn [for_range refine]. rewrite body_translated.
  destruct (closed atoms bonds); [|reflexivity]. cbv zeta.
  destruct (_ =? Z.of_nat _); [reflexivity|].
  destruct (_ =? numb).
  - destruct (stab =? 3); [reflexivity|]. apply IH.
  - destruct (negb (stab =? 0)); apply IH.
Qed.

Theorem g_morgan_labels_is_model (h : list Z -> Z) (atoms : labels) (bonds : iadj) :
  g_morgan_labels h atoms bonds = morgan_labels h atoms bonds.
Proof.
  unfold g_morgan_labels, g_loop, g_init, morgan_labels. cbv zeta.
  rewrite <- (loop_translated h bonds _ atoms (Z.of_nat (List.length atoms) - 1) (ndistinct (map snd atoms)) 0 0).
  unfold st_atoms. destruct (for_range _ _ _) as [[[[[a t] n] s] o]|e]; reflexivity.
Qed.

(* ---- the ranking: enumerate(groupby(sorted(items, key=label), key=label), start=1) ---- *)
Definition rank_groups (i : Z) (gs : list (Z * list (Z * Z))) : labels :=
  flat_map (fun '(i, (_, g)) => map (fun '(n, _) => (n, i)) g) (enumerate_from i gs).

Lemma groupby_head (x : Z * Z) (r : list (Z * Z)) :
  exists g gs, groupby_snd (x :: r) = (snd x, x :: g) :: gs.
Proof.
  revert x. induction r as [|y r IH]; intros x.
  - exists [], []. reflexivity.
  - destruct (IH y) as (g & gs & E). cbn [groupby_snd] in *. rewrite E.
    destruct (snd x =? snd y) eqn:Q.
    + apply Z.eqb_eq in Q. rewrite <- Q. eexists _, _. reflexivity.
    + eexists _, _. reflexivity.
Qed.

Lemma rank_groups_walk (r : list (Z * Z)) :
  forall (x : Z * Z) (i : Z), rank_groups i (groupby_snd (x :: r)) = (fst x, i) :: rank_walk (snd x) i r.
Proof.
  induction r as [|y r IH]; intros x i.
  - destruct x as [n v]. reflexivity.
  - specialize (IH y). destruct (groupby_head y r) as (g & gs & E).
    change (groupby_snd (x :: y :: r)) with
      (match groupby_snd (y :: r) with
       | (k, g) :: gs => if snd x =? k then (k, x :: g) :: gs else (snd x, [x]) :: (k, g) :: gs
       | [] => [(snd x, [x])] end).
    rewrite E in *. cbn [rank_walk]. rewrite (Z.eqb_sym (snd y) (snd x)).
    destruct (snd x =? snd y) eqn:Q.
    + specialize (IH i). unfold rank_groups in *. cbn [enumerate_from flat_map map app] in *.
      destruct x as [nx vx], y as [ny vy]. cbn [fst snd] in *. injection IH as IH. rewrite IH. reflexivity.
    + specialize (IH (i + 1)). unfold rank_groups in *. cbn [enumerate_from flat_map map app] in *.
      destruct x as [nx vx]. cbn [fst snd] in *. rewrite IH. reflexivity.
Qed.

Theorem g_rank_is_model (atoms : labels) : g_rank atoms = dense_rank atoms.
Proof.
  unfold g_rank, dense_rank. destruct (isort by_label atoms) as [|x r]; [reflexivity|].
  exact (rank_groups_walk r x 1).
Qed.

(* ---- the whole function ---- *)
Theorem g_morgan_is_model (h : list Z -> Z) (atoms : labels) (bonds : iadj) :
  g_morgan h atoms bonds = morgan h atoms bonds.
Proof.
  unfold morgan. rewrite <- g_morgan_labels_is_model. unfold g_morgan, g_morgan_labels.
  destruct (g_loop h atoms bonds) as [[[[[a t] n] s] o]|e]; [|reflexivity].
  rewrite g_rank_is_model. reflexivity.
Qed.

(* non-vacuity: the generated function computes (three atoms in a row, two classes; and a malformed adjacency) *)
Example g_morgan_example :
  g_morgan hash_ztuple [(1, 5); (2, 5); (3, 5)] [(1, [(2, 1)]); (2, [(1, 1); (3, 1)]); (3, [(2, 1)])] = Ok [(1, 1); (3, 1); (2, 2)]
  \/ g_morgan hash_ztuple [(1, 5); (2, 5); (3, 5)] [(1, [(2, 1)]); (2, [(1, 1); (3, 1)]); (3, [(2, 1)])] = Ok [(2, 1); (1, 2); (3, 2)].
Proof. vm_compute. first [left; reflexivity | right; reflexivity]. Qed.
Example g_morgan_keyerror_example :
  g_morgan hash_ztuple [(1, 5); (2, 5)] [(1, [(9, 1)]); (2, [])] = Err KeyError.
Proof. vm_compute. reflexivity. Qed.

(* ---- Element.__hash__, Bond.__hash__, Morgan.int_adjacency, Morgan.atoms_order ---- *)
Theorem g_atom_hash_is_model (h : list Z -> Z) (a : atom) (r : bool) : g_atom_hash h a r = atom_invariant h a r.
Proof. reflexivity. Qed.

Theorem g_bond_hash_is_model (b : bond) : g_bond_hash b = bond_invariant b.
Proof. reflexivity. Qed.

Theorem g_int_adjacency_is_model (g : mol) : g_int_adjacency g = int_adjacency g.
Proof.
  unfold g_int_adjacency, int_adjacency. apply map_ext. intros [n mb]. cbn [fst snd]. f_equal.
  apply map_ext. intros [m b]. reflexivity.
Qed.

Theorem g_atoms_order_is_model (h : list Z -> Z) (ring : Z -> bool) (g : mol) :
  g_atoms_order h ring g = atoms_order h ring g.
Proof.
  unfold g_atoms_order, atoms_order. destruct (m_atoms g) as [|[n a] [|[n' a'] r]] eqn:E.
  - reflexivity.
  - reflexivity.
  - replace (Z.of_nat (List.length ((n, a) :: (n', a') :: r)) =? 0) with false
      by (symmetry; apply Z.eqb_neq; cbn [List.length]; lia).
    replace (Z.of_nat (List.length ((n, a) :: (n', a') :: r)) =? 1) with false
      by (symmetry; apply Z.eqb_neq; cbn [List.length]; lia).
    rewrite g_morgan_is_model, g_int_adjacency_is_model. unfold atom_labels. rewrite E. f_equal.
    apply map_ext. intros [k x]. reflexivity.
Qed.

(* the property theorems can therefore be read as statements about the TRANSLATED source: ranks of a renumbered / re-inserted
   description (restated in props/C01.v from Proofs.MorganProofs.morgan_structure_only) *)
Theorem translated_atoms_order_structure_only :
  forall (h : list Z -> Z) (ring ring' : Z -> bool) (g : mol) (s : Z -> Z) (g' : mol),
  wf_mol g = true -> inj_on (ids g) s -> (forall n, In n (ids g) -> ring' (s n) = ring n) -> mol_perm (ren_mol s g) g' ->
  forall n, In n (ids g) -> rank_of (g_atoms_order h ring' g') (s n) = rank_of (g_atoms_order h ring g) n.
Proof. intros. rewrite !g_atoms_order_is_model. eapply morgan_structure_only; eassumption. Qed.

Theorem translated_morgan_equivariant_dicts : forall (h : list Z -> Z) (s : Z -> Z) (D : list Z), inj_on D s ->
  forall atoms adj, incl (keys atoms) D -> adj_in D adj ->
  g_morgan h (ren_labels s atoms) (ren_adj s adj) = ren_res s (g_morgan h atoms adj).
Proof. intros. rewrite !g_morgan_is_model. apply (morgan_ren h s D); assumption. Qed.

Theorem morgan_is_translated_source :
  (forall h atoms bonds, g_morgan h atoms bonds = morgan h atoms bonds) /\
  (forall h atoms bonds, g_morgan_labels h atoms bonds = morgan_labels h atoms bonds) /\
  (forall atoms, g_rank atoms = dense_rank atoms).
Proof. split; [|split]; intros; [apply g_morgan_is_model | apply g_morgan_labels_is_model | apply g_rank_is_model]. Qed.

Theorem atoms_order_is_translated_source :
  (forall h ring g, g_atoms_order h ring g = atoms_order h ring g) /\
  (forall g, g_int_adjacency g = int_adjacency g) /\
  (forall h a r, g_atom_hash h a r = atom_invariant h a r) /\
  (forall b, g_bond_hash b = bond_invariant b).
Proof.
  split; [|split; [|split]]; intros; [apply g_atoms_order_is_model | apply g_int_adjacency_is_model | apply g_atom_hash_is_model | apply g_bond_hash_is_model].
Qed.

Theorem translated_morgan_example :
  g_morgan hash_ztuple [(1, 5); (2, 5)] [(1, [(9, 1)]); (2, [])] = Err KeyError /\
  exists r, g_morgan hash_ztuple [(1, 5); (2, 5); (3, 5)] [(1, [(2, 1)]); (2, [(1, 1); (3, 1)]); (3, [(2, 1)])] = Ok r /\
            zget r 1 = zget r 3 /\ zget r 1 <> zget r 2.
Proof.
  split; [vm_compute; reflexivity|].
  eexists. split; [vm_compute; reflexivity|]. split; [vm_compute; reflexivity|]. vm_compute. discriminate.
Qed.
