(* denote_is_graph: the record `denote` (hence, by read_spell_denote, the parser on the spelling) returns for a syntax tree is
   the graph Model.SmilesGraph reads off the tree without the machine: atoms in preorder, parent-child bonds, ring bonds by
   the separate matching function, bond values by `choice` / `ring_val`. *)
From Coq Require Import ZArith List String Ascii Bool Lia.
From Model Require Import PyBase Tokenize Parser SmilesAst SmilesGraph.
From Proofs Require Import TokenizeProofs ParserProofs DenoteProofs.
Import ListNotations.
Open Scope Z_scope.

(* ------------------------------------------------------------------------------------------------ well-shaped bond tokens *)
Definition bok (b : option token) : bool :=
  match b with
  | None => true
  | Some (1, PInt _) | Some (9, PBool _) | Some (4, PNone) => true
  | _ => false
  end.
Fixpoint wf2 (t : tree) : bool :=
  match t with
  | Node ty a rings kids =>
      zmem ty [0; 8] && forallb (fun r : option token * Z => bok (fst r)) rings &&
      (fix go (ks : list (option token * tree)) : bool :=
         match ks with [] => true | (b, c) :: rest => bok b && wf2 c && go rest end) kids
  end.
Fixpoint wf2_kids (ks : list (option token * tree)) : bool :=
  match ks with [] => true | (b, c) :: rest => bok b && wf2 c && wf2_kids rest end.
Lemma wf2_node ty a rings kids : wf2 (Node ty a rings kids) =
  zmem ty [0; 8] && forallb (fun r : option token * Z => bok (fst r)) rings && wf2_kids kids.
Proof. cbn [wf2]. apply f_equal. induction kids as [|[b c] r IH]; [reflexivity|]. cbn [wf2_kids]. rewrite <- IH. reflexivity. Qed.

Lemma bok_bond_ok b : bok b = true -> bond_ok b = true.
Proof. destruct b as [[ty v]|]; [|reflexivity]. cbn. destruct ty as [|p|p]; try discriminate. repeat (destruct p; try discriminate); destruct v; try discriminate; reflexivity. Qed.

Lemma wf2_wf t : wf2 t = true -> wf_tree t = true.
Proof.
  induction t as [ty a rings kids IH] using tree_ind'. rewrite wf2_node, wf_node. intros H.
  apply andb_prop in H. destruct H as [H Hk]. apply andb_prop in H. destruct H as [Hty Hr]. rewrite Hty. cbn [andb].
  apply andb_true_intro. split.
  - rewrite forallb_forall in *. intros r Hr'. apply bok_bond_ok. apply Hr. exact Hr'.
  - clear Hr Hty. induction kids as [|[b c] r IHr]; [reflexivity|]. cbn [wf2_kids wf_kids] in *.
    inversion IH; subst. apply andb_prop in Hk. destruct Hk as [Hk Hk2]. apply andb_prop in Hk. destruct Hk as [Hb Hc].
    rewrite (bok_bond_ok b Hb). cbn [snd] in H1. rewrite (H1 Hc). cbn [andb]. apply IHr; assumption.
Qed.

(* ------------------------------------------------------------------------------------------------ events as local operations *)
Definition run_ev (strong : bool) (e : ev) (s : pstate) : pyres pstate :=
  match e with
  | EA par b ty a => op_at strong s par (opt_bond b ++ [(ty, PAtom a)])
  | ER y b k => op_at strong s y (opt_bond b ++ [(6, PInt k)])
  end.
Fixpoint run (strong : bool) (E : list ev) (s : pstate) : pyres pstate :=
  match E with [] => Ok s | e :: r => match run_ev strong e s with Ok s' => run strong r s' | Err x => Err x end end.

Lemma run_app strong a : forall b s, run strong (a ++ b) s = match run strong a s with Ok s1 => run strong b s1 | Err e => Err e end.
Proof. induction a as [|e r IH]; intros b s; cbn [run app]; [reflexivity|]. destruct (run_ev strong e s); [apply IH | reflexivity]. Qed.

(* a state that already stands at p with nothing pending *)
Lemma at_node_id s p : ps_last s = p -> ps_stack s = [] -> ps_prev s = None -> at_node s p = s.
Proof. destruct s. cbn. intros -> -> ->. reflexivity. Qed.

Lemma op_at_shape_rings strong s p rings s2 : forallb (fun r : option token * Z => bond_ok (fst r)) rings = true ->
  op_at strong s p (ring_tokens rings) = Ok s2 -> ps_last s2 = p /\ ps_prev s2 = None /\ ps_stack s2 = [].
Proof. unfold op_at. intros Hw H. destruct (rings_shape strong rings (at_node s p) s2 eq_refl Hw H) as [A [B C]]. repeat split; assumption. Qed.

(* the ring digits of an atom, one local operation each *)
Lemma op_at_rings strong rings : forall s p, forallb (fun r : option token * Z => bond_ok (fst r)) rings = true ->
  op_at strong s p (ring_tokens rings) = run strong (map (fun r : option token * Z => ER p (fst r) (snd r)) rings) (at_node s p).
Proof.
  induction rings as [|[b k] r IH]; intros s p Hw; [reflexivity|].
  cbn [forallb fst] in Hw. apply andb_prop in Hw. destruct Hw as [Hb Hr].
  cbn [map run fst snd run_ev]. unfold op_at at 1. unfold ring_tokens. cbn [flat_map fst snd]. fold (ring_tokens r).
  rewrite <- app_assoc, app_assoc, loop_app. unfold op_at at 1.
  assert (E : at_node (at_node s p) p = at_node s p) by reflexivity. rewrite E.
  destruct (loop strong (at_node s p) (opt_bond b ++ [(6, PInt k)])) as [s1|e] eqn:E1; [|reflexivity].
  assert (Sh : ps_last s1 = p /\ ps_prev s1 = None /\ ps_stack s1 = []).
  { assert (E1' : loop strong (at_node s p) (ring_tokens [(b, k)]) = Ok s1) by (unfold ring_tokens; cbn [flat_map fst snd]; rewrite app_nil_r; exact E1).
    destruct (rings_shape strong [(b, k)] (at_node s p) s1 eq_refl ltac:(cbn; rewrite Hb; reflexivity) E1') as [A [B C]]. repeat split; assumption. }
  destruct Sh as [A [B C]].
  specialize (IH s1 p Hr). unfold op_at in IH. rewrite (at_node_id s1 p A C B) in IH. exact IH.
Qed.

(* ------------------------------------------------------------------------------------------------ atom counter *)
Lemma step_n strong s ty v s' : step strong s (ty, v) = Ok s' -> (ty =? 2) = false -> (ty =? 3) = false ->
  ps_n s' = if zmem ty [1; 4; 9; 10; 12] || (ty =? 6) then ps_n s else ps_n s + 1.
Proof.
  unfold step, ISm. intros H E2 E3. rewrite E2, E3 in H.
  destruct (zmem ty [1; 4; 9; 10; 12]) eqn:Eb.
  { destruct (ps_prev s); [discriminate|]. destruct (ps_atoms s); [discriminate|]. inversion H; subst. reflexivity. }
  destruct (ty =? 6) eqn:E6.
  { destruct (match ps_prev s with Some (pt, _) => pt =? 4 | None => false end); [discriminate|].
    destruct v; try discriminate. destruct (zget (ps_cycles s) z) as [[[a ob] ind]|].
    - destruct (close_bond strong s a ob) as [[[[b sb] lg] x]|]; [|discriminate].
      destruct (od_set (ps_order s) a ind (Some (ps_last s))); [|discriminate]. inversion H; subst. reflexivity.
    - inversion H; subst. reflexivity. }
  match type of H with match ?X with _ => _ end = _ => destruct X as [[[bonds order] sb]|]; [|discriminate] end.
  destruct v; try discriminate. inversion H; subst. reflexivity.
Qed.

Lemma loop_bond_n strong s b s1 : bond_ok b = true -> loop strong s (opt_bond b) = Ok s1 -> ps_n s1 = ps_n s.
Proof.
  destruct b as [[bt bv]|]; cbn [opt_bond loop]; intros Hb H; [|inversion H; reflexivity].
  destruct (bond_ok_tok bt bv Hb) as [B1 [B2 [B3 _]]]. destruct (step strong s (bt, bv)) as [s0|] eqn:E; [|discriminate].
  inversion H; subst. rewrite (step_n strong s bt bv s1 E B2 B3), B1. reflexivity.
Qed.

Lemma run_ev_n strong e s s' : run_ev strong e s = Ok s' ->
  match e with EA _ b ty _ => bond_ok b = true /\ zmem ty [0; 8] = true | ER _ b _ => bond_ok b = true end ->
  ps_n s' = match e with EA _ _ _ _ => ps_n s + 1 | ER _ _ _ => ps_n s end.
Proof.
  destruct e as [par b ty a | y b k]; unfold run_ev, op_at; rewrite loop_app; intros H W.
  - destruct W as [Hb Hty]. destruct (loop strong (at_node s par) (opt_bond b)) as [s0|] eqn:E0; [|discriminate].
    apply (loop_bond_n strong _ b s0 Hb) in E0. cbn [loop] in H.
    destruct (step strong s0 (ty, PAtom a)) as [s1|] eqn:E1; [|discriminate]. inversion H; subst.
    destruct (atom_ty ty Hty) as [A2 A3]. rewrite (step_n strong s0 ty (PAtom a) s' E1 A2 A3).
    assert (Z1 : zmem ty [1; 4; 9; 10; 12] || (ty =? 6) = false) by (clear - Hty; zcontra; reflexivity).
    rewrite Z1, E0. reflexivity.
  - destruct (loop strong (at_node s y) (opt_bond b)) as [s0|] eqn:E0; [|discriminate].
    apply (loop_bond_n strong _ b s0 W) in E0. cbn [loop] in H.
    destruct (step strong s0 (6, PInt k)) as [s1|] eqn:E1; [|discriminate]. inversion H; subst.
    rewrite (step_n strong s0 6 (PInt k) s' E1 eq_refl eq_refl). cbn. exact E0.
Qed.

(* well-shaped event lists *)
Definition ev_wf (e : ev) : Prop :=
  match e with EA _ b ty _ => bond_ok b = true /\ zmem ty [0; 8] = true | ER _ b _ => bond_ok b = true end.

Lemma run_n strong E : forall s s', Forall ev_wf E -> run strong E s = Ok s' -> ps_n s' = ps_n s + n_atoms E.
Proof.
  induction E as [|e r IH]; intros s s' W H; cbn [run] in H.
  - inversion H; subst. unfold n_atoms. cbn. lia.
  - inversion W; subst. destruct (run_ev strong e s) as [s1|] eqn:E1; [|discriminate].
    rewrite (IH s1 s' H3 H), (run_ev_n strong e s s1 E1 H2). unfold n_atoms. destruct e; cbn [filter List.length]; lia.
Qed.

(* ------------------------------------------------------------------------------------------------ den = the events of flat, one by one *)
Fixpoint flat_kids (ks : list (option token * tree)) (me i : Z) : list ev :=
  match ks with [] => [] | (b', c) :: r => flat c me b' i ++ flat_kids r me (i + Z.of_nat (tsize c)) end.
Fixpoint tsize_kids (ks : list (option token * tree)) : nat := match ks with [] => O | (_, c) :: r => (tsize c + tsize_kids r)%nat end.

Lemma flat_node ty a rings kids par b idx :
  flat (Node ty a rings kids) par b idx =
  EA par b ty a :: map (fun r : option token * Z => ER idx (fst r) (snd r)) rings ++ flat_kids kids idx (idx + 1).
Proof.
  cbn [flat]. apply f_equal. apply f_equal. generalize (idx + 1). induction kids as [|[b' c] r IH]; intros i; [reflexivity|].
  cbn [flat_kids]. rewrite <- IH. reflexivity.
Qed.
Lemma tsize_node ty a rings kids : tsize (Node ty a rings kids) = S (tsize_kids kids).
Proof. cbn [tsize]. apply f_equal. induction kids as [|[b' c] r IH]; [reflexivity|]. cbn [tsize_kids]. rewrite <- IH. reflexivity. Qed.

Lemma n_atoms_app a b : n_atoms (a ++ b) = n_atoms a + n_atoms b.
Proof. unfold n_atoms. rewrite filter_app, app_length. lia. Qed.
Lemma n_atoms_rings idx (rings : list (option token * Z)) : n_atoms (map (fun r : option token * Z => ER idx (fst r) (snd r)) rings) = 0.
Proof. unfold n_atoms. induction rings; cbn; [reflexivity | exact IHrings]. Qed.

Lemma n_atoms_flat t : forall par b idx, n_atoms (flat t par b idx) = Z.of_nat (tsize t).
Proof.
  induction t as [ty a rings kids IH] using tree_ind'. intros par b idx. rewrite flat_node, tsize_node.
  change (EA par b ty a :: ?l) with ([EA par b ty a] ++ l). rewrite !n_atoms_app, n_atoms_rings.
  assert (K : forall i, n_atoms (flat_kids kids idx i) = Z.of_nat (tsize_kids kids)).
  { induction kids as [|[b' c] r IHr]; intros i; [reflexivity|]. inversion IH; subst. cbn [flat_kids tsize_kids snd] in *.
    rewrite n_atoms_app, H1, IHr by assumption. lia. }
  rewrite K. change (n_atoms [EA par b ty a]) with 1. lia.
Qed.

Lemma ev_wf_flat t : forall par b idx, wf_tree t = true -> bond_ok b = true -> Forall ev_wf (flat t par b idx).
Proof.
  induction t as [ty a rings kids IH] using tree_ind'. intros par b idx Hw Hb. rewrite flat_node.
  rewrite wf_node in Hw. apply andb_prop in Hw. destruct Hw as [Hw Hwk]. apply andb_prop in Hw. destruct Hw as [Hty Hwr].
  constructor; [split; assumption|]. apply Forall_app. split.
  - apply Forall_forall. intros e He. apply in_map_iff in He. destruct He as [r [<- Hr]]. cbn.
    rewrite forallb_forall in Hwr. apply Hwr. exact Hr.
  - generalize (idx + 1). induction kids as [|[b' c] r IHr]; intros i; [constructor|]. inversion IH; subst.
    cbn [wf_kids] in Hwk. apply andb_prop in Hwk. destruct Hwk as [Hk Hk2]. apply andb_prop in Hk. destruct Hk as [Hb' Hc].
    cbn [flat_kids]. apply Forall_app. split; [apply H1; assumption | apply IHr; assumption].
Qed.

Definition req (x y : pyres pstate) : Prop :=
  match x, y with Ok a, Ok b => core a = core b | Err e1, Err e2 => e1 = e2 | _, _ => False end.
Lemma req_refl x : req x x.
Proof. destruct x; reflexivity. Qed.
Lemma req_trans x y z : req x y -> req y z -> req x z.
Proof. destruct x, y, z; cbn; try tauto; congruence. Qed.

Lemma run_ev_core strong e s1 s2 : core s1 = core s2 -> run_ev strong e s1 = run_ev strong e s2.
Proof. intros H. destruct e; unfold run_ev, op_at; rewrite (at_node_core s1 s2 _ H); reflexivity. Qed.
Lemma run_core strong E s1 s2 : core s1 = core s2 -> req (run strong E s1) (run strong E s2).
Proof.
  intros H. destruct E as [|e r]; cbn [run]; [exact H|]. rewrite (run_ev_core strong e s1 s2 H). apply req_refl.
Qed.
Lemma core_at_node s p : core (at_node s p) = core s.
Proof. reflexivity. Qed.

Lemma den_kids_core strong me kids d1 d2 : core d1 = core d2 -> den_kids strong me kids d1 = den_kids strong me kids d2 \/ kids = [].
Proof. intros H. destruct kids as [|[b c] r]; [right; reflexivity|]. left. cbn [den_kids]. rewrite (den_core strong c me b d1 d2 H). reflexivity. Qed.

Lemma den_run strong t : forall par b s, wf_tree t = true -> bond_ok b = true ->
  req (den strong t par b s) (run strong (flat t par b (ps_n s)) s).
Proof.
  induction t as [ty a rings kids IH] using tree_ind'. intros par b s Hw Hb.
  pose proof Hw as Hw0. rewrite wf_node in Hw. apply andb_prop in Hw. destruct Hw as [Hw Hwk]. apply andb_prop in Hw. destruct Hw as [Hty Hwr].
  rewrite den_node, flat_node. cbn [run run_ev].
  destruct (op_at strong s par (opt_bond b ++ [(ty, PAtom a)])) as [s1|e] eqn:E1; [|reflexivity].
  assert (N1 : ps_n s1 = ps_n s + 1) by (apply (run_ev_n strong (EA par b ty a) s s1 E1); split; assumption).
  rewrite run_app. rewrite (op_at_rings strong rings s1 (ps_n s) Hwr).
  pose proof (run_core strong (map (fun r : option token * Z => ER (ps_n s) (fst r) (snd r)) rings) (at_node s1 (ps_n s)) s1 (core_at_node s1 (ps_n s))) as RC.
  destruct (run strong _ (at_node s1 (ps_n s))) as [d2|e2] eqn:ED; destruct (run strong (map _ rings) s1) as [r2|e3] eqn:ER2; cbn in RC; try contradiction;
    [|subst; reflexivity].
  assert (WR : Forall ev_wf (map (fun r : option token * Z => ER (ps_n s) (fst r) (snd r)) rings)).
  { apply Forall_forall. intros e He. apply in_map_iff in He. destruct He as [r [<- Hr]]. cbn.
    rewrite forallb_forall in Hwr. apply Hwr. exact Hr. }
  assert (N2 : ps_n r2 = ps_n s + 1).
  { rewrite (run_n strong _ s1 r2 WR ER2), n_atoms_rings. lia. }
  (* the children *)
  assert (K : forall ks, Forall (fun bk : option token * tree => forall par b s, wf_tree (snd bk) = true -> bond_ok b = true ->
                 req (den strong (snd bk) par b s) (run strong (flat (snd bk) par b (ps_n s)) s)) ks -> wf_kids ks = true ->
              forall d r, core d = core r -> req (den_kids strong (ps_n s) ks d) (run strong (flat_kids ks (ps_n s) (ps_n r)) r)).
  { clear. induction ks as [|[b' c] rest IHk]; intros HF Hwk d r Hc; cbn [den_kids flat_kids run]; [exact Hc|].
    inversion HF; subst. cbn [snd] in H1. cbn [wf_kids] in Hwk. apply andb_prop in Hwk. destruct Hwk as [Hk Hk2]. apply andb_prop in Hk. destruct Hk as [Hb' Hc'].
    rewrite run_app. rewrite (den_core strong c (ps_n s) b' d r Hc).
    pose proof (H1 (ps_n s) b' r Hc' Hb') as R.
    destruct (den strong c (ps_n s) b' r) as [d1|e1]; destruct (run strong (flat c (ps_n s) b' (ps_n r)) r) as [r1|e2] eqn:ER; cbn in R; try contradiction;
      [|subst; reflexivity].
    assert (N : ps_n r1 = ps_n r + Z.of_nat (tsize c)).
    { rewrite (run_n strong _ r r1 (ev_wf_flat c _ _ _ Hc' Hb') ER), n_atoms_flat. reflexivity. }
    rewrite <- N. apply IHk; assumption. }
  specialize (K kids IH Hwk d2 r2 RC). rewrite N2 in K. exact K.
Qed.

(* ------------------------------------------------------------------------------------------------ list facts about the readings *)
Lemma ev_atoms_app a b : ev_atoms (a ++ b) = ev_atoms a ++ ev_atoms b.
Proof. unfold ev_atoms. apply flat_map_app. Qed.
Lemma ev_types_app a b : ev_types (a ++ b) = ev_types a ++ ev_types b.
Proof. unfold ev_types. apply flat_map_app. Qed.
Lemma ev_types_length h : Z.of_nat (List.length (ev_types h)) = n_atoms h.
Proof. unfold ev_types, n_atoms. induction h as [|[|] r IH]; cbn [flat_map filter app List.length]; [reflexivity | lia | exact IH]. Qed.

Lemma opener_from_app cur h1 h2 k : opener_from cur (h1 ++ h2) k = opener_from (opener_from cur h1 k) h2 k.
Proof.
  revert cur. induction h1 as [|e r IH]; intros cur; cbn [app opener_from]; [reflexivity|].
  destruct e as [|x ob k']; [apply IH|]. destruct (k' =? k); apply IH.
Qed.
Lemma opener_snoc_ring h y cb k k' :
  opener (h ++ [ER y cb k]) k' = if k =? k' then (match opener h k' with None => Some (y, cb) | Some _ => None end) else opener h k'.
Proof. unfold opener. rewrite opener_from_app. cbn [opener_from]. destruct (k =? k'); reflexivity. Qed.
Lemma opener_snoc_atom h par b ty a k' : opener (h ++ [EA par b ty a]) k' = opener h k'.
Proof. unfold opener. rewrite opener_from_app. reflexivity. Qed.

Lemma ev_bonds_from_snoc strong r : forall h e,
  ev_bonds_from strong h (r ++ [e]) =
  match ev_bonds_from strong h r, ev_bond strong (h ++ r) e with Some a, Some b => Some (a ++ b) | _, _ => None end.
Proof.
  induction r as [|x r IH]; intros h e; cbn [app ev_bonds_from].
  - rewrite app_nil_r. destruct (ev_bond strong h e); [rewrite app_nil_r; reflexivity | reflexivity].
  - rewrite IH. rewrite <- app_assoc. cbn [app].
    destruct (ev_bond strong h x) as [a|]; [|reflexivity]. destruct (ev_bonds_from strong (h ++ [x]) r) as [b|]; [|reflexivity].
    destruct (ev_bond strong (h ++ x :: r) e); [rewrite app_assoc; reflexivity | reflexivity].
Qed.
Lemma ev_bonds_snoc strong h e :
  ev_bonds strong (h ++ [e]) = match ev_bonds strong h, ev_bond strong h e with Some a, Some b => Some (a ++ b) | _, _ => None end.
Proof. unfold ev_bonds. rewrite ev_bonds_from_snoc. reflexivity. Qed.

(* ------------------------------------------------------------------------------------------------ the invariant *)
Definition cyc_view (c : cyc) : Z * option token := (fst (fst c), snd (fst c)).
Definition PIall (s : pstate) : Prop := forall p, 0 <= p < ps_n s -> PI (at_node s p).

Record INV (strong : bool) (hist : list ev) (s : pstate) : Prop := mkINV {
  iv_atoms : ps_atoms s = ev_atoms hist;
  iv_types : ps_types s = ev_types hist;
  iv_n : ps_n s = n_atoms hist;
  iv_pos : 0 < ps_n s;
  iv_bonds : ev_bonds strong hist = Some (ps_bonds s);
  iv_nodup : NoDup (keys (ps_cycles s));
  iv_cyc : forall k, option_map cyc_view (zget (ps_cycles s) k) = opener hist k;
  iv_pi : PIall s }.

Lemma PI_at_node s q : PI s -> 0 <= q < ps_n s -> PI (at_node s q).
Proof.
  intros [h1 h2 h3 h4 h5 h6 h7 h8] Hq. constructor; cbn; try assumption; [constructor | exact I].
Qed.

Lemma bok_swfb b : bok b = true -> forallb swfb (opt_bond b) = true.
Proof.
  destruct b as [[ty v]|]; [|reflexivity]. cbn. destruct ty as [|p|p]; try discriminate.
  repeat (destruct p; try discriminate); destruct v; try discriminate; reflexivity.
Qed.

(* any local operation keeps the machine invariant of ParserProofs *)
Lemma op_at_PI strong s p toks : PIall s -> 0 <= p < ps_n s -> forallb swfb toks = true ->
  match op_at strong s p toks with Ok s' => PI s' | Err e => vee e = true end.
Proof. intros HP Hp Ht. unfold op_at. exact (loop_good strong toks (at_node s p) Ht (HP p Hp)). Qed.

Lemma PI_PIall s : PI s -> PIall s.
Proof. intros H p Hp. apply PI_at_node; assumption. Qed.

Lemma type_at_of strong hist s i : INV strong hist s -> 0 <= i < ps_n s -> forall p, type_at (at_node s p) i = Ok (type_of hist i).
Proof.
  intros I Hi p. unfold type_at, type_of. cbn [ps_types at_node]. rewrite (iv_types _ _ _ I).
  destruct (i <? 0) eqn:E; [apply Z.ltb_lt in E; lia|].
  pose proof (ev_types_length hist) as L. rewrite <- (iv_n _ _ _ I) in L.
  destruct (nth_error (ev_types hist) (Z.to_nat i)) as [t|] eqn:E2.
  - rewrite (nth_error_nth _ _ 0 E2). reflexivity.
  - apply nth_error_None in E2. lia.
Qed.

(* ------------------------------------------------------------------------------------------------ closed forms of the local steps *)
(* attaching an atom to atom `par` (what changes in atoms / types / bonds / counter / closure table) *)
Lemma attach_form strong s par b ty a tp : bok b = true -> zmem ty [0; 8] = true -> ps_atoms s <> [] ->
  type_at (at_node s par) par = Ok tp ->
  exists s', op_at strong s par (opt_bond b ++ [(ty, PAtom a)]) = Ok s' /\
    ps_atoms s' = ps_atoms s ++ [clear_stereo a] /\ ps_types s' = ps_types s ++ [ty] /\ ps_n s' = ps_n s + 1 /\
    ps_cycles s' = ps_cycles s /\
    ps_bonds s' = ps_bonds s ++ (if is_dot b then [] else [(ps_n s, par, choice b ty tp)]).
Proof.
  intros Hb Hty Hne Htp. unfold op_at.
  assert (T : ty = 0 \/ ty = 8) by (clear - Hty; zcontra; tauto).
  destruct s as [atoms types bonds order n last stack cycles satoms sbonds prev lg]. cbn [ps_atoms] in Hne.
  destruct atoms as [|a0 ar]; [contradiction|].
  unfold type_at in Htp. cbn [at_node ps_types ps_atoms ps_bonds ps_order ps_n ps_last ps_stack ps_cycles ps_satoms ps_sbonds ps_prev ps_log] in Htp.
  destruct b as [[bt bv]|].
  - cbn in Hb. destruct bt as [|p|p]; try discriminate. repeat (destruct p; try discriminate); destruct bv; try discriminate;
      destruct T; subst ty; cbn [opt_bond app loop]; unfold step, type_at; cbn -[sb_set arom_or_single od_append]; rewrite ?Htp;
      cbn -[sb_set arom_or_single od_append]; (eexists; split; [reflexivity|]); cbn -[arom_or_single]; repeat split; rewrite ?app_nil_r; reflexivity.
  - destruct T; subst ty; cbn [opt_bond app loop]; unfold step, type_at; cbn -[sb_set arom_or_single od_append]; rewrite ?Htp;
      cbn -[sb_set arom_or_single od_append]; (eexists; split; [reflexivity|]); cbn -[arom_or_single]; repeat split; reflexivity.
Qed.

(* a bond token in front of a token t only sets `previous` *)
Lemma bond_then strong s y cb t : bok cb = true -> ps_atoms s <> [] ->
  loop strong (at_node s y) (opt_bond cb ++ [t]) = step strong (set_prev (at_node s y) cb) t.
Proof.
  intros Hb Hne. destruct s as [atoms types bonds order n last stack cycles satoms sbonds prev lg]. cbn [ps_atoms] in Hne.
  destruct atoms as [|a0 ar]; [contradiction|].
  destruct cb as [[bt bv]|]; cbn [opt_bond app loop].
  - cbn in Hb. destruct bt as [|p|p]; try discriminate. repeat (destruct p; try discriminate); destruct bv; try discriminate;
      unfold step at 1; cbn; destruct (step strong _ t); reflexivity.
  - unfold set_prev, at_node. cbn. destruct (step strong _ t); reflexivity.
Qed.

(* reconciling the two ends of a ring bond: close_bond decides as ring_val *)
Lemma close_val strong S x ob cb tx ty_ : ps_prev S = cb -> bok cb = true -> is_dot cb = false -> obwf ob ->
  type_at S (ps_last S) = Ok ty_ -> type_at S x = Ok tx ->
  match ring_val strong tx ty_ ob cb with
  | Some v => exists sb lg, close_bond strong S x ob = Ok (v, sb, lg, None)
  | None => close_bond strong S x ob = Err IncorrectSmiles
  end.
Proof.
  intros Hp Hb Hd Hob T1 T2. unfold close_bond, arom_at, ISm. rewrite Hp, T1, T2.
  destruct ob as [[obt obv]|]; cbn [obwf] in Hob.
  - destruct Hob as [[-> [oo ->]] | [-> [od ->]]]; destruct cb as [[bt bv]|]; cbn in Hb, Hd |- *;
      try (destruct bt as [|p|p]; try discriminate; repeat (destruct p; try discriminate); destruct bv; try discriminate);
      cbn -[arom_or_single sb_set]; try (destruct strong); cbn -[arom_or_single sb_set];
      repeat match goal with |- context [(?a =? ?b)] => destruct (a =? b) end; cbn -[arom_or_single sb_set];
      try reflexivity; try (eexists; eexists; reflexivity).
  - destruct cb as [[bt bv]|]; cbn in Hb, Hd |- *;
      try (destruct bt as [|p|p]; try discriminate; repeat (destruct p; try discriminate); destruct bv; try discriminate);
      cbn -[arom_or_single sb_set]; try (destruct strong); cbn -[arom_or_single sb_set];
      try reflexivity; try (eexists; eexists; reflexivity).
Qed.

(* ------------------------------------------------------------------------------------------------ one event *)
Definition ev_ok (hist : list ev) (e : ev) : Prop :=
  match e with
  | EA par b ty a => bok b = true /\ zmem ty [0; 8] = true /\ 0 <= par < n_atoms hist
  | ER y cb k => bok cb = true /\ 0 <= y < n_atoms hist
  end.

Lemma INV_atoms_ne strong hist s : INV strong hist s -> ps_atoms s <> [].
Proof.
  intros I E. pose proof (iv_pi _ _ _ I 0 ltac:(pose proof (iv_pos _ _ _ I); lia)) as P.
  pose proof (pi_n _ P) as N. pose proof (pi_pos _ P) as Q. cbn in N, Q. rewrite E in N. cbn in N. lia.
Qed.

Lemma swfb_attach b ty a : bok b = true -> zmem ty [0; 8] = true -> forallb swfb (opt_bond b ++ [(ty, PAtom a)]) = true.
Proof. intros Hb Hty. rewrite forallb_app, (bok_swfb b Hb). cbn [forallb andb]. unfold swfb. cbn [snd fst]. rewrite Hty. reflexivity. Qed.
Lemma swfb_ring b k : bok b = true -> forallb swfb (opt_bond b ++ [(6, PInt k)]) = true.
Proof. intros Hb. rewrite forallb_app, (bok_swfb b Hb). reflexivity. Qed.

Lemma n_atoms_snoc_atom h par b ty a : n_atoms (h ++ [EA par b ty a]) = n_atoms h + 1.
Proof. rewrite n_atoms_app. reflexivity. Qed.
Lemma n_atoms_snoc_ring h y b k : n_atoms (h ++ [ER y b k]) = n_atoms h.
Proof. rewrite n_atoms_app. unfold n_atoms at 2. cbn. lia. Qed.

Lemma ev_step strong hist s e : INV strong hist s -> ev_ok hist e ->
  match ev_bond strong hist e with
  | Some nb => exists s', run_ev strong e s = Ok s' /\ INV strong (hist ++ [e]) s'
  | None => exists x, run_ev strong e s = Err x
  end.
Proof.
  intros I Hok. pose proof (INV_atoms_ne _ _ _ I) as Hne.
  destruct e as [par b ty a | y cb k]; cbn [ev_ok] in Hok.
  - (* an atom *)
    destruct Hok as [Hb [Hty Hpar]]. rewrite <- (iv_n _ _ _ I) in Hpar.
    pose proof (type_at_of strong hist s par I Hpar par) as Htp.
    destruct (attach_form strong s par b ty a _ Hb Hty Hne Htp) as [s' [E [A1 [A2 [A3 [A4 A5]]]]]].
    cbn [ev_bond]. assert (Z0 : (n_atoms hist =? 0) = false) by (apply Z.eqb_neq; rewrite <- (iv_n _ _ _ I); pose proof (iv_pos _ _ _ I); lia).
    rewrite Z0. cbn [orb].
    assert (P' : PI s').
    { pose proof (op_at_PI strong s par _ (iv_pi _ _ _ I) Hpar (swfb_attach b ty a Hb Hty)) as G. cbn [run_ev] in E. rewrite E in G. exact G. }
    assert (Done : INV strong (hist ++ [EA par b ty a]) s').
    { constructor.
      - rewrite A1, ev_atoms_app, (iv_atoms _ _ _ I). reflexivity.
      - rewrite A2, ev_types_app, (iv_types _ _ _ I). reflexivity.
      - rewrite A3, n_atoms_snoc_atom, (iv_n _ _ _ I). reflexivity.
      - rewrite A3. pose proof (iv_pos _ _ _ I). lia.
      - rewrite ev_bonds_snoc, (iv_bonds _ _ _ I). cbn [ev_bond]. rewrite Z0. cbn [orb]. rewrite A5, <- (iv_n _ _ _ I).
        destruct (is_dot b); reflexivity.
      - rewrite A4. exact (iv_nodup _ _ _ I).
      - intros k. rewrite A4, opener_snoc_atom. exact (iv_cyc _ _ _ I k).
      - apply PI_PIall. exact P'. }
    destruct (is_dot b); exists s'; (split; [exact E | exact Done]).
  - (* a ring digit *)
    destruct Hok as [Hb Hy]. rewrite <- (iv_n _ _ _ I) in Hy.
    cbn [run_ev ev_bond]. unfold op_at. rewrite (bond_then strong s y cb _ Hb Hne).
    pose proof (op_at_PI strong s y _ (iv_pi _ _ _ I) Hy (swfb_ring cb k Hb)) as G. unfold op_at in G. rewrite (bond_then strong s y cb _ Hb Hne) in G.
    assert (TT : forall i, type_at (set_prev (at_node s y) cb) i = type_at (at_node s y) i) by (intros i; destruct s; reflexivity).
    remember (set_prev (at_node s y) cb) as S eqn:ES.
    unfold step in G |- *. cbn [Z.eqb Pos.eqb zmem existsb orb] in G |- *.
    assert (Sp : ps_prev S = cb) by (subst S; destruct s; reflexivity).
    assert (Sc : ps_cycles S = ps_cycles s) by (subst S; destruct s; reflexivity).
    assert (Sl : ps_last S = y) by (subst S; destruct s; reflexivity).
    assert (So : ps_order S = ps_order s) by (subst S; destruct s; reflexivity).
    assert (Sa : ps_atoms S = ps_atoms s) by (subst S; destruct s; reflexivity).
    assert (St : ps_types S = ps_types s) by (subst S; destruct s; reflexivity).
    assert (Sn : ps_n S = ps_n s) by (subst S; destruct s; reflexivity).
    assert (Sb : ps_bonds S = ps_bonds s) by (subst S; destruct s; reflexivity).
    rewrite Sp in G |- *. rewrite Sc in G |- *.
    destruct (is_dot cb) eqn:Ed.
    { destruct cb as [[bt bv]|]; [|discriminate]. cbn in Ed. destruct bt as [|p|p]; try discriminate. repeat (destruct p; try discriminate).
      cbn. eexists. reflexivity. }
    assert (Nd : (match cb with Some (pt, _) => pt =? 4 | None => false end) = false).
    { destruct cb as [[bt bv]|]; [|reflexivity]. cbn in Hb, Ed |- *. destruct bt as [|p|p]; try discriminate. repeat (destruct p; try discriminate); reflexivity. }
    rewrite Nd in G |- *.
    pose proof (iv_cyc _ _ _ I k) as Ck.
    destruct (zget (ps_cycles s) k) as [[[x ob] ind]|] eqn:Ez; unfold cyc_view in Ck; cbn [option_map fst snd] in Ck; rewrite <- Ck.
    + (* closing *)
      pose proof (iv_pi _ _ _ I y Hy) as Py.
      destruct (zget_Forall _ _ _ _ (pi_cyc _ Py) Ez) as [k0 [Hx [Hind Hob]]]. cbn [at_node ps_n ps_order] in Hx, Hind.
      assert (T1 : type_at S (ps_last S) = Ok (type_of hist y)).
      { rewrite Sl, TT. exact (type_at_of strong hist _ y I Hy y). }
      assert (T2 : type_at S x = Ok (type_of hist x)).
      { rewrite TT. exact (type_at_of strong hist _ x I Hx y). }
      pose proof (close_val strong S x ob cb _ _ Sp Hb Ed Hob T1 T2) as CV.
      destruct (ring_val strong (type_of hist x) (type_of hist y) ob cb) as [v|].
      * destruct CV as [sb [lg CV]]. rewrite CV in G |- *. rewrite So in G |- *. rewrite Sl in G |- *.
        destruct (od_set_ok (ps_order s) x ind (Some y) Hind) as [o1 [Eo _]]. rewrite Eo in G |- *.
        eexists. split; [reflexivity|]. cbn in G.
        constructor; cbn.
        -- rewrite Sa, (iv_atoms _ _ _ I), ev_atoms_app; cbn; rewrite app_nil_r; reflexivity.
        -- rewrite St, (iv_types _ _ _ I), ev_types_app; cbn; rewrite app_nil_r; reflexivity.
        -- rewrite Sn, (iv_n _ _ _ I), n_atoms_snoc_ring; reflexivity.
        -- rewrite Sn; exact (iv_pos _ _ _ I).
        -- rewrite ev_bonds_snoc, (iv_bonds _ _ _ I). cbn [ev_bond]. rewrite Ed, <- Ck.
           assert (CV' := close_val strong S x ob cb _ _ Sp Hb Ed Hob T1 T2). 
           destruct (ring_val strong (type_of hist x) (type_of hist y) ob cb) as [v'|] eqn:Erv.
           ++ destruct CV' as [sb' [lg' CV']]. rewrite CV in CV'. inversion CV'; subst v'. rewrite Sb. reflexivity.
           ++ rewrite CV in CV'. discriminate.
        -- destruct (zdel_keys (ps_cycles s) k (iv_nodup _ _ _ I)) as [D1 _]. exact D1.
        -- intros k'. rewrite opener_snoc_ring. destruct (k =? k') eqn:Ek.
           ++ apply Z.eqb_eq in Ek. subst k'. destruct (zdel_keys (ps_cycles s) k (iv_nodup _ _ _ I)) as [_ [D2 _]]. rewrite D2, <- Ck. reflexivity.
           ++ apply Z.eqb_neq in Ek. rewrite zget_zdel_other by congruence. exact (iv_cyc _ _ _ I k').
        -- apply PI_PIall. exact G.
      * rewrite CV. eexists. reflexivity.
    + (* opening *)
      eexists. split; [reflexivity|]. cbn in G.
      constructor; cbn.
      * rewrite Sa, (iv_atoms _ _ _ I), ev_atoms_app; cbn; rewrite app_nil_r; reflexivity.
      * rewrite St, (iv_types _ _ _ I), ev_types_app; cbn; rewrite app_nil_r; reflexivity.
      * rewrite Sn, (iv_n _ _ _ I), n_atoms_snoc_ring; reflexivity.
      * rewrite Sn; exact (iv_pos _ _ _ I).
      * rewrite ev_bonds_snoc, (iv_bonds _ _ _ I). cbn [ev_bond]. rewrite Ed, <- Ck. rewrite app_nil_r, Sb. reflexivity.
      * unfold keys. rewrite map_app. cbn. apply NoDup_snoc; [exact (iv_nodup _ _ _ I) | apply zget_None_keys; exact Ez].
      * intros k'. rewrite opener_snoc_ring, zget_app. destruct (k =? k') eqn:Ek.
        -- apply Z.eqb_eq in Ek. subst k'. rewrite Ez, <- Ck. cbn. rewrite Z.eqb_refl. cbn. rewrite Sl. reflexivity.
        -- rewrite <- (iv_cyc _ _ _ I k'). destruct (zget (ps_cycles s) k'); [reflexivity|]. cbn. rewrite Z.eqb_sym, Ek. reflexivity.
      * apply PI_PIall. exact G.
Qed.

(* ------------------------------------------------------------------------------------------------ all events *)
Fixpoint oks (hist E : list ev) : Prop := match E with [] => True | e :: r => ev_ok hist e /\ oks (hist ++ [e]) r end.

Lemma oks_app h a : forall b, oks h (a ++ b) <-> oks h a /\ oks (h ++ a) b.
Proof.
  revert h. induction a as [|e r IH]; intros h b; cbn [app oks].
  - rewrite app_nil_r. tauto.
  - rewrite IH, <- app_assoc. cbn [app]. tauto.
Qed.

Lemma run_events strong E : forall hist s, INV strong hist s -> oks hist E ->
  match ev_bonds_from strong hist E with
  | Some nb => exists s', run strong E s = Ok s' /\ INV strong (hist ++ E) s'
  | None => exists x, run strong E s = Err x
  end.
Proof.
  induction E as [|e r IH]; intros hist s I Hok; cbn [ev_bonds_from run].
  - exists s. rewrite app_nil_r. split; [reflexivity | exact I].
  - destruct Hok as [H1 H2]. pose proof (ev_step strong hist s e I H1) as St.
    destruct (ev_bond strong hist e) as [nb|].
    + destruct St as [s1 [E1 I1]]. rewrite E1. specialize (IH (hist ++ [e]) s1 I1 H2).
      destruct (ev_bonds_from strong (hist ++ [e]) r) as [nb2|].
      * destruct IH as [s' [E2 I2]]. exists s'. rewrite <- app_assoc in I2. split; assumption.
      * exact IH.
    + destruct St as [x Ex]. rewrite Ex. exists x. reflexivity.
Qed.

(* the layout of a tree refers only to atoms already laid out *)
Lemma flat_oks t : forall par b idx hist, wf2 t = true -> bok b = true -> n_atoms hist = idx -> 0 <= par < idx ->
  oks hist (flat t par b idx).
Proof.
  induction t as [ty a rings kids IH] using tree_ind'. intros par b idx hist Hw Hb Hn Hpar.
  rewrite wf2_node in Hw. apply andb_prop in Hw. destruct Hw as [Hw Hwk]. apply andb_prop in Hw. destruct Hw as [Hty Hwr].
  rewrite flat_node. cbn [oks]. split; [cbn; rewrite Hn; repeat split; try assumption; lia|].
  apply oks_app. split.
  - (* ring digits at idx *)
    assert (R : forall (rs : list (option token * Z)) h, n_atoms h = idx + 1 -> forallb (fun r : option token * Z => bok (fst r)) rs = true ->
                oks h (map (fun r : option token * Z => ER idx (fst r) (snd r)) rs)).
    { induction rs as [|[rb rk] rs IHr]; intros h Hh Hrs; cbn [map oks]; [exact I|].
      cbn [forallb fst] in Hrs. apply andb_prop in Hrs. destruct Hrs as [R1 R2].
      split; [cbn; rewrite Hh; split; [exact R1 | lia] | apply IHr; [rewrite n_atoms_snoc_ring; exact Hh | exact R2]]. }
    apply R; [rewrite n_atoms_snoc_atom; lia | exact Hwr].
  - assert (K : forall ks h i, Forall (fun bk : option token * tree => forall par b idx hist, wf2 (snd bk) = true -> bok b = true ->
                   n_atoms hist = idx -> 0 <= par < idx -> oks hist (flat (snd bk) par b idx)) ks ->
                 wf2_kids ks = true -> n_atoms h = i -> idx < i -> oks h (flat_kids ks idx i)).
    { clear - Hpar. induction ks as [|[b' c] r IHk]; intros h i HF Hk Hh Hi; cbn [flat_kids]; [exact I|].
      inversion HF; subst. cbn [snd] in H1. cbn [wf2_kids] in Hk. apply andb_prop in Hk. destruct Hk as [Hk Hk2]. apply andb_prop in Hk. destruct Hk as [Hb' Hc].
      apply oks_app. split; [apply H1; try assumption; try reflexivity; lia|].
      apply IHk; try assumption; [rewrite n_atoms_app, n_atoms_flat; reflexivity | lia]. }
    apply K; try assumption; [|lia].
    rewrite n_atoms_app, n_atoms_snoc_atom, n_atoms_rings. lia.
Qed.

Lemma opener_absent E k : (forall y b, ~ In (ER y b k) E) -> forall cur, opener_from cur E k = cur.
Proof.
  induction E as [|e r IH]; intros H cur; cbn [opener_from]; [reflexivity|].
  destruct e as [p0 b0 t0 a0|y1 b1 k']; [apply IH; intros y b Hin; apply (H y b); right; exact Hin|].
  destruct (k' =? k) eqn:Ek.
  - apply Z.eqb_eq in Ek. subst. exfalso. apply (H y1 b1). left. reflexivity.
  - apply IH. intros y0 b0 Hin. apply (H y0 b0). right. exact Hin.
Qed.

Lemma classic_in E k : (exists y b, In (ER y b k) E) \/ (forall y b, ~ In (ER y b k) E).
Proof.
  induction E as [|e r IH]; [right; intros y b []|].
  destruct IH as [[y [b H]] | H]; [left; exists y, b; right; exact H|].
  destruct e as [par b0 ty a | y0 b0 k0].
  - right. intros y b [Hx | Hx]; [discriminate | exact (H y b Hx)].
  - destruct (Z.eq_dec k0 k) as [->|N]; [left; exists y0, b0; left; reflexivity|].
    right. intros y b [Hx | Hx]; [inversion Hx; contradiction | exact (H y b Hx)].
Qed.

Lemma all_closed_spec E : all_closed E = true <-> forall k, opener E k = None.
Proof.
  unfold all_closed. rewrite forallb_forall. split.
  - intros H k. destruct (opener E k) as [p|] eqn:Eo; [|reflexivity].
    destruct (classic_in E k) as [[y [b Hin]] | Hno].
    + specialize (H _ Hin). cbn in H. rewrite Eo in H. discriminate.
    + unfold opener in Eo. rewrite (opener_absent E k Hno None) in Eo. discriminate.
  - intros H e He. destruct e; [reflexivity|]. rewrite H. reflexivity.
Qed.

Lemma rings_oks idx (rs : list (option token * Z)) : forall h, n_atoms h = idx + 1 -> 0 <= idx ->
  forallb (fun r : option token * Z => bok (fst r)) rs = true -> oks h (map (fun r : option token * Z => ER idx (fst r) (snd r)) rs).
Proof.
  induction rs as [|[rb rk] rs IHr]; intros h Hh Hi Hrs; cbn [map oks]; [exact I|].
  cbn [forallb fst] in Hrs. apply andb_prop in Hrs. destruct Hrs as [R1 R2].
  split; [cbn; rewrite Hh; split; [exact R1 | lia] | apply IHr; [rewrite n_atoms_snoc_ring; exact Hh | exact Hi | exact R2]].
Qed.

Lemma kids_oks idx ks : forall h i, 0 <= idx -> wf2_kids ks = true -> n_atoms h = i -> idx < i -> oks h (flat_kids ks idx i).
Proof.
  induction ks as [|[b' c] r IHk]; intros h i H0 Hk Hh Hi; cbn [flat_kids]; [exact I|].
  cbn [wf2_kids] in Hk. apply andb_prop in Hk. destruct Hk as [Hk Hk2]. apply andb_prop in Hk. destruct Hk as [Hb' Hc].
  apply oks_app. split; [apply flat_oks; try assumption; lia|].
  apply IHk; try assumption; [rewrite n_atoms_app, n_atoms_flat, Hh; reflexivity | lia].
Qed.

(* ------------------------------------------------------------------------------------------------ the theorem *)
(* The record `denote` returns for a syntax tree (= what the parser returns on its spelling, read_spell_denote) is the graph read
   off the tree by SmilesGraph - same atoms in the same order, same bonds in the same order - and `denote` fails exactly when
   the tree has no graph (a ring digit without partner, clashing bond symbols at the two ends of a ring bond, a one-sided symbol
   in strict mode, a dot in front of a ring digit) *)
Theorem denote_is_graph strong t : wf2 t = true ->
  match denote strong t with
  | Ok p => denote_graph strong t = Some (mkDG (p_atoms p) (p_bonds p))
  | Err _ => denote_graph strong t = None
  end.
Proof.
  intros Hw. pose proof (wf2_wf t Hw) as Hw1.
  pose proof (den_run strong t 0 None p_init Hw1 eq_refl) as DR. change (ps_n p_init) with 0 in DR.
  unfold denote, denote_graph. destruct t as [ty a rings kids].
  rewrite wf2_node in Hw. apply andb_prop in Hw. destruct Hw as [Hw Hwk]. apply andb_prop in Hw. destruct Hw as [Hty Hwr].
  rewrite flat_node in *. set (e0 := EA 0 None ty a) in *.
  set (rest := map (fun r : option token * Z => ER 0 (fst r) (snd r)) rings ++ flat_kids kids 0 (0 + 1)) in *.
  (* the first atom *)
  assert (F : exists s1, run_ev strong e0 p_init = Ok s1 /\ INV strong [e0] s1).
  { assert (T : ty = 0 \/ ty = 8) by (clear - Hty; zcontra; tauto).
    pose proof (first_atom strong ty a [] ltac:(destruct T; subst; cbn; tauto) (or_introl eq_refl)) as G.
    change (set_last_stack p_init 0 []) with p_init in G.
    unfold e0, run_ev, op_at. cbn [opt_bond app loop]. change (at_node p_init 0) with p_init.
    destruct T; subst ty; unfold step in G |- *; cbn in G |- *; (eexists; split; [reflexivity|]);
      (constructor; [reflexivity | reflexivity | reflexivity | cbn; lia | reflexivity | apply NoDup_nil | intros k; reflexivity | apply PI_PIall; exact G]). }
  destruct F as [s1 [E1 I1]].
  assert (Hoks : oks [e0] rest).
  { unfold rest. apply oks_app. split.
    - apply rings_oks; [reflexivity | lia | exact Hwr].
    - apply kids_oks; [lia | exact Hwk | | lia]. rewrite n_atoms_app, n_atoms_rings. reflexivity. }
  pose proof (run_events strong rest [e0] s1 I1 Hoks) as RE.
  assert (EB : ev_bonds strong (e0 :: rest) = match ev_bonds_from strong [e0] rest with Some b => Some b | None => None end).
  { unfold ev_bonds. cbn [ev_bonds_from]. unfold e0 at 1. cbn [ev_bond]. change (n_atoms []) with 0. cbn [Z.eqb orb app].
    destruct (ev_bonds_from strong [e0] rest); reflexivity. }
  rewrite EB. cbn [run] in DR. rewrite E1 in DR.
  destruct (ev_bonds_from strong [e0] rest) as [nb|].
  - destruct RE as [s' [E2 I2]]. rewrite E2 in DR.
    destruct (den strong (Node ty a rings kids) 0 None p_init) as [d|]; [|contradiction]. cbn in DR.
    change (at_node d 0) with (core d). rewrite DR.
    cbn [app] in I2. fold e0 in I2.
    pose proof (iv_bonds _ _ _ I2) as B. rewrite EB in B.
    inversion B as [B']. clear B.
    unfold finish, core, ISm. cbn [at_node ps_stack ps_cycles ps_prev ps_atoms ps_bonds ps_order ps_satoms ps_sbonds ps_log].
    destruct (ps_cycles s') as [|[k c] cr] eqn:Ec.
    + assert (AC : all_closed (e0 :: rest) = true).
      { apply all_closed_spec. intros k. rewrite <- (iv_cyc _ _ _ I2 k), Ec. reflexivity. }
      rewrite AC. rewrite (iv_atoms _ _ _ I2). reflexivity.
    + assert (AC : all_closed (e0 :: rest) = false).
      { destruct (all_closed (e0 :: rest)) eqn:X; [|reflexivity]. apply all_closed_spec with (k := k) in X.
        rewrite <- (iv_cyc _ _ _ I2 k), Ec in X. cbn in X. rewrite Z.eqb_refl in X. discriminate. }
      rewrite AC. reflexivity.
  - destruct RE as [x Ex]. rewrite Ex in DR.
    destruct (den strong (Node ty a rings kids) 0 None p_init) as [d|]; [contradiction|]. reflexivity.
Qed.

(* read_spell_denote against the independent definition: what the parser returns on the spelling of a tree *)
Corollary read_spell_graph strong t : wf2 t = true ->
  match parse (spell t) strong with
  | Ok p => denote_graph strong t = Some (mkDG (p_atoms p) (p_bonds p))
  | Err _ => denote_graph strong t = None
  end.
Proof. intros Hw. rewrite (read_spell_denote strong t (wf2_wf t Hw)). apply denote_is_graph. exact Hw. Qed.

Example denote_graph_example :
  let C := simple_atom "C" in
  let t := Node 0 C [(None, 1)] [(Some (1, PInt 2), Node 0 (simple_atom "O") [] []);
                                 (None, Node 8 C [] [(None, Node 8 C [(Some (9, PBool true), 1)] [(Some (4, PNone), Node 0 C [] [])])])] in
  wf2 t = true /\
  denote_graph true t = Some (mkDG [C; simple_atom "O"; C; C; C] [(1, 0, PInt 2); (2, 0, PInt 1); (3, 2, PInt 4); (3, 0, PInt 1)]) /\
  denote_graph true (Node 0 C [(None, 1)] []) = None /\
  denote_graph true (Node 0 C [(Some (1, PInt 2), 1)] [(None, Node 0 C [(None, 1)] [])]) = None /\
  denote_graph false (Node 0 C [(Some (1, PInt 2), 1)] [(None, Node 0 C [(None, 1)] [])]) = Some (mkDG [C; C] [(1, 0, PInt 1); (1, 0, PInt 2)]).
Proof. cbn zeta. repeat split; vm_compute; reflexivity. Qed.
