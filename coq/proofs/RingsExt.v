(* C06 -- extension round: pruning preserves the cyclomatic number (skin_keeps_cyclomatic). *)
From Coq Require Import ZArith List Bool Lia Permutation Sorted.
From Model Require Import PyBase Graph Rings.
From Proofs Require Import RingsProofs RingsMcb RingsRank.
Import ListNotations.
Open Scope Z_scope.

(* one round of the pruning loop *)
Definition prune (g : graph) (n : Z) (ms : list Z) : graph := fold_left (discard_in n) ms (remove_key n g).

Section Prune.
Variable g : graph.
Variable n : Z.
Variable ms : list Z.
Hypothesis W : gwf g.
Hypothesis I : In (n, ms) g.
Hypothesis T : (length ms <= 1)%nat.

Let g' := prune g n ms.

Lemma prune_keys : keys g' = filter (fun k => negb (k =? n)) (keys g).
Proof. unfold g', prune. rewrite keys_fold_discard_in. apply keys_remove_key. Qed.

Lemma prune_key v : In v (keys g') <-> In v (keys g) /\ v <> n.
Proof. rewrite prune_keys, filter_In, negb_true_iff, Z.eqb_neq. tauto. Qed.

Lemma prune_gnbrs v : v <> n -> gnbrs g' v = discard n (gnbrs g v).
Proof.
  intros Hv. destruct W as [N _]. unfold g', prune.
  assert (Nr : NoDup (keys (remove_key n g))) by (apply keys_filter_NoDup; exact N).
  rewrite gnbrs_fold_discard_in_eq by exact Nr. rewrite gnbrs_remove_key by exact Hv.
  destruct (zmem v ms) eqn:E; [reflexivity|]. symmetry. apply discard_noop. intros In_n.
  assert (Hs : In v (gnbrs g n)) by (apply (gwf_sym g v n W In_n)). rewrite (gnbrs_entry g n ms N I) in Hs. apply zmem_In in Hs. congruence.
Qed.

Lemma prune_gnbrs_n : gnbrs g' n = [].
Proof.
  unfold gnbrs. destruct (zget g' n) as [l|] eqn:Z; [|reflexivity]. exfalso.
  assert (K : In n (keys g')) by (destruct (in_dec Z.eq_dec n (keys g')) as [K|K]; [exact K | apply zget_None_keys in K; congruence]).
  apply prune_key in K. destruct K as [_ K]. congruence.
Qed.

Lemma prune_wf : gwf g'.
Proof. apply (skin_step_wf g n ms W I). Qed.

Lemma nbrs_n : gnbrs g n = ms.
Proof. destruct W as [N _]. apply gnbrs_entry; assumption. Qed.

Lemma ms_single c : In c ms -> ms = [c].
Proof. intros H. destruct ms as [|a [|b l]]; [destruct H | destruct H as [H|[]]; subst; reflexivity | cbn in T; lia]. Qed.

Lemma n_no_loop : ~ In n ms.
Proof. intros H. destruct W as [_ Wm]. destruct (Wm n ms I) as [_ Hm]. destruct (Hm n H) as [Ne _]. congruence. Qed.

(* reachability between the remaining atoms is unchanged *)
Lemma reach_prune_fwd u x : u <> n -> reach g u x ->
  (x <> n -> reach g' u x) /\ (x = n -> exists m, ms = [m] /\ reach g' u m).
Proof.
  intros Hu R. induction R as [|u b c R IH Hc].
  - split; [intros _; constructor | intros E; congruence].
  - specialize (IH Hu). destruct IH as [IH1 IH2]. split.
    + intros Nc. destruct (Z.eq_dec b n) as [Eb|Nb].
      * subst b. destruct (IH2 eq_refl) as [m [Em Rm]]. rewrite nbrs_n in Hc. rewrite (ms_single c Hc) in Em. inversion Em; subst m. exact Rm.
      * apply (reach_step g' u b c (IH1 Nb)). rewrite (prune_gnbrs b Nb). apply In_discard. split; assumption.
    + intros Ec. subst c. assert (Hb : In b ms) by (rewrite <- nbrs_n; apply (gwf_sym g b n W Hc)).
      exists b. split; [apply ms_single; exact Hb|]. apply IH1. intros E. subst b. apply n_no_loop. exact Hb.
Qed.

Lemma reach_prune_bwd u x : reach g' u x -> reach g u x.
Proof.
  intros R. induction R as [|u b c R IH Hc]; [constructor|]. apply (reach_step g u b c IH).
  destruct (Z.eq_dec b n) as [Eb|Nb]; [subst b; rewrite prune_gnbrs_n in Hc; destruct Hc|].
  rewrite (prune_gnbrs b Nb) in Hc. apply In_discard in Hc. tauto.
Qed.

Lemma reach_prune u x : u <> n -> x <> n -> (reach g u x <-> reach g' u x).
Proof. intros Hu Hx. split; [intros R; apply (proj1 (reach_prune_fwd u x Hu R) Hx) | apply reach_prune_bwd]. Qed.

End Prune.

(* ---------- partitions and the number of components ---------- *)
Definition comps (g : graph) : list (list Z) := components_order g (keys g).

Lemma comps_partition g : gwf g -> is_partition g (comps g).
Proof.
  intros W. destruct (components_partition g (keys g) W (fun x => iff_refl _)) as [cs [E P]].
  unfold connected_components_order in E. rewrite (gwf_closed_b g W) in E. inversion E; subst cs. exact P.
Qed.

Lemma partition_count g cs : gwf g -> is_partition g cs -> length cs = length (comps g).
Proof. intros W P. pose proof (comps_partition g W) as Q. apply Nat.le_antisymm; apply (partition_count_le g); assumption. Qed.

Lemma NoDup_app_mid_filter {A} (f : A -> bool) (a b d : list A) : NoDup (a ++ b ++ d) -> NoDup (a ++ filter f b ++ d).
Proof.
  intros N. destruct (NoDup_app_inv _ _ N) as [Na [Nbd Dis]]. destruct (NoDup_app_inv _ _ Nbd) as [Nb [Nd Dis2]].
  apply NoDup_app_disjoint; [exact Na | |].
  - apply NoDup_app_disjoint; [apply NoDup_filter; exact Nb | exact Nd|]. intros x Hx. apply filter_In in Hx. apply Dis2. tauto.
  - intros x Hx Hy. apply (Dis x Hx). apply in_app_or in Hy. apply in_or_app. destruct Hy as [Hy|Hy]; [left; apply filter_In in Hy; tauto | right; exact Hy].
Qed.

Lemma NoDup_app_mid_drop {A} (a b d : list A) : NoDup (a ++ b ++ d) -> NoDup (a ++ d).
Proof.
  intros N. apply (NoDup_app_mid_filter (fun _ => false)) in N.
  assert (E : filter (fun _ : A => false) b = []) by (clear; induction b; [reflexivity | exact IHb]).
  rewrite E in N. exact N.
Qed.

Lemma reach_isolated g a v : gnbrs g a = [] -> reach g a v -> v = a.
Proof.
  intros E R. induction R as [a|a b c R IH Hc]; [reflexivity|]. rewrite (IH E) in Hc. rewrite E in Hc. destruct Hc.
Qed.

Section PruneComponents.
Variable g : graph.
Variable n : Z.
Variable ms : list Z.
Hypothesis W : gwf g.
Hypothesis I : In (n, ms) g.
Hypothesis T : (length ms <= 1)%nat.
Variables l1 l2 : list (list Z).
Variable c : list Z.
Hypothesis P : is_partition g (l1 ++ c :: l2).
Hypothesis Hn : In n c.

Let g' := prune g n ms.
Let c' := filter (fun k => negb (k =? n)) c.

Lemma Pmem : NoDup (l1 ++ c :: l2) /\ forall a b u, In a (l1 ++ c :: l2) -> In b (l1 ++ c :: l2) -> In u a -> In u b -> a = b.
Proof. destruct P as [_ [N C]]. apply partition_members; [exact N | intros x Hx; apply (C x Hx)]. Qed.

Lemma other_class c0 : In c0 (l1 ++ l2) -> In c0 (l1 ++ c :: l2) /\ ~ In n c0.
Proof.
  intros H. assert (H' : In c0 (l1 ++ c :: l2)) by (apply in_app_or in H; apply in_or_app; cbn; tauto).
  split; [exact H'|]. intros Hc0. destruct Pmem as [Nd Same].
  assert (E : c0 = c) by (apply (Same c0 c n H' (in_elt c l1 l2) Hc0 Hn)). subst c0.
  apply NoDup_remove_2 in Nd. contradiction.
Qed.

Lemma other_class_ok c0 : In c0 (l1 ++ l2) ->
  c0 <> [] /\ forall u, In u c0 -> In u (keys g') /\ forall v, In v c0 <-> reach g' u v.
Proof.
  intros H. destruct (other_class c0 H) as [H' Nn]. destruct P as [_ [_ C]]. destruct (C c0 H') as [Ne Cu]. split; [exact Ne|].
  intros u Hu. destruct (Cu u Hu) as [Ku Cl]. assert (Un : u <> n) by (intros E; subst; contradiction).
  split; [apply (prune_key g n ms); tauto|]. intros v. split.
  - intros Hv. apply (reach_prune g n ms W I T u v Un); [intros E; subst; contradiction | apply Cl; exact Hv].
  - intros R. apply Cl. apply (reach_prune_bwd g n ms W I u v R).
Qed.

Lemma kept_class_ok : forall u, In u c' -> In u (keys g') /\ forall v, In v c' <-> reach g' u v.
Proof.
  intros u Hu. unfold c' in Hu. apply filter_In in Hu. destruct Hu as [Hu Un]. apply negb_true_iff, Z.eqb_neq in Un.
  destruct P as [_ [_ C]]. destruct (C c (in_elt c l1 l2)) as [_ Cu]. destruct (Cu u Hu) as [Ku Cl].
  assert (Ku' : In u (keys g')) by (apply (prune_key g n ms); tauto). split; [exact Ku'|]. intros v. split.
  - intros Hv. unfold c' in Hv. apply filter_In in Hv. destruct Hv as [Hv Vn]. apply negb_true_iff, Z.eqb_neq in Vn.
    apply (reach_prune g n ms W I T u v Un Vn). apply Cl. exact Hv.
  - intros R. unfold c'. apply filter_In. split; [apply Cl; apply (reach_prune_bwd g n ms W I u v R)|].
    apply negb_true_iff, Z.eqb_neq. pose proof (reach_key g' u v (prune_wf g n ms W I) Ku' R) as Kv. apply (prune_key g n ms) in Kv. tauto.
Qed.

Lemma cover v : In v (keys g') -> (exists c0, In c0 (l1 ++ l2) /\ In v c0) \/ In v c'.
Proof.
  intros Kv. apply (prune_key g n ms) in Kv. destruct Kv as [Kv Vn]. destruct P as [Cov _]. destruct (Cov v Kv) as [c0 [H0 Hv]].
  apply in_app_or in H0. destruct H0 as [H0|[H0|H0]].
  - left. exists c0. split; [apply in_or_app; left; exact H0 | exact Hv].
  - right. subst c0. unfold c'. apply filter_In. split; [exact Hv | apply negb_true_iff, Z.eqb_neq; exact Vn].
  - left. exists c0. split; [apply in_or_app; right; exact H0 | exact Hv].
Qed.

(* an isolated atom: its class disappears *)
Lemma prune_partition_isolated : ms = [] -> is_partition g' (l1 ++ l2).
Proof.
  intros E. assert (Cn : forall v, In v c -> v = n).
  { intros v Hv. destruct P as [_ [_ C]]. destruct (C c (in_elt c l1 l2)) as [_ Cu]. destruct (Cu n Hn) as [_ Cl].
    apply Cl in Hv. apply (reach_isolated g n v); [rewrite (nbrs_n g n ms W I); exact E | exact Hv]. }
  split; [|split].
  - intros v Kv. destruct (cover v Kv) as [H|H]; [exact H|]. unfold c' in H. apply filter_In in H. destruct H as [H Vn].
    apply negb_true_iff, Z.eqb_neq in Vn. destruct (Vn (Cn v H)).
  - destruct P as [_ [N _]]. rewrite concat_app in N |- *. cbn [concat] in N. apply (NoDup_app_mid_drop _ c _ N).
  - apply other_class_ok.
Qed.

(* an atom with one neighbour: it leaves its class, which stays non-empty *)
Lemma prune_partition_leaf m : ms = [m] -> is_partition g' (l1 ++ c' :: l2).
Proof.
  intros E. split; [|split].
  - intros v Kv. destruct (cover v Kv) as [[c0 [H0 Hv]]|H].
    + exists c0. split; [|exact Hv]. apply in_app_or in H0. apply in_or_app. cbn. tauto.
    + exists c'. split; [apply in_elt | exact H].
  - destruct P as [_ [N _]]. rewrite concat_app in N |- *. cbn [concat] in N |- *. apply NoDup_app_mid_filter. exact N.
  - intros c0 H0. apply in_app_or in H0. destruct H0 as [H0|[H0|H0]].
    + apply other_class_ok. apply in_or_app. left. exact H0.
    + subst c0. split; [|apply kept_class_ok].
      assert (Hm : In m c').
      { unfold c'. apply filter_In. split.
        - destruct P as [_ [_ C]]. destruct (C c (in_elt c l1 l2)) as [_ Cu]. destruct (Cu n Hn) as [_ Cl]. apply Cl.
          apply (reach_step g n n m (reach_refl g n)). rewrite (nbrs_n g n ms W I), E. left. reflexivity.
        - apply negb_true_iff, Z.eqb_neq. intros Em. subst m. apply (n_no_loop g n ms W I). rewrite E. left. reflexivity. }
      intros E0. rewrite E0 in Hm. destruct Hm.
    + apply other_class_ok. apply in_or_app. right. exact H0.
Qed.

End PruneComponents.

(* the number of components after one pruning round *)
Lemma prune_comps g n ms : gwf g -> In (n, ms) g -> (length ms <= 1)%nat ->
  length (comps g) = (length (comps (prune g n ms)) + (1 - length ms))%nat.
Proof.
  intros W I T. pose proof (comps_partition g W) as P.
  assert (Kn : In n (keys g)) by (apply (entry_In_keys g n ms I)).
  destruct P as [Cov R] eqn:EP. destruct (Cov n Kn) as [c [Hc Hn]]. destruct (in_split c _ Hc) as [l1 [l2 E]].
  assert (P' : is_partition g (l1 ++ c :: l2)) by (rewrite <- E; exact P).
  pose proof (prune_wf g n ms W I) as W'.
  rewrite E, app_length. cbn [length]. destruct ms as [|m [|m2 l]]; [| |cbn in T; lia].
  - rewrite <- (partition_count _ _ W' (prune_partition_isolated g n [] W I T l1 l2 c P' Hn eq_refl)). rewrite app_length. cbn. lia.
  - rewrite <- (partition_count _ _ W' (prune_partition_leaf g n [m] W I T l1 l2 c P' Hn m eq_refl)). rewrite app_length. cbn. lia.
Qed.

(* ---------- bonds after one pruning round ---------- *)
Lemma In_edges_gnbrs g a b : NoDup (keys g) -> (In (a, b) (edges g) <-> In a (keys g) /\ In b (gnbrs g a) /\ a < b).
Proof.
  intros N. rewrite In_edges. split.
  - intros [l [H1 [H2 H3]]]. split; [apply (entry_In_keys g a l H1)|]. rewrite (gnbrs_entry g a l N H1). tauto.
  - intros [K [H2 H3]]. destruct (In_keys_entry g a K) as [l H1]. exists l. rewrite (gnbrs_entry g a l N H1) in H2. tauto.
Qed.

Lemma NoDup_edges g : gwf g -> NoDup (edges g).
Proof. intros [N Wm]. rewrite edges_dpairs. apply NoDup_dpairs; [exact N | intros k l H; apply (Wm k l H)]. Qed.

Lemma prune_edges_mem g n ms a b : gwf g -> In (n, ms) g -> (length ms <= 1)%nat ->
  (In (a, b) (edges (prune g n ms)) <-> In (a, b) (edges g) /\ a <> n /\ b <> n).
Proof.
  intros W I T. pose proof (prune_wf g n ms W I) as W'. pose proof W as [N Wm]. pose proof W' as [N' _].
  rewrite (In_edges_gnbrs _ a b N'), (In_edges_gnbrs g a b N), (prune_key g n ms). split.
  - intros [[K Na] [Hb L]]. rewrite (prune_gnbrs g n ms W I a Na) in Hb. apply In_discard in Hb. tauto.
  - intros [[K [Hb L]] [Na Nb]]. split; [tauto|]. split; [|exact L]. rewrite (prune_gnbrs g n ms W I a Na). apply In_discard. tauto.
Qed.

Lemma prune_edges g n ms : gwf g -> In (n, ms) g -> (length ms <= 1)%nat ->
  length (edges g) = (length (edges (prune g n ms)) + length ms)%nat.
Proof.
  intros W I T. pose proof (prune_wf g n ms W I) as W'. pose proof (NoDup_edges g W) as Ng. pose proof (NoDup_edges _ W') as Ng'.
  pose proof (prune_edges_mem g n ms) as M. pose proof W as [N Wm].
  destruct ms as [|m [|m2 l]]; [| |cbn in T; lia].
  - cbn [length]. rewrite Nat.add_0_r. apply Permutation_length. apply NoDup_Permutation; [exact Ng | exact Ng'|].
    intros [a b]. rewrite (M a b W I T). split; [|tauto]. intros H. split; [exact H|].
    apply (In_edges_gnbrs g a b N) in H. destruct H as [K [Hb L]]. split; intros E; subst.
    + rewrite (nbrs_n g n [] W I) in Hb. destruct Hb.
    + apply (gwf_sym g a n W) in Hb. rewrite (nbrs_n g n [] W I) in Hb. destruct Hb.
  - cbn [length]. rewrite Nat.add_1_r.
    assert (Nm : m <> n) by (intros E; subst; apply (n_no_loop g n [n] W I); left; reflexivity).
    assert (Hnm : In m (gnbrs g n)) by (rewrite (nbrs_n g n [m] W I); left; reflexivity).
    assert (P : Permutation (edges g) (norm_edge (n, m) :: edges (prune g n [m]))).
    { apply NoDup_Permutation; [exact Ng | |].
      - constructor; [|exact Ng']. intros H. unfold norm_edge in H. cbn [fst snd] in H.
        destruct (n <? m); apply (M _ _ W I T) in H; cbn [fst snd] in H; tauto.
      - intros [a b]. cbn [In]. rewrite (M a b W I T). split.
        + intros H. destruct (Z.eq_dec a n) as [Ea|Na]; [|destruct (Z.eq_dec b n) as [Eb|Nb]; [|right; tauto]].
          * left. subst a. apply (In_edges_gnbrs g n b N) in H. destruct H as [_ [Hb L]]. rewrite (nbrs_n g n [m] W I) in Hb.
            destruct Hb as [Hb|[]]. subst b. unfold norm_edge. cbn [fst snd]. apply Z.ltb_lt in L. rewrite L. reflexivity.
          * left. subst b. apply (In_edges_gnbrs g a n N) in H. destruct H as [_ [Hb L]]. apply (gwf_sym g a n W) in Hb.
            rewrite (nbrs_n g n [m] W I) in Hb. destruct Hb as [Hb|[]]. subst a. unfold norm_edge. cbn [fst snd].
            destruct (Z.ltb_spec n m); [lia | reflexivity].
        + intros [H|H]; [|tauto]. unfold norm_edge in H. cbn [fst snd] in H. destruct (Z.ltb_spec n m) as [L|L]; inversion H as [[Ea Eb]]; subst a b.
          * apply (In_edges_gnbrs g n m N). split; [apply (entry_In_keys g n [m] I)|]. tauto.
          * apply (In_edges_gnbrs g m n N). split; [apply (gwf_closed g n m W Hnm)|]. split; [apply (gwf_sym g n m W Hnm) | lia]. }
    apply Permutation_length in P. exact P.
Qed.

Lemma length_remove_key n ms g : NoDup (keys g) -> In (n, ms) g -> length g = S (length (remove_key n g)).
Proof.
  induction g as [|[k l] g IH]; intros N I; [destruct I|]. cbn in N. inversion N as [|? ? Nk Ng]; subst. unfold remove_key. cbn [filter fst].
  destruct I as [I|I].
  - inversion I; subst. rewrite Z.eqb_refl. cbn [negb length]. f_equal. symmetry. f_equal. apply filter_all.
    intros [k' l'] H. cbn [fst]. apply negb_true_iff, Z.eqb_neq. intros E. subst k'. apply Nk. apply (entry_In_keys g n l' H).
  - destruct (Z.eqb_spec k n) as [E|E].
    + subst k. exfalso. apply Nk. apply (entry_In_keys g n ms I).
    + cbn [negb length]. f_equal. apply (IH Ng I).
Qed.

(* one pruning round keeps bonds - atoms + components *)
Theorem prune_keeps_cyclomatic g n ms : gwf g -> In (n, ms) g -> (length ms <= 1)%nat -> cyclomatic (prune g n ms) = cyclomatic g.
Proof.
  intros W I T. unfold cyclomatic. fold (comps g). fold (comps (prune g n ms)).
  rewrite (prune_edges g n ms W I T), (prune_comps g n ms W I T).
  assert (L : length g = S (length (prune g n ms))).
  { unfold prune. rewrite length_fold_discard_in. destruct W as [N _]. apply (length_remove_key n ms g N I). }
  rewrite L. lia.
Qed.

(* ---------- the loop and the initial filter ---------- *)
Lemma skin_loop_cyclomatic fuel : forall g g', gwf g -> skin_loop fuel g = Ok g' -> cyclomatic g' = cyclomatic g.
Proof.
  induction fuel as [|f IH]; intros g g' W H; [discriminate|]. cbn [skin_loop] in H.
  destruct (find is_terminal g) as [[n ms]|] eqn:F; [|inversion H; reflexivity].
  apply find_some in F. destruct F as [I T]. unfold is_terminal in T. cbn [snd] in T. apply Nat.leb_le in T.
  destruct (forallb (fun m => zmem m (keys (remove_key n g))) ms); [|discriminate].
  change (fold_left (discard_in n) ms (remove_key n g)) with (prune g n ms) in H.
  rewrite (IH _ g' (prune_wf g n ms W I) H). apply prune_keeps_cyclomatic; assumption.
Qed.

Definition isolated_entry (e : Z * list Z) : bool := negb (nonempty_entry e).

Lemma remove_key_filter n g : remove_key n g = filter (fun e => negb (fst e =? n)) g.
Proof. reflexivity. Qed.

Lemma filter_comm {A} (f h : A -> bool) l : filter f (filter h l) = filter h (filter f l).
Proof. induction l as [|a l IH]; [reflexivity|]. cbn. destruct (f a) eqn:Ef, (h a) eqn:Eh; cbn; rewrite ?Ef, ?Eh, IH; reflexivity. Qed.

Lemma filter_nonempty_cyclomatic k : forall g, gwf g -> length (filter isolated_entry g) = k ->
  cyclomatic (filter nonempty_entry g) = cyclomatic g.
Proof.
  induction k as [|k IH]; intros g W L.
  - rewrite filter_all; [reflexivity|]. intros e He. destruct (nonempty_entry e) eqn:E; [reflexivity|]. exfalso.
    assert (In e (filter isolated_entry g)) by (apply filter_In; split; [exact He | unfold isolated_entry; rewrite E; reflexivity]).
    destruct (filter isolated_entry g); [contradiction | discriminate].
  - destruct (filter isolated_entry g) as [|[n ms] rest] eqn:F; [discriminate|].
    assert (Hin : In (n, ms) (filter isolated_entry g)) by (rewrite F; left; reflexivity).
    apply filter_In in Hin. destruct Hin as [I Iso]. unfold isolated_entry, nonempty_entry in Iso. cbn [snd] in Iso.
    destruct ms as [|m ms]; [|discriminate]. pose proof W as [N _].
    assert (E1 : prune g n [] = remove_key n g) by reflexivity.
    assert (W1 : gwf (remove_key n g)) by (rewrite <- E1; apply (prune_wf g n [] W I)).
    assert (C1 : cyclomatic (remove_key n g) = cyclomatic g) by (rewrite <- E1; apply prune_keeps_cyclomatic; [exact W | exact I | cbn; lia]).
    rewrite <- C1. rewrite <- (IH (remove_key n g) W1).
    + f_equal. rewrite remove_key_filter, filter_comm. symmetry. apply filter_all. intros [k' l'] H. cbn [fst].
      apply filter_In in H. destruct H as [H NE]. apply negb_true_iff, Z.eqb_neq. intros E. subst k'.
      pose proof (zget_In_NoDup g n [] N I) as Z0. rewrite (zget_In_NoDup g n l' N H) in Z0.
      inversion Z0; subst l'. discriminate.
    + rewrite remove_key_filter, filter_comm, F. cbn [filter fst]. rewrite Z.eqb_refl. cbn [negb].
      rewrite filter_all; [cbn in L; lia|]. intros [k' l'] H. cbn [fst]. apply negb_true_iff, Z.eqb_neq. intros E. subst k'.
      assert (H2 : In (n, l') (filter isolated_entry g)) by (rewrite F; right; exact H). apply filter_In in H2. destruct H2 as [H2 _].
      (* two entries with key n in a duplicate-free key list: the filtered list would repeat the key *)
      assert (Nf : NoDup (keys (filter isolated_entry g))) by (apply keys_filter_NoDup; exact N).
      rewrite F in Nf. cbn in Nf. inversion Nf as [|? ? Nn _]. apply Nn. apply (entry_In_keys rest n l' H).
Qed.

(* pruning degree <= 1 atoms preserves bonds - atoms + components *)
Theorem skin_keeps_cyclomatic g g' : gwf g -> skin_graph g = Ok g' -> cyclomatic g' = cyclomatic g.
Proof.
  intros W H. unfold skin_graph in H. rewrite (skin_loop_cyclomatic _ _ g' (filter_nonempty_wf g W) H).
  apply (filter_nonempty_cyclomatic (length (filter isolated_entry g)) g W eq_refl).
Qed.
