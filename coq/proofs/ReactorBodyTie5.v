(* C16 (round 4): the whole structural part of BaseReactor._patcher through the translated source text.
   Model.Reactor.patcher (the function of every C16_patcher_* theorem) = max(satoms), then the four TRANSLATED loops of
   Gen.ReactorBody (replacement atoms, replacement bonds, atoms of the structure, bonds of the structure), read without the
   stereo labels the hand model does not carry. *)
From Coq Require Import ZArith List Bool Lia.
From Model Require Import PyBase Graph Reactor ReactorStage.
From Gen Require Import ReactorBody.
From Proofs Require Import ReactorProofs ReactorBodyTie ReactorBodyTie2 ReactorBodyTie3 ReactorBodyTie4.
Import ListNotations.
Open Scope Z_scope.

Notation ADJ := (list (Z * list (Z * bond))) (only parsing).

(* ---------- the hand-written loops respect "equal up to bond labels" ---------- *)
Definition agrees1 (r h : pyres ADJ) : Prop :=
  match r with
  | Ok ag => exists ah, h = Ok ah /\ erase_adj ag = erase_adj ah
  | Err e => h = Err e
  end.

Lemma link_rel ag ah n m f f' : erase_adj ag = erase_adj ah -> plain f = plain f' -> agrees1 (link ag n m f) (link ah n m f').
Proof.
  intros R Rf. unfold link.
  pose proof (rel_zget ag ah m R) as Rm. pose proof (rel_zget ag ah n R) as Rn.
  destruct (zget ag m) as [lgm|], (zget ah m) as [lhm|]; try contradiction; [|reflexivity].
  destruct (zget ag n) as [lgn|], (zget ah n) as [lhn|]; try contradiction; [|reflexivity].
  pose proof (rel_nb_zget lgm lhm n Rm) as Rb.
  destruct (zget lgm n) as [bg|], (zget lhm n) as [bh|]; try contradiction;
    (eexists; split; [reflexivity|]; apply rel_store; assumption).
Qed.

Lemma rel_loop_gen1 {X} (F H : ADJ -> X -> pyres ADJ) :
  (forall ag ah x, erase_adj ag = erase_adj ah -> agrees1 (F ag x) (H ah x)) ->
  forall l ag ah, erase_adj ag = erase_adj ah -> agrees1 (fold_res F l ag) (fold_res H l ah).
Proof.
  intros Hstep. induction l as [|x r IH]; intros ag ah R; cbn [fold_res].
  - exists ah. split; [reflexivity|assumption].
  - specialize (Hstep ag ah x R). unfold agrees1 in Hstep. destruct (F ag x) as [ag1|e].
    + destruct Hstep as (ah1 & -> & R1). apply IH. assumption.
    + rewrite Hstep. reflexivity.
Qed.

Lemma keep_bonds_rel P del : forall l ag ah, erase_adj ag = erase_adj ah ->
  agrees1 (fold_res (keep_bonds_of P del) l ag) (fold_res (keep_bonds_of P del) l ah).
Proof.
  apply rel_loop_gen1. intros ag ah [n bs] R. unfold keep_bonds_of. cbn [fst snd].
  destruct (zmem n del); [eexists; split; [reflexivity|assumption]|].
  revert ag ah R. apply rel_loop_gen1. intros ag ah [m b] R. cbn [fst snd].
  destruct (zmem m del || zmem n P && zmem m P); [eexists; split; [reflexivity|assumption]|].
  apply link_rel; [assumption|reflexivity].
Qed.

Lemma keep_atoms_adj_rel P del : forall l a nb nb', erase_adj nb = erase_adj nb' ->
  fst (fold_left (keep_atom P del) l (a, nb)) = fst (fold_left (keep_atom P del) l (a, nb')) /\
  erase_adj (snd (fold_left (keep_atom P del) l (a, nb))) = erase_adj (snd (fold_left (keep_atom P del) l (a, nb'))).
Proof.
  induction l as [|na r IH]; intros a nb nb' R; cbn [fold_left]; [split; [reflexivity|assumption]|].
  replace (keep_atom P del (a, nb) na) with (if zmem (fst na) P || zmem (fst na) del then (a, nb) else (zset a (fst na) (plain_atom (snd na)), zset nb (fst na) [])) by reflexivity.
  replace (keep_atom P del (a, nb') na) with (if zmem (fst na) P || zmem (fst na) del then (a, nb') else (zset a (fst na) (plain_atom (snd na)), zset nb' (fst na) [])) by reflexivity.
  destruct (zmem (fst na) P || zmem (fst na) del); [apply IH; assumption|].
  apply IH. unfold erase_adj in *. rewrite !mapsnd_zset, R. reflexivity.
Qed.

(* ---------- everything the hand-written patcher builds carries no label ---------- *)
Definition plain_adj (a : ADJ) : Prop := erase_adj a = a.

Lemma plain_adj_nil_slot a m : plain_adj a -> plain_adj (zset a m []).
Proof. unfold plain_adj, erase_adj. intros H. rewrite mapsnd_zset, H. reflexivity. Qed.

Lemma link_plain a n m f a' : plain_adj a -> link a n m (plain f) = Ok a' -> plain_adj a'.
Proof.
  intros Hp Hl. pose proof (link_rel a a' n m (plain f) (plain f)) as _.
  unfold link in Hl. destruct (zget a m) as [lm|] eqn:Em; [|discriminate]. destruct (zget a n) as [ln|] eqn:En; [|discriminate].
  inversion Hl; subst. unfold plain_adj in *.
  assert (Hlm : erase_nb lm = lm).
  { pose proof (f_equal (fun x => zget x m) Hp) as H. cbn beta in H. unfold erase_adj in H. rewrite zget_mapsnd, Em in H. cbn in H. injection H as H. exact H. }
  assert (Hln : erase_nb ln = ln).
  { pose proof (f_equal (fun x => zget x n) Hp) as H. cbn beta in H. unfold erase_adj in H. rewrite zget_mapsnd, En in H. cbn in H. injection H as H. exact H. }
  unfold erase_adj. rewrite mapsnd_zset. fold (erase_adj a). rewrite Hp. f_equal.
  unfold erase_nb. rewrite mapsnd_zset. fold (erase_nb ln). rewrite Hln. f_equal.
  destruct (zget lm n) as [b|] eqn:Eb; [|reflexivity].
  pose proof (f_equal (fun x => zget x n) Hlm) as H. cbn beta in H. unfold erase_nb in H. rewrite zget_mapsnd, Eb in H. cbn in H. injection H as H. exact H.
Qed.

Lemma fold_plain {X} (F : ADJ -> X -> pyres ADJ) :
  (forall a x a', plain_adj a -> F a x = Ok a' -> plain_adj a') ->
  forall l a a', plain_adj a -> fold_res F l a = Ok a' -> plain_adj a'.
Proof.
  intros Hstep. induction l as [|x r IH]; intros a a' Hp H; cbn [fold_res] in H.
  - inversion H; subst; assumption.
  - destruct (F a x) as [a1|e] eqn:E; [|discriminate]. apply (IH a1 a'); [eapply Hstep; eassumption|assumption].
Qed.

Lemma patch_bonds_plain mp : forall tb a a', plain_adj a -> fold_res (patch_bonds_of mp) tb a = Ok a' -> plain_adj a'.
Proof.
  apply fold_plain. intros a [n0 bs] a' Hp H. unfold patch_bonds_of in H. cbn [fst snd] in H.
  destruct (zget mp n0) as [n|]; [|discriminate]. revert a a' Hp H. apply fold_plain.
  intros a [m0 rb] a' Hp H. cbn [fst snd] in H. destruct (zget mp m0) as [m|]; [|discriminate]. eapply link_plain; eassumption.
Qed.

Lemma keep_bonds_plain P del : forall l a a', plain_adj a -> fold_res (keep_bonds_of P del) l a = Ok a' -> plain_adj a'.
Proof.
  apply fold_plain. intros a [n bs] a' Hp H. unfold keep_bonds_of in H. cbn [fst snd] in H.
  destruct (zmem n del); [inversion H; subst; assumption|]. revert a a' Hp H. apply fold_plain.
  intros a [m b] a' Hp H. cbn [fst snd] in H.
  destruct (zmem m del || zmem n P && zmem m P); [inversion H; subst; assumption|]. eapply link_plain; eassumption.
Qed.

Lemma keep_atoms_adj_plain P del : forall l a nb, plain_adj nb -> plain_adj (snd (fold_left (keep_atom P del) l (a, nb))).
Proof.
  induction l as [|na r IH]; intros a nb Hp; cbn [fold_left]; [assumption|].
  replace (keep_atom P del (a, nb) na) with (if zmem (fst na) P || zmem (fst na) del then (a, nb) else (zset a (fst na) (plain_atom (snd na)), zset nb (fst na) [])) by reflexivity.
  destruct (zmem (fst na) P || zmem (fst na) del); [apply IH; assumption|]. apply IH. apply plain_adj_nil_slot. assumption.
Qed.

Lemma patch_atoms_adj_plain g : forall l s s', fold_res (patch_atom g) l s = Ok s' -> plain_adj (p_adj s) -> plain_adj (p_adj s').
Proof.
  induction l as [|[n ra] r IH]; intros s s' H Hp; cbn [fold_res] in H.
  - inversion H; subst; assumption.
  - destruct (patch_atom g s (n, ra)) as [s1|e] eqn:E; [|discriminate]. apply (IH s1 s' H).
    unfold patch_atom in E. destruct ra as [chg rad|num iso chg rad h].
    + destruct (truthy_get (p_map s) n) as [m|]; [|discriminate]. destruct (atom_of g m); [|discriminate].
      inversion E; subst. cbn. apply plain_adj_nil_slot; assumption.
    + destruct (truthy_get (p_map s) n) as [m|].
      * destruct (atom_of g m); [|discriminate]. inversion E; subst. cbn. apply plain_adj_nil_slot; assumption.
      * inversion E; subst. cbn. apply plain_adj_nil_slot; assumption.
Qed.

(* ---------- the theorem ---------- *)
Theorem patcher_is_translated_text : forall g mapping ratoms tb del tetra sts0 stb0,
  patcher g mapping (mkTpl (conv_atoms ratoms) tb) del =
  match zmax_list (ids g) with
  | None => Err ValueError
  | Some mx =>
      match g_patcher_atoms ratoms (m_atoms g) [] [] mapping mx sts0 with
      | Err e => Err e
      | Ok (na, nb, mp, _, sts) =>
          match g_patcher_rbonds tb (m_adj g) mp nb stb0 with
          | Err e => Err e
          | Ok (adj2, stb) =>
              match g_patcher_keep (m_atoms g) (m_adj g) del tetra na adj2 sts stb with
              | Err e => Err e
              | Ok (atoms', adj', _, _) => Ok (mkMol (erase_stereo atoms') (erase_adj adj'), mp)
              end
          end
      end
  end.
Proof.
  intros g mapping ratoms tb del tetra sts0 stb0. unfold patcher. cbn [t_atoms t_bonds].
  destruct (zmax_list (ids g)) as [mx|]; [|reflexivity].
  pose proof (g_patcher_atoms_is_model g ratoms [] [] mapping mx sts0) as HA. unfold agrees in HA.
  destruct (g_patcher_atoms ratoms (m_atoms g) [] [] mapping mx sts0) as [[[[[na nb] mp] mx1] sts]|e]; [|rewrite HA; reflexivity].
  destruct HA as (s & Hs & He & -> & -> & ->). rewrite Hs.
  assert (Hplain_atoms : all_plain (p_atoms s)) by (apply (patch_atoms_plain g _ _ _ Hs); intros na0 []).
  assert (Hplain_adj : plain_adj (p_adj s)) by (apply (patch_atoms_adj_plain g _ _ _ Hs); reflexivity).
  pose proof (g_patcher_rbonds_is_model tb (m_adj g) (p_map s) (p_adj s) (p_adj s) stb0 eq_refl) as HB. unfold agrees_adj in HB.
  destruct (g_patcher_rbonds tb (m_adj g) (p_map s) (p_adj s) stb0) as [[adj2 stb]|e]; [|rewrite HB; reflexivity].
  destruct HB as (adj2h & HB & R2). rewrite HB.
  assert (Hp2 : plain_adj adj2h) by (eapply patch_bonds_plain; eassumption).
  assert (Hk : keys na = keys (p_atoms s)) by (rewrite <- (keys_erase na), He, keys_erase; reflexivity).
  pose proof (g_patcher_keep_is_model (m_atoms g) (m_adj g) del tetra na adj2 sts stb) as HK. cbv zeta in HK. rewrite Hk in HK.
  set (P := keys (p_atoms s)) in *.
  destruct (keep_atoms_erase P del (m_atoms g) na (p_atoms s) adj2 He) as [Hea Hsn].
  destruct (keep_atoms_adj_rel P del (m_atoms g) (p_atoms s) adj2 adj2h R2) as [Hfa Hra].
  pose proof (keep_atoms_plain P del (m_atoms g) (p_atoms s, adj2h) Hplain_atoms) as Hpa.
  pose proof (keep_atoms_adj_plain P del (m_atoms g) (p_atoms s) adj2h Hp2) as Hpn.
  rewrite Hsn in HK.
  destruct (fold_left (keep_atom P del) (m_atoms g) (p_atoms s, adj2h)) as [atoms3 adj3h] eqn:EH.
  destruct (fold_left (keep_atom P del) (m_atoms g) (p_atoms s, adj2)) as [atoms3' adj3g] eqn:EG.
  cbn [fst snd] in *. subst atoms3'.
  pose proof (keep_bonds_rel P del (m_adj g) adj3g adj3h Hra) as HR. unfold agrees1 in HR.
  destruct (g_patcher_keep (m_atoms g) (m_adj g) del tetra na adj2 sts stb) as [[[[a1 b1] c1] d1]|e1].
  - destruct HK as [E1 B1]. rewrite B1 in HR. destruct HR as (adj4h & H4 & R4). rewrite H4.
    assert (Hp4 : plain_adj adj4h) by (eapply keep_bonds_plain; eassumption).
    rewrite E1, Hea, (erase_all_plain atoms3 Hpa), R4, Hp4. reflexivity.
  - rewrite HK in HR. rewrite HR. reflexivity.
Qed.
