(* C10: block level round trips of the version 2 pack format (atom record, bond order bit stream, connection table,
   cis/trans block, header).  The molecule level theorem is in PackRoundtripMol.v. *)
From Coq Require Import ZArith List Bool Lia ZifyBool.
From Model Require Import PyBase Pack PackSpec.
From Gen Require Import Elements.
From Proofs Require Import PeriodicTable PackBits.
Import ListNotations.
Open Scope Z_scope.

(* ================================================================================================ *)
(* 1. one atom record *)

Lemma atom_bytes_length a : length (pa_xy a) = 4%nat -> length (atom_bytes a) = 9%nat.
Proof. intros H. unfold atom_bytes. rewrite !app_length, H. reflexivity. Qed.

Lemma iso_field_range an iso : iso_ok an iso = true -> 0 <= iso_field an iso < 32.
Proof.
  destruct iso as [i|]; cbn [iso_ok iso_field]; intros H; [|lia].
  rewrite u8_small by lia. lia.
Qed.

Lemma iso_field_decode an iso : iso_ok an iso = true ->
  (if iso_field an iso =? 0 then None else Some (znth unpack_common_isotopes an 0 + iso_field an iso)) = iso.
Proof.
  destruct pyx_isotope_tables as [Heq _]. rewrite <- Heq.
  destruct iso as [i|]; cbn [iso_ok iso_field]; intros H; [|reflexivity].
  rewrite u8_small by lia.
  destruct (i - znth pack_common_isotopes an 0 =? 0) eqn:E; [lia|]. f_equal. lia.
Qed.

(* the nine bytes written for an atom within the format limits decode to exactly its fields *)
Theorem decode_atom_bytes a : atom_ok a = true ->
  exists b0 b1 b2 b3 b8,
    atom_bytes a = [b0; b1; b2; b3] ++ pa_xy a ++ [b8] /\
    Forall (fun x => 0 <= x < 256) (atom_bytes a) /\
    match pa_xy a with
    | [x0; x1; y0; y1] => decode_atom b0 b1 b2 b3 x0 x1 y0 y1 b8 = uatom_of a
    | _ => False
    end.
Proof.
  intros H. unfold atom_ok in H. split_andb.
  do 5 eexists. split; [reflexivity|].
  destruct (pa_xy a) as [|x0 [|x1 [|y0 [|y1 [|? ?]]]]] eqn:Exy; try discriminate.
  set (g := u8 (Z.of_nat (length (pa_nbrs a)))).
  assert (Hg : g = Z.of_nat (length (pa_nbrs a))) by (unfold g; apply u8_small; lia).
  assert (Hgr : 0 <= g < 16) by lia.
  match goal with K : iso_ok _ _ = true |- _ => pose proof (iso_field_range _ _ K) as Hir; pose proof (iso_field_decode _ _ K) as Hid end.
  destruct (atom_b01 (pa_n a) g ltac:(lia) Hgr) as [A1 A2].
  destruct (atom_b23 (pa_stereo a) g (iso_field (pa_an a) (pa_iso a)) (pa_an a) Hgr Hir ltac:(lia)) as [B1 [B2 B3]].
  assert (Hh : match pa_h a with None => True | Some v => 0 <= v <= 6 end).
  { destruct (pa_h a); [|exact I]. cbn [h_ok] in *. lia. }
  destruct (atom_b8 (pa_h a) (pa_chg a) (pa_rad a) Hh ltac:(lia)) as [C1 [C2 [C3 C4]]].
  split.
  - unfold atom_bytes. rewrite Exy. cbn [app]. fold g.
    repeat apply Forall_cons; try apply Forall_nil; try apply u8_range; try exact C4.
    all: match goal with K : forallb byte_ok _ = true |- _ => cbn [forallb] in K; unfold byte_ok in K; lia end.
  - unfold decode_atom, uatom_of. rewrite Exy. fold g.
    rewrite A1, A2, B1, B2, B3, C1, C2, C3, Hid, Hg. reflexivity.
Qed.

(* 1. field-level round trip: reading the record anywhere in a byte string *)
Theorem read_atom_roundtrip pre a suf : atom_ok a = true ->
  read_atom (pre ++ atom_bytes a ++ suf) (Z.of_nat (length pre)) = Some (uatom_of a).
Proof.
  intros H. destruct (decode_atom_bytes a H) as [b0 [b1 [b2 [b3 [b8 [E [_ D]]]]]]].
  rewrite <- (Z.add_0_r (Z.of_nat (length pre))). rewrite read_atom_shift by lia.
  rewrite E. destruct (pa_xy a) as [|x0 [|x1 [|y0 [|y1 [|? ?]]]]]; try contradiction.
  cbn [app]. rewrite read_atom_cons. rewrite D. reflexivity.
Qed.

(* the stereo nibble written depends on the neighbour count (allene 0x2/0x3, tetrahedron 0x8/0xc) but decodes to the
   same label *)
Lemma stereo_nibble_both (st : option bool) (g : Z) : 0 <= g < 16 ->
  stereo_of_nibble (Z.shiftr (stereo_bits st g) 4) = st.
Proof.
  intros Hg. destruct st as [[|]|]; unfold stereo_bits; destruct (g =? 2); reflexivity.
Qed.

(* the whole atom block *)
Definition atoms_block (atoms : list patom) : list Z := flat_map atom_bytes atoms.

Lemma atoms_block_length atoms : forallb atom_ok atoms = true ->
  Z.of_nat (length (atoms_block atoms)) = 9 * Z.of_nat (length atoms).
Proof.
  induction atoms as [|a r IH]; intros H; [reflexivity|].
  cbn [forallb] in H. apply andb_true_iff in H. destruct H as [Ha Hr].
  unfold atoms_block in *. cbn [flat_map length]. rewrite app_length, atom_bytes_length.
  - rewrite Nat2Z.inj_add, IH by exact Hr. lia.
  - unfold atom_ok in Ha. split_andb. apply Nat.eqb_eq. assumption.
Qed.

Theorem read_atoms_roundtrip atoms : forall pre suf, forallb atom_ok atoms = true ->
  read_atoms (pre ++ atoms_block atoms ++ suf) (length atoms) (Z.of_nat (length pre)) = Some (map uatom_of atoms).
Proof.
  induction atoms as [|a r IH]; intros pre suf H; [reflexivity|].
  cbn [forallb] in H. apply andb_true_iff in H. destruct H as [Ha Hr].
  cbn [length read_atoms map]. unfold atoms_block. cbn [flat_map]. rewrite <- app_assoc.
  rewrite read_atom_roundtrip by exact Ha.
  assert (L : length (atom_bytes a) = 9%nat).
  { apply atom_bytes_length. unfold atom_ok in Ha. split_andb. apply Nat.eqb_eq. assumption. }
  replace (Z.of_nat (length pre) + 9) with (Z.of_nat (length (pre ++ atom_bytes a))) by (rewrite app_length, L; lia).
  rewrite (app_assoc pre (atom_bytes a)). fold (atoms_block r). rewrite IH by exact Hr. reflexivity.
Qed.

(* ================================================================================================ *)
(* 2. the bond order bit stream *)

Definition ord_ok (o : Z) : Prop := 0 <= o < 8.

(* --- the 8-state writer implements the bit stream --- *)
Definition wpend_len (s : Z) : nat := nth (Z.to_nat s) [0; 3; 6; 1; 4; 7; 2; 5]%nat 0%nat.

(* writer state (s, buffer) holds the pending bits p (those not yet written out), left aligned in the buffer *)
Definition winv (st : Z * Z) (p : list bool) : bool :=
  let '(s, buf) := st in
  (0 <=? s) && (s <? 8) && (length p =? wpend_len s)%nat && ((s =? 0) || (buf =? byte_of_bits p)).

Definition wstep_chk (s : Z) (p : list bool) (o : Z) : bool :=
  let '(st', out) := order_step (s, byte_of_bits p) o in
  let all := p ++ bits3 o in
  if (8 <=? length all)%nat then list_eqb Z.eqb out [byte_of_bits (firstn 8 all)] && winv st' (skipn 8 all)
  else list_eqb Z.eqb out [] && winv st' all.

Lemma wstep_sweep :
  forallb (fun s => forallb (fun p => forallb (wstep_chk s p) (zrange 0 8)) (all_bits (wpend_len s))) (zrange 0 8) = true.
Proof. vm_compute. reflexivity. Qed.

Lemma list_eqb_Z_eq (a b : list Z) : list_eqb Z.eqb a b = true -> a = b.
Proof.
  revert b. induction a as [|x a IH]; intros [|y b] H; cbn in H; try discriminate; [reflexivity|].
  apply andb_true_iff in H. destruct H as [H1 H2]. apply Z.eqb_eq in H1. subst. f_equal. apply IH. exact H2.
Qed.

Lemma wstep st p o : winv st p = true -> ord_ok o ->
  let '(st', out) := order_step st o in
  let all := p ++ bits3 o in
  if (8 <=? length all)%nat then out = [byte_of_bits (firstn 8 all)] /\ winv st' (skipn 8 all) = true
  else out = [] /\ winv st' all = true.
Proof.
  destruct st as [s buf]. intros H Ho. unfold winv in H. split_andb.
  assert (Hs : 0 <= s < 8) by lia.
  assert (Hp : In p (all_bits (wpend_len s))) by (apply all_bits_In; apply Nat.eqb_eq; assumption).
  pose proof (sweep1 _ _ _ wstep_sweep s Hs) as S1. cbv beta in S1. rewrite forallb_forall in S1.
  pose proof (sweep1 _ _ _ (S1 p Hp) o Ho) as S2. unfold wstep_chk in S2.
  assert (E : order_step (s, buf) o = order_step (s, byte_of_bits p) o).
  { destruct (s =? 0) eqn:E0.
    - apply Z.eqb_eq in E0. subst s. reflexivity.
    - match goal with K : (_ || _) = true |- _ => cbn [orb] in K; apply Z.eqb_eq in K; rewrite K end.
      reflexivity. }
  rewrite E. destruct (order_step (s, byte_of_bits p) o) as [st' out]. cbv zeta in *.
  destruct (8 <=? length (p ++ bits3 o))%nat; apply andb_true_iff in S2; destruct S2 as [S2 S3];
    apply list_eqb_Z_eq in S2; split; assumption.
Qed.

Lemma bytes_of_bits_short p : (0 < length p < 8)%nat -> bytes_of_bits p = [byte_of_bits p].
Proof.
  intros H. destruct p as [|b0 [|b1 [|b2 [|b3 [|b4 [|b5 [|b6 [|b7 r]]]]]]]]; cbn [length] in H; try lia; reflexivity.
Qed.

Lemma bytes_of_bits_8 l x : length l = 8%nat -> bytes_of_bits (l ++ x) = byte_of_bits l :: bytes_of_bits x.
Proof.
  intros H. destruct l as [|b0 [|b1 [|b2 [|b3 [|b4 [|b5 [|b6 [|b7 [|? ?]]]]]]]]]; try discriminate. reflexivity.
Qed.

Lemma ofold_bits os : forall st p, winv st p = true -> Forall ord_ok os ->
  snd (ofold st os) ++ order_flush (fst (ofold st os)) = bytes_of_bits (p ++ flat_map bits3 os).
Proof.
  induction os as [|o os IH]; intros st p H Hos.
  - cbn [ofold flat_map snd fst app]. rewrite app_nil_r. destruct st as [s buf]. unfold winv in H. split_andb.
    unfold order_flush. cbn [fst snd].
    destruct (s =? 0) eqn:E0.
    + apply Z.eqb_eq in E0. subst s. destruct p; [reflexivity | discriminate].
    + match goal with K : (_ || _) = true |- _ => cbn [orb] in K; apply Z.eqb_eq in K; rewrite K end.
      symmetry. apply bytes_of_bits_short.
      assert (Hs : s = 1 \/ s = 2 \/ s = 3 \/ s = 4 \/ s = 5 \/ s = 6 \/ s = 7) by lia.
      match goal with K : (length p =? _)%nat = true |- _ => apply Nat.eqb_eq in K; rewrite K end.
      repeat (destruct Hs as [Hs|Hs]; [subst s; vm_compute; lia|]). subst s; vm_compute; lia.
  - inversion Hos as [|? ? Ho Hos']; subst.
    cbn [ofold flat_map]. pose proof (wstep st p o H Ho) as W.
    destruct (order_step st o) as [st1 out]. cbv zeta in W.
    rewrite app_assoc.
    destruct (8 <=? length (p ++ bits3 o))%nat eqn:E8.
    + destruct W as [Wo Wi]. specialize (IH st1 _ Wi Hos').
      destruct (ofold st1 os) as [st2 out2]. cbn [fst snd] in *.
      assert (Eq : (p ++ bits3 o) ++ flat_map bits3 os
                   = firstn 8 (p ++ bits3 o) ++ (skipn 8 (p ++ bits3 o) ++ flat_map bits3 os))
        by (rewrite app_assoc, firstn_skipn; reflexivity).
      rewrite Eq. rewrite bytes_of_bits_8 by (apply firstn_length_le; apply Nat.leb_le; exact E8).
      rewrite <- IH, Wo. reflexivity.
    + destruct W as [Wo Wi]. specialize (IH st1 _ Wi Hos').
      destruct (ofold st1 os) as [st2 out2]. cbn [fst snd] in *.
      rewrite <- IH, Wo. reflexivity.
Qed.

(* LAYOUT of the order block: the written bytes are the concatenation of the 3-bit fields, most significant bit first,
   zero padded to a whole byte *)
Theorem order_bytes_layout os : Forall ord_ok os -> order_bytes os = bytes_of_bits (flat_map bits3 os).
Proof. intros H. unfold order_bytes. cbv zeta. apply (ofold_bits os (0, 0) [] eq_refl H). Qed.

Lemma bytes_of_bits_length : forall l, Z.of_nat (length (bytes_of_bits l)) = (Z.of_nat (length l) + 7) / 8.
Proof.
  apply list_ind8.
  - intros l H. destruct l as [|b l]; [reflexivity|].
    rewrite bytes_of_bits_short by (cbn [length] in *; lia). cbn [length] in *.
    apply Z.div_unique with (r := Z.of_nat (S (length l)) - 1); lia.
  - intros a0 a1 a2 a3 a4 a5 a6 a7 r IH.
    change (bytes_of_bits (a0 :: a1 :: a2 :: a3 :: a4 :: a5 :: a6 :: a7 :: r))
      with (byte_of_bits [a0; a1; a2; a3; a4; a5; a6; a7] :: bytes_of_bits r).
    cbn [length]. rewrite Nat2Z.inj_succ, IH.
    replace (Z.of_nat (S (S (S (S (S (S (S (S (length r))))))))) + 7) with ((Z.of_nat (length r) + 7) + 1 * 8) by lia.
    rewrite Z.div_add by lia. lia.
Qed.

Lemma flat_map_bits3_length os : length (flat_map bits3 os) = (3 * length os)%nat.
Proof. induction os as [|o os IH]; [reflexivity|]. cbn [flat_map length app bits3]. rewrite IH. lia. Qed.

Lemma order_block_size_ceil k : 0 <= k -> order_block_size k = (3 * k + 7) / 8.
Proof.
  intros Hk. unfold order_block_size. cbv zeta.
  replace (k * 3) with (3 * k) by lia.
  destruct (3 * k mod 8 =? 0) eqn:E.
  - apply Z.eqb_eq in E. pose proof (Z.div_mod (3 * k) 8 ltac:(lia)) as D. rewrite E in D.
    apply Z.div_unique with (r := 7); lia.
  - apply Z.eqb_neq in E. pose proof (Z.div_mod (3 * k) 8 ltac:(lia)) as D.
    pose proof (Z.mod_pos_bound (3 * k) 8 ltac:(lia)) as B.
    apply Z.div_unique with (r := 3 * k mod 8 - 1); lia.
Qed.

(* size of the order block *)
Theorem order_bytes_length os : Forall ord_ok os ->
  Z.of_nat (length (order_bytes os)) = order_block_size (Z.of_nat (length os)).
Proof.
  intros H. rewrite order_bytes_layout by exact H. rewrite bytes_of_bits_length, flat_map_bits3_length.
  rewrite order_block_size_ceil by lia. f_equal. lia.
Qed.

(* --- the 3-state reader implements the inverse --- *)
Definition rbuf (pend : list bool) : Z :=
  match pend with
  | [x; y] => 4 * b2z x + 2 * b2z y
  | [x] => 4 * b2z x
  | _ => 0
  end.

Definition rinv (st : Z * Z) (pend : list bool) : bool :=
  let '(s, buf) := st in
  ((s =? 0) && (length pend =? 0)%nat) || ((s =? 1) && (length pend =? 2)%nat && (buf =? rbuf pend)) ||
  ((s =? 2) && (length pend =? 1)%nat && (buf =? rbuf pend)).

(* the bits left over after cutting 3-bit fields *)
Fixpoint tail3 (l : list bool) : list bool :=
  match l with
  | _ :: _ :: _ :: r => tail3 r
  | _ => l
  end.

Lemma orders_of_bits_app : forall l r, orders_of_bits (l ++ r) = orders_of_bits l ++ orders_of_bits (tail3 l ++ r).
Proof.
  fix IH 1. intros [|x [|y [|z l]]] r; try reflexivity.
  change (z_of_bits3 x y z :: orders_of_bits (l ++ r) = z_of_bits3 x y z :: (orders_of_bits l ++ orders_of_bits (tail3 l ++ r))).
  f_equal. apply IH.
Qed.

Definition rplen (s : Z) : nat := if s =? 1 then 2%nat else if s =? 2 then 1%nat else 0%nat.

Definition rstep_chk (s : Z) (pend bits : list bool) : bool :=
  let all := pend ++ bits in
  let '(st', out) := order_read_step (s, rbuf pend) (byte_of_bits bits) in
  list_eqb Z.eqb out (orders_of_bits all) && rinv st' (tail3 all).

Lemma rstep_sweep :
  forallb (fun s => forallb (fun pend => forallb (rstep_chk s pend) (all_bits 8)) (all_bits (rplen s))) (zrange 0 3) = true.
Proof. vm_compute. reflexivity. Qed.

Lemma rinv_cases s buf pend : rinv (s, buf) pend = true ->
  0 <= s < 3 /\ length pend = rplen s /\ order_read_step (s, buf) = order_read_step (s, rbuf pend).
Proof.
  unfold rinv. intros H. apply orb_true_iff in H. destruct H as [H|H]; [apply orb_true_iff in H; destruct H as [H|H]|];
    split_andb; eqb2eq; subst; repeat match goal with K : (_ =? _)%nat = true |- _ => apply Nat.eqb_eq in K end;
    repeat split; try lia; try assumption; reflexivity.
Qed.

Lemma rstep st pend bits : rinv st pend = true -> length bits = 8%nat ->
  let '(st', out) := order_read_step st (byte_of_bits bits) in
  out = orders_of_bits (pend ++ bits) /\ rinv st' (tail3 (pend ++ bits)) = true.
Proof.
  destruct st as [s buf]. intros H Hb. apply rinv_cases in H. destruct H as [Hs [Hl E]]. rewrite E.
  pose proof (sweep1 _ _ _ rstep_sweep s Hs) as S1. cbv beta in S1. rewrite forallb_forall in S1.
  specialize (S1 pend (all_bits_In _ _ Hl)). rewrite forallb_forall in S1.
  specialize (S1 bits (all_bits_In _ _ Hb)). unfold rstep_chk in S1. cbv zeta in S1.
  destruct (order_read_step (s, rbuf pend) (byte_of_bits bits)) as [st' out].
  apply andb_true_iff in S1. destruct S1 as [S1 S2]. apply list_eqb_Z_eq in S1. split; assumption.
Qed.

(* the last, partial byte: the reader sees the zero padded byte; the complete fields come first *)
Fixpoint prefixb (a b : list Z) : bool :=
  match a, b with
  | [], _ => true
  | x :: a', y :: b' => (x =? y) && prefixb a' b'
  | _ :: _, [] => false
  end.

Lemma prefixb_spec a : forall b, prefixb a b = true -> exists t, b = a ++ t.
Proof.
  induction a as [|x a IH]; intros b H.
  - exists b. reflexivity.
  - destruct b as [|y b]; [discriminate|]. cbn [prefixb] in H. apply andb_true_iff in H. destruct H as [H1 H2].
    apply Z.eqb_eq in H1. subst y. destruct (IH b H2) as [t Ht]. exists t. rewrite Ht. reflexivity.
Qed.

Definition rlast_chk (s : Z) (pend bits : list bool) : bool :=
  prefixb (orders_of_bits (pend ++ bits)) (read_orders_v2 [byte_of_bits bits] (s, rbuf pend)).

Lemma rlast_sweep :
  forallb (fun s => forallb (fun pend => forallb (fun k => forallb (rlast_chk s pend) (all_bits (Z.to_nat k))) (zrange 1 8))
                            (all_bits (rplen s))) (zrange 0 3) = true.
Proof. vm_compute. reflexivity. Qed.

Lemma read_orders_v2_buf s buf pend l : rinv (s, buf) pend = true ->
  read_orders_v2 l (s, buf) = read_orders_v2 l (s, rbuf pend).
Proof.
  intros H. apply rinv_cases in H. destruct H as [_ [_ E]]. destruct l as [|a l]; [reflexivity|].
  cbn [read_orders_v2]. rewrite E. reflexivity.
Qed.

Lemma reader_bits : forall bits st pend, rinv st pend = true ->
  exists junk, read_orders_v2 (bytes_of_bits bits) st = orders_of_bits (pend ++ bits) ++ junk.
Proof.
  apply (list_ind8 (fun bits => forall st pend, rinv st pend = true ->
                      exists junk, read_orders_v2 (bytes_of_bits bits) st = orders_of_bits (pend ++ bits) ++ junk)).
  - intros bits Hlen [s buf] pend H.
    destruct bits as [|b bits'].
    + exists []. rewrite app_nil_r. cbn [bytes_of_bits read_orders_v2].
      apply rinv_cases in H. destruct H as [Hs [Hl _]].
      destruct pend as [|x [|y [|z r]]]; try reflexivity.
      unfold rplen in Hl. destruct (s =? 1); [discriminate|]. destruct (s =? 2); discriminate.
    + assert (Hl1 : (0 < length (b :: bits') < 8)%nat) by (cbn [length] in *; lia).
      remember (b :: bits') as bits eqn:Ebits. clear Ebits Hlen.
      rewrite bytes_of_bits_short by exact Hl1.
      rewrite (read_orders_v2_buf s buf pend _ H).
      apply rinv_cases in H. destruct H as [Hs [Hl _]].
      pose proof (sweep1 _ _ _ rlast_sweep s Hs) as S1. cbv beta in S1. rewrite forallb_forall in S1.
      specialize (S1 pend (all_bits_In _ _ Hl)).
      pose proof (sweep1 _ _ _ S1 (Z.of_nat (length bits)) ltac:(lia)) as S2.
      cbv beta in S2. rewrite forallb_forall in S2.
      assert (Hin : In bits (all_bits (Z.to_nat (Z.of_nat (length bits)))))
        by (apply all_bits_In; rewrite Nat2Z.id; reflexivity).
      specialize (S2 bits Hin). unfold rlast_chk in S2.
      apply prefixb_spec in S2. exact S2.
  - intros a0 a1 a2 a3 a4 a5 a6 a7 r IH st pend H.
    change (bytes_of_bits (a0 :: a1 :: a2 :: a3 :: a4 :: a5 :: a6 :: a7 :: r))
      with (byte_of_bits [a0; a1; a2; a3; a4; a5; a6; a7] :: bytes_of_bits r).
    cbn [read_orders_v2].
    pose proof (rstep st pend [a0; a1; a2; a3; a4; a5; a6; a7] H eq_refl) as R.
    destruct (order_read_step st (byte_of_bits [a0; a1; a2; a3; a4; a5; a6; a7])) as [st' out].
    destruct R as [Ro Ri]. destruct (IH st' _ Ri) as [junk Hj]. exists junk. rewrite Hj, Ro.
    change (a0 :: a1 :: a2 :: a3 :: a4 :: a5 :: a6 :: a7 :: r) with ([a0; a1; a2; a3; a4; a5; a6; a7] ++ r).
    rewrite (app_assoc pend). rewrite (orders_of_bits_app (pend ++ [a0; a1; a2; a3; a4; a5; a6; a7]) r).
    rewrite app_assoc. reflexivity.
Qed.

Lemma orders_of_bits_bits3 os : Forall ord_ok os -> orders_of_bits (flat_map bits3 os) = os.
Proof.
  induction 1 as [|o os Ho Hos IH]; [reflexivity|].
  cbn [flat_map]. change (bits3 o ++ flat_map bits3 os)
    with (Z.testbit o 2 :: Z.testbit o 1 :: Z.testbit o 0 :: flat_map bits3 os).
  cbn [orders_of_bits]. rewrite IH. f_equal.
  pose proof (z_of_bits3_bits3 o Ho) as K. unfold bits3 in K. cbn [orders_of_bits] in K. congruence.
Qed.

(* 2. ROUND TRIP of the order block, for ALL lists of orders 0..7: the reader returns the written orders followed by at
   most two padding fields *)
Theorem order_roundtrip_junk os : Forall ord_ok os ->
  exists junk, read_orders_v2 (order_bytes os) (0, 0) = os ++ junk.
Proof.
  intros H. rewrite order_bytes_layout by exact H.
  destruct (reader_bits (flat_map bits3 os) (0, 0) [] eq_refl) as [junk Hj]. exists junk.
  rewrite Hj. cbn [app]. rewrite orders_of_bits_bits3 by exact H. reflexivity.
Qed.

Theorem order_roundtrip os : Forall ord_ok os ->
  firstn (length os) (read_orders_v2 (order_bytes os) (0, 0)) = os.
Proof.
  intros H. destruct (order_roundtrip_junk os H) as [junk Hj]. rewrite Hj.
  rewrite firstn_app, Nat.sub_diag, firstn_all. cbn [firstn]. apply app_nil_r.
Qed.

(* ================================================================================================ *)
(* 3. the connection table *)

Definition num_ok (m : Z) : Prop := 0 <= m < 4096.

(* declarative layout: two 12-bit numbers per 3 bytes *)
Fixpoint pair_bytes (ms : list Z) : list Z :=
  match ms with
  | m1 :: m2 :: r => [u8 (Z.shiftr m1 4); u8 (Z.lor (Z.shiftl m1 4) (Z.shiftr m2 8)); u8 m2] ++ pair_bytes r
  | _ => []
  end.

Lemma list_ind2 {A} (P : list A -> Prop) :
  P [] -> (forall x, P [x]) -> (forall x y r, P r -> P (x :: y :: r)) -> forall l, P l.
Proof.
  intros H0 H1 H2. fix IH 1. intros [|x [|y r]]; [exact H0 | apply H1 | apply H2; apply IH].
Qed.

Lemma cfold_pairs : forall ms, Forall num_ok ms -> Nat.Even (length ms) ->
  forall buf, exists buf', cfold (true, buf) ms = ((true, buf'), pair_bytes ms).
Proof.
  apply (list_ind2 (fun ms => Forall num_ok ms -> Nat.Even (length ms) ->
                              forall buf, exists buf', cfold (true, buf) ms = ((true, buf'), pair_bytes ms))).
  - intros _ _ buf. exists buf. reflexivity.
  - intros x _ [k Hk]. cbn [length] in Hk. lia.
  - intros m1 m2 r IH HF [k Hk] buf.
    inversion HF as [|? ? H1 HF1]; subst. inversion HF1 as [|? ? H2 HF2]; subst.
    assert (Hev : Nat.Even (length r)) by (exists (k - 1)%nat; cbn [length] in Hk; lia).
    cbn [cfold pair_bytes]. unfold conn_step at 1 2. unfold num_ok in H1, H2.
    rewrite !(u16_small m1), !(u16_small m2) by lia.
    destruct (IH HF2 Hev (u8 (Z.shiftl m1 4))) as [buf' Hb]. rewrite Hb. exists buf'.
    destruct (pair12 m1 m2 H1 H2) as [_ [_ [P3 _]]]. cbv zeta in P3. rewrite P3. reflexivity.
Qed.

(* LAYOUT of the connection table *)
Theorem conn_bytes_layout ms : Forall num_ok ms -> Nat.Even (length ms) -> conn_bytes ms = pair_bytes ms.
Proof. intros H E. unfold conn_bytes. destruct (cfold_pairs ms H E 0) as [b Hb]. rewrite Hb. reflexivity. Qed.

Lemma pair_bytes_length : forall ms, Nat.Even (length ms) -> Z.of_nat (length (pair_bytes ms)) = 3 * (Z.of_nat (length ms) / 2).
Proof.
  apply (list_ind2 (fun ms => Nat.Even (length ms) -> Z.of_nat (length (pair_bytes ms)) = 3 * (Z.of_nat (length ms) / 2))).
  - intros _. reflexivity.
  - intros x [k Hk]. cbn [length] in Hk. lia.
  - intros x y r IH [k Hk].
    assert (Hev : Nat.Even (length r)) by (exists (k - 1)%nat; cbn [length] in Hk; lia).
    cbn [pair_bytes length app]. rewrite !Nat2Z.inj_succ. rewrite IH by exact Hev.
    replace (Z.succ (Z.succ (Z.of_nat (length r)))) with (Z.of_nat (length r) + 1 * 2) by lia.
    rewrite Z.div_add by lia. lia.
Qed.

Lemma read_conns_pairs : forall ms, Forall num_ok ms -> Nat.Even (length ms) -> forall pre suf,
  read_conns (pre ++ pair_bytes ms ++ suf) (Nat.div2 (length ms)) (Z.of_nat (length pre)) = Some ms.
Proof.
  apply (list_ind2 (fun ms => Forall num_ok ms -> Nat.Even (length ms) -> forall pre suf,
     read_conns (pre ++ pair_bytes ms ++ suf) (Nat.div2 (length ms)) (Z.of_nat (length pre)) = Some ms)).
  - intros _ _ pre suf. reflexivity.
  - intros x _ [k Hk]. cbn [length] in Hk. lia.
  - intros m1 m2 r IH HF [k Hk] pre suf.
    inversion HF as [|? ? H1 HF1]; subst. inversion HF1 as [|? ? H2 HF2]; subst.
    assert (Hev : Nat.Even (length r)) by (exists (k - 1)%nat; cbn [length] in Hk; lia).
    cbn [length Nat.div2 pair_bytes read_conns].
    rewrite <- (Z.add_0_r (Z.of_nat (length pre))) at 1. rewrite getb_app_r by lia.
    rewrite !getb_app_r by lia. cbn [app].
    change (getb (?a :: ?l) 0) with (Some a). change (getb (?a :: ?b :: ?l) 1) with (Some b).
    change (getb (?a :: ?b :: ?c :: ?l) 2) with (Some c).
    set (three := [u8 (Z.shiftr m1 4); u8 (Z.lor (Z.shiftl m1 4) (Z.shiftr m2 8)); u8 m2]).
    change (u8 (Z.shiftr m1 4) :: u8 (Z.lor (Z.shiftl m1 4) (Z.shiftr m2 8)) :: u8 m2 :: pair_bytes r ++ suf)
      with (three ++ pair_bytes r ++ suf).
    replace (Z.of_nat (length pre) + 3) with (Z.of_nat (length (pre ++ three))) by (rewrite app_length; cbn; lia).
    rewrite (app_assoc pre three). rewrite IH by assumption.
    destruct (pair12 m1 m2 H1 H2) as [P1 [P2 [P3 _]]]. cbv zeta in P1, P2, P3. rewrite <- P3.
    rewrite P1, P2. unfold num_ok in H1, H2. rewrite !u16_small by lia. reflexivity.
Qed.

(* 3. ROUND TRIP of the connection table: any even-length list of numbers 0..4095; 3 bytes per pair *)
Theorem conn_roundtrip ms pre suf : Forall num_ok ms -> Nat.Even (length ms) ->
  read_conns (pre ++ conn_bytes ms ++ suf) (Nat.div2 (length ms)) (Z.of_nat (length pre)) = Some ms /\
  Z.of_nat (length (conn_bytes ms)) = 3 * (Z.of_nat (length ms) / 2).
Proof.
  intros H E. rewrite conn_bytes_layout by assumption. split; [apply read_conns_pairs; assumption | apply pair_bytes_length; exact E].
Qed.

(* ================================================================================================ *)
(* 4. the cis/trans block *)

Definition ct_record (t : Z * Z * bool) : list Z :=
  let '(tn, tm, v) := t in
  [u8 (Z.shiftr tn 4); u8 (Z.lor (Z.shiftl tn 4) (Z.shiftr tm 8)); u8 tm; if v then 1 else 0].

Definition ct_rec_ok (t : Z * Z * bool) : Prop := num_ok (fst (fst t)) /\ num_ok (snd (fst t)).

Lemma ct_bytes_record terminals n v tn tm : zget terminals n = Some (tn, tm) -> num_ok tn -> num_ok tm ->
  ct_bytes terminals n v = Ok (ct_record (tn, tm, v)).
Proof.
  intros H H1 H2. unfold ct_bytes. rewrite H. unfold num_ok in *. rewrite !u16_small by lia. reflexivity.
Qed.

Theorem read_ct_roundtrip recs : forall pre suf, Forall ct_rec_ok recs ->
  read_ct (pre ++ flat_map ct_record recs ++ suf) (length recs) (Z.of_nat (length pre)) = Some recs.
Proof.
  induction recs as [|[[tn tm] v] r IH]; intros pre suf HF; [reflexivity|].
  inversion HF as [|? ? [H1 H2] HF']; subst. cbn [fst snd] in H1, H2.
  cbn [length read_ct flat_map ct_record].
  rewrite <- (Z.add_0_r (Z.of_nat (length pre))) at 1. rewrite !getb_app_r by lia.
  rewrite <- !app_assoc. cbn [app].
  change (getb (?a :: ?l) 0) with (Some a). change (getb (?a :: ?b :: ?l) 1) with (Some b).
  change (getb (?a :: ?b :: ?c :: ?l) 2) with (Some c). change (getb (?a :: ?b :: ?c :: ?d :: ?l) 3) with (Some d).
  set (four := [u8 (Z.shiftr tn 4); u8 (Z.lor (Z.shiftl tn 4) (Z.shiftr tm 8)); u8 tm; if v then 1 else 0]).
  change (u8 (Z.shiftr tn 4) :: u8 (Z.lor (Z.shiftl tn 4) (Z.shiftr tm 8)) :: u8 tm :: (if v then 1 else 0) :: flat_map ct_record r ++ suf)
    with (four ++ flat_map ct_record r ++ suf).
  replace (Z.of_nat (length pre) + 4) with (Z.of_nat (length (pre ++ four))) by (rewrite app_length; cbn; lia).
  rewrite (app_assoc pre four). rewrite IH by assumption.
  destruct (pair12 tn tm H1 H2) as [P1 [P2 [P3 _]]]. cbv zeta in P1, P2, P3. rewrite <- P3. rewrite P1, P2.
  destruct v; reflexivity.
Qed.

Lemma ct_block_length recs : Z.of_nat (length (flat_map ct_record recs)) = 4 * Z.of_nat (length recs).
Proof.
  induction recs as [|[[tn tm] v] r IH]; [reflexivity|].
  cbn [flat_map length]. rewrite app_length, Nat2Z.inj_add, IH. cbn [ct_record length]. lia.
Qed.

(* 4. one cis/trans record written by ct_bytes and read back *)
Theorem ct_roundtrip terminals n v tn tm pre suf : zget terminals n = Some (tn, tm) -> num_ok tn -> num_ok tm ->
  exists bytes, ct_bytes terminals n v = Ok bytes /\ length bytes = 4%nat /\
    read_ct (pre ++ bytes ++ suf) 1 (Z.of_nat (length pre)) = Some [(tn, tm, v)].
Proof.
  intros H H1 H2. exists (ct_record (tn, tm, v)). split; [apply ct_bytes_record; assumption|]. split; [reflexivity|].
  pose proof (read_ct_roundtrip [(tn, tm, v)] pre suf) as R. cbn [flat_map length] in R. rewrite app_nil_r in R.
  apply R. constructor; [split; assumption | constructor].
Qed.

(* ================================================================================================ *)
(* 5. the header *)

Theorem header_roundtrip ac ct : num_ok ac -> num_ok ct ->
  exists a b c, header_bytes ac ct = [2; a; b; c] /\
    u16 (Z.lor (Z.shiftl a 4) (Z.shiftr b 4)) = ac /\ u16 (Z.lor (Z.shiftl (Z.land b 15) 8) c) = ct /\
    Z.shiftr (a * 256 + b) 4 = ac /\ 0 <= a < 256 /\ 0 <= b < 256 /\ 0 <= c < 256.
Proof.
  intros H1 H2. do 3 eexists. split; [reflexivity|].
  destruct (pair12 ac ct H1 H2) as [P1 [P2 [P3 P4]]]. cbv zeta in P1, P2, P3, P4. rewrite <- P3. rewrite P1, P2, P4.
  unfold num_ok in *. rewrite !u16_small by lia.
  repeat split; try apply u8_range.
Qed.
