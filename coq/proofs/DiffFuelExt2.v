(* C01: the out-of-fuel value of the model of __differentiation (Err OtherError) is never the result when the fuel exceeds the
   measure |atoms_stereo| + |cis_trans_stereo| + |allenes_stereo|; in particular never with diff_fuel.  No other part of the model
   produces OtherError (translate_* raise KeyError / ValueError, _morgan KeyError). *)
From Coq Require Import ZArith List Bool Lia Arith.
From Model Require Import PyBase PyHash Graph Morgan Stereo ChiralMorgan.
From Proofs Require Import MorganProofs ChiralOrderExt DiffFuelExt.
Import ListNotations.
Open Scope Z_scope.

(* the exception of a result, whatever its type *)
Definition exn_of {A} (r : pyres A) : option pyexn := match r with Ok _ => None | Err e => Some e end.
Definition no_other {A} (r : pyres A) : Prop := exn_of r <> Some OtherError.

Ltac triv := unfold no_other; cbn [exn_of]; discriminate.

Lemma translate_th_no_other isH order env s : no_other (translate_th isH order env s).
Proof.
  unfold translate_th. cbv zeta.
  match goal with |- no_other (match ?o with Ok _ => _ | Err e => Err e end) => destruct o as [o'|e] eqn:Eo end.
  - destruct (map (index_of o') (firstn 3 env)) as [|[a|] [|[b|] [|[c|] [|? ?]]]]; try triv.
    destruct (th_lookup a b c) as [[|]|]; triv.
  - revert Eo.
    destruct (Z.of_nat (length order) =? 3); [destruct (Z.of_nat (length env) =? 4); [destruct (find isH env); intros Eo; inversion Eo; triv|];
      destruct (Z.of_nat (length env) =? 3); intros Eo; inversion Eo; triv|].
    destruct ((Z.of_nat (length env) =? 3) || (Z.of_nat (length env) =? 4)); intros Eo; inversion Eo; triv.
Qed.

Lemma translate_env_no_other isH env nn nm s : no_other (translate_env isH env nn nm s).
Proof.
  unfold translate_env. destruct env as [[[n0 n1] n2] n3]. cbv zeta.
  match goal with |- context [match ?t with Some _ => _ | None => Err KeyError end] => destruct t as [[t0 t1]|] end; [|triv].
  destruct (ct_lookup t0 t1) as [[|]|]; triv.
Qed.

Lemma translate_ct_no_other isH e1 e2 nn nm s : no_other (translate_ct isH e1 e2 nn nm s).
Proof. unfold translate_ct. destruct e1; [apply translate_env_no_other|]. destruct e2; [apply translate_env_no_other | triv]. Qed.

Lemma filter_res_no_other {A} (f : A -> pyres bool) (l : list A) : (forall x, no_other (f x)) -> no_other (filter_res f l).
Proof.
  intros Hf. induction l as [|x l IH]; cbn [filter_res]; [triv|].
  pose proof (Hf x) as Hx. destruct (f x) as [b|e]; [|exact Hx].
  destruct (filter_res f l) as [r|e]; [triv | exact IH].
Qed.

Lemma refine_err h adj fuel : forall atoms numb stab e, refine h adj fuel atoms numb stab = Err e -> e = KeyError.
Proof.
  induction fuel as [|k IH]; intros atoms numb stab e; cbn [refine]; [discriminate|].
  destruct (closed atoms adj); [|intros H; inversion H; reflexivity]. cbv zeta.
  destruct (_ =? Z.of_nat _); [discriminate|]. destruct (_ =? numb).
  - destruct (stab =? 3); [discriminate | apply IH].
  - destruct (negb _); apply IH.
Qed.
Lemma morgan_no_other h atoms adj : no_other (Morgan.morgan h atoms adj).
Proof.
  unfold Morgan.morgan, morgan_labels. destruct (refine _ _ _ _ _ _) as [a|e] eqn:E; [triv|].
  apply refine_err in E. subst e. triv.
Qed.

Section NoOther.
  Variable h : list Z -> Z.
  Variable g : mol.
  Variable tabs : cmtabs.

  Lemma th_sign_no_other m n : no_other (th_sign g tabs m n).
  Proof. unfold th_sign. destruct (zget _ n); [|triv]. destruct (atom_stereo g n); [apply translate_th_no_other | triv]. Qed.
  Lemma al_sign_no_other m c : no_other (al_sign g tabs m c).
  Proof.
    unfold al_sign. destruct (zget _ c) as [[[[n1 m1] n2] m2]|]; [|triv].
    destruct (atom_stereo g c); [apply translate_env_no_other | triv].
  Qed.
  Lemma ct_sign_no_other m x : no_other (ct_sign g tabs m x).
  Proof.
    unfold ct_sign. destruct (snd x) as [n k]. destruct (cpget _ _) as [[[[n1 m1] n2] m2]|]; [|triv].
    destruct (zget _ n) as [[i j]|]; [|triv]. destruct (bond_of g i j) as [bd|]; [|triv].
    destruct (b_stereo bd); [apply translate_ct_no_other | triv].
  Qed.

  Lemma th_group_no_other m st grp : no_other st -> no_other (th_group g tabs m st grp).
  Proof.
    unfold th_group. destruct st as [[[u rest] gs]|e]; [intros _|intros H; exact H].
    destruct (negb _); [triv|]. destruct grp as [|n0 grp']; [triv|].
    destruct (zget _ n0); [|triv]. destruct (Nat.eqb _ _); [|triv].
    pose proof (filter_res_no_other (th_sign g tabs m) (n0 :: grp') (th_sign_no_other m)) as Hf.
    destruct (filter_res _ _); [triv | exact Hf].
  Qed.
  Lemma al_group_no_other m st grp : no_other st -> no_other (al_group g tabs m st grp).
  Proof.
    unfold al_group. destruct st as [[[u rest] gs]|e]; [intros _|intros H; exact H].
    destruct (negb _); [triv|]. destruct grp as [|n0 grp']; [triv|].
    destruct (zget _ n0); [|triv]. destruct (discrete_env _ _); [|triv].
    pose proof (filter_res_no_other (al_sign g tabs m) (n0 :: grp') (al_sign_no_other m)) as Hf.
    destruct (filter_res _ _); [destruct (proper_part _ _); triv | exact Hf].
  Qed.
  Lemma ct_group_no_other m st grp : no_other st -> no_other (ct_group g tabs m st grp).
  Proof.
    unfold ct_group. destruct st as [[[u rest] gs]|e]; [intros _|intros H; exact H].
    destruct (negb _); [triv|]. destruct grp as [|x0 grp']; [triv|].
    destruct (cpget _ _); [|triv]. destruct (discrete_env _ _); [|triv].
    pose proof (filter_res_no_other (ct_sign g tabs m) (x0 :: grp') (ct_sign_no_other m)) as Hf.
    destruct (filter_res _ _); [destruct (proper_part _ _); triv | exact Hf].
  Qed.

  Lemma fold_no_other {A G} (step : pyres (pstate A G) -> list G -> pyres (pstate A G)) :
    (forall st grp, no_other st -> no_other (step st grp)) -> forall gl st, no_other st -> no_other (fold_left step gl st).
  Proof. intros Hs. induction gl as [|x gl IH]; intros st H; [exact H|]. cbn [fold_left]. apply IH. apply Hs. exact H. Qed.

  Lemma pass1_no_other m sa : no_other (pass1 g tabs m sa).
  Proof. unfold pass1. destruct (negb _); [|triv]. apply fold_no_other; [apply th_group_no_other | triv]. Qed.
  Lemma pass2_no_other m u sct : no_other (pass2 g tabs m u sct).
  Proof. unfold pass2. destruct (negb _); [|triv]. apply fold_no_other; [apply ct_group_no_other | triv]. Qed.
  Lemma pass3_no_other m u sal : no_other (pass3 g tabs m u sal).
  Proof. unfold pass3. destruct (negb _); [|triv]. apply fold_no_other; [apply al_group_no_other | triv]. Qed.

  Lemma differentiation_no_other : forall fuel morgan sa sct sal trace,
    (mu sa sct sal < fuel)%nat -> no_other (differentiation h g tabs fuel morgan sa sct sal trace).
  Proof.
    induction fuel as [|f IH]; intros morgan sa sct sal trace Hm; [lia|]. rewrite differentiation_unfold.
    pose proof (pass1_no_other morgan sa) as N1.
    destruct (pass1 g tabs morgan sa) as [[[u1 sa'] ga]|e] eqn:P1; [|exact N1].
    pose proof (pass2_no_other morgan u1 sct) as N2.
    destruct (pass2 g tabs morgan u1 sct) as [[[u2 sct'] gct]|e] eqn:P2; [|exact N2].
    pose proof (pass3_no_other morgan u2 sal) as N3.
    destruct (pass3 g tabs morgan u2 sal) as [[[u3 sal'] gal]|e] eqn:P3; [|exact N3].
    destruct (passes_measure _ _ _ _ _ _ _ _ _ _ _ _ _ _ _ P1 P2 P3) as [_ Hlt].
    destruct u3 as [|x u3]; [triv|]. cbv zeta.
    pose proof (morgan_no_other h (merge_update morgan (x :: u3)) (int_adjacency g)) as NM.
    destruct (Morgan.morgan h _ _); [|exact NM].
    apply IH. assert ((mu sa' sct' sal' < mu sa sct sal)%nat) by (apply Hlt; discriminate). lia.
  Qed.

  Theorem differentiation_never_out_of_fuel fuel morgan sa sct sal trace :
    (mu sa sct sal < fuel)%nat -> differentiation h g tabs fuel morgan sa sct sal trace <> Err OtherError.
  Proof. intros Hm E. apply (differentiation_no_other fuel morgan sa sct sal trace Hm). rewrite E. reflexivity. Qed.

  (* with the fuel the model of _chiral_morgan uses *)
  Corollary differentiation_diff_fuel_enough (ord : cmorders) (morgan : labels) (trace : list labels) :
    differentiation h g tabs (diff_fuel ord) morgan (o_atoms ord) (o_ct ord) (o_al ord) trace <> Err OtherError.
  Proof. apply differentiation_never_out_of_fuel. unfold diff_fuel, mu. lia. Qed.
End NoOther.

(* non-vacuity: the meso-like diol of ChiralMorganProofs (one real refinement pass): the loop goes round twice with fuel 3 = diff_fuel,
   the result is Ok and is the same with a thousand more *)
From Proofs Require Import ChiralMorganProofs.
Example differentiation_fuel_example :
  (mu (o_atoms exc_ord) (o_ct exc_ord) (o_al exc_ord) < diff_fuel exc_ord)%nat /\
  (exists d, differentiation hash_ztuple exc_g exc_tabs (diff_fuel exc_ord) exc_ao (o_atoms exc_ord) (o_ct exc_ord) (o_al exc_ord) [] = Ok d /\
             d_trace d <> [] /\ d_atoms d = []) /\
  differentiation hash_ztuple exc_g exc_tabs (diff_fuel exc_ord + 1000) exc_ao (o_atoms exc_ord) (o_ct exc_ord) (o_al exc_ord) [] =
  differentiation hash_ztuple exc_g exc_tabs (diff_fuel exc_ord) exc_ao (o_atoms exc_ord) (o_ct exc_ord) (o_al exc_ord) [].
Proof.
  split; [unfold diff_fuel, mu; lia|]. split.
  - eexists. split; [vm_compute; reflexivity|]. split; [vm_compute; discriminate | vm_compute; reflexivity].
  - apply differentiation_fuel_irrelevant; unfold diff_fuel, mu; lia.
Qed.
