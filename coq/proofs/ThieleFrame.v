(* C05 -- locality (frame) of Thiele.thiele(fix_tautomers=False), algorithm-level model: whatever the SSSR, the second ring search
   and the answers of the freak_rules queries are, an atom that lies in none of the rings found again by the second ring search
   and in none of the candidate five-rings for which a freak_rules query MATCHED keeps its whole row of bonds (neighbours, orders,
   stereo).  In particular a candidate ring whose query does not match is not touched through the rule stage: the answer for one
   ring never leaks to another. *)
From Coq Require Import ZArith List Bool Lia.
From Model Require Import PyBase Graph Kekule Thiele.
Import ListNotations.
Open Scope Z_scope.

Lemma zmem_In x l : zmem x l = true -> In x l.
Proof.
  unfold zmem. intros H. apply existsb_exists in H. destruct H as [y [I E]]. apply Z.eqb_eq in E. subst. exact I.
Qed.

Lemma zget_map_keep {V} (f : Z * V -> Z * V) n : (forall x, fst (f x) = fst x) -> (forall x, fst x = n -> f x = x) ->
  forall l, zget (map f l) n = zget l n.
Proof.
  intros K S l. induction l as [|[k v] r IH]; simpl; [reflexivity|].
  destruct (f (k, v)) as [k' v'] eqn:E. pose proof (K (k, v)) as K1. rewrite E in K1. simpl in K1. subst k'.
  destruct (Z.eqb_spec n k) as [EQ|NE].
  - subst k. pose proof (S (n, v) eq_refl) as S1. rewrite E in S1. inversion S1. reflexivity.
  - exact IH.
Qed.

Lemma set_order_row g a b o n : n <> a -> n <> b -> nbrs (set_order g a b o) n = nbrs g n.
Proof.
  intros Na Nb. unfold nbrs, set_order. simpl. rewrite zget_map_keep; [reflexivity| |].
  - intros [k l]. simpl. destruct (k =? a); [reflexivity|]. destruct (k =? b); reflexivity.
  - intros [k l] E. simpl in *. subst k. destruct (Z.eqb_spec n a); [contradiction|]. destruct (Z.eqb_spec n b); [contradiction|]. reflexivity.
Qed.

Lemma last_In {A} (l : list A) d : l <> [] -> In (last l d) l.
Proof.
  induction l as [|x r IH]; [congruence|]. intros _. destruct r as [|y q]; [left; reflexivity|].
  right. apply IH. discriminate.
Qed.

Lemma ring_pairs_in r a b : In (a, b) (ring_pairs r) -> In a r /\ In b r.
Proof.
  unfold ring_pairs. destruct r as [|x q]; [intros []|]. intros [E|I].
  - injection E as E1 E2. subst a b. split; [left; reflexivity|apply (last_In (x :: q) x); discriminate].
  - unfold zip_next in I. split; [eapply in_combine_l; exact I|]. right. apply in_combine_r in I. exact I.
Qed.

Lemma set_bonds_row ring o n : ~ In n ring -> forall g, nbrs (set_bonds g ring o) n = nbrs g n.
Proof.
  intros N. unfold set_bonds. pose proof (ring_pairs_in ring) as P. revert P. generalize (ring_pairs ring). intros ps.
  induction ps as [|[a b] q IH]; intros P g; simpl; [reflexivity|].
  rewrite IH; [|intros a' b' I; apply P; right; exact I].
  destruct (P a b (or_introl eq_refl)) as [Ia Ib].
  apply set_order_row; intros E; subst; contradiction.
Qed.

Lemma fold_row {T} (f : mol -> T -> mol) n (l : list T) :
  (forall g x, In x l -> nbrs (f g x) n = nbrs g n) -> forall g, nbrs (fold_left f l g) n = nbrs g n.
Proof.
  induction l as [|x r IH]; intros H g; simpl; [reflexivity|].
  rewrite IH; [|intros g0 y I; apply H; right; exact I]. apply H. left. reflexivity.
Qed.

Theorem thiele_model_frame : forall g sssr rings2 fok o n,
  thiele_model g sssr rings2 fok = Ok o ->
  (forall r, In r rings2 -> ~ In n r) ->
  (forall r, In (r, true) (combine (o_freaks o) fok) -> ~ In n r) ->
  nbrs (o_mol o) n = nbrs g n.
Proof.
  intros g sssr rings2 fok o n E H2 HF. unfold thiele_model in E.
  set (s := fold_left (ring_step g) sssr (mkTh1 [] [] [] [])) in *.
  destruct (t_rings s) as [|r0 rr]; [injection E as E; subst o; reflexivity|].
  match type of E with match ?st with _ => _ end = _ => destruct st as [[d|]|] end; try discriminate;
    [|injection E as E; subst o; reflexivity].
  match type of E with (if ?c then _ else _) = _ => destruct c end; [injection E as E; subst o; reflexivity|].
  injection E as E. subst o. simpl in *.
  rewrite fold_row.
  2:{ intros g0 [r b] I. simpl. destruct b; [|reflexivity]. apply set_bonds_row. apply HF. exact I. }
  rewrite fold_row.
  2:{ intros g0 r I. apply set_bonds_row. apply H2. exact I. }
  apply fold_row. intros g0 r I.
  destruct (forallb (fun x => zmem x (concat rings2)) r) eqn:A; [|reflexivity].
  apply set_bonds_row. intros In_r.
  rewrite forallb_forall in A. specialize (A n In_r). apply zmem_In in A. apply in_concat in A.
  destruct A as [r2 [I2 I3]]. exact (H2 r2 I2 I3).
Qed.

(* non-vacuity: two candidate rings, only the first query matches: atom 9 of the second ring keeps its row, atom 1 of the first does not *)
Definition fr_g : mol :=
  mkMol (map (fun n => (n, mkAtom 6 None 0 false (Some 1) None)) [1; 2; 3; 4; 5; 6; 7; 8; 9; 10])
        [(1, [(2, mkBond 2 None); (5, mkBond 1 None)]); (2, [(1, mkBond 2 None); (3, mkBond 1 None)]); (3, [(2, mkBond 1 None); (4, mkBond 2 None)]);
         (4, [(3, mkBond 2 None); (5, mkBond 1 None)]); (5, [(4, mkBond 1 None); (1, mkBond 1 None)]);
         (6, [(7, mkBond 1 None); (10, mkBond 1 None)]); (7, [(6, mkBond 1 None); (8, mkBond 1 None)]); (8, [(7, mkBond 1 None); (9, mkBond 1 None)]);
         (9, [(8, mkBond 1 None); (10, mkBond 1 None)]); (10, [(9, mkBond 1 None); (6, mkBond 1 None)])].
Example frame_example :
  let g3 := fold_left (fun (g : mol) (rb : list Z * bool) => if snd rb then set_bonds g (fst rb) 4 else g)
                      (combine [[1; 2; 3; 4; 5]; [6; 7; 8; 9; 10]] [true; false]) fr_g in
  nbrs g3 9 = nbrs fr_g 9 /\ nbrs g3 1 <> nbrs fr_g 1.
Proof. vm_compute. split; [reflexivity|discriminate]. Qed.
