(* C17 extension 3 (c): the suggested fix of linear_hash_smiles (spell every chain of the fragment, both directions for a
   palindromic key) does not depend on the atom numbering nor on the iteration order of the chain set. *)
From Coq Require Import String ZArith List Bool Lia Permutation.
From Model Require Import PyBase Graph PyHash Fingerprint LinearSmiles.
From Proofs Require Import FingerprintProofs LinearSmilesProofs.
Import ListNotations.
Open Scope Z_scope.

Lemma list_eqb_Z_eq (a b : list Z) : list_eqb Z.eqb a b = true <-> a = b.
Proof. apply (path_eqb_eq a b). Qed.

Section Oriented.
  Variable idf : Z -> Z.
  Variable ord : Z -> Z -> Z.
  Hypothesis ord_sym : forall x y, ord x y = ord y x.
  Variable fa : Z -> string.
  Variable fb : Z -> Z -> string.

  (* q is one of the two directions of p *)
  Definition direction_of (p q : path) : Prop := q = p \/ q = rev p.

  Lemma stored_cases p :
    let v := frag_var idf ord p in
    (tuple_gtb v (rev v) = true /\ frag_entry idf ord p = (v, p)) \/
    (tuple_gtb v (rev v) = false /\ frag_entry idf ord p = (rev v, rev p)).
  Proof. cbn zeta. unfold frag_entry. destruct (tuple_gtb _ _); [left | right]; auto. Qed.

  (* the spellings the fix attaches to the fragment of chain p: those of the directions of p that spell the key *)
  Lemma spellings_of_chain p str :
    let e := frag_entry idf ord p in
    (str = spell fa fb (snd e) \/ (fst e = rev (fst e) /\ str = spell fa fb (rev (snd e)))) <->
    exists q, direction_of p q /\ frag_var idf ord q = frag_key idf ord p /\ str = spell fa fb q.
  Proof.
    cbn zeta. unfold frag_key. pose proof (frag_var_rev idf ord ord_sym p) as Hrev.
    destruct (stored_cases p) as [[Hg E]|[Hg E]]; rewrite E; cbn [fst snd].
    - (* var p > rev (var p): stored p, key var p, not a palindrome *)
      assert (Hne : frag_var idf ord p <> rev (frag_var idf ord p)).
      { intro Heq. rewrite <- Heq in Hg. rewrite tuple_gtb_irrefl in Hg. discriminate. }
      split.
      + intros [->|[Hp _]]; [exists p; unfold direction_of; auto | contradiction].
      + intros [q [[->| ->] [Hv ->]]]; [left; reflexivity|]. rewrite Hrev in Hv. congruence.
    - (* stored rev p, key rev (var p) *)
      split.
      + intros [->|[Hp ->]].
        * exists (rev p). unfold direction_of. rewrite Hrev. auto.
        * rewrite rev_involutive in *. exists p. unfold direction_of. split; [auto|]. split; [|reflexivity]. congruence.
      + intros [q [[->| ->] [Hv ->]]].
        * right. rewrite !rev_involutive. split; [congruence | reflexivity].
        * left. reflexivity.
  Qed.

  Lemma in_all_spellings k vs str :
    In str (all_spellings fa fb (k, vs)) <->
    exists c, In c vs /\ (str = spell fa fb c \/ (k = rev k /\ str = spell fa fb (rev c))).
  Proof.
    unfold all_spellings. cbn [fst snd]. rewrite in_app_iff, in_map_iff. split.
    - intros [[c [<- Hc]]|H]; [exists c; auto|].
      destruct (list_eqb Z.eqb k (rev k)) eqn:E; [|destruct H].
      apply list_eqb_Z_eq in E. apply in_map_iff in H. destruct H as [c [<- Hc]]. exists c. auto.
    - intros [c [Hc [->|[Hk ->]]]]; [left; exists c; auto|].
      right. apply list_eqb_Z_eq in Hk. rewrite Hk. apply in_map_iff. exists c. auto.
  Qed.

  (* the set of spellings of key k over the chain list chs *)
  Definition key_spellings (chs : list path) (k : list Z) (str : string) : Prop :=
    exists p q, In p chs /\ frag_key idf ord p = k /\ direction_of p q /\ frag_var idf ord q = k /\ str = spell fa fb q.

  Lemma entry_spellings chs k vs str : In (k, vs) (fragments_of idf ord chs) ->
    (In str (all_spellings fa fb (k, vs)) <-> key_spellings chs k str).
  Proof.
    intro He. destruct (fragments_of_entry idf ord chs k vs He) as [Hv _]. rewrite in_all_spellings. split.
    - intros [c [Hc Hs]]. rewrite Hv in Hc. apply in_map_iff in Hc. destruct Hc as [p [<- Hp]].
      apply filter_In in Hp. destruct Hp as [Hp Hk]. apply path_eqb_eq in Hk.
      assert (Hk' : fst (frag_entry idf ord p) = k) by (symmetry; exact Hk).
      rewrite <- Hk' in Hs. apply spellings_of_chain in Hs. destruct Hs as [q (Hd & Hq & ->)].
      exists p, q. unfold frag_key in *. repeat split; auto; congruence.
    - intros [p [q (Hp & Hk & Hd & Hq & ->)]]. exists (snd (frag_entry idf ord p)). split.
      + rewrite Hv. apply (in_map (fun f : path => snd (frag_entry idf ord f))). apply filter_In. split; [exact Hp | apply path_eqb_eq; symmetry; exact Hk].
      + assert (X : exists q0, direction_of p q0 /\ frag_var idf ord q0 = frag_key idf ord p /\ spell fa fb q = spell fa fb q0)
          by (exists q; rewrite Hk; auto).
        apply spellings_of_chain in X. cbn zeta in X. unfold frag_key in Hk. rewrite Hk in X. exact X.
  Qed.

  (* the dictionary of the fix: key x holds the spellings of every fragment key k one of whose hashes h(k, c),
     c < min(count, cap), is x *)
  Theorem fixed_get (h : list Z -> Z) nbp chs x str :
    In str (sget (lhs_of_fixed fa fb h nbp (fragments_of idf ord chs)) x) <->
    exists k c, x = h (k ++ [c]) /\ 0 <= c < Z.min (Z.of_nat (key_count idf ord chs k)) (cap nbp) /\ key_spellings chs k str.
  Proof.
    rewrite lhs_of_fixed_get. split.
    - intros [[k vs] (He & Hx & Hs)]. unfold entry_hashes in Hx. cbn [fst snd] in Hx.
      apply in_map_iff in Hx. destruct Hx as [c [<- Hc]]. apply zrange_In in Hc.
      destruct (fragments_of_entry idf ord chs k vs He) as [_ Hl]. unfold len_z in Hc. rewrite Hl in Hc.
      exists k, c. split; [reflexivity|]. split; [exact Hc|]. apply (entry_spellings chs k vs str He). exact Hs.
    - intros [k [c (-> & Hc & Hs)]].
      assert (Hne : fget (fragments_of idf ord chs) k <> []).
      { intro E. apply (f_equal (@List.length path)) in E. rewrite fragments_of_count in E. cbn in E. lia. }
      pose proof (fget_nonempty_In _ _ Hne) as He. exists (k, fget (fragments_of idf ord chs) k).
      split; [exact He|]. split.
      + unfold entry_hashes. cbn [fst snd]. apply in_map_iff. exists c. split; [reflexivity|].
        apply zrange_In. unfold len_z. rewrite fragments_of_count. exact Hc.
      + apply (entry_spellings chs k _ str He). exact Hs.
  Qed.
End Oriented.

(* ---- iteration order: only the SET of chains matters ---- *)
Lemma key_spellings_perm idf ord fa fb chs chs' k str : (forall p, In p chs <-> In p chs') ->
  key_spellings idf ord fa fb chs k str -> key_spellings idf ord fa fb chs' k str.
Proof. intros H [p [q (Hp & R)]]. exists p, q. split; [apply H; exact Hp | exact R]. Qed.

(* ---- renumbering ---- *)
Section FixedRename.
  Variable s : Z -> Z.
  Hypothesis s_inj : forall x y, s x = s y -> x = y.
  Variables (fa fa' : Z -> string) (fb fb' : Z -> Z -> string).
  Hypothesis fa_eq : forall x, fa' (s x) = fa x.
  Hypothesis fb_eq : forall x y, fb' (s x) (s y) = fb x y.

  Lemma spell_tail_rename r : forall x, spell_tail fa' fb' (s x) (map s r) = spell_tail fa fb x r.
  Proof. induction r as [|y r IH]; intro x; cbn; [reflexivity|]. rewrite fb_eq, fa_eq, IH. reflexivity. Qed.
  Lemma spell_rename p : spell fa' fb' (map s p) = spell fa fb p.
  Proof. destruct p as [|x r]; cbn; [reflexivity|]. rewrite fa_eq, spell_tail_rename. reflexivity. Qed.

  Variable g : mol.
  Hypothesis Hwf : wf_mol g = true.
  Let idf := ident (atom_identifiers g).
  Let ord := bond_order g.
  Let idf' := ident (atom_identifiers (rename_mol s g)).
  Let ord' := bond_order (rename_mol s g).

  Let idf_eq : forall x, idf' (s x) = idf x.
  Proof. intro x. apply ident_rename. exact s_inj. Qed.
  Let ord_eq : forall x y, ord' (s x) (s y) = ord x y.
  Proof. intros x y. apply bond_order_rename. exact s_inj. Qed.
  Let ord_sym : forall x y, ord x y = ord y x.
  Proof. apply bond_order_sym. exact Hwf. Qed.

  Variables lo hi : Z.

  Lemma direction_image p q : direction_of p q -> direction_of (chain_image s p) (map s q).
  Proof.
    unfold direction_of. intros [->| ->]; destruct (chain_image_cases s p) as [E|E]; rewrite E, ?map_rev, ?rev_involutive; auto.
  Qed.

  Lemma key_spellings_rename_fwd k str :
    key_spellings idf ord fa fb (chains g lo hi) k str ->
    key_spellings idf' ord' fa' fb' (chains (rename_mol s g) lo hi) k str.
  Proof.
    intros [p [q (Hp & Hk & Hd & Hq & ->)]]. exists (chain_image s p), (map s q). split.
    - apply (Permutation_in _ (chains_rename_perm s s_inj g lo hi (wf_mol_sym_closed g Hwf))). apply in_map. exact Hp.
    - split; [rewrite (frag_key_image s idf idf' ord ord' idf_eq ord_eq ord_sym); exact Hk|].
      split; [apply direction_image; exact Hd|].
      split; [rewrite (frag_var_rename s idf idf' ord ord' idf_eq ord_eq); exact Hq | symmetry; apply spell_rename].
  Qed.

  Lemma direction_preimage p q' : direction_of (chain_image s p) q' -> exists q, direction_of p q /\ q' = map s q.
  Proof.
    unfold direction_of. destruct (chain_image_cases s p) as [E|E]; rewrite E; intros [->| ->].
    - exists p. auto.
    - exists (rev p). rewrite map_rev. auto.
    - exists (rev p). auto.
    - exists p. rewrite map_rev, rev_involutive. auto.
  Qed.

  Lemma key_spellings_rename_bwd k str :
    key_spellings idf' ord' fa' fb' (chains (rename_mol s g) lo hi) k str ->
    key_spellings idf ord fa fb (chains g lo hi) k str.
  Proof.
    intros [p' [q' (Hp & Hk & Hd & Hq & ->)]].
    apply (Permutation_in _ (Permutation_sym (chains_rename_perm s s_inj g lo hi (wf_mol_sym_closed g Hwf)))) in Hp.
    apply in_map_iff in Hp. destruct Hp as [p [<- Hp]].
    destruct (direction_preimage p q' Hd) as [q [Hdq ->]]. exists p, q. split; [exact Hp|].
    split; [rewrite <- (frag_key_image s idf idf' ord ord' idf_eq ord_eq ord_sym); exact Hk|].
    split; [exact Hdq|].
    split; [rewrite <- (frag_var_rename s idf idf' ord ord' idf_eq ord_eq); exact Hq | apply spell_rename].
  Qed.
End FixedRename.

(* the bond-order function of a renumbered well-formed molecule is symmetric *)
Lemma bond_of_rename_inv (s : Z -> Z) g u v b : (forall x y, s x = s y -> x = y) ->
  bond_of (rename_mol s g) u v = Some b -> exists x y, u = s x /\ v = s y.
Proof.
  intros Hinj H. unfold bond_of in H.
  assert (Hu : exists x, u = s x).
  { unfold nbrs, rename_mol in H. cbn [m_adj] in H. destruct (zget _ u) eqn:Eu; [|discriminate].
    apply (zget_rename_inv s (fun l : list (Z * bond) => map (fun mb => (s (fst mb), snd mb)) l)) in Eu. exact Eu. }
  destruct Hu as [x ->]. rewrite (nbrs_rename s Hinj) in H. apply zget_In in H. apply in_map_iff in H.
  destruct H as [[m bb] [E _]]. inversion E. eauto.
Qed.

Lemma bond_order_rename_sym (s : Z -> Z) : (forall x y, s x = s y -> x = y) -> forall g, wf_mol g = true ->
  forall u v, bond_order (rename_mol s g) u v = bond_order (rename_mol s g) v u.
Proof.
  intros Hinj g Hwf u v. pose proof (bond_order_sym g Hwf) as Hsym.
  destruct (bond_of (rename_mol s g) u v) as [b|] eqn:E1.
  - destruct (bond_of_rename_inv s g u v b Hinj E1) as [x [y [-> ->]]].
    rewrite !(bond_order_rename s Hinj). apply Hsym.
  - destruct (bond_of (rename_mol s g) v u) as [b'|] eqn:E2.
    + destruct (bond_of_rename_inv s g v u b' Hinj E2) as [y [x [-> ->]]].
      rewrite !(bond_order_rename s Hinj). apply Hsym.
    + unfold bond_order. rewrite E1, E2. reflexivity.
Qed.

Lemma key_count_set_perm idf ord chs chs' k : Permutation chs chs' -> key_count idf ord chs k = key_count idf ord chs' k.
Proof. apply key_count_perm. Qed.

(* the fix satisfies the property the current code violates: for every renumbering, every spelling functions that agree on
   corresponding atoms and bonds, and EVERY iteration order of the two chain sets, the dictionaries hold the same sets *)
Theorem linear_hash_smiles_fixed_numbering_independent : lhs_numbering_independent linear_hash_smiles_fixed_with.
Proof.
  intros fa fa' fb fb' h s g lo hi nbp chs chs' Hinj Hwf Hfa Hfb HP HP' k str.
  unfold linear_hash_smiles_fixed_with.
  assert (Hsym : forall x y, bond_order g x y = bond_order g y x) by (apply bond_order_sym; exact Hwf).
  pose proof (bond_order_rename_sym s Hinj g Hwf) as Hsym'.
  rewrite (fixed_get _ _ Hsym), (fixed_get _ _ Hsym').
  assert (Hcount : forall k0, key_count (ident (atom_identifiers g)) (bond_order g) chs k0 =
                              key_count (ident (atom_identifiers (rename_mol s g))) (bond_order (rename_mol s g)) chs' k0).
  { intro k0. rewrite (key_count_perm _ _ _ _ k0 HP), (key_count_perm _ _ _ _ k0 HP'). unfold key_count.
    apply Permutation_length, Permutation_filter. apply fragments_equivariant; assumption. }
  split; intros [k0 [c (Hx & Hc & Hs)]]; exists k0, c; (split; [exact Hx|]).
  - split; [rewrite <- Hcount; exact Hc|].
    apply (key_spellings_perm _ _ _ _ (chains (rename_mol s g) lo hi) chs');
      [intro p; split; apply Permutation_in; [apply Permutation_sym|]; exact HP'|].
    apply (key_spellings_rename_fwd s Hinj fa fa' fb fb' Hfa Hfb g Hwf lo hi).
    apply (key_spellings_perm _ _ _ _ chs (chains g lo hi)); [intro p; split; apply Permutation_in; [|apply Permutation_sym]; exact HP|].
    exact Hs.
  - split; [rewrite Hcount; exact Hc|].
    apply (key_spellings_perm _ _ _ _ (chains g lo hi) chs); [intro p; split; apply Permutation_in; [apply Permutation_sym|]; exact HP|].
    apply (key_spellings_rename_bwd s Hinj fa fa' fb fb' Hfa Hfb g Hwf lo hi).
    apply (key_spellings_perm _ _ _ _ chs' (chains (rename_mol s g) lo hi));
      [intro p; split; apply Permutation_in; [|apply Permutation_sym]; exact HP'|].
    exact Hs.
Qed.

(* and it does not depend on the iteration order of the chain set *)
Theorem linear_hash_smiles_fixed_order_independent (fa : Z -> string) (fb : Z -> Z -> string) (h : list Z -> Z) g nbp chs chs' :
  wf_mol g = true -> Permutation chs chs' -> forall k str,
  In str (sget (linear_hash_smiles_fixed_with fa fb h (atom_identifiers g) g chs nbp) k) <->
  In str (sget (linear_hash_smiles_fixed_with fa fb h (atom_identifiers g) g chs' nbp) k).
Proof.
  intros Hwf HP k str. unfold linear_hash_smiles_fixed_with.
  assert (Hsym : forall x y, bond_order g x y = bond_order g y x) by (apply bond_order_sym; exact Hwf).
  rewrite !(fixed_get _ _ Hsym).
  split; intros [k0 [c (Hx & Hc & Hs)]]; exists k0, c; (split; [exact Hx|]).
  - split; [rewrite <- (key_count_perm _ _ _ _ k0 HP); exact Hc|].
    apply (key_spellings_perm _ _ _ _ chs chs'); [intro p; split; apply Permutation_in; [|apply Permutation_sym]; exact HP | exact Hs].
  - split; [rewrite (key_count_perm _ _ _ _ k0 HP); exact Hc|].
    apply (key_spellings_perm _ _ _ _ chs' chs); [intro p; split; apply Permutation_in; [apply Permutation_sym|]; exact HP | exact Hs].
Qed.

(* non-vacuity: on the witness of the refutation the fix attaches both spellings to the O- hashes under both numberings *)
Lemma witness_fixed_values :
  linear_hash_smiles_fixed_with w_fa w_fb hash_ztuple (atom_identifiers w_mol) w_mol w_chs 4 =
    [(4844287390989025609, ["C"%string]); (8876755388055710236, ["[O-]"%string; "[OH-]"%string]);
     (-3062347929551842955, ["[O-]"%string; "[OH-]"%string])] /\
  linear_hash_smiles_fixed_with w_fa' w_fb hash_ztuple (atom_identifiers (rename_mol w_swap w_mol)) (rename_mol w_swap w_mol) w_chs 4 =
    [(4844287390989025609, ["C"%string]); (8876755388055710236, ["[OH-]"%string; "[O-]"%string]);
     (-3062347929551842955, ["[OH-]"%string; "[O-]"%string])].
Proof. split; vm_compute; reflexivity. Qed.
