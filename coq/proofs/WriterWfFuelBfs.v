(* C02, fuel sufficiency, part 4: the BFS that labels the component with distances from the start atom empties its queue within
   n_atoms + 1 iterations: more fuel never changes the result. *)
From Coq Require Import ZArith List Bool Lia Permutation.
From Model Require Import PyBase Graph Writer.
From Proofs Require Import WriterProofsClosures WriterWfAtoms WriterWfStream WriterWfDfs WriterWfTree WriterWfComplete WriterWfDistinct WriterWfRun.
Import ListNotations.
Open Scope Z_scope.

Lemma zhas_app_map (seen : list (Z * Z)) d fresh x :
  zhas (seen ++ map (fun m => (m, d)) fresh) x = zhas seen x || zmem x fresh.
Proof.
  unfold zhas. induction seen as [|[a v] s IH]; cbn [app zget].
  - induction fresh as [|f fr IHf]; cbn [map zget zmem existsb]; [reflexivity|].
    destruct (x =? f); [reflexivity | exact IHf].
  - destruct (x =? a); [reflexivity | exact IH].
Qed.

Section Bfs.
  Variable g : mol.
  Variable U : list Z.
  Hypothesis HU : NoDup U.
  Hypothesis Hcl : forall n m, In n U -> In m (nbr_ids g n) -> In m U.
  Hypothesis Hnn : nbr_nodup g.

  Definition unseen (seen : list (Z * Z)) : list Z := filter (fun v => negb (zhas seen v)) U.

  Lemma bfs_stable : forall fuel queue seen, (forall nd, In nd queue -> In (fst nd) U) ->
    (List.length queue + List.length (unseen seen) < fuel)%nat ->
    forall k, bfs g (fuel + k) queue seen = bfs g fuel queue seen.
  Proof.
    induction fuel as [|fuel IH]; intros queue seen Hq Hm k; [lia|]. cbn [Nat.add bfs].
    destruct queue as [|[n d] q]; [reflexivity|].
    set (fresh := filter (fun m => negb (zhas seen m)) (nbr_ids g n)).
    apply IH.
    - intros nd Hin. apply in_app_or in Hin. destruct Hin as [Hin | Hin]; [apply Hq; right; exact Hin|].
      apply in_map_iff in Hin. destruct Hin as [m [<- Hm0]]. cbn [fst]. unfold fresh in Hm0. apply filter_In in Hm0.
      apply (Hcl n m); [apply (Hq (n, d)); left; reflexivity | apply Hm0].
    - rewrite app_length, map_length. cbn [List.length] in Hm.
      assert (Hc : (List.length fresh + List.length (unseen (seen ++ map (fun m => (m, d)) fresh)) <= List.length (unseen seen))%nat).
      { rewrite <- app_length. apply NoDup_incl_length.
        - apply NoDup_app_intro; [apply NoDup_filter; apply Hnn | apply NoDup_filter; exact HU |].
          intros x H1 H2. unfold unseen in H2. apply filter_In in H2. destruct H2 as [_ H2]. rewrite zhas_app_map in H2.
          apply negb_true_iff in H2. apply orb_false_iff in H2. destruct H2 as [_ H2]. apply zmem_In in H1. congruence.
        - intros x Hx. apply in_app_or in Hx. unfold unseen. apply filter_In. destruct Hx as [Hx | Hx].
          + unfold fresh in Hx. apply filter_In in Hx. split; [apply (Hcl n x); [apply (Hq (n, d)); left; reflexivity | apply Hx] | apply Hx].
          + unfold unseen in Hx. apply filter_In in Hx. destruct Hx as [A B]. split; [exact A|]. rewrite zhas_app_map in B.
            apply negb_true_iff in B. apply orb_false_iff in B. apply negb_true_iff. apply B. }
      lia.
  Qed.
End Bfs.

(* in traverse: the fuel n_atoms + 1 is enough, whatever the state of the run *)
Theorem bfs_fuel_sufficient : forall g st start k, wf_mol g = true -> RI g st -> In start (ws_atoms st) ->
  bfs g (S (n_atoms g) + k) [(start, 1)] (zset (ws_seen st) start 0) = bfs g (S (n_atoms g)) [(start, 1)] (zset (ws_seen st) start 0).
Proof.
  intros g st start k Hwf R Hs. destruct (wf_mol_ids g Hwf) as [Hnd Hcl0].
  apply (bfs_stable g (ids g) Hnd Hcl0 (wf_mol_nbr_nodup g Hwf)).
  - intros nd [<- | []]. cbn [fst]. apply (Permutation_in _ (ri_perm _ _ R)). apply in_or_app. left. exact Hs.
  - cbn [List.length].
    assert (Hin : In start (ids g)) by (apply (Permutation_in _ (ri_perm _ _ R)); apply in_or_app; left; exact Hs).
    assert (Hl : (S (List.length (unseen (ids g) (zset (ws_seen st) start 0%Z))) <= List.length (ids g))%nat).
    { change (S (List.length (unseen (ids g) (zset (ws_seen st) start 0%Z)))) with (List.length (start :: unseen (ids g) (zset (ws_seen st) start 0%Z))).
      apply NoDup_incl_length.
      - constructor; [|apply NoDup_filter; exact Hnd]. intros H. unfold unseen in H. apply filter_In in H. destruct H as [_ H].
        apply negb_true_iff in H. unfold zhas in H.
        assert (Hz : forall (d : list (Z * Z)) v, zget (Writer.zset d start v) start = Some v).
        { induction d as [|[a x] d IHd]; intros v; cbn [Writer.zset zget]; [rewrite Z.eqb_refl; reflexivity|].
          destruct (start =? a) eqn:E; cbn [zget]; rewrite E; [reflexivity | apply IHd]. }
        rewrite Hz in H. discriminate.
      - intros x [<- | Hx]; [exact Hin | unfold unseen in Hx; apply filter_In in Hx; apply Hx]. }
    unfold n_atoms. lia.
Qed.
