(* C01, extension: strings WITH atom stereo marks under ANY renumbering and ANY insertion order.  The stereo signs stored in a
   molecule are relative to the insertion order of the neighbours, so the re-inserted molecule g' carries OTHER signs and other
   registries than the renamed ones: g and g' agree after the stereo fields are erased ([strip]), and "the same stereoisomer" is
   the hypothesis that the atom marks computed from (g, tabs) and (g', tabs') agree for every neighbour table.  For a tetrahedron
   with four distinct neighbours that hypothesis follows from the parity law of C12 (section 3). *)
From Coq Require Import ZArith List String Bool Lia Permutation.
From Model Require Import PyBase PyHash Graph Morgan Stereo Writer.
From Proofs Require Import MorganProofs WriterInvProofs BfsExt BfsExt2 TraverseOrderExt InsertionOrderExt InsertionOrderExt2.
Import ListNotations.
Open Scope Z_scope.

(* ---- erasing the stereo fields ---- *)
Definition strip_atom (a : atom) : atom := mkAtom (a_num a) (a_iso a) (a_chg a) (a_rad a) (a_h a) None.
Definition strip_bond (b : bond) : bond := mkBond (b_ord b) None.
Definition strip (g : mol) : mol :=
  mkMol (map (fun na => (fst na, strip_atom (snd na))) (m_atoms g))
        (map (fun nl => (fst nl, map (fun mb => (fst mb, strip_bond (snd mb))) (snd nl))) (m_adj g)).

Lemma zget_map_val {V W} (f : V -> W) (d : list (Z * V)) k : zget (map (fun kv => (fst kv, f (snd kv))) d) k = option_map f (zget d k).
Proof. induction d as [|[k' v] d IH]; cbn; [reflexivity|]. destruct (k =? k'); [reflexivity | exact IH]. Qed.

Lemma ids_strip g : ids (strip g) = ids g.
Proof. unfold ids, strip, keys. cbn [m_atoms]. rewrite map_map. reflexivity. Qed.
Lemma nbrs_strip g n : nbrs (strip g) n = map (fun mb => (fst mb, strip_bond (snd mb))) (nbrs g n).
Proof.
  unfold nbrs, strip. cbn [m_adj]. rewrite (zget_map_val (fun r : list (Z * bond) => map (fun mb => (fst mb, strip_bond (snd mb))) r)).
  destruct (zget (m_adj g) n); reflexivity.
Qed.
Lemma nbr_ids_strip g n : nbr_ids (strip g) n = nbr_ids g n.
Proof. unfold nbr_ids. rewrite nbrs_strip. unfold keys. rewrite map_map. reflexivity. Qed.
Lemma atom_of_strip g n : atom_of (strip g) n = option_map strip_atom (atom_of g n).
Proof. unfold atom_of, strip. cbn [m_atoms]. apply zget_map_val. Qed.
Lemma bond_of_strip g n m : bond_of (strip g) n m = option_map strip_bond (bond_of g n m).
Proof. unfold bond_of. rewrite nbrs_strip. apply zget_map_val. Qed.
Lemma bond_ord_to_strip g p x : bond_ord_to (strip g) p x = bond_ord_to g p x.
Proof. unfold bond_ord_to. rewrite bond_of_strip. destruct (bond_of g p x); reflexivity. Qed.
Lemma n_atoms_strip g : n_atoms (strip g) = n_atoms g.
Proof. unfold n_atoms. rewrite ids_strip. reflexivity. Qed.
Lemma n_dbonds_strip g : n_dbonds (strip g) = n_dbonds g.
Proof.
  unfold n_dbonds, strip. cbn [m_adj]. induction (m_adj g) as [|[n r] adj IH]; cbn; [reflexivity|]. rewrite !app_length, map_length, IH. reflexivity.
Qed.
Lemma hybridization_strip g n : hybridization (strip g) n = hybridization g n.
Proof. unfold hybridization. rewrite nbrs_strip. generalize 1. induction (nbrs g n) as [|mb l IH]; intros h; cbn; [reflexivity | apply IH]. Qed.
Lemma no_plain_strip g n : no_plain_neighbours (strip g) n = no_plain_neighbours g n.
Proof. unfold no_plain_neighbours. rewrite nbrs_strip. induction (nbrs g n) as [|mb l IH]; cbn; [reflexivity|]. rewrite IH. reflexivity. Qed.

(* the traversal only looks at the constitution *)
Lemma bfs_strip g fuel : forall q seen, bfs (strip g) fuel q seen = bfs g fuel q seen.
Proof. induction fuel as [|fuel IH]; intros q seen; cbn [bfs]; [reflexivity|]. destruct q as [|[n d] q]; [reflexivity|]. rewrite nbr_ids_strip. apply IH. Qed.
Lemma key_child_at_strip g w tb o all seen p x : key_child_at (strip g) w tb o all seen p x = key_child_at g w tb o all seen p x.
Proof. unfold key_child_at. rewrite bond_ord_to_strip. reflexivity. Qed.
Lemma dfs_step_strip g key st : dfs_step (strip g) key st = dfs_step g key st.
Proof. unfold dfs_step. destruct (ds_stack st) as [|[[p d] [|c cs]] rest]; try reflexivity. rewrite nbr_ids_strip. reflexivity. Qed.
Lemma iter_opt_ext {S} (f f' : S -> option S) : (forall x, f x = f' x) -> forall fuel x, iter_opt fuel f x = iter_opt fuel f' x.
Proof. intros H fuel. induction fuel as [|fuel IH]; intros x; cbn; [reflexivity|]. rewrite H. destruct (f' x); [apply IH | reflexivity]. Qed.

Lemma traverse_strip g w tb o all st : traverse (strip g) w tb o all st = traverse g w tb o all st.
Proof.
  unfold traverse. destruct (min_by (key_start w tb o all) (ws_atoms st)) as [start|]; [|reflexivity].
  rewrite n_atoms_strip, bfs_strip, nbr_ids_strip. unfold dfs_fuel. rewrite n_atoms_strip, n_dbonds_strip.
  set (seen := if o_random o then ws_seen st else bfs g (S (n_atoms g)) [(start, 1)] (zset (ws_seen st) start 0)).
  rewrite (sort_by_key_eq (key_child_at (strip g) w tb o all seen start) (key_child_at g w tb o all seen start))
    by (intros x; apply key_child_at_strip).
  rewrite (iter_opt_ext (dfs_step (strip g) (key_child_at (strip g) w tb o all seen)) (dfs_step g (key_child_at g w tb o all seen))).
  - reflexivity.
  - intros x. rewrite dfs_step_strip. unfold dfs_step. destruct (ds_stack x) as [|[[p d] [|c cs]] rest]; try reflexivity.
    destruct (negb (zhas (ds_visited x) c)); [|reflexivity]. destruct (1 <? d); [|reflexivity].
    destruct (filter (fun m => negb (m =? p)) (nbr_ids g c)) as [|f0 fr]; [reflexivity|].
    rewrite (sort_by_key_eq (key_child_at (strip g) w tb o all seen c) (key_child_at g w tb o all seen c)) by (intros y; apply key_child_at_strip).
    reflexivity.
Qed.

Lemma flatten_strip g t : flatten (strip g) t = flatten g t.
Proof. unfold flatten, fl_fuel. rewrite n_atoms_strip. reflexivity. Qed.

Lemma closed_under_strip g S : closed_under (strip g) S <-> closed_under g S.
Proof. unfold closed_under. split; intros H y Hy; specialize (H y Hy); rewrite nbr_ids_strip in *; exact H. Qed.

Section AtomStereo.
  Variable g g' : mol.
  Variable s w w' tb tb' : Z -> Z.
  Variable o : opts.
  Variable tabs tabs' : stabs.
  Let gs := strip g.
  Let gs' := strip g'.
  Hypothesis Hwf : wf_mol (strip g) = true.
  Hypothesis Hwf' : wf_mol (strip g') = true.
  Hypothesis s_inj : forall x y, s x = s y -> x = y.
  Hypothesis Hp : mol_perm (ren_mol s (strip g)) (strip g').
  Hypothesis w_inj : inj_on (ids g) w.
  Hypothesis w_ren : forall n, In n (ids g) -> w' (s n) = w n.
  Hypothesis Hmp : o_mapping o = false.
  (* the same stereoisomer: the atom marks of the two labelled molecules agree for every neighbour table *)
  Hypothesis Hsm : forall n a a' adj, atom_of g n = Some a -> atom_of g' (s n) = Some a' ->
    stereo_mark g' o tabs' (s n) (ren_vis s adj) a' = stereo_mark g o tabs n adj a.
  (* no cis / trans labels *)
  Hypothesis Hnb : stereo_bond_atoms g = [].
  Hypothesis Hnb' : stereo_bond_atoms g' = [].

  Lemma w_inj_s : inj_on (ids (strip g)) w.
  Proof. rewrite ids_strip. exact w_inj. Qed.
  Lemma w_ren_s n : In n (ids (strip g)) -> w' (s n) = w n.
  Proof. rewrite ids_strip. apply w_ren. Qed.

  Lemma atoms_agree n : option_map strip_atom (atom_of g' (s n)) = option_map strip_atom (atom_of g n).
  Proof. rewrite <- !atom_of_strip. apply (atom_of_perm (strip g) (strip g') s Hwf s_inj Hp). Qed.

  Lemma format_atom_stereo_perm visited n : format_atom g' o tabs' (s n) (ren_vis s visited) = format_atom g o tabs n visited.
  Proof.
    unfold format_atom, atom_fields. pose proof (atoms_agree n) as Ha.
    destruct (atom_of g' (s n)) as [a'|] eqn:E'; destruct (atom_of g n) as [a|] eqn:E; cbn [option_map] in Ha; try discriminate; [|reflexivity].
    injection Ha as H1 H2 H3 H4 H5. rewrite H1, H2, H3, H4, H5, (Hsm n a a' visited E E'), Hmp.
    rewrite <- (hybridization_strip g' (s n)), <- (hybridization_strip g n), (hybridization_perm (strip g) (strip g') s Hwf s_inj Hp n).
    rewrite <- (no_plain_strip g' (s n)), <- (no_plain_strip g n), (no_plain_perm (strip g) (strip g') s Hwf s_inj Hp n).
    reflexivity.
  Qed.

  Lemma ct_map_none (g0 : mol) tabs0 adj : stereo_bond_atoms g0 = [] -> ct_map g0 tabs0 adj = Ok [].
  Proof. intros H. unfold ct_map. rewrite H. reflexivity. Qed.

  Lemma format_bond_stereo_perm visited n m :
    format_bond g' o (ct_map g' tabs' (ren_vis s visited)) (s n) (s m) = format_bond g o (ct_map g tabs visited) n m.
  Proof.
    rewrite (ct_map_none g' tabs' _ Hnb'), (ct_map_none g tabs _ Hnb). unfold format_bond.
    pose proof (bond_of_perm (strip g) (strip g') s Hwf s_inj Hp n m) as Hb. rewrite !bond_of_strip in Hb.
    rewrite <- (hybridization_strip g' (s n)), <- (hybridization_strip g' (s m)), <- (hybridization_strip g n), <- (hybridization_strip g m),
      !(hybridization_perm (strip g) (strip g') s Hwf s_inj Hp).
    destruct (bond_of g' (s n) (s m)) as [b'|]; destruct (bond_of g n m) as [b|]; cbn [option_map] in Hb; try discriminate; [|reflexivity].
    injection Hb as ->. reflexivity.
  Qed.

  Lemma format_cxsmiles_strip g0 ord : format_cxsmiles (strip g0) ord = format_cxsmiles g0 ord.
  Proof.
    unfold format_cxsmiles.
    assert (forall i, radical_positions (strip g0) ord i = radical_positions g0 ord i) as ->.
    { induction ord as [|m r IH]; intros i; cbn [radical_positions]; [reflexivity|]. rewrite atom_of_strip, !IH.
      destruct (atom_of g0 m); reflexivity. }
    replace (existsb (fun na => a_rad (snd na)) (m_atoms (strip g0))) with (existsb (fun na => a_rad (snd na)) (m_atoms g0)); [reflexivity|].
    unfold strip. cbn [m_atoms]. induction (m_atoms g0) as [|[k a] l IH]; cbn; [reflexivity|]. rewrite IH. reflexivity.
  Qed.

  Theorem component_stereo_perm st st' : incl (ws_atoms st) (ids g) -> wstate_relp (strip g) (strip g') s st st' ->
    wres_relp (strip g) (strip g') s (component g w tb o tabs (ids g) st) (component g' w' tb' o tabs' (ids g') st').
  Proof.
    intros Hi [[Hpa [Hcy [Hca [Hhe [Hout [Hord Hvb]]]]]] [Hrel [Ca Cb]]]. unfold component.
    assert (incl (ws_atoms st) (ids (strip g))) as Hi' by (rewrite ids_strip; exact Hi).
    pose proof (traverse_perm (strip g) (strip g') s w w' tb tb' o Hwf Hwf' s_inj Hp w_inj_s w_ren_s st st' Hi' Hpa Hcy Hrel Ca Cb) as Ht.
    rewrite !traverse_strip, !ids_strip in Ht.
    destruct (traverse g w tb o (ids g) st) as [t|e]; destruct (traverse g' w' tb' o (ids g') st') as [t'|e'];
      cbn [trav_rel2] in Ht; try contradiction; [|subst e'; reflexivity].
    destruct Ht as [H1 [H2 [H3 [H4 H5]]]].
    assert (flatten g' t' = ren_toks s (flatten g t)) as ->.
    { rewrite <- (flatten_strip g'), <- (flatten_strip g). unfold flatten, fl_fuel.
      rewrite (n_atoms_g' (strip g) (strip g') s Hp), H1, H2. unfold ren_dfs. cbn [ds_edges].
      apply (fl_run_ren s s_inj _ (ds_edges (tr_dfs t)) [(tr_start t, 0, [TAtom (tr_start t)])]). }
    destruct (flatten g t) as [smi|e]; cbn [ren_toks wres_relp]; [|reflexivity].
    rewrite H2. unfold ren_dfs. cbn [ds_tokens ds_edges ds_visited ds_cycle].
    rewrite (ring_positions_ren s s_inj), Hca, Hhe, (number_atoms_ren s s_inj).
    destruct (number_atoms (ds_tokens (tr_dfs t)) _ _ (ws_casted st) (ws_heap st)) as [[casted heap]|e]; cbn [wres_relp]; [|reflexivity].
    rewrite (order_neighbours_ren s s_inj).
    destruct (order_neighbours smi casted (ds_edges (tr_dfs t)) (ds_tokens (tr_dfs t)) (ds_visited (tr_dfs t))) as [tokens visited] eqn:E.
    cbn [fst snd]. rewrite Hvb.
    rewrite (emit_ren s s_inj o (format_bond g o (ct_map g tabs visited)) (format_bond g' o (ct_map g' tabs' (ren_vis s visited)))
                      (fun n => format_atom g o tabs n visited) (fun n => format_atom g' o tabs' n (ren_vis s visited)))
      by (intros; first [apply format_atom_stereo_perm | apply format_bond_stereo_perm]).
    destruct (emit o _ _ smi tokens casted (ws_vb st)) as [[[out ord] vb]|e]; cbn [ren_emit wres_relp]; [|reflexivity].
    assert (Permutation (map s (filter (fun n => negb (zhas visited n)) (ws_atoms st)))
                        (filter (fun n => negb (zhas (ren_vis s visited) n)) (ws_atoms st'))) as Hrest.
    { rewrite <- (filter_not_visited s s_inj). apply filter_perm. exact Hpa. }
    unfold wstate_relp, wstate_rel0. cbn [ws_atoms ws_seen ws_cycle ws_casted ws_heap ws_out ws_order ws_vb].
    repeat split; try reflexivity; try assumption.
    - rewrite Hout, !map_app. f_equal. f_equal.
      destruct (filter (fun n => negb (zhas visited n)) (ws_atoms st)) as [|r0 rr];
        destruct (filter (fun n => negb (zhas (ren_vis s visited) n)) (ws_atoms st')) as [|q0 qq]; try reflexivity.
      + apply Permutation_nil in Hrest. discriminate.
      + apply Permutation_sym, Permutation_nil in Hrest. discriminate.
    - rewrite Hord, map_app. reflexivity.
  Qed.

  Lemma component_atoms_incl2 st st2 : component g w tb o tabs (ids g) st = Ok st2 -> incl (ws_atoms st2) (ws_atoms st).
  Proof.
    unfold component. destruct (traverse g w tb o (ids g) st) as [t|]; [|discriminate].
    destruct (flatten g t) as [smi|]; [|discriminate].
    destruct (number_atoms _ _ _ _ _) as [[casted heap]|]; [|discriminate].
    destruct (order_neighbours _ _ _ _ _) as [tokens visited].
    destruct (emit _ _ _ _ _ _ _) as [[[out ord] vb]|]; [|discriminate].
    intros [= <-]. cbn [ws_atoms]. intros x Hx. apply filter_In in Hx. apply Hx.
  Qed.

  Lemma components_stereo_perm fuel : forall st st', incl (ws_atoms st) (ids g) -> wstate_relp (strip g) (strip g') s st st' ->
    wres_relp (strip g) (strip g') s (components g w tb o tabs fuel (ids g) st) (components g' w' tb' o tabs' fuel (ids g') st').
  Proof.
    induction fuel as [|fuel IH]; intros st st' Hi Hrel; cbn [components]; [reflexivity|].
    pose proof (component_stereo_perm st st' Hi Hrel) as Hc.
    destruct (component g w tb o tabs (ids g) st) as [a|e] eqn:Ea;
      destruct (component g' w' tb' o tabs' (ids g') st') as [b|e'] eqn:Eb; cbn [wres_relp] in Hc; try contradiction.
    - pose proof Hc as [[Hpa _] _].
      destruct (ws_atoms a) as [|a0 ar] eqn:Eaa; destruct (ws_atoms b) as [|b0 br] eqn:Ebb.
      + exact Hc.
      + apply Permutation_nil in Hpa. discriminate.
      + apply Permutation_sym, Permutation_nil in Hpa. discriminate.
      + apply IH; [|exact Hc]. intros x Hx. apply Hi. apply (component_atoms_incl2 st a Ea). exact Hx.
    - exact Hc.
  Qed.

  (* the string with tetrahedral / allene marks under any renumbering and insertion order *)
  Theorem smiles_text_atom_stereo_perm : smiles_text g' w' tb' o tabs' = map_order s (smiles_text g w tb o tabs).
  Proof.
    pose proof (ids_perm_g' (strip g) (strip g') s Hp) as Hids. rewrite !ids_strip in Hids.
    assert (wstate_relp (strip g) (strip g') s (init_state g) (init_state g')) as Hrel.
    { unfold init_state, wstate_relp, wstate_rel0. cbn [ws_atoms ws_seen ws_cycle ws_casted ws_heap ws_out ws_order ws_vb].
      repeat split; try reflexivity; try (intros y []). exact Hids. }
    pose proof (components_stereo_perm (S (n_atoms g)) (init_state g) (init_state g') (incl_refl _) Hrel) as Hc.
    unfold smiles_text, smiles_tokens.
    replace (n_atoms g') with (n_atoms g) by (rewrite <- (n_atoms_strip g'), <- (n_atoms_strip g); symmetry; apply (n_atoms_g' (strip g) (strip g') s Hp)).
    destruct (components g w tb o tabs (S (n_atoms g)) (ids g) (init_state g)) as [a|e];
      destruct (components g' w' tb' o tabs' (S (n_atoms g)) (ids g') (init_state g')) as [b|e']; cbn [wres_relp] in Hc; try contradiction.
    - destruct Hc as [[_ [_ [_ [_ [Hout [Hord _]]]]]] _].
      destruct (ids g) as [|i0 ir]; destruct (ids g') as [|j0 jr]; cbn [map] in Hids.
      + reflexivity.
      + apply Permutation_nil in Hids. discriminate.
      + apply Permutation_sym, Permutation_nil in Hids. discriminate.
      + rewrite Hout, Hord, spell_ren, <- (format_cxsmiles_strip g'), (format_cxsmiles_perm (strip g) (strip g') s Hwf s_inj Hp), format_cxsmiles_strip.
        destruct (o_cx o); [destruct (format_cxsmiles g (ws_order a))|]; reflexivity.
    - subst e'. destruct (ids g) as [|i0 ir]; destruct (ids g') as [|j0 jr]; cbn [map] in Hids; try reflexivity.
      + apply Permutation_nil in Hids. discriminate.
      + apply Permutation_sym, Permutation_nil in Hids. discriminate.
  Qed.
End AtomStereo.

(* ==================================================================================================== *)
(* 3. the hypothesis [Hsm] from the parity law of C12, for a tetrahedron with four listed neighbours: when the registry of the
      re-inserted molecule lists the (renamed) neighbours in the order `sel order q` and the stored sign is the old sign xor the
      parity of q, every neighbour arrangement gets the same sign *)
From Proofs Require Import StereoProofs WriterStereoExt.

Lemma index_from_spec x l : forall k i, index_from x l k = Some i -> k <= i < k + Z.of_nat (List.length l) /\ znth l (i - k) 0 = x.
Proof.
  induction l as [|y l IH]; intros k i H; cbn [index_from] in H; [discriminate|].
  destruct (Z.eqb_spec x y) as [->|Hne].
  - injection H as <-. cbn [List.length]. split; [lia|]. replace (k - k) with 0 by lia. reflexivity.
  - destruct (IH (k + 1) i H) as [Hr Hz]. cbn [List.length]. split; [lia|].
    rewrite znth_cons by lia. replace (i - k - 1) with (i - (k + 1)) by lia. exact Hz.
Qed.
Lemma index_from_none x l : forall k, index_from x l k = None -> ~ In x l.
Proof.
  induction l as [|y l IH]; intros k H; [intros []|]. cbn [index_from] in H. destruct (Z.eqb_spec x y) as [->|Hne]; [discriminate|].
  intros [E|Hi]; [congruence | exact (IH (k + 1) H Hi)].
Qed.
Lemma index_from_map_inj (f : Z -> Z) (D : list Z) q i : (forall a b, In a D -> In b D -> f a = f b -> a = b) -> incl q D -> In i D ->
  forall k, index_from (f i) (map f q) k = index_from i q k.
Proof.
  intros Hf Hq Hi. induction q as [|y q IH]; intros k; cbn [map index_from]; [reflexivity|].
  assert (In y D) as Hy by (apply Hq; left; reflexivity).
  destruct (Z.eqb_spec i y) as [->|Hne]; [rewrite Z.eqb_refl; reflexivity|].
  destruct (Z.eqb_spec (f i) (f y)) as [E|_]; [exfalso; apply Hne; apply Hf; assumption|].
  apply IH. intros z Hz. apply Hq. right. exact Hz.
Qed.

Definition range4 : list Z := [0; 1; 2; 3].
Definition lookup_xor (sg : bool) (r : option bool) : pyres bool :=
  match r with Some true => Ok (negb sg) | Some false => Ok sg | None => Err KeyError end.

(* finite fact about the generated table: re-indexing a triple through a permutation q flips the table entry by the parity of q *)
Definition th_reindex_ok : bool :=
  forallb (fun q => forallb (fun i => forallb (fun j => forallb (fun k =>
    match index_of q i, index_of q j, index_of q k with
    | Some i', Some j', Some k' =>
        match th_lookup i' j' k', th_lookup i j k with
        | Some b', Some b => Bool.eqb b' (xorb b (odd_perm q))
        | None, None => true
        | _, _ => false
        end
    | _, _, _ => false
    end) range4) range4) range4) perms4.
Lemma th_reindex_ok_true : th_reindex_ok = true.
Proof. vm_compute. reflexivity. Qed.

Lemma th_reindex q i j k sg : In q perms4 -> In i range4 -> In j range4 -> In k range4 ->
  exists i' j' k', index_of q i = Some i' /\ index_of q j = Some j' /\ index_of q k = Some k' /\
    lookup_xor (xorb sg (odd_perm q)) (th_lookup i' j' k') = lookup_xor sg (th_lookup i j k).
Proof.
  intros Hq Hi Hj Hk. pose proof th_reindex_ok_true as H. unfold th_reindex_ok in H.
  rewrite forallb_forall in H. specialize (H q Hq). rewrite forallb_forall in H. specialize (H i Hi).
  rewrite forallb_forall in H. specialize (H j Hj). rewrite forallb_forall in H. specialize (H k Hk).
  destruct (index_of q i) as [i'|]; [|discriminate]. destruct (index_of q j) as [j'|]; [|discriminate].
  destruct (index_of q k) as [k'|]; [|discriminate]. exists i', j', k'. repeat split.
  destruct (th_lookup i' j' k') as [b'|]; destruct (th_lookup i j k) as [b|]; try discriminate; [|reflexivity].
  apply eqb_prop in H. subst b'. destruct b, sg, (odd_perm q); reflexivity.
Qed.

Section Reorder.
  Variable isH : Z -> bool.
  Variable a b c d : Z.
  Hypothesis Hnd : NoDup [a; b; c; d].
  Let order := [a; b; c; d].

  Lemma in_range4 i : 0 <= i < 4 -> In i range4.
  Proof. intros H. unfold range4. assert (i = 0 \/ i = 1 \/ i = 2 \/ i = 3) as [->|[->|[->| ->]]] by lia; cbn; auto. Qed.

  Lemma znth_order_inj i j : In i range4 -> In j range4 -> znth order i 0 = znth order j 0 -> i = j.
  Proof.
    intros Hi Hj. unfold range4 in *. cbn in Hi, Hj. inversion Hnd as [|? ? H1 Hn1]; subst. inversion Hn1 as [|? ? H2 Hn2]; subst.
    inversion Hn2 as [|? ? H3 Hn3]; subst. cbn in H1, H2, H3.
    destruct Hi as [<-|[<-|[<-|[<-|[]]]]]; destruct Hj as [<-|[<-|[<-|[<-|[]]]]]; unfold order, znth; cbn; intros E; try reflexivity; exfalso; subst; intuition.
  Qed.

  (* index of an element in the re-ordered list *)
  Lemma index_of_sel_any q x : In q perms4 ->
    index_of (sel order q) x = match index_of order x with Some i => index_of q i | None => None end.
  Proof.
    intros Hq. destruct (perms4_range q Hq) as [_ Hr].
    destruct (index_of order x) as [i|] eqn:E.
    - unfold index_of in E. destruct (index_from_spec x order 0 i E) as [Hi Hz]. cbn [List.length order] in Hi.
      replace (i - 0) with i in Hz by lia. subst x. unfold sel, index_of.
      apply (index_from_map_inj (fun t => znth order t 0) range4 q i); [intros u v; apply znth_order_inj | | apply in_range4; cbn in Hi; lia].
      intros z Hz. apply in_range4. apply Hr. exact Hz.
    - unfold index_of in *. apply index_from_none in E.
      destruct (index_from x (sel order q) 0) as [i|] eqn:E2; [|reflexivity]. exfalso. apply E.
      destruct (index_from_spec x (sel order q) 0 i E2) as [Hi Hz]. subst x. replace (i - 0) with i by lia.
      assert (In (znth (sel order q) i 0) (sel order q)) as Hin by (apply znth_In; lia).
      unfold sel in Hin at 2. apply in_map_iff in Hin. destruct Hin as [t [<- Ht]]. apply znth_In. cbn. specialize (Hr t Ht). lia.
  Qed.

  (* the general re-ordering law: every arrangement (valid or not) gets the same result *)
  Theorem translate_th_reorder_any q env sg : In q perms4 ->
    translate_th isH (sel order q) env (xorb sg (odd_perm q)) = translate_th isH order env sg.
  Proof.
    intros Hq. destruct (perms4_range q Hq) as [Hlen Hr]. unfold translate_th.
    assert (List.length (sel order q) = 4%nat) as -> by (unfold sel; rewrite map_length; exact Hlen).
    cbn [List.length order]. change (Z.of_nat 4 =? 3) with false. cbv iota.
    destruct ((Z.of_nat (List.length env) =? 3) || (Z.of_nat (List.length env) =? 4)); [|reflexivity].
    assert (forall o' s', match map (index_of o') (firstn 3 env) with
                          | [Some x; Some y; Some z] => match th_lookup x y z with Some true => Ok (negb s') | Some false => Ok s' | None => Err KeyError end
                          | _ => Err ValueError end =
                          match map (index_of o') (firstn 3 env) with
                          | [Some x; Some y; Some z] => lookup_xor s' (th_lookup x y z)
                          | _ => Err ValueError end) as Hform by (intros; reflexivity).
    rewrite !Hform. clear Hform.
    destruct (firstn 3 env) as [|x [|y [|z [|t r]]]]; cbn [map]; try reflexivity;
      rewrite ?(index_of_sel_any q) by exact Hq.
    - destruct (index_of order x) as [i|]; repeat (match goal with |- context [index_of q ?u] => destruct (index_of q u) end); reflexivity.
    - destruct (index_of order x) as [i|]; destruct (index_of order y) as [j|];
        repeat (match goal with |- context [index_of q ?u] => destruct (index_of q u) end); reflexivity.
    - destruct (index_of order x) as [i|] eqn:Ex; [|reflexivity].
      destruct (index_of order y) as [j|] eqn:Ey; [|destruct (index_of q i); reflexivity].
      destruct (index_of order z) as [k|] eqn:Ez; [|destruct (index_of q i); [destruct (index_of q j)|]; reflexivity].
      assert (forall u v, index_of order u = Some v -> In v range4) as Hrg.
      { intros u v Hu. unfold index_of in Hu. destruct (index_from_spec u order 0 v Hu) as [Hv _]. apply in_range4. cbn in Hv. lia. }
      destruct (th_reindex q i j k sg Hq (Hrg x i Ex) (Hrg y j Ey) (Hrg z k Ez)) as [i' [j' [k' [-> [-> [-> H]]]]]]. exact H.
    - destruct (index_of order x) as [i|]; destruct (index_of order y) as [j|]; destruct (index_of order z) as [k|]; destruct (index_of order t) as [l|];
        repeat (match goal with |- context [index_of q ?u] => destruct (index_of q u) end); reflexivity.
  Qed.
End Reorder.

(* every labelled atom is a tetrahedron with four listed neighbours whose registry entry in g' lists the renamed neighbours in
   another order (sel order q) and whose stored sign was re-expressed by the parity of q (what add_atom_stereo does) *)
Definition stereo_atoms_reordered (g g' : mol) (s : Z -> Z) (tabs tabs' : stabs) : Prop :=
  forall n a a', atom_of g n = Some a -> atom_of g' (s n) = Some a' ->
    (a_stereo a = None /\ a_stereo a' = None) \/
    (exists sg aa bb cc dd q, a_stereo a = Some sg /\ zget (t_allene_term tabs) n = None /\ zget (t_allene_term tabs') (s n) = None /\
       zget (t_tetra tabs) n = Some [aa; bb; cc; dd] /\ NoDup [aa; bb; cc; dd] /\ In q perms4 /\
       zget (t_tetra tabs') (s n) = Some (map s (sel [aa; bb; cc; dd] q)) /\ a_stereo a' = Some (xorb sg (odd_perm q)) /\ a_h a' = a_h a).

Section TetrahedralMarks.
  Variable g g' : mol.
  Variable s : Z -> Z.
  Variable o : opts.
  Variable tabs tabs' : stabs.
  Hypothesis s_inj : forall x y, s x = s y -> x = y.
  Hypothesis HisH : forall x, is_H g' (s x) = is_H g x.
  Hypothesis Hre : stereo_atoms_reordered g g' s tabs tabs'.

  Lemma stereo_mark_reordered n a a' adj : atom_of g n = Some a -> atom_of g' (s n) = Some a' ->
    stereo_mark g' o tabs' (s n) (ren_vis s adj) a' = stereo_mark g o tabs n adj a.
  Proof.
    intros Ha Ha'. destruct (Hre n a a' Ha Ha') as [[H1 H2]|[sg [aa [bb [cc [dd [q [H1 [H2 [H3 [H4 [H5 [H6 [H7 [H8 H9]]]]]]]]]]]]]]].
    - unfold stereo_mark. rewrite H1, H2. reflexivity.
    - unfold stereo_mark. rewrite H1, H8. destruct (negb (o_stereo o)); [reflexivity|].
      rewrite H2, H3, H4, H7. unfold ren_vis at 1. rewrite (zget_renG s s_inj (map s)). fold (ren_vis s adj).
      destruct (zget adj n) as [env|]; cbn [option_map]; [|reflexivity].
      rewrite (translate_th_ren s s_inj (is_H g) (is_H g') HisH), (translate_th_reorder_any (is_H g) aa bb cc dd H5 q env sg H6).
      rewrite H9, (first_key_ren s s_inj). reflexivity.
  Qed.
End TetrahedralMarks.

(* DESIGN appendix A smiles_invariant_discrete with tetrahedral marks under ANY renumbering and ANY insertion order: the labels of
   the re-inserted molecule are the old labels re-expressed for the new neighbour orders by permutation parity.
   _partial: four listed neighbours (no implicit / explicit hydrogen on the centre), no allene and no cis/trans labels *)
Theorem smiles_invariant_discrete_tetrahedral_insertion_order (g g' : mol) (s w w' tb tb' : Z -> Z) (o : opts) (tabs tabs' : stabs) :
  wf_mol (strip g) = true -> wf_mol (strip g') = true -> (forall x y, s x = s y -> x = y) ->
  mol_perm (ren_mol s (strip g)) (strip g') -> inj_on (ids g) w -> (forall n, In n (ids g) -> w' (s n) = w n) -> o_mapping o = false ->
  stereo_atoms_reordered g g' s tabs tabs' -> stereo_bond_atoms g = [] -> stereo_bond_atoms g' = [] ->
  smiles_text g' w' tb' o tabs' = map_order s (smiles_text g w tb o tabs).
Proof.
  intros Hwf Hwf' Hs Hp Hw Hr Hmp Hre Hb Hb'.
  apply (smiles_text_atom_stereo_perm g g' s w w' tb tb' o tabs tabs' Hwf Hwf' Hs Hp Hw Hr Hmp); try assumption.
  intros n a a' adj Ha Ha'. apply (stereo_mark_reordered g g' s o tabs tabs' Hs); try assumption.
  intros x. unfold is_H. pose proof (atoms_agree g g' s Hwf Hs Hp x) as H.
  destruct (atom_of g' (s x)) as [p|]; destruct (atom_of g x) as [r|]; cbn [option_map] in H; try discriminate; [|reflexivity].
  injection H as H _. rewrite H. reflexivity.
Qed.

(* non-vacuity: bromochlorofluoroiodomethane, renumbered n -> 10 - n, the neighbours of the centre re-inserted with the first two
   exchanged (an odd re-ordering: the stored sign flips), other tie-breaks *)
Definition exq_b : bond := mkBond 1 None.
Definition exq_a (z : Z) (st : option bool) : atom := mkAtom z None 0 false (Some 0) st.
Definition exq_g : mol :=
  mkMol [(1, exq_a 6 (Some true)); (2, exq_a 9 None); (3, exq_a 17 None); (4, exq_a 35 None); (5, exq_a 53 None)]
        [(1, [(2, exq_b); (3, exq_b); (4, exq_b); (5, exq_b)]); (2, [(1, exq_b)]); (3, [(1, exq_b)]); (4, [(1, exq_b)]); (5, [(1, exq_b)])].
Definition exq_g' : mol :=
  mkMol [(5, exq_a 53 None); (9, exq_a 6 (Some false)); (8, exq_a 9 None); (6, exq_a 35 None); (7, exq_a 17 None)]
        [(5, [(9, exq_b)]); (9, [(7, exq_b); (8, exq_b); (6, exq_b); (5, exq_b)]); (8, [(9, exq_b)]); (6, [(9, exq_b)]); (7, [(9, exq_b)])].
Definition exq_tabs : stabs := mkStabs [(1, [2; 3; 4; 5])] [] [] [] [] [] [].
Definition exq_tabs' : stabs := mkStabs [(9, [7; 8; 6; 5])] [] [] [] [] [] [].
Definition exq_q : list Z := [1; 0; 2; 3].
Definition exq_w (n : Z) : Z := n.
Definition exq_w' (m : Z) : Z := 10 - m.

Lemma exq_reordered : stereo_atoms_reordered exq_g exq_g' ext_s exq_tabs exq_tabs'.
Proof.
  intros n a a' Ha Ha'. unfold atom_of, exq_g in Ha. cbn [m_atoms zget] in Ha.
  destruct (Z.eqb_spec n 1) as [->|N1].
  - right. injection Ha as <-. vm_compute in Ha'. injection Ha' as <-.
    exists true, 2, 3, 4, 5, exq_q.
    split; [reflexivity|]. split; [reflexivity|]. split; [reflexivity|]. split; [reflexivity|].
    split; [repeat constructor; cbn; intuition lia|]. split; [vm_compute; tauto|].
    split; [vm_compute; reflexivity|]. split; reflexivity.
  - left. destruct (Z.eqb_spec n 2) as [->|N2]; [injection Ha as <-; vm_compute in Ha'; injection Ha' as <-; split; reflexivity|].
    destruct (Z.eqb_spec n 3) as [->|N3]; [injection Ha as <-; vm_compute in Ha'; injection Ha' as <-; split; reflexivity|].
    destruct (Z.eqb_spec n 4) as [->|N4]; [injection Ha as <-; vm_compute in Ha'; injection Ha' as <-; split; reflexivity|].
    destruct (Z.eqb_spec n 5) as [->|N5]; [injection Ha as <-; vm_compute in Ha'; injection Ha' as <-; split; reflexivity|].
    discriminate.
Qed.

Theorem tetrahedral_insertion_order_example :
  wf_mol (strip exq_g) = true /\ wf_mol (strip exq_g') = true /\ (forall x y, ext_s x = ext_s y -> x = y) /\
  mol_perm (ren_mol ext_s (strip exq_g)) (strip exq_g') /\ inj_on (ids exq_g) exq_w /\ (forall n, In n (ids exq_g) -> exq_w' (ext_s n) = exq_w n) /\
  stereo_atoms_reordered exq_g exq_g' ext_s exq_tabs exq_tabs' /\ stereo_bond_atoms exq_g = [] /\ stereo_bond_atoms exq_g' = [] /\
  smiles_text exq_g exq_w (fun n => n) default_opts exq_tabs = Ok ("[C@](F)(Cl)(Br)I"%string, [1; 2; 3; 4; 5]) /\
  smiles_text exq_g' exq_w' (fun n => n) default_opts exq_tabs' = Ok ("[C@](F)(Cl)(Br)I"%string, [9; 8; 7; 6; 5]).
Proof.
  split; [vm_compute; reflexivity|]. split; [vm_compute; reflexivity|]. split; [intros x y; unfold ext_s; lia|].
  split.
  { split.
    - cbn [ren_mol strip exq_g exq_g' m_atoms map fst snd ext_s strip_atom exq_a a_num a_iso a_chg a_rad a_h].
      change (10 - 1) with 9. change (10 - 2) with 8. change (10 - 3) with 7. change (10 - 4) with 6. change (10 - 5) with 5.
      apply (Permutation_cons_app [(5, mkAtom 53 None 0 false (Some 0) None)] [(8, mkAtom 9 None 0 false (Some 0) None); (6, mkAtom 35 None 0 false (Some 0) None); (7, mkAtom 17 None 0 false (Some 0) None)]).
      apply (Permutation_cons_app [(5, mkAtom 53 None 0 false (Some 0) None)] [(6, mkAtom 35 None 0 false (Some 0) None); (7, mkAtom 17 None 0 false (Some 0) None)]).
      apply (Permutation_cons_app [(5, mkAtom 53 None 0 false (Some 0) None); (6, mkAtom 35 None 0 false (Some 0) None)] []).
      apply (Permutation_cons_app [(5, mkAtom 53 None 0 false (Some 0) None)] []). apply Permutation_refl.
    - set (sb := mkBond 1 None).
      exists [(9, [(7, sb); (8, sb); (6, sb); (5, sb)]); (8, [(9, sb)]); (7, [(9, sb)]); (6, [(9, sb)]); (5, [(9, sb)])]. split.
      + cbn [ren_mol ren_adj strip exq_g m_adj map fst snd ext_s strip_bond exq_b b_ord]. fold sb.
        change (10 - 1) with 9. change (10 - 2) with 8. change (10 - 3) with 7. change (10 - 4) with 6. change (10 - 5) with 5.
        repeat constructor; cbn [fst snd]; try apply Permutation_refl; try apply perm_swap.
      + cbn [strip exq_g' m_adj map fst snd strip_bond exq_b b_ord]. fold sb.
        apply (Permutation_cons_app [(5, [(9, sb)])] [(8, [(9, sb)]); (6, [(9, sb)]); (7, [(9, sb)])]).
        apply (Permutation_cons_app [(5, [(9, sb)])] [(6, [(9, sb)]); (7, [(9, sb)])]).
        apply (Permutation_cons_app [(5, [(9, sb)]); (6, [(9, sb)])] []).
        apply (Permutation_cons_app [(5, [(9, sb)])] []). apply Permutation_refl. }
  split; [intros x y _ _ H; exact H|].
  split; [intros n Hn; cbn in Hn; intuition (subst; vm_compute; reflexivity)|].
  split; [exact exq_reordered|]. repeat split; vm_compute; reflexivity.
Qed.
