(* C01: the model of `_chiral_morgan` / `__differentiation` (Model.ChiralMorgan) is equivariant under every injective
   renumbering, for every hash function: renamed molecule, renamed registries, renamed atoms_order and the iteration orders of
   the three stereo sets renamed give the renamed weights and the renamed trace of `_morgan` inputs. *)
From Coq Require Import ZArith List Bool Lia Permutation.
From Model Require Import PyBase PyHash Graph Morgan Stereo Writer ChiralMorgan.
From Proofs Require Import MorganProofs WriterInvProofs WriterStereoExt.
Import ListNotations.
Open Scope Z_scope.

Definition ren_cmtabs (s : Z -> Z) (t : cmtabs) : cmtabs :=
  mkCm (map s (c_tetrahedrons t))
       (map (fun kv => (s (fst kv), map s (snd kv))) (c_tetra t))
       (map (fun kv => (s (fst kv), ren_env s (snd kv))) (c_allenes t))
       (map (fun kv => (ren_pairv s (fst kv), ren_env s (snd kv))) (c_sct t))
       (map (fun kv => (s (fst kv), ren_pairv s (snd kv))) (c_ctc t)).
Definition ren_cmorders (s : Z -> Z) (o : cmorders) : cmorders :=
  mkCmo (map s (o_atoms o)) (map (ren_pairv s) (o_ct o)) (map s (o_al o)).
Definition ren3 (s : Z -> Z) (x : Z * (Z * Z)) : Z * (Z * Z) := (s (fst x), ren_pairv s (snd x)).
Definition map_res {A B} (f : A -> B) (r : pyres A) : pyres B := match r with Ok a => Ok (f a) | Err e => Err e end.

Section ChiralRen.
  Variable h : list Z -> Z.
  Variable s : Z -> Z.
  Hypothesis s_inj : forall x y, s x = s y -> x = y.
  Variable g : mol.
  Variable tabs : cmtabs.
  Let g' := ren_mol s g.
  Let tabs' := ren_cmtabs s tabs.
  Let sq := seqb s s_inj.

  (* ---- labels ---- *)
  Lemma lbl_renG m x : lbl (ren_labels s m) (s x) = lbl m x.
  Proof. unfold lbl, ren_labels. rewrite (zget_renG s s_inj (fun v : Z => v)). destruct (zget m x); reflexivity. Qed.

  Lemma lbl_opt_ren m x : lbl_opt (ren_labels s m) (option_map s x) = lbl_opt m x.
  Proof. destruct x; cbn; [apply lbl_renG | reflexivity]. Qed.

  Lemma n_classes_ren m env : n_classes (ren_labels s m) (map s env) = n_classes m env.
  Proof. unfold n_classes. rewrite map_map. f_equal. f_equal. f_equal. apply map_ext. intros x. apply lbl_renG. Qed.

  Lemma sort_by_label_ren m env : sort_by_label (ren_labels s m) (map s env) = map s (sort_by_label m env).
  Proof. unfold sort_by_label. apply isort_map. intros x y. rewrite !lbl_renG. reflexivity. Qed.

  Lemma pick_min_ren m n1 n2 : pick_min (ren_labels s m) (s n1) (option_map s n2) = s (pick_min m n1 n2).
  Proof. unfold pick_min. destruct n2 as [y|]; cbn [option_map]; [|reflexivity]. rewrite !lbl_renG. destruct (lbl m y <? lbl m n1); reflexivity. Qed.

  Lemma discrete_env_ren m e : discrete_env (ren_labels s m) (ren_env s e) = discrete_env m e.
  Proof. destruct e as [[[n1 m1] n2] m2]. unfold discrete_env, ren_env. rewrite !lbl_renG, !lbl_opt_ren. reflexivity. Qed.

  Lemma filter_res_map {A B} (r : A -> B) (f : A -> pyres bool) (f' : B -> pyres bool) l :
    (forall x, f' (r x) = f x) -> filter_res f' (map r l) = map_res (map r) (filter_res f l).
  Proof.
    intros H. induction l as [|x l IH]; cbn [map filter_res map_res]; [reflexivity|]. rewrite H, IH.
    destruct (f x) as [b|e]; [|reflexivity]. destruct (filter_res f l) as [l'|e]; cbn [map_res]; [|reflexivity]. destruct b; reflexivity.
  Qed.

  Lemma cm_isH_ren x : cm_isH g' (s x) = cm_isH g x.
  Proof. unfold cm_isH, g'. rewrite (atom_of_renG g s s_inj). reflexivity. Qed.
  Lemma atom_stereo_ren n : atom_stereo g' (s n) = atom_stereo g n.
  Proof. unfold atom_stereo, g'. rewrite (atom_of_renG g s s_inj). reflexivity. Qed.

  (* ---- grouping ---- *)
  Lemma group_add_map {A B} (r : A -> B) k x gs :
    group_add k (r x) (map (fun kl => (fst kl, map r (snd kl))) gs) = map (fun kl => (fst kl, map r (snd kl))) (group_add k x gs).
  Proof.
    induction gs as [|[k' l] gs IH]; cbn; [reflexivity|]. destruct (k =? k'); cbn; [rewrite map_app; reflexivity | rewrite IH; reflexivity].
  Qed.
  Lemma group_by_map {A B} (r : A -> B) (key : A -> Z) (key' : B -> Z) l : (forall x, key' (r x) = key x) ->
    group_by key' (map r l) = map (map r) (group_by key l).
  Proof.
    intros H. unfold group_by.
    assert (forall gs, fold_left (fun gs x => group_add (key' x) x gs) (map r l) (map (fun kl => (fst kl, map r (snd kl))) gs) =
                       map (fun kl => (fst kl, map r (snd kl))) (fold_left (fun gs x => group_add (key x) x gs) l gs)) as Hf.
    { induction l as [|x l IH]; intros gs; cbn [map fold_left]; [reflexivity|]. rewrite H, group_add_map. apply IH. }
    specialize (Hf []). cbn [map] in Hf. rewrite Hf, !map_map. reflexivity.
  Qed.

  Lemma even_len_map {A B} (r : A -> B) l : even_len (map r l) = even_len l.
  Proof. unfold even_len. rewrite map_length. reflexivity. Qed.
  Lemma proper_part_map {A B C D} (r : A -> B) (q : C -> D) l l2 : proper_part (map r l) (map q l2) = proper_part l l2.
  Proof. unfold proper_part. rewrite !map_length. reflexivity. Qed.

  Lemma upd_set_ren u k v : upd_set (ren_labels s u) (s k) v = ren_labels s (upd_set u k v).
  Proof. unfold ren_labels. induction u as [|[k' v'] u IH]; cbn; [reflexivity|]. rewrite sq. destruct (k =? k'); cbn; [reflexivity | rewrite IH; reflexivity]. Qed.

  Lemma filter_notin_ren G rest :
    filter (fun x => negb (zmem x (map s G))) (map s rest) = map s (filter (fun x => negb (zmem x G)) rest).
  Proof.
    induction rest as [|x rest IH]; cbn [map filter]; [reflexivity|].
    rewrite (zmem_renG s s_inj). destruct (zmem x G); cbn [negb map]; rewrite IH; reflexivity.
  Qed.
  Lemma fold_negate_ren m sl : forall u,
    fold_left (fun u0 m0 => upd_set u0 m0 (- lbl (ren_labels s m) m0)) (map s sl) (ren_labels s u) =
    ren_labels s (fold_left (fun u0 m0 => upd_set u0 m0 (- lbl m m0)) sl u).
  Proof. induction sl as [|x sl IH]; intros u; cbn [map fold_left]; [reflexivity|]. rewrite lbl_renG, upd_set_ren. apply IH. Qed.

  (* ---- tetrahedrons ---- *)
  Lemma th_sign_ren m n : th_sign g' tabs' (ren_labels s m) (s n) = th_sign g tabs m n.
  Proof.
    unfold th_sign, tabs', ren_cmtabs. cbn [c_tetra]. rewrite (zget_renG s s_inj (map s)), atom_stereo_ren.
    destruct (zget (c_tetra tabs) n) as [order|]; cbn [option_map]; [|reflexivity].
    destruct (atom_stereo g n) as [sg|]; [|reflexivity].
    rewrite sort_by_label_ren. apply (translate_th_ren s s_inj (cm_isH g) (cm_isH g') cm_isH_ren).
  Qed.

  Definition ren_pst {A G} (ra : A -> A) (rg : G -> G) (st : pstate A G) : pstate A G :=
    (ren_labels s (fst (fst st)), map ra (snd (fst st)), map (map rg) (snd st)).

  Lemma th_group_ren m st group :
    th_group g' tabs' (ren_labels s m) (map_res (ren_pst s s) st) (map s group) = map_res (ren_pst s s) (th_group g tabs m st group).
  Proof.
    unfold th_group. destruct st as [[[update rest] groups]|e]; cbn [map_res ren_pst fst snd]; [|reflexivity].
    rewrite even_len_map. destruct (even_len group); cbn [negb]; [|reflexivity].
    destruct group as [|n0 gr]; [reflexivity|]. cbn [map]. change (s n0 :: map s gr) with (map s (n0 :: gr)).
    unfold tabs' at 1, ren_cmtabs. cbn [c_tetra]. rewrite (zget_renG s s_inj (map s)).
    destruct (zget (c_tetra tabs) n0) as [env|]; cbn [option_map]; [|reflexivity].
    rewrite map_length, n_classes_ren. destruct (Nat.eqb (List.length env) (n_classes m env)).
    - rewrite (filter_res_map s (th_sign g tabs m) (th_sign g' tabs' (ren_labels s m))) by (intros x; apply th_sign_ren).
      destruct (filter_res (th_sign g tabs m) (n0 :: gr)) as [sl|e]; cbn [map_res]; [|reflexivity].
      rewrite proper_part_map. f_equal. unfold ren_pst. cbn [fst snd].
      rewrite filter_notin_ren. destruct (proper_part sl (n0 :: gr)); [rewrite fold_negate_ren|]; reflexivity.
    - cbn [map_res]. unfold ren_pst. cbn [fst snd]. rewrite (map_app (map s)). reflexivity.
  Qed.
  (* ---- cis / trans ---- *)
  Lemma cpair_eqb_ren a b : cpair_eqb (ren_pairv s a) (ren_pairv s b) = cpair_eqb a b.
  Proof. unfold cpair_eqb, ren_pairv. cbn [fst snd]. rewrite !sq. reflexivity. Qed.
  Lemma cpget_ren {V W} (f : V -> W) (d : list ((Z * Z) * V)) k :
    cpget (map (fun kv => (ren_pairv s (fst kv), f (snd kv))) d) (ren_pairv s k) = option_map f (cpget d k).
  Proof.
    induction d as [|[k' v] d IH]; cbn [map cpget fst snd]; [reflexivity|]. rewrite cpair_eqb_ren.
    destruct (cpair_eqb k k'); [reflexivity | exact IH].
  Qed.

  Lemma ct_key_ren m nm : ct_key (ren_labels s m) (ren_pairv s nm) = ren3 s (ct_key m nm).
  Proof. unfold ct_key, ren_pairv. cbn [fst snd]. rewrite !lbl_renG. destruct (lbl m (fst nm) <=? lbl m (snd nm)); reflexivity. Qed.

  Lemma ct_sign_ren m x : ct_sign g' tabs' (ren_labels s m) (ren3 s x) = ct_sign g tabs m x.
  Proof.
    destruct x as [x0 [n mm]]. unfold ct_sign, ren3. cbn [fst snd ren_pairv].
    unfold tabs' at 1, ren_cmtabs. cbn [c_sct]. change (s n, s mm) with (ren_pairv s (n, mm)). rewrite (cpget_ren (ren_env s : cenv4 -> cenv4)).
    destruct (cpget (c_sct tabs) (n, mm)) as [[[[n1 m1] n2] m2]|]; cbn [option_map ren_env]; [|reflexivity].
    unfold tabs' at 1, ren_cmtabs. cbn [c_ctc]. rewrite (zget_renG s s_inj (ren_pairv s)).
    destruct (zget (c_ctc tabs) n) as [[i j]|]; cbn [option_map ren_pairv fst snd]; [|reflexivity].
    unfold g'. rewrite (bond_of_renG g s s_inj). destruct (bond_of g i j) as [bd|]; [|reflexivity].
    destruct (b_stereo bd) as [sg|]; [|reflexivity].
    rewrite !pick_min_ren.
    pose proof (translate_ct_ren s s_inj (cm_isH g) (cm_isH (ren_mol s g)) cm_isH_ren (Some (n1, m1, n2, m2)) None
                                 (pick_min m n1 n2) (pick_min m m1 m2) sg) as H.
    cbn [option_map ren_env] in H. exact H.
  Qed.

  Lemma fold_negate_ct_ren m (sl : list (Z * (Z * Z))) : forall u,
    fold_left (fun u0 x => upd_set u0 (fst x) (- lbl (ren_labels s m) (fst x))) (map (ren3 s) sl) (ren_labels s u) =
    ren_labels s (fold_left (fun u0 x => upd_set u0 (fst x) (- lbl m (fst x))) sl u).
  Proof.
    induction sl as [|[x0 nm] sl IH]; intros u; cbn [map fold_left]; [reflexivity|]. change (fst (ren3 s (x0, nm))) with (s x0). cbn [fst].
    rewrite lbl_renG, upd_set_ren. apply IH.
  Qed.

  Lemma existsb_ct_ren nm (group : list (Z * (Z * Z))) :
    existsb (fun x => cpair_eqb (ren_pairv s nm) (snd x)) (map (ren3 s) group) = existsb (fun x => cpair_eqb nm (snd x)) group.
  Proof.
    induction group as [|[x0 p] gr IHg]; cbn [map existsb]; [reflexivity|]. change (snd (ren3 s (x0, p))) with (ren_pairv s p). cbn [snd].
    rewrite cpair_eqb_ren, IHg. reflexivity.
  Qed.
  Lemma filter_ct_rest_ren (group : list (Z * (Z * Z))) rest :
    filter (fun nm => negb (existsb (fun x => cpair_eqb nm (snd x)) (map (ren3 s) group))) (map (ren_pairv s) rest) =
    map (ren_pairv s) (filter (fun nm => negb (existsb (fun x => cpair_eqb nm (snd x)) group)) rest).
  Proof.
    induction rest as [|nm rest IH]; cbn [map filter]; [reflexivity|]. rewrite existsb_ct_ren.
    destruct (existsb _ group); cbn [negb map]; rewrite IH; reflexivity.
  Qed.

  Lemma ct_group_ren m st group :
    ct_group g' tabs' (ren_labels s m) (map_res (ren_pst (ren_pairv s) (ren3 s)) st) (map (ren3 s) group) =
    map_res (ren_pst (ren_pairv s) (ren3 s)) (ct_group g tabs m st group).
  Proof.
    unfold ct_group. destruct st as [[[update rest] groups]|e]; cbn [map_res ren_pst fst snd]; [|reflexivity].
    rewrite even_len_map. destruct (even_len group); cbn [negb]; [|reflexivity].
    destruct group as [|x0 gr]; [reflexivity|]. cbn [map]. change (ren3 s x0 :: map (ren3 s) gr) with (map (ren3 s) (x0 :: gr)).
    unfold ren3 at 1. cbn [snd]. unfold tabs' at 1, ren_cmtabs. cbn [c_sct]. rewrite (cpget_ren (ren_env s : cenv4 -> cenv4)).
    destruct (cpget (c_sct tabs) (snd x0)) as [env|]; cbn [option_map]; [|reflexivity].
    rewrite discrete_env_ren. destruct (discrete_env m env).
    - rewrite (filter_res_map (ren3 s) (ct_sign g tabs m) (ct_sign g' tabs' (ren_labels s m))) by (intros x; apply ct_sign_ren).
      destruct (filter_res (ct_sign g tabs m) (x0 :: gr)) as [sl|e]; cbn [map_res]; [|reflexivity].
      rewrite proper_part_map. destruct (proper_part sl (x0 :: gr)); [|reflexivity].
      rewrite fold_negate_ct_ren, filter_ct_rest_ren. reflexivity.
    - cbn [map_res]. unfold ren_pst. cbn [fst snd]. rewrite (map_app (map (ren3 s))). reflexivity.
  Qed.

  (* ---- allenes ---- *)
  Lemma al_sign_ren m c : al_sign g' tabs' (ren_labels s m) (s c) = al_sign g tabs m c.
  Proof.
    unfold al_sign, tabs', ren_cmtabs. cbn [c_allenes]. rewrite (zget_renG s s_inj (ren_env s : cenv4 -> cenv4)), atom_stereo_ren.
    destruct (zget (c_allenes tabs) c) as [[[[n1 m1] n2] m2]|]; cbn [option_map ren_env]; [|reflexivity].
    destruct (atom_stereo g c) as [sg|]; [|reflexivity].
    rewrite !pick_min_ren. unfold translate_al.
    change (s n1, s m1, option_map s n2, option_map s m2) with (ren_env s (n1, m1, n2, m2)).
    apply (translate_env_ren s s_inj (cm_isH g) (cm_isH g') cm_isH_ren).
  Qed.

  Lemma al_group_ren m st group :
    al_group g' tabs' (ren_labels s m) (map_res (ren_pst s s) st) (map s group) = map_res (ren_pst s s) (al_group g tabs m st group).
  Proof.
    unfold al_group. destruct st as [[[update rest] groups]|e]; cbn [map_res ren_pst fst snd]; [|reflexivity].
    rewrite even_len_map. destruct (even_len group); cbn [negb]; [|reflexivity].
    destruct group as [|c0 gr]; [reflexivity|]. cbn [map]. change (s c0 :: map s gr) with (map s (c0 :: gr)).
    unfold tabs' at 1, ren_cmtabs. cbn [c_allenes]. rewrite (zget_renG s s_inj (ren_env s : cenv4 -> cenv4)).
    destruct (zget (c_allenes tabs) c0) as [env|]; cbn [option_map]; [|reflexivity].
    rewrite discrete_env_ren. destruct (discrete_env m env).
    - rewrite (filter_res_map s (al_sign g tabs m) (al_sign g' tabs' (ren_labels s m))) by (intros x; apply al_sign_ren).
      destruct (filter_res (al_sign g tabs m) (c0 :: gr)) as [sl|e]; cbn [map_res]; [|reflexivity].
      rewrite proper_part_map. destruct (proper_part sl (c0 :: gr)); [|reflexivity].
      rewrite fold_negate_ren, filter_notin_ren. reflexivity.
    - cbn [map_res]. unfold ren_pst. cbn [fst snd]. rewrite (map_app (map s)). reflexivity.
  Qed.
  (* ---- _morgan with a globally injective renumbering ---- *)
  Lemma morgan_renG atoms (adj : iadj) : morgan h (ren_labels s atoms) (ren_adj s adj) = ren_res s (morgan h atoms adj).
  Proof.
    apply (morgan_ren h s (mentioned atoms adj)).
    - intros x y _ _. apply s_inj.
    - unfold mentioned. intros x Hx. apply in_or_app. left. exact Hx.
    - intros n ms Hin. unfold mentioned. split.
      + apply in_or_app. right. apply in_or_app. left. unfold keys. change n with (fst (n, ms)). apply in_map. exact Hin.
      + intros x Hx. apply in_or_app. right. apply in_or_app. right. apply in_flat_map. exists (n, ms). split; [exact Hin | exact Hx].
  Qed.

  Lemma merge_update_ren m u : merge_update (ren_labels s m) (ren_labels s u) = ren_labels s (merge_update m u).
  Proof.
    unfold merge_update, ren_labels. rewrite map_app. f_equal.
    - rewrite !map_map. apply map_ext. intros [k v]. cbn [fst snd]. rewrite (zget_renG s s_inj (fun z : Z => z)).
      destruct (zget u k); reflexivity.
    - induction u as [|[k v] u IH]; cbn [map filter fst snd]; [reflexivity|].
      replace (zmem (s k) (keys (map (fun nv : Z * Z => (s (fst nv), snd nv)) m))) with (zmem k (keys m)).
      + destruct (zmem k (keys m)); cbn [negb map fst snd]; rewrite IH; reflexivity.
      + unfold keys. rewrite map_map. cbn [fst]. rewrite <- (map_map fst s). symmetry. apply (zmem_renG s s_inj).
  Qed.

  Lemma fold_groups_ren {A G} (ra : A -> A) (rg : G -> G) (f f' : pyres (pstate A G) -> list G -> pyres (pstate A G)) :
    (forall st group, f' (map_res (ren_pst ra rg) st) (map rg group) = map_res (ren_pst ra rg) (f st group)) ->
    forall groups st, fold_left f' (map (map rg) groups) (map_res (ren_pst ra rg) st) = map_res (ren_pst ra rg) (fold_left f groups st).
  Proof. intros H groups. induction groups as [|gr groups IH]; intros st; cbn [map fold_left]; [reflexivity|]. rewrite H. apply IH. Qed.

  Lemma if_map_res {A B} (f : A -> B) (b : bool) x y : (if b then map_res f x else map_res f y) = map_res f (if b then x else y).
  Proof. destruct b; reflexivity. Qed.

  Definition ren_dres (d : dres) : dres :=
    mkD (ren_labels s (d_morgan d)) (map s (d_atoms d)) (map (ren_pairv s) (d_ct d)) (map s (d_al d))
        (map (map s) (d_ga d)) (map (map (ren3 s)) (d_gct d)) (map (map s) (d_gal d)) (map (ren_labels s) (d_trace d)).

  Lemma differentiation_ren fuel : forall m sa sct sal trace,
    differentiation h g' tabs' fuel (ren_labels s m) (map s sa) (map (ren_pairv s) sct) (map s sal) (map (ren_labels s) trace) =
    map_res ren_dres (differentiation h g tabs fuel m sa sct sal trace).
  Proof.
    induction fuel as [|fuel IH]; intros m sa sct sal trace; cbn [differentiation map_res]; [reflexivity|].
    (* tetrahedrons *)
    rewrite !map_length.
    rewrite (group_by_map s (lbl m) (lbl (ren_labels s m))) by (intros x; apply lbl_renG).
    change (Ok ([], map s sa, [])) with (map_res (ren_pst s s) (Ok (([] : labels), sa, ([] : list (list Z))))).
    rewrite (fold_groups_ren s s (th_group g tabs m) (th_group g' tabs' (ren_labels s m)) (th_group_ren m)).
    rewrite if_map_res.
    match goal with |- context [map_res (ren_pst s s) ?r] => match goal with |- _ = map_res ren_dres (match ?r' with _ => _ end) => change r' with r end; destruct r as [[[u1 sa'] ga]|e] end; cbn [map_res ren_pst fst snd]; [|reflexivity].
    (* cis / trans *)
    assert (map (ct_key (ren_labels s m)) (map (ren_pairv s) sct) = map (ren3 s) (map (ct_key m) sct)) as ->
      by (rewrite !map_map; apply map_ext; intros nm; apply ct_key_ren).
    rewrite (group_by_map (ren3 s) (fun x => lbl m (fst x)) (fun x => lbl (ren_labels s m) (fst x)))
      by (intros [x0 nm]; cbn [ren3 fst]; apply lbl_renG).
    change (Ok (ren_labels s u1, map (ren_pairv s) sct, [])) with
      (map_res (ren_pst (ren_pairv s) (ren3 s)) (Ok (u1, sct, ([] : list (list (Z * (Z * Z))))))).
    rewrite (fold_groups_ren (ren_pairv s) (ren3 s) (ct_group g tabs m) (ct_group g' tabs' (ren_labels s m)) (ct_group_ren m)).
    rewrite if_map_res.
    match goal with |- context [map_res (ren_pst (ren_pairv s) (ren3 s)) ?r] => match goal with |- _ = map_res ren_dres (match ?r' with _ => _ end) => change r' with r end; destruct r as [[[u2 sct'] gct]|e] end; cbn [map_res ren_pst fst snd]; [|reflexivity].
    (* allenes *)
    rewrite (group_by_map s (lbl m) (lbl (ren_labels s m))) by (intros x; apply lbl_renG).
    change (Ok (ren_labels s u2, map s sal, [])) with (map_res (ren_pst s s) (Ok (u2, sal, ([] : list (list Z))))).
    rewrite (fold_groups_ren s s (al_group g tabs m) (al_group g' tabs' (ren_labels s m)) (al_group_ren m)).
    rewrite if_map_res.
    match goal with |- context [map_res (ren_pst s s) ?r] => match goal with |- _ = map_res ren_dres (match ?r' with _ => _ end) => change r' with r end; destruct r as [[[u3 sal'] gal]|e] end; cbn [map_res ren_pst fst snd]; [|reflexivity].
    destruct u3 as [|kv u3]; cbn [ren_labels map]; [reflexivity|].
    change ((s (fst kv), snd kv) :: map (fun nv : Z * Z => (s (fst nv), snd nv)) u3) with (ren_labels s (kv :: u3)).
    rewrite merge_update_ren. unfold g' at 1. rewrite int_adjacency_ren, morgan_renG.
    destruct (morgan h (merge_update m (kv :: u3)) (int_adjacency g)) as [m2|e]; cbn [ren_res]; [|reflexivity].
    change (map (ren_labels s) trace ++ [ren_labels s (merge_update m (kv :: u3))]) with
      (map (ren_labels s) trace ++ map (ren_labels s) [merge_update m (kv :: u3)]).
    rewrite <- map_app. apply IH.
  Qed.
  (* ---- the outer loop ---- *)
  Lemma negate_at_ren m n : negate_at (ren_labels s m) (s n) = ren_labels s (negate_at m n).
  Proof. unfold ren_labels. induction m as [|[k v] m IH]; cbn; [reflexivity|]. rewrite sq. destruct (n =? k); cbn; [reflexivity | rewrite IH; reflexivity]. Qed.
  Lemma half_map {A B} (r : A -> B) l : half (map r l) = map r (half l).
  Proof. unfold half. rewrite map_length. apply firstn_map. Qed.

  Lemma flip_groups_ren (groups : list (list Z)) : forall m,
    fold_left (fun mg group => fold_left negate_at (half group) mg) (map (map s) groups) (ren_labels s m) =
    ren_labels s (fold_left (fun mg group => fold_left negate_at (half group) mg) groups m).
  Proof.
    induction groups as [|gr groups IH]; intros m; cbn [map fold_left]; [reflexivity|]. rewrite half_map.
    assert (forall l mg, fold_left negate_at (map s l) (ren_labels s mg) = ren_labels s (fold_left negate_at l mg)) as Hn
      by (induction l as [|x l IHl]; intros mg; cbn [map fold_left]; [reflexivity | rewrite negate_at_ren; apply IHl]).
    rewrite Hn. apply IH.
  Qed.
  Lemma flip_ct_groups_ren (groups : list (list (Z * (Z * Z)))) : forall m,
    fold_left (fun mg group => fold_left (fun mg' x => negate_at mg' (fst x)) (half group) mg) (map (map (ren3 s)) groups) (ren_labels s m) =
    ren_labels s (fold_left (fun mg group => fold_left (fun mg' x => negate_at mg' (fst x)) (half group) mg) groups m).
  Proof.
    induction groups as [|gr groups IH]; intros m; cbn [map fold_left]; [reflexivity|]. rewrite half_map.
    assert (forall (l : list (Z * (Z * Z))) mg, fold_left (fun mg' x => negate_at mg' (fst x)) (map (ren3 s) l) (ren_labels s mg) =
                         ren_labels s (fold_left (fun mg' x => negate_at mg' (fst x)) l mg)) as Hn.
    { induction l as [|[x0 nm] l IHl]; intros mg; cbn [map fold_left]; [reflexivity|].
      change (fst (ren3 s (x0, nm))) with (s x0). cbn [fst]. rewrite negate_at_ren. apply IHl. }
    rewrite Hn. apply IH.
  Qed.

  Definition ren_cmres (r : pyres (labels * list labels)) : pyres (labels * list labels) :=
    map_res (fun p => (ren_labels s (fst p), map (ren_labels s) (snd p))) r.

  Lemma chiral_loop_ren fuel dfuel : forall m sa sct sal trace,
    chiral_loop h g' tabs' fuel dfuel (ren_labels s m) (map s sa) (map (ren_pairv s) sct) (map s sal) (map (ren_labels s) trace) =
    ren_cmres (chiral_loop h g tabs fuel dfuel m sa sct sal trace).
  Proof.
    induction fuel as [|fuel IH]; intros m sa sct sal trace; cbn [chiral_loop ren_cmres map_res]; [reflexivity|].
    rewrite differentiation_ren. destruct (differentiation h g tabs dfuel m sa sct sal trace) as [d|e]; cbn [map_res]; [|reflexivity].
    unfold ren_dres at 1 2 3. cbn [d_ga d_gct d_gal].
    destruct (d_ga d) as [|ga0 ga] eqn:Ega; destruct (d_gct d) as [|gc0 gc] eqn:Egc; destruct (d_gal d) as [|gl0 gl] eqn:Egl; cbn [map];
      try reflexivity;
      unfold ren_dres; cbn [d_morgan d_atoms d_ct d_al d_ga d_gct d_gal d_trace]; rewrite ?Ega, ?Egc, ?Egl;
      try (change (map s ga0 :: map (map s) ga) with (map (map s) (ga0 :: ga)));
      try (change (map (ren3 s) gc0 :: map (map (ren3 s)) gc) with (map (map (ren3 s)) (gc0 :: gc)));
      try (change (map s gl0 :: map (map s) gl) with (map (map s) (gl0 :: gl)));
      change (@nil (list Z)) with (map (map s) []); change (@nil (list (Z * (Z * Z)))) with (map (map (ren3 s)) []);
      rewrite !flip_groups_ren, !flip_ct_groups_ren, !flip_groups_ren; unfold g' at 1; rewrite int_adjacency_ren, morgan_renG;
      match goal with |- context [morgan h ?x (int_adjacency g)] => destruct (morgan h x (int_adjacency g)) as [m2|e2] eqn:Em end;
      cbn [ren_res map_res]; try reflexivity;
      match goal with |- context [map (ren_labels s) (d_trace d) ++ [ren_labels s ?y]] =>
        change (map (ren_labels s) (d_trace d) ++ [ren_labels s y]) with (map (ren_labels s) (d_trace d) ++ map (ren_labels s) [y]) end;
      rewrite <- map_app; apply IH.
  Qed.

  Lemma has_stereo_labels_ren : has_stereo_labels g' = has_stereo_labels g.
  Proof.
    unfold has_stereo_labels, g', ren_mol, ren_adj. cbn [m_atoms m_adj]. f_equal.
    - induction (m_atoms g) as [|[k a] l IH]; cbn; [reflexivity|]. rewrite IH. reflexivity.
    - induction (m_adj g) as [|[k row] l IH]; cbn [map existsb fst snd]; [reflexivity|]. rewrite IH. f_equal.
      induction row as [|[k2 bd] row IHr]; cbn; [reflexivity|]. rewrite IHr. reflexivity.
  Qed.

  (* _chiral_morgan *)
  Theorem chiral_morgan_ren ao ord :
    chiral_morgan h g' tabs' (ren_labels s ao) (ren_cmorders s ord) = ren_cmres (chiral_morgan h g tabs ao ord).
  Proof.
    unfold chiral_morgan. rewrite has_stereo_labels_ren. destruct (negb (has_stereo_labels g)); [reflexivity|].
    unfold ren_cmorders, diff_fuel. cbn [o_atoms o_ct o_al]. rewrite !map_length.
    replace (List.length (m_atoms g')) with (List.length (m_atoms g)) by (unfold g', ren_mol; cbn [m_atoms]; rewrite map_length; reflexivity).
    change (@nil labels) with (map (ren_labels s) []). apply chiral_loop_ren.
  Qed.
End ChiralRen.

(* the whole pipeline molecule -> stereo-aware weights: atoms_order of the renumbered molecule is the renumbered atoms_order
   (MorganProofs) and _chiral_morgan of it is the renumbered result *)
Theorem chiral_weights_equivariant (h : list Z -> Z) (ring ring' : Z -> bool) (g : mol) (s : Z -> Z) (tabs : cmtabs) (ord : cmorders) (ao : labels) :
  wf_mol g = true -> (forall x y, s x = s y -> x = y) -> (forall n, In n (ids g) -> ring' (s n) = ring n) ->
  atoms_order h ring g = Ok ao ->
  atoms_order h ring' (ren_mol s g) = Ok (ren_labels s ao) /\
  chiral_morgan h (ren_mol s g) (ren_cmtabs s tabs) (ren_labels s ao) (ren_cmorders s ord) = ren_cmres s (chiral_morgan h g tabs ao ord).
Proof.
  intros Hwf Hs Hr Hao. split.
  - pose proof (atoms_order_equivariant h ring ring' g s Hwf (fun x y _ _ => Hs x y) Hr) as He. rewrite Hao in He. exact He.
  - apply chiral_morgan_ren. exact Hs.
Qed.

(* non-vacuity: (2R,3R)-like butane-2,3-diol skeleton with two equal stereo labels: the stereo refinement makes the weights
   discrete; renumbered n -> 20 - n *)
Definition exc_b : bond := mkBond 1 None.
Definition exc_a (z hh : Z) (st : option bool) : atom := mkAtom z None 0 false (Some hh) st.
Definition exc_g : mol :=
  mkMol [(1, exc_a 6 3 None); (2, exc_a 6 1 (Some true)); (3, exc_a 8 1 None); (4, exc_a 6 1 (Some true)); (5, exc_a 8 1 None); (6, exc_a 6 3 None)]
        [(1, [(2, exc_b)]); (2, [(1, exc_b); (3, exc_b); (4, exc_b)]); (3, [(2, exc_b)]); (4, [(2, exc_b); (5, exc_b); (6, exc_b)]);
         (5, [(4, exc_b)]); (6, [(4, exc_b)])].
Definition exc_tabs : cmtabs := mkCm [1; 2; 4; 6] [(2, [1; 3; 4]); (4, [2; 5; 6])] [] [] [].
Definition exc_ord : cmorders := mkCmo [2; 4] [] [].
Definition exc_s (n : Z) : Z := 20 - n.
Definition exc_ao : labels := [(2, 1); (4, 1); (1, 2); (6, 2); (3, 3); (5, 3)].

Theorem chiral_morgan_example :
  wf_mol exc_g = true /\ (forall x y, exc_s x = exc_s y -> x = y) /\
  atoms_order hash_ztuple (fun _ => false) exc_g = Ok exc_ao /\
  chiral_morgan hash_ztuple exc_g exc_tabs exc_ao exc_ord =
    Ok ([(6, 1); (5, 2); (3, 3); (1, 4); (2, 5); (4, 6)], [[(2, -1); (4, 1); (1, 2); (6, 2); (3, 3); (5, 3)]]) /\
  chiral_morgan hash_ztuple (ren_mol exc_s exc_g) (ren_cmtabs exc_s exc_tabs) (ren_labels exc_s exc_ao) (ren_cmorders exc_s exc_ord) =
    Ok ([(14, 1); (15, 2); (17, 3); (19, 4); (18, 5); (16, 6)], [[(18, -1); (16, 1); (19, 2); (14, 2); (17, 3); (15, 3)]]).
Proof.
  split; [vm_compute; reflexivity|]. split; [intros x y; unfold exc_s; lia|]. repeat split; vm_compute; reflexivity.
Qed.
