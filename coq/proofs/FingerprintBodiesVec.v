(* C17 round 4 (continued): the translated bodies of linear_fingerprint / morgan_fingerprint (numpy arrays), Fingerprints._atom_identifiers,
   FingerprintsCGR._atom_identifiers and DynamicBond.__hash__ (Gen.FingerprintBodies) are the hand-written models of Model.FingerprintVec,
   Model.Fingerprint and Model.FingerprintCGR. *)
From Coq Require Import ZArith List Bool Lia.
From Model Require Import PyBase Graph PyHash Fingerprint FingerprintCGR FingerprintVec.
From Gen Require Import FingerprintBodies.
From Proofs Require Import FingerprintProofs FingerprintBodiesProofs.
Import ListNotations.
Open Scope Z_scope.

Lemma combine_map_same {A B} (f : A -> B) l : combine l (map f l) = map (fun x => (x, f x)) l.
Proof. induction l as [|a l IH]; cbn; [reflexivity|]. now rewrite IH. Qed.

Lemma zrange_0_len n : 0 <= n -> len_z (zrange 0 n) = n.
Proof. intros H. unfold len_z, zrange. rewrite zrange_from_length. rewrite Z.sub_0_r. now apply Z2Nat.id. Qed.

(* zeros(length) followed by the index assignment = np_set_ones, for every length >= 0 (a negative length never reaches zeros: log2
   raises first) *)
Lemma np_put_ones_zeros n idx : 0 <= n -> np_put_ones (np_zeros n) idx = np_set_ones n idx.
Proof.
  intros H. unfold np_put_ones, np_zeros, np_set_ones. cbv zeta.
  replace (len_z (map (fun _ : Z => 0) (zrange 0 n))) with n
    by (unfold len_z; rewrite map_length; symmetry; exact (zrange_0_len n H)).
  destruct (existsb _ idx); [reflexivity|].
  rewrite combine_map_same, map_map. cbn [fst snd]. reflexivity.
Qed.

(* the array functions over ANY result of the bit-set function that is an error for length <= 0 (bit_list / bit_list_of are) *)
Theorem g_linear_fingerprint_eq : forall r lo hi len nab nbp, (len <= 0 -> exists e, r = Err e) ->
  g_linear_fingerprint r lo hi len nab nbp = vec_of len r.
Proof.
  intros r lo hi len nab nbp H. unfold g_linear_fingerprint, vec_of. destruct r as [bits|e]; [|reflexivity].
  cbv zeta. assert (0 <= len) as Hl.
  { destruct (Z_le_gt_dec len 0) as [L|L]; [|lia]. destruct (H L) as [e He]. discriminate He. }
  rewrite (np_put_ones_zeros len bits Hl). destruct (np_set_ones len bits); reflexivity.
Qed.

Theorem g_morgan_fingerprint_eq : forall r lo hi len nab, (len <= 0 -> exists e, r = Err e) ->
  g_morgan_fingerprint r lo hi len nab = vec_of len r.
Proof.
  intros r lo hi len nab H. unfold g_morgan_fingerprint, vec_of. destruct r as [bits|e]; [|reflexivity].
  cbv zeta. assert (0 <= len) as Hl.
  { destruct (Z_le_gt_dec len 0) as [L|L]; [|lia]. destruct (H L) as [e He]. discriminate He. }
  rewrite (np_put_ones_zeros len bits Hl). destruct (np_set_ones len bits); reflexivity.
Qed.

Lemma bit_list_err len nab hs : len <= 0 -> exists e, bit_list len nab hs = Err e.
Proof. intros H. unfold bit_list. apply Z.leb_le in H. rewrite H. now exists ValueError. Qed.
Lemma bit_list_of_err len nab r : len <= 0 -> exists e, bit_list_of len nab r = Err e.
Proof. intros H. unfold bit_list_of. apply Z.leb_le in H. rewrite H. now exists ValueError. Qed.

(* identifiers *)
Theorem g_atom_identifiers_eq : forall g, g_atom_identifiers g = atom_identifiers g.
Proof. intros g. unfold g_atom_identifiers, atom_identifiers. apply map_ext. intros [n a]. cbn [fst snd]. unfold atom_identifier. reflexivity. Qed.

Theorem g_dynbond_int_eq : forall b, g_dynbond_int b = cbond_int b.
Proof. intros b. unfold g_dynbond_int, cbond_int, or0. rewrite tuple_hash_lanes_fast_eq. reflexivity. Qed.

Theorem g_cgr_atom_identifiers_eq : forall c, g_cgr_atom_identifiers c = cgr_atom_identifiers c.
Proof.
  intros c. unfold g_cgr_atom_identifiers, cgr_atom_identifiers. apply map_ext. intros [n a]. cbn [fst snd].
  unfold cgr_atom_identifier, or0. rewrite tuple_hash_lanes_fast_eq. reflexivity.
Qed.

(* the whole call chains, from the translated identifiers to the array, equal the top-level model functions *)
Theorem translated_linear_fingerprint : forall h g lo hi len nab nbp, wf_mol g = true ->
  g_linear_fingerprint
    (g_linear_bit_set (g_linear_hash_set h (g_fragments g (g_atom_identifiers g) (chains g lo hi) lo hi) lo hi nbp) lo hi len nab nbp)
    lo hi len nab nbp
  = linear_fingerprint h g lo hi len nab nbp.
Proof.
  intros h g lo hi len nab nbp W. rewrite g_atom_identifiers_eq.
  destruct (translated_linear_pipeline_with h (atom_identifiers g) g lo hi len nab nbp W) as [_ [_ E]]. cbv zeta in E.
  rewrite E. rewrite g_linear_fingerprint_eq by (apply bit_list_err). reflexivity.
Qed.

Theorem translated_morgan_fingerprint : forall h g lo hi len nab,
  g_morgan_fingerprint (g_morgan_bit_set (g_morgan_hash_set (g_morgan_hash_dict h g (g_atom_identifiers g) lo hi) lo hi) lo hi len nab)
    lo hi len nab
  = morgan_fingerprint h g lo hi len nab.
Proof.
  intros h g lo hi len nab. rewrite g_atom_identifiers_eq.
  destruct (translated_morgan_pipeline h g lo hi len nab) as [_ [_ E]]. cbv zeta in E.
  rewrite E. rewrite g_morgan_fingerprint_eq by (apply bit_list_of_err). reflexivity.
Qed.

Theorem translated_cgr_fingerprints : forall h c lo hi len nab nbp, wf_cgr c = true ->
  g_linear_fingerprint
    (g_linear_bit_set (g_linear_hash_set h (g_fragments (cgr_skeleton c) (g_cgr_atom_identifiers c) (cgr_chains c lo hi) lo hi) lo hi nbp)
       lo hi len nab nbp) lo hi len nab nbp
  = cgr_linear_fingerprint h c lo hi len nab nbp /\
  g_morgan_fingerprint
    (g_morgan_bit_set (g_morgan_hash_set (g_morgan_hash_dict h (cgr_skeleton c) (g_cgr_atom_identifiers c) lo hi) lo hi) lo hi len nab)
    lo hi len nab
  = cgr_morgan_fingerprint h c lo hi len nab.
Proof.
  intros h c lo hi len nab nbp W. rewrite g_cgr_atom_identifiers_eq. split.
  - destruct (translated_linear_pipeline_with h (cgr_atom_identifiers c) (cgr_skeleton c) lo hi len nab nbp W) as [_ [_ E]].
    cbv zeta in E. unfold cgr_chains. rewrite E. rewrite g_linear_fingerprint_eq by (apply bit_list_err). reflexivity.
  - destruct (translated_morgan_pipeline_with h (cgr_atom_identifiers c) (cgr_skeleton c) lo hi len nab) as [_ [_ E]].
    cbv zeta in E. rewrite E. rewrite g_morgan_fingerprint_eq by (apply bit_list_of_err). reflexivity.
Qed.

Lemma translated_vec_example :
  g_linear_fingerprint (Ok [1; -1; 3]) 1 4 8 2 4 = Ok [0; 1; 0; 1; 0; 0; 0; 1] /\
  g_morgan_fingerprint (Ok [8]) 1 4 8 2 = Err IndexError /\
  g_morgan_fingerprint (Err ValueError) 1 4 0 2 = Err ValueError /\
  g_dynbond_int (mkCBond (Some 1) None) = cbond_int (mkCBond (Some 1) None) /\
  g_atom_identifiers ex_mol = atom_identifiers ex_mol.
Proof. repeat split; vm_compute; reflexivity. Qed.
