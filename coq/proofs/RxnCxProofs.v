(* C15 -- the textual CXSMILES block of a reaction: decimal printing / parsing, the two regular expressions of
   chython/files/daylight/smiles.py (cx_fragments, cx_radicals; Model.RxnSmiles models them as explicit matchers
   p_num / p_dotnums / p_group / p_groups / search_fragments / p_commanums / find_radicals) read back exactly what
   ReactionContainer.__format__ prints, and with it the string-level round trip writer text -> reader. *)
From Coq Require Import ZArith NArith List String Ascii Bool Lia Permutation DecimalString DecimalN DecimalPos DecimalFacts.
From Model Require Import PyBase RxnSmiles.
From Proofs Require Import RxnSmilesProofs.
Import ListNotations.
Open Scope string_scope.
Open Scope list_scope.
Open Scope Z_scope.

(* ---------- strings over a set of characters ---------- *)
Fixpoint only (P : ascii -> bool) (s : string) : bool :=
  match s with EmptyString => true | String a r => P a && only P r end.

Lemma only_app P a b : only P (a ++ b)%string = only P a && only P b.
Proof. induction a as [|x a IH]; cbn [append only]; [reflexivity|]. rewrite IH, andb_assoc. reflexivity. Qed.

Lemma only_weaken (P Q : ascii -> bool) s : (forall c, P c = true -> Q c = true) -> only P s = true -> only Q s = true.
Proof.
  intros H. induction s as [|a s IH]; cbn [only]; [reflexivity|]. intros E. apply andb_prop in E. destruct E as [E1 E2].
  rewrite (H a E1), (IH E2). reflexivity.
Qed.

Lemma only_concat P d xs : only P d = true -> Forall (fun x => only P x = true) xs -> only P (concat d xs) = true.
Proof.
  intros Hd. induction xs as [|x xs IH]; intros Hf; [reflexivity|]. inversion Hf as [|? ? Hx Hxs]; subst.
  destruct xs as [|y ys]; cbn [concat]; [exact Hx|]. rewrite !only_app, Hx, Hd. cbn [andb]. apply IH. exact Hxs.
Qed.

Lemma slen_app (a b : string) : String.length (a ++ b) = (String.length a + String.length b)%nat.
Proof. induction a as [|x a IH]; cbn [append String.length]; [reflexivity|]. rewrite IH. reflexivity. Qed.

(* starts with a digit *)
Definition sd (s : string) : bool := match s with String a _ => is_digit a | EmptyString => false end.

(* ---------- decimal printing and parsing ---------- *)
Lemma uint_digits d : only is_digit (NilEmpty.string_of_uint d) = true.
Proof. induction d; cbn [NilEmpty.string_of_uint only]; try reflexivity; rewrite IHd; reflexivity. Qed.

Lemma to_uint_nonnil n : N.to_uint n <> Decimal.Nil.
Proof. destruct n; cbn [N.to_uint]; [discriminate|apply DecimalPos.Unsigned.to_uint_nonnil]. Qed.

Lemma dec_eq n : dec n = NilEmpty.string_of_uint (N.to_uint (Z.to_N n)).
Proof.
  unfold dec, NilZero.string_of_uint. pose proof (to_uint_nonnil (Z.to_N n)) as H.
  destruct (N.to_uint (Z.to_N n)); try reflexivity. congruence.
Qed.

Lemma dec_digits n : only is_digit (dec n) = true.
Proof. rewrite dec_eq. apply uint_digits. Qed.

Lemma dec_nonempty n : dec n <> EmptyString.
Proof.
  rewrite dec_eq. pose proof (to_uint_nonnil (Z.to_N n)) as H.
  destruct (N.to_uint (Z.to_N n)); cbn [NilEmpty.string_of_uint]; try discriminate. congruence.
Qed.

Lemma int_of_dec n : 0 <= n -> int_of_digits (dec n) = n.
Proof.
  intros H. unfold int_of_digits, dec. rewrite NilZero.usu by apply to_uint_nonnil.
  rewrite DecimalN.Unsigned.of_to. apply Z2N.id. exact H.
Qed.

Lemma take_digits_app s : forall r, only is_digit s = true -> sd r = false -> take_digits (s ++ r) = (s, r).
Proof.
  induction s as [|a s IH]; intros r Hs Hr; cbn [append].
  - destruct r as [|b t]; [reflexivity|]. cbn [sd] in Hr. cbn [take_digits]. rewrite Hr. reflexivity.
  - cbn [only] in Hs. apply andb_prop in Hs. destruct Hs as [Ha Hs]. cbn [take_digits]. rewrite Ha, (IH r Hs Hr). reflexivity.
Qed.

Lemma p_num_dec n r : 0 <= n -> sd r = false -> p_num (dec n ++ r) = Some (n, r).
Proof.
  intros Hn Hr. unfold p_num. rewrite (take_digits_app _ _ (dec_digits n) Hr).
  pose proof (dec_nonempty n) as Hne. destruct (dec n) eqn:E; [congruence|]. rewrite <- E, (int_of_dec n Hn). reflexivity.
Qed.

Lemma p_num_none s : sd s = false -> p_num s = None.
Proof.
  intros H. unfold p_num. destruct s as [|a t]; [reflexivity|]. cbn [sd] in H. cbn [take_digits]. rewrite H. reflexivity.
Qed.

(* ---------- one step of the matchers (the constant characters of the patterns) ---------- *)
Ltac by_bits a := destruct a as [[|] [|] [|] [|] [|] [|] [|] [|]]; try reflexivity.

Lemma p_commanums_hit k r :
  p_commanums (S k) (String "," r) =
  match p_num r with Some (n, r') => let '(ns, r'') := p_commanums k r' in (n :: ns, r'') | None => ([], String "," r) end.
Proof. reflexivity. Qed.

Lemma p_commanums_miss k s : (forall r, s <> String "," r) -> p_commanums (S k) s = ([], s).
Proof.
  intros H. destruct s as [|a r]; [reflexivity|]. by_bits a. exfalso. apply (H r). reflexivity.
Qed.

Lemma p_dotnums_hit k r :
  p_dotnums (S k) (String "." r) =
  match p_num r with Some (n, r') => let '(ns, r'') := p_dotnums k r' in (n :: ns, r'') | None => ([], String "." r) end.
Proof. reflexivity. Qed.

Lemma p_dotnums_miss k s : (forall r, s <> String "." r) -> p_dotnums (S k) s = ([], s).
Proof.
  intros H. destruct s as [|a r]; [reflexivity|]. by_bits a. exfalso. apply (H r). reflexivity.
Qed.

Lemma p_groups_hit k r :
  p_groups (S k) (String "," r) = match p_group r with Some (g, r') => g :: p_groups k r' | None => [] end.
Proof. reflexivity. Qed.

Lemma p_groups_miss k s : (forall r, s <> String "," r) -> p_groups k s = [].
Proof.
  intros H. destruct k as [|k]; [reflexivity|]. destruct s as [|a r]; [reflexivity|]. by_bits a. exfalso. apply (H r). reflexivity.
Qed.

Lemma find_radicals_skip k a r : a <> "^"%char -> find_radicals (S k) (String a r) = find_radicals k r.
Proof. intros H. by_bits a. exfalso. apply H. reflexivity. Qed.

Lemma find_radicals_hit k t :
  find_radicals (S k) (String "^" (String "1" (String ":" t))) =
  match p_num t with
  | Some (n, t') => let '(ns, t'') := p_commanums (String.length t') t' in ((n :: ns) ++ find_radicals k t'')%list
  | None => find_radicals k (String "1" (String ":" t))
  end.
Proof. cbn [find_radicals]. destruct (p_num t) as [[n t']|]; [|reflexivity]. destruct (p_commanums (String.length t') t'). reflexivity. Qed.

Lemma search_fragments_skip a r : a <> "f"%char -> search_fragments (String a r) = search_fragments r.
Proof. intros H. by_bits a. exfalso. apply H. reflexivity. Qed.

Lemma search_fragments_hit t :
  search_fragments (String "f" (String ":" t)) =
  match p_group t with Some (g, t') => Some (g :: p_groups (String.length t') t') | None => search_fragments (String ":" t) end.
Proof. cbn [search_fragments]. destruct (p_group t) as [[g t']|]; reflexivity. Qed.

(* ---------- c n1 c n2 ... followed by r ---------- *)
Fixpoint seps (c : ascii) (l : list Z) (r : string) : string :=
  match l with [] => r | n :: l' => String c (dec n ++ seps c l' r) end.

Lemma concat_dec_seps c n l r : (concat (String c "") (map dec (n :: l)) ++ r)%string = (dec n ++ seps c l r)%string.
Proof.
  revert n. induction l as [|m l IH]; intros n; cbn [map concat seps]; [reflexivity|].
  rewrite !sapp_assoc. f_equal. cbn [append]. f_equal. apply (IH m).
Qed.

Lemma sd_seps c l r : is_digit c = false -> sd r = false -> sd (seps c l r) = false.
Proof. intros Hc Hr. destruct l; cbn [seps sd]; assumption. Qed.

Lemma seps_length c l r : (List.length l <= String.length (seps c l r))%nat.
Proof. induction l as [|n l IH]; cbn [seps List.length String.length]; [lia|]. rewrite slen_app. lia. Qed.

(* r stops a c-separated list: it does not start with a digit nor with c followed by a digit *)
Definition stops (c : ascii) (r : string) : Prop := sd r = false /\ forall t, r = String c t -> sd t = false.

Lemma p_commanums_seps l : forall fuel r, Forall (fun x => 0 <= x) l -> (List.length l <= fuel)%nat -> stops "," r ->
  p_commanums fuel (seps "," l r) = (l, r).
Proof.
  induction l as [|n l IH]; intros fuel r Hl Hf [S1 S2]; cbn [seps].
  - destruct fuel as [|k]; [reflexivity|]. destruct r as [|a t]; [reflexivity|].
    destruct (Ascii.eqb_spec a ","%char) as [E|E].
    + subst a. rewrite p_commanums_hit, (p_num_none t (S2 t eq_refl)). reflexivity.
    + apply p_commanums_miss. intros t' Ht. inversion Ht. congruence.
  - inversion Hl as [|? ? Hn Hl']; subst. destruct fuel as [|k]; [cbn in Hf; lia|]. cbn [List.length] in Hf.
    rewrite p_commanums_hit. rewrite p_num_dec; [|exact Hn|apply sd_seps; [reflexivity|exact S1]].
    rewrite (IH k r Hl' ltac:(lia) (conj S1 S2)). reflexivity.
Qed.

Lemma p_dotnums_seps l : forall fuel r, Forall (fun x => 0 <= x) l -> (List.length l <= fuel)%nat -> stops "." r ->
  p_dotnums fuel (seps "." l r) = (l, r).
Proof.
  induction l as [|n l IH]; intros fuel r Hl Hf [S1 S2]; cbn [seps].
  - destruct fuel as [|k]; [reflexivity|]. destruct r as [|a t]; [reflexivity|].
    destruct (Ascii.eqb_spec a "."%char) as [E|E].
    + subst a. rewrite p_dotnums_hit, (p_num_none t (S2 t eq_refl)). reflexivity.
    + apply p_dotnums_miss. intros t' Ht. inversion Ht. congruence.
  - inversion Hl as [|? ? Hn Hl']; subst. destruct fuel as [|k]; [cbn in Hf; lia|]. cbn [List.length] in Hf.
    rewrite p_dotnums_hit. rewrite p_num_dec; [|exact Hn|apply sd_seps; [reflexivity|exact S1]].
    rewrite (IH k r Hl' ltac:(lia) (conj S1 S2)). reflexivity.
Qed.

(* ---------- groups n.n(.n)* separated by commas ---------- *)
Definition group_ok (g : list Z) : Prop := (2 <= List.length g)%nat /\ Forall (fun x => 0 <= x) g.
Definition gstr (g : list Z) (r : string) : string := match g with [] => r | n :: l => (dec n ++ seps "." l r)%string end.
Fixpoint gseps (gs : list (list Z)) (r : string) : string :=
  match gs with [] => r | g :: gs' => String "," (gstr g (gseps gs' r)) end.

Lemma p_group_gstr g r : group_ok g -> stops "." r -> p_group (gstr g r) = Some (g, r).
Proof.
  intros [Hlen Hnn] Hs. destruct g as [|n l]; [cbn in Hlen; lia|]. destruct l as [|m l]; [cbn in Hlen; lia|].
  inversion Hnn as [|? ? Hn Hl]; subst. cbn [gstr]. unfold p_group. pose proof Hs as [S1 S2].
  rewrite p_num_dec; [|exact Hn|apply sd_seps; [reflexivity|exact S1]].
  rewrite (p_dotnums_seps (m :: l) _ r Hl (seps_length _ _ _) Hs). reflexivity.
Qed.

Lemma stops_dot_gseps gs : stops "." (gseps gs "|").
Proof. destruct gs; cbn [gseps]; split; try reflexivity; intros t Ht; discriminate. Qed.

Lemma p_groups_gseps gs : forall fuel, Forall group_ok gs -> (List.length gs <= fuel)%nat -> p_groups fuel (gseps gs "|") = gs.
Proof.
  induction gs as [|g gs IH]; intros fuel Hg Hf; cbn [gseps].
  - apply p_groups_miss. intros r Hr. discriminate.
  - inversion Hg as [|? ? Hg1 Hg']; subst. destruct fuel as [|k]; [cbn in Hf; lia|]. cbn [List.length] in Hf.
    rewrite p_groups_hit, (p_group_gstr g _ Hg1 (stops_dot_gseps gs)). f_equal. apply IH; [exact Hg'|lia].
Qed.

Lemma gstr_length g r : (String.length r <= String.length (gstr g r))%nat.
Proof.
  destruct g as [|n l]; cbn [gstr]; [lia|]. rewrite slen_app.
  assert (H : forall l, (String.length r <= String.length (seps "." l r))%nat).
  { induction l0 as [|x l0 IH]; cbn [seps String.length]; [lia|]. rewrite slen_app. lia. }
  specialize (H l). lia.
Qed.

Lemma gseps_length gs r : (List.length gs <= String.length (gseps gs r))%nat.
Proof.
  induction gs as [|g gs IH]; cbn [gseps List.length String.length]; [lia|].
  pose proof (gstr_length g (gseps gs r)). lia.
Qed.

Lemma concat_groups g gs r :
  (concat "," (map (fun x => concat "." (map dec x)) (g :: gs)) ++ r)%string = gstr g (gseps gs r).
Proof.
  revert g. induction gs as [|h gs IH]; intros g.
  - cbn [map concat gseps]. destruct g as [|n l]; [reflexivity|]. apply (concat_dec_seps "." n l r).
  - pose proof (IH h) as E. cbn [map] in E. cbn [map]. rewrite concat_cons2, !sapp_assoc. rewrite E. cbn [gseps append].
    destruct g as [|n l]; [reflexivity|]. apply (concat_dec_seps "." n l).
Qed.

(* ---------- strings without a given character ---------- *)
Definition notc (c a : ascii) : bool := negb (Ascii.eqb a c).

Lemma notc_neq c a : notc c a = true -> a <> c.
Proof. unfold notc. destruct (Ascii.eqb_spec a c); [discriminate|auto]. Qed.

Lemma digit_notc c a : is_digit c = false -> is_digit a = true -> notc c a = true.
Proof. intros Hc Ha. unfold notc. destruct (Ascii.eqb_spec a c); [subst; congruence|reflexivity]. Qed.

Definition digits_in (P : ascii -> bool) : Prop := forall a, is_digit a = true -> P a = true.

Lemma only_dec P n : digits_in P -> only P (dec n) = true.
Proof. intros H. apply (only_weaken is_digit); [exact H|apply dec_digits]. Qed.

Lemma only_seps P c l r : P c = true -> digits_in P -> only P r = true -> only P (seps c l r) = true.
Proof.
  intros Hc Hd Hr. induction l as [|n l IH]; cbn [seps only]; [exact Hr|]. rewrite Hc, only_app, (only_dec P n Hd), IH. reflexivity.
Qed.

Lemma only_gstr P g r : P "."%char = true -> digits_in P -> only P r = true -> only P (gstr g r) = true.
Proof.
  intros Hc Hd Hr. destruct g as [|n l]; cbn [gstr]; [exact Hr|]. rewrite only_app, (only_dec P n Hd). apply only_seps; assumption.
Qed.

Lemma only_gseps P gs r : P ","%char = true -> P "."%char = true -> digits_in P -> only P r = true -> only P (gseps gs r) = true.
Proof.
  intros H1 H2 Hd Hr. induction gs as [|g gs IH]; cbn [gseps only]; [exact Hr|]. rewrite H1. apply only_gstr; assumption.
Qed.

Lemma find_radicals_none s : forall k, only (notc "^") s = true -> find_radicals k s = [].
Proof.
  induction s as [|a s IH]; intros k H; destruct k as [|k]; try reflexivity.
  cbn [only] in H. apply andb_prop in H. destruct H as [Ha Hs].
  rewrite find_radicals_skip by (apply notc_neq; exact Ha). apply IH. exact Hs.
Qed.

Lemma search_fragments_none s : only (notc "f") s = true -> search_fragments s = None.
Proof.
  induction s as [|a s IH]; intros H; [reflexivity|]. cbn [only] in H. apply andb_prop in H. destruct H as [Ha Hs].
  rewrite search_fragments_skip by (apply notc_neq; exact Ha). apply IH. exact Hs.
Qed.

Lemma search_fragments_prefix pre s : only (notc "f") pre = true -> search_fragments (pre ++ s) = search_fragments s.
Proof.
  induction pre as [|a pre IH]; intros H; cbn [append]; [reflexivity|]. cbn [only] in H. apply andb_prop in H. destruct H as [Ha Hs].
  rewrite search_fragments_skip by (apply notc_neq; exact Ha). apply IH. exact Hs.
Qed.

Lemma search_fragments_seps l r : search_fragments (seps "," l r) = search_fragments r.
Proof.
  induction l as [|n l IH]; cbn [seps]; [reflexivity|]. rewrite search_fragments_skip by discriminate.
  rewrite search_fragments_prefix; [exact IH|]. apply only_dec. intros a Ha. apply digit_notc; [reflexivity|exact Ha].
Qed.

(* ---------- the printed block in normal form ---------- *)
(* what follows the radical list: the closing bar, or ",f:groups|" *)
Definition ftail (c : list (list Z)) : string :=
  match c with [] => "|" | g :: gs => String "," (String "f" (String ":" (gstr g (gseps gs "|")))) end.
Definition tok (r : list Z) (c : list (list Z)) : string :=
  match r, c with
  | [], [] => "||"
  | [], g :: gs => String "|" (String "f" (String ":" (gstr g (gseps gs "|"))))
  | n :: l, _ => String "|" (String "^" (String "1" (String ":" (dec n ++ seps "," l (ftail c)))))
  end.
(* the token ReactionContainer.__format__ appends after the blank: "|" + ",".join(cx) + "|" *)
Definition cx_token (r : list Z) (c : list (list Z)) : string := ("|" ++ concat "," (cx_text (mkW "" r c)) ++ "|")%string.

Lemma tok_eq r c : r <> [] \/ c <> [] -> cx_token r c = tok r c.
Proof.
  intros H. unfold cx_token, cx_text. cbn [w_radicals w_contract].
  destruct r as [|n l], c as [|g gs]; cbn [List.app concat tok ftail].
  - destruct H; congruence.
  - cbn [append]. rewrite concat_groups. reflexivity.
  - cbn [append]. rewrite (concat_dec_seps "," n l "|"). reflexivity.
  - rewrite !sapp_assoc. cbn [append]. rewrite concat_groups. rewrite (concat_dec_seps "," n l). reflexivity.
Qed.

Lemma stops_comma_ftail c : stops "," (ftail c).
Proof.
  destruct c as [|g gs]; cbn [ftail]; split; try reflexivity; intros t Ht; [discriminate|]. inversion Ht. reflexivity.
Qed.

Lemma notcaret_digits : digits_in (notc "^"). Proof. intros a Ha. apply digit_notc; [reflexivity|exact Ha]. Qed.
Lemma notf_digits : digits_in (notc "f"). Proof. intros a Ha. apply digit_notc; [reflexivity|exact Ha]. Qed.

Lemma only_notcaret_ftail c : only (notc "^") (ftail c) = true.
Proof.
  destruct c as [|g gs]; [reflexivity|]. cbn [ftail only]. cbn [notc Ascii.eqb Bool.eqb negb andb].
  apply only_gstr; [reflexivity|apply notcaret_digits|]. apply only_gseps; try reflexivity. apply notcaret_digits.
Qed.

Definition nonneg (l : list Z) : Prop := Forall (fun x => 0 <= x) l.

Theorem find_radicals_tok r c : nonneg r -> r <> [] \/ c <> [] ->
  find_radicals (S (String.length (tok r c))) (tok r c) = r.
Proof.
  intros Hr Hne. destruct r as [|n l].
  - destruct c as [|g gs]; [destruct Hne; congruence|]. apply find_radicals_none. cbn [tok only].
    cbn [notc Ascii.eqb Bool.eqb negb andb]. apply only_gstr; [reflexivity|apply notcaret_digits|].
    apply only_gseps; try reflexivity. apply notcaret_digits.
  - inversion Hr as [|? ? Hn Hl]; subst. cbn [tok String.length].
    rewrite find_radicals_skip by discriminate. rewrite find_radicals_hit.
    rewrite p_num_dec; [|exact Hn|apply sd_seps; [reflexivity|apply stops_comma_ftail]].
    rewrite (p_commanums_seps l _ (ftail c) Hl (seps_length _ _ _) (stops_comma_ftail c)).
    rewrite find_radicals_none by apply only_notcaret_ftail. apply List.app_nil_r.
Qed.

Theorem search_fragments_tok r c : nonneg r -> Forall group_ok c -> r <> [] \/ c <> [] ->
  search_fragments (tok r c) = match c with [] => None | _ => Some c end.
Proof.
  intros Hr Hc Hne.
  assert (Hit : forall g gs, Forall group_ok (g :: gs) ->
            search_fragments (String "f" (String ":" (gstr g (gseps gs "|")))) = Some (g :: gs)).
  { intros g gs Hg. inversion Hg as [|? ? Hg1 Hg']; subst. rewrite search_fragments_hit.
    rewrite (p_group_gstr g _ Hg1 (stops_dot_gseps gs)). rewrite (p_groups_gseps gs _ Hg' (gseps_length gs _)). reflexivity. }
  destruct r as [|n l], c as [|g gs].
  - destruct Hne; congruence.
  - cbn [tok]. rewrite search_fragments_skip by discriminate. apply Hit. exact Hc.
  - cbn [tok ftail]. apply search_fragments_none. cbn [only]. cbn [notc Ascii.eqb Bool.eqb negb andb].
    rewrite only_app, (only_dec _ n notf_digits). apply only_seps; try reflexivity. apply notf_digits.
  - cbn [tok ftail]. do 4 (rewrite search_fragments_skip by discriminate).
    rewrite search_fragments_prefix by (apply only_dec; apply notf_digits).
    rewrite search_fragments_seps. rewrite search_fragments_skip by discriminate. apply Hit. exact Hc.
Qed.

Lemma ewb_snoc y : ends_with_bar (y ++ "|") = true.
Proof.
  induction y as [|a y IH]; [reflexivity|]. cbn [append ends_with_bar].
  destruct (y ++ "|")%string eqn:E; [destruct y; discriminate|]. exact IH.
Qed.

Lemma ewb_token r c : starts_with_bar (cx_token r c) = true /\ ends_with_bar (cx_token r c) = true.
Proof.
  unfold cx_token. split; [reflexivity|]. cbn [append].
  set (y := (concat "," (cx_text (mkW "" r c)) ++ "|")%string).
  assert (E : ends_with_bar y = true) by apply ewb_snoc.
  cbn [ends_with_bar]. destruct y eqn:Ey; [discriminate E|]. exact E.
Qed.

(* the reader's CX parser applied to the printed block: the indices come back (radicals dropped on collisions; groups
   sorted, contraction dropped on collisions -- exactly what smiles() does with any block) *)
Theorem parse_cx_print r c rest : nonneg r -> Forall group_ok c -> r <> [] \/ c <> [] ->
  parse_cx (cx_token r c :: rest) =
  ((if nodup_z r then r else []),
   match c with
   | [] => None
   | _ => if nodup_z (List.concat (map zsort c)) then Some (map zsort c) else None
   end).
Proof.
  intros Hr Hc Hne. unfold parse_cx. destruct (ewb_token r c) as [E1 E2]. rewrite E1, E2. cbn [andb].
  rewrite (tok_eq r c Hne). rewrite (find_radicals_tok r c Hr Hne), (search_fragments_tok r c Hr Hc Hne).
  destruct c as [|g gs]; reflexivity.
Qed.

(* for index lists as the writer produces them (distinct radical indices; sorted, pairwise disjoint groups) the block is
   read back unchanged *)
Definition sorted_z (l : list Z) : Prop := zsort l = l.
Theorem parse_cx_print_exact r c rest : nonneg r -> Forall group_ok c -> r <> [] \/ c <> [] ->
  nodup_z r = true -> Forall sorted_z c -> nodup_z (List.concat c) = true ->
  parse_cx (cx_token r c :: rest) = (r, match c with [] => None | c' => Some c' end).
Proof.
  intros Hr Hc Hne Nr Sc Nc. rewrite (parse_cx_print r c rest Hr Hc Hne), Nr.
  assert (E : map zsort c = c).
  { clear -Sc. induction Sc as [|g c Hg Sc IH]; [reflexivity|]. cbn [map]. rewrite Hg, IH. reflexivity. }
  rewrite E, Nc. destruct c; reflexivity.
Qed.

(* ---------- str.split() on the written line ---------- *)
Definition nows (a : ascii) : bool := negb (is_ws a).

Lemma split_ws_aux_run s : forall r cur, only nows s = true -> split_ws_aux (s ++ r) cur = split_ws_aux r (cur ++ s).
Proof.
  induction s as [|a s IH]; intros r cur H; cbn [append].
  - rewrite sapp_nil_r. reflexivity.
  - cbn [only] in H. apply andb_prop in H. destruct H as [Ha Hs]. unfold nows in Ha. apply negb_true_iff in Ha.
    cbn [split_ws_aux]. rewrite Ha. rewrite (IH r _ Hs). rewrite sapp_assoc. reflexivity.
Qed.

Lemma split_ws_one s : only nows s = true -> s <> EmptyString -> split_ws s = [s].
Proof.
  intros H Hn. unfold split_ws. rewrite <- (sapp_nil_r s) at 1. rewrite (split_ws_aux_run s "" "" H). cbn [append split_ws_aux].
  destruct s; [congruence|reflexivity].
Qed.

Lemma split_ws_two s t : only nows s = true -> s <> EmptyString -> only nows t = true -> t <> EmptyString ->
  split_ws (s ++ String " " t) = [s; t].
Proof.
  intros Hs Hsn Ht Htn. unfold split_ws. rewrite (split_ws_aux_run s _ "" Hs). cbn [append].
  assert (E : split_ws_aux (String " " t) s = s :: split_ws_aux t "").
  { cbn [split_ws_aux]. change (is_ws " ") with true. cbv iota. destruct s; [congruence|reflexivity]. }
  rewrite E. f_equal. fold (split_ws t). apply split_ws_one; assumption.
Qed.

Lemma nows_digits : digits_in nows.
Proof.
  intros a H. unfold nows, is_ws. unfold is_digit in H. cbv zeta in *. apply andb_prop in H. destruct H as [H1 H2].
  apply N.leb_le in H1. apply negb_true_iff. apply orb_false_iff. split; apply andb_false_iff; right; apply N.leb_gt; lia.
Qed.

Lemma only_nows_token r c : only nows (cx_token r c) = true.
Proof.
  unfold cx_token. cbn [append only]. change (nows "|") with true. cbv iota. cbn [andb]. rewrite only_app. apply andb_true_intro. split; [|reflexivity].
  apply only_concat; [reflexivity|]. unfold cx_text. cbn [w_radicals w_contract].
  apply Forall_app. split.
  - destruct r as [|n l]; [constructor|]. constructor; [|constructor]. cbn [append only]. change (nows "^") with true. change (nows "1") with true.
    change (nows ":") with true. cbn [andb]. apply only_concat; [reflexivity|]. apply Forall_forall. intros x Hx. apply in_map_iff in Hx.
    destruct Hx as [y [E _]]. subst x. apply only_dec. apply nows_digits.
  - destruct c as [|g gs]; [constructor|]. constructor; [|constructor]. cbn [append only]. change (nows "f") with true. change (nows ":") with true.
    cbn [andb]. apply only_concat; [reflexivity|]. apply Forall_forall. intros x Hx. apply in_map_iff in Hx.
    destruct Hx as [y [E _]]. subst x. apply only_concat; [reflexivity|]. apply Forall_forall. intros z Hz. apply in_map_iff in Hz.
    destruct Hz as [u [E _]]. subst z. apply only_dec. apply nows_digits.
Qed.

(* ---------- what the writer prints: radical positions and ranges ---------- *)
Lemma true_positions_bounds l : forall i x, In x (true_positions l i) -> i <= x < i + Z.of_nat (List.length l).
Proof.
  induction l as [|b l IH]; intros i x H; [contradiction|]. cbn [true_positions] in H. apply in_app_iff in H. cbn [List.length].
  destruct H as [H|H].
  - destruct b; [|contradiction]. destruct H as [H|[]]. lia.
  - apply IH in H. lia.
Qed.

Lemma true_positions_nodup l : forall i, NoDup (true_positions l i).
Proof.
  induction l as [|b l IH]; intros i; [constructor|]. cbn [true_positions]. destruct b; cbn [List.app]; [|apply IH].
  constructor; [|apply IH]. intros H. apply true_positions_bounds in H. lia.
Qed.

Lemma nodup_z_true l : NoDup l -> nodup_z l = true.
Proof.
  induction 1 as [|x l Hx H IH]; [reflexivity|]. cbn [nodup_z]. rewrite IH, andb_true_r. apply negb_true_iff.
  destruct (zmem x l) eqn:E; [|reflexivity]. apply zmem_In in E. contradiction.
Qed.

Lemma zsort_zrange_from n : forall s, zsort (zrange_from s n) = zrange_from s n.
Proof.
  induction n as [|n IH]; intros s; [reflexivity|]. cbn [zrange_from]. unfold zsort in *. cbn [fold_right]. rewrite IH.
  destruct n as [|n]; [reflexivity|]. cbn [zrange_from zinsert]. replace (s <=? s + 1) with true by (symmetry; apply Z.leb_le; lia). reflexivity.
Qed.

Lemma NoDup_zrange a b : NoDup (zrange a b).
Proof.
  unfold zrange. generalize (Z.to_nat (b - a)). intros n. revert a. induction n as [|n IH]; intros a; cbn [zrange_from]; constructor; [|apply IH].
  intros H. apply zrange_from_In in H. lia.
Qed.

Lemma NoDup_app2 {A} (l1 l2 : list A) : NoDup l1 -> NoDup l2 -> (forall x, In x l1 -> ~ In x l2) -> NoDup (l1 ++ l2).
Proof.
  intros H1 H2 Hd. induction H1 as [|x l1 Hx H1 IH]; cbn [List.app]; [exact H2|]. constructor.
  - rewrite in_app_iff. intros [Hi|Hi]; [contradiction|]. apply (Hd x); [left; reflexivity|exact Hi].
  - apply IH. intros y Hy. apply Hd. right. exact Hy.
Qed.

Lemma in_concat_ranges ms off x : In x (List.concat (multi_ranges off ms)) -> off <= x < off + total ms.
Proof.
  intros H. apply in_concat in H. destruct H as [c [Hc Hx]]. apply (multi_ranges_bounds ms off c x Hc Hx).
Qed.

Lemma multi_ranges_nodup ms : forall off, NoDup (List.concat (multi_ranges off ms)).
Proof.
  induction ms as [|m ms IH]; intros off; [constructor|]. cbn [multi_ranges]. rewrite concat_app.
  apply NoDup_app2; [|apply IH|].
  - destruct (len m >? 1); cbn [List.concat]; [rewrite List.app_nil_r; apply NoDup_zrange|constructor].
  - intros x Hx Hin. apply in_concat_ranges in Hin. destruct (len m >? 1); cbn [List.concat] in Hx; [|contradiction].
    rewrite List.app_nil_r in Hx. apply zrange_In in Hx. lia.
Qed.

Lemma multi_ranges_ok ms : forall off, 0 <= off -> Forall (fun g => group_ok g /\ sorted_z g) (multi_ranges off ms).
Proof.
  induction ms as [|m ms IH]; intros off Ho; [constructor|]. cbn [multi_ranges]. pose proof (len_pos m) as Lp. apply Forall_app. split; [|apply IH; lia].
  destruct (len m >? 1) eqn:G; [|constructor]. constructor; [|constructor]. rewrite Z.gtb_ltb in G. apply Z.ltb_lt in G. split; [split|].
  - pose proof (zrange_length off (off + len m)) as L. lia.
  - apply Forall_forall. intros x Hx. apply zrange_In in Hx. lia.
  - unfold sorted_z, zrange. apply zsort_zrange_from.
Qed.

Lemma Forall_and_l {A} (P Q : A -> Prop) l : Forall (fun x => P x /\ Q x) l -> Forall P l /\ Forall Q l.
Proof. intros H. split; apply Forall_forall; intros x Hx; rewrite Forall_forall in H; apply (H x Hx). Qed.

(* ---------- number of atoms handed back by the molecule parser ---------- *)
Lemma zsum_shift l : forall a, fold_left Z.add l a = a + fold_left Z.add l 0.
Proof. induction l as [|x l IH]; intros a; cbn [fold_left]; [lia|]. rewrite (IH (a + x)), (IH (0 + x)). lia. Qed.

Lemma zsum_cons x l : zsum (x :: l) = x + zsum l.
Proof. unfold zsum. cbn [fold_left]. rewrite zsum_shift. lia. Qed.

Lemma zsum_app a b : zsum (a ++ b) = zsum a + zsum b.
Proof. induction a as [|x a IH]; [cbn [List.app]; change (zsum []) with 0; lia|]. cbn [List.app]. rewrite !zsum_cons, IH. lia. Qed.

(* the molecule parser returns at least one atom per radical flag the writer listed for that molecule *)
Definition atoms_cover (natoms : string -> Z) (m : fmol) : Prop := Z.of_nat (List.length (f_rad m)) <= natoms (f_smi m).

Lemma flags_covered natoms ms : Forall (atoms_cover natoms) ms ->
  Z.of_nat (List.length (flat_map f_rad ms)) <= zsum (map natoms (map f_smi ms)).
Proof.
  induction 1 as [|m ms Hm H IH]; [unfold zsum; cbn; lia|]. cbn [flat_map map]. rewrite app_length, zsum_cons. unfold atoms_cover in Hm. lia.
Qed.

(* ---------- writer text -> reader, the CX block included ---------- *)
Definition fmol_nows (m : fmol) : Prop := only nows (f_smi m) = true.

Lemma format_keep R G P :
  rxn_format true false R G P =
  let w := rxn_write true R G P in
  match w_radicals w, w_contract w with
  | [], [] => w_sig w
  | r, c => (w_sig w ++ String " " (cx_token r c))%string
  end.
Proof.
  unfold rxn_format. cbv zeta. set (w := rxn_write true R G P). unfold cx_token, cx_text. cbn [w_radicals w_contract].
  destruct (w_radicals w) as [|n l], (w_contract w) as [|g gs]; reflexivity.
Qed.

Lemma sig_nows R G P : Forall fmol_nows R -> Forall fmol_nows G -> Forall fmol_nows P ->
  only nows (concat (sep gt) [concat (sep dot) (map f_smi R); concat (sep dot) (map f_smi G); concat (sep dot) (map f_smi P)]) = true
  /\ concat (sep gt) [concat (sep dot) (map f_smi R); concat (sep dot) (map f_smi G); concat (sep dot) (map f_smi P)] <> EmptyString.
Proof.
  intros HR HG HP.
  assert (role : forall L, Forall fmol_nows L -> only nows (concat (sep dot) (map f_smi L)) = true).
  { intros L HL. apply only_concat; [reflexivity|]. apply Forall_forall. intros x Hx. apply in_map_iff in Hx. destruct Hx as [m [E Hm]]. subst x.
    rewrite Forall_forall in HL. apply (HL m Hm). }
  split.
  - apply only_concat; [reflexivity|]. repeat constructor; apply role; assumption.
  - rewrite concat_cons2. destruct (concat (sep dot) (map f_smi R)); discriminate.
Qed.

Theorem read_rxn_written natoms ignore R G P :
  Forall fmol_ok R -> Forall fmol_ok G -> Forall fmol_ok P ->
  Forall fmol_nows R -> Forall fmol_nows G -> Forall fmol_nows P ->
  Forall (atoms_cover natoms) R -> Forall (atoms_cover natoms) G -> Forall (atoms_cover natoms) P ->
  (R ++ G ++ P)%list <> [] ->
  read_rxn natoms ignore (rxn_format true false R G P) =
  Ok (Some (map f_smi R, map f_smi G, map f_smi P), w_radicals (rxn_write true R G P)).
Proof.
  intros HR HG HP NR NG NP CR CG CP Hne.
  pose proof (read_core_roundtrip ignore R G P HR HG HP) as RC.
  rewrite format_keep. cbv zeta. rewrite (rxn_write_keep R G P HR HG HP) in *. cbn [w_sig w_radicals w_contract] in *.
  set (sig := concat (sep gt) [concat (sep dot) (map f_smi R); concat (sep dot) (map f_smi G); concat (sep dot) (map f_smi P)]) in *.
  set (flags := (flat_map f_rad R ++ flat_map f_rad G ++ flat_map f_rad P)%list) in *.
  set (r := true_positions flags 0) in *.
  set (c := (multi_ranges 0 R ++ multi_ranges (total R) G ++ multi_ranges (total R + total G) P)%list) in *.
  destruct (sig_nows R G P NR NG NP) as [Sn Se]. fold sig in Sn, Se.
  (* facts about the printed indices *)
  assert (Rnn : nonneg r).
  { apply Forall_forall. intros x Hx. apply true_positions_bounds in Hx. lia. }
  assert (Rnd : nodup_z r = true) by (apply nodup_z_true; apply true_positions_nodup).
  pose proof (total_nonneg R) as TR. pose proof (total_nonneg G) as TG.
  assert (Cok : Forall (fun g => group_ok g /\ sorted_z g) c).
  { unfold c. repeat (apply Forall_app; split); apply multi_ranges_ok; lia. }
  destruct (Forall_and_l _ _ _ Cok) as [Cg Cs].
  assert (Cnd : nodup_z (List.concat c) = true).
  { apply nodup_z_true. unfold c. rewrite !concat_app. apply NoDup_app2; [apply multi_ranges_nodup| |].
    - apply NoDup_app2; [apply multi_ranges_nodup|apply multi_ranges_nodup|].
      intros x Hx Hy. apply in_concat_ranges in Hx. apply in_concat_ranges in Hy. lia.
    - intros x Hx Hy. apply in_concat_ranges in Hx. apply in_app_iff in Hy. destruct Hy as [Hy|Hy]; apply in_concat_ranges in Hy; lia. }
  (* the radical indices are below the number of atoms *)
  assert (Rng : existsb (fun x => zsum (map natoms (map f_smi R ++ map f_smi G ++ map f_smi P)) <=? x) r = false).
  { destruct (existsb _ r) eqn:E; [|reflexivity]. apply existsb_exists in E. destruct E as [x [Hx Hle]]. apply Z.leb_le in Hle.
    apply true_positions_bounds in Hx. unfold flags in Hx. rewrite !app_length in Hx. rewrite !map_app, !zsum_app in Hle.
    pose proof (flags_covered natoms R CR). pose proof (flags_covered natoms G CG). pose proof (flags_covered natoms P CP). lia. }
  assert (Fin : forall radicals, radicals = r ->
     (let total := zsum (map natoms (map f_smi R ++ map f_smi G ++ map f_smi P)) in
      if existsb (fun x => total <=? x) radicals then Err IncorrectSmiles
      else match map f_smi R, map f_smi G, map f_smi P with
           | [], [], [] => Err ValueError
           | _, _, _ => Ok (Some (map f_smi R, map f_smi G, map f_smi P), radicals)
           end) = Ok (Some (map f_smi R, map f_smi G, map f_smi P), r)).
  { intros radicals ->. cbv zeta. rewrite Rng. destruct R, G, P; try reflexivity. exfalso. apply Hne. reflexivity. }
  unfold read_rxn. clearbody r c. clear flags.
  destruct r as [|n l], c as [|g gs].
  - (* no CX block *)
    rewrite (split_ws_one sig Sn Se). cbv beta iota. cbn [parse_cx]. rewrite RC. apply (Fin [] eq_refl).
  - rewrite (split_ws_two sig _ Sn Se (only_nows_token _ _)) by (unfold cx_token; destruct (concat _ _); discriminate).
    cbv beta iota. assert (Hn2 : ([] : list Z) <> [] \/ g :: gs <> []) by (right; discriminate).
    rewrite (parse_cx_print_exact [] (g :: gs) [] Rnn Cg Hn2 Rnd Cs Cnd). rewrite RC. apply (Fin [] eq_refl).
  - rewrite (split_ws_two sig _ Sn Se (only_nows_token _ _)) by (unfold cx_token; destruct (concat _ _); discriminate).
    cbv beta iota. assert (Hn2 : n :: l <> [] \/ ([] : list (list Z)) <> []) by (left; discriminate).
    rewrite (parse_cx_print_exact (n :: l) [] [] Rnn Cg Hn2 Rnd Cs Cnd). rewrite RC. apply (Fin (n :: l) eq_refl).
  - rewrite (split_ws_two sig _ Sn Se (only_nows_token _ _)) by (unfold cx_token; destruct (concat _ _); discriminate).
    cbv beta iota. assert (Hn2 : n :: l <> [] \/ g :: gs <> []) by (left; discriminate).
    rewrite (parse_cx_print_exact (n :: l) (g :: gs) [] Rnn Cg Hn2 Rnd Cs Cnd). rewrite RC. apply (Fin (n :: l) eq_refl).
Qed.

(* the string ReactionContainer.__format__ writes (CX block included, any '!c'), read by the reaction branch of smiles():
   the written molecule strings come back role by role and in written order, and the radical marks fall on the written
   atom positions *)
Theorem rxn_roundtrip natoms ignore keep_order rs gs ps :
  Forall fmol_ok rs -> Forall fmol_ok gs -> Forall fmol_ok ps ->
  Forall fmol_nows rs -> Forall fmol_nows gs -> Forall fmol_nows ps ->
  Forall (atoms_cover natoms) rs -> Forall (atoms_cover natoms) gs -> Forall (atoms_cover natoms) ps ->
  (rs ++ gs ++ ps)%list <> [] ->
  read_rxn natoms ignore (rxn_format keep_order false rs gs ps) =
  Ok (Some (map f_smi (prep keep_order rs), map f_smi (prep keep_order gs), map f_smi (prep keep_order ps)),
      w_radicals (rxn_write keep_order rs gs ps)).
Proof.
  intros HR HG HP NR NG NP CR CG CP Hne.
  assert (E : rxn_write keep_order rs gs ps = rxn_write true (prep keep_order rs) (prep keep_order gs) (prep keep_order ps)).
  { destruct keep_order; reflexivity. }
  assert (F : rxn_format keep_order false rs gs ps = rxn_format true false (prep keep_order rs) (prep keep_order gs) (prep keep_order ps)).
  { unfold rxn_format. rewrite E. reflexivity. }
  rewrite E, F.
  assert (T : forall (Q : fmol -> Prop) l, Forall Q l -> Forall Q (prep keep_order l)).
  { intros Q l H. destruct keep_order; [exact H|]. apply (Forall_perm _ _ _ (Permutation_sym (sort_perm key_leb l)) H). }
  apply read_rxn_written; try (apply T; assumption).
  intros En. apply Hne. apply app_eq_nil in En. destruct En as [E1 En]. apply app_eq_nil in En. destruct En as [E2 E3].
  assert (Z0 : forall l, prep keep_order l = [] -> l = []).
  { intros l H. destruct keep_order; [exact H|]. pose proof (sort_perm key_leb l) as Pp. cbn [prep] in H. rewrite H in Pp.
    apply Permutation_nil in Pp. exact Pp. }
  rewrite (Z0 _ E1), (Z0 _ E2), (Z0 _ E3). reflexivity.
Qed.

(* non-vacuity: a radical, a salt, an empty reagent role; the parser's atom count is bounded below by the flags *)
Example rxn_roundtrip_example :
  let natoms := fun x => Z.of_nat (String.length x) in
  let a := mkF "CCO" 1 [false; false; false] in let c := mkF "[CH3]" 1 [true] in
  Forall fmol_ok [a; nacl; c] /\ Forall fmol_nows [a; nacl; c] /\ Forall (atoms_cover natoms) [a; nacl; c] /\
  rxn_format false false [a; nacl; c] [] [a] = "CCO.[CH3].[Na+].[Cl-]>>CCO |^1:3,f:2.3|" /\
  read_rxn natoms true "CCO.[CH3].[Na+].[Cl-]>>CCO |^1:3,f:2.3|" = Ok (Some (["CCO"; "[CH3]"; "[Na+].[Cl-]"], [], ["CCO"]), [3]).
Proof.
  cbv zeta. split; [|split; [|split; [|split]]].
  - repeat constructor; vm_compute; try reflexivity; discriminate.
  - repeat constructor.
  - repeat constructor; vm_compute; discriminate.
  - vm_compute. reflexivity.
  - vm_compute. reflexivity.
Qed.

(* the block alone, as the property's quantifier has it: all index lists *)
Example parse_cx_print_example :
  parse_cx [cx_token [0; 12; 7] [[3; 4]; [10; 11; 12]]] = ([0; 12; 7], Some [[3; 4]; [10; 11; 12]]) /\
  cx_token [0; 12; 7] [[3; 4]; [10; 11; 12]] = "|^1:0,12,7,f:3.4,10.11.12|".
Proof. split; vm_compute; reflexivity. Qed.
