(* C11: metadata blocks -- what SDFWrite / RDFWrite emit for a dictionary, read back by read_metadata:
   values come back line by line, stripped, blank lines dropped; entries with the same (stripped) key are merged. *)
From Coq Require Import ZArith List String Ascii Bool Lia.
From Model Require Import PyBase Mdl.
From Gen Require Import MdlTables.
From Proofs Require Import MdlProofs.
Import ListNotations.
Open Scope Z_scope.
Local Notation length := List.length.
Local Notation concat := List.concat.

(* ------------------------------------------------------------------------------------------------ *)
(** * the specification: a defaultdict(list) filled entry by entry with the normalised lines *)

Definition norm_lines (ls : list str) : list str := filter nonempty (map strip ls).
Definition dd_extend (d : list (str * list str)) (k : str) (ls : list str) : list (str * list str) :=
  fold_left (fun d l => dd_append d k l) ls d.
(* an entry = (key, the lines of the value); the value text is join "\n" lines *)
Definition meta_spec (entries : list (str * list str)) : list (str * str) :=
  dd_finish (fold_left (fun d e => dd_extend d (strip (fst e)) (norm_lines (snd e))) entries []).
Definition meta_of (entries : list (str * list str)) : list (str * str) := map (fun e => (fst e, join [nl] (snd e))) entries.

(* ------------------------------------------------------------------------------------------------ *)
(** * text lemmas *)

Lemma join_nl_lines l ls : join [nl] (l :: ls) ++ [nl] = text_of_lines (l :: ls).
Proof.
  unfold text_of_lines. revert l. induction ls as [|x ls IH]; intros l.
  - cbn. rewrite app_nil_r. reflexivity.
  - change (join [nl] (l :: x :: ls)) with (l ++ [nl] ++ join [nl] (x :: ls)).
    rewrite <- !app_assoc. rewrite IH. cbn [map concat]. unfold add_nl. rewrite <- !app_assoc. reflexivity.
Qed.
Lemma text_of_lines_app a b : text_of_lines (a ++ b) = text_of_lines a ++ text_of_lines b.
Proof. unfold text_of_lines. rewrite map_app, concat_app. reflexivity. Qed.

Lemma is_space_nl : is_space nl = true.
Proof. reflexivity. Qed.
Lemma is_space_sp : is_space sp = true.
Proof. reflexivity. Qed.
Lemma strip_app_nl s : strip (s ++ [nl]) = strip s.
Proof.
  unfold strip, strip_by. destruct (lstrip_by is_space s) as [|c r] eqn:E.
  - (* s is all blanks *)
    assert (H : forall t, lstrip_by is_space t = [] -> lstrip_by is_space (t ++ [nl]) = []).
    { induction t as [|x t IH]; cbn; [reflexivity|]. destruct (is_space x); [exact IH | discriminate]. }
    rewrite H by exact E. reflexivity.
  - assert (H : forall t c r, lstrip_by is_space t = c :: r -> lstrip_by is_space (t ++ [nl]) = (c :: r) ++ [nl]).
    { induction t as [|x t IH]; cbn; [discriminate|]. intros c0 r0. destruct (is_space x); [apply IH|]. intros H. inversion H; subst. reflexivity. }
    rewrite (H _ _ _ E). apply rstrip_by_app_all. repeat constructor.
Qed.
Lemma strip_sp_cons s : strip (sp :: s) = strip s.
Proof. unfold strip, strip_by. cbn [lstrip_by]. rewrite is_space_sp. reflexivity. Qed.

Lemma startswith_app_nl p : ~ In nl p -> forall l, startswith p (l ++ [nl]) = startswith p l.
Proof.
  induction p as [|a p IH]; intros Hp l; [reflexivity|].
  destruct l as [|b l]; cbn [app startswith].
  - destruct (Ascii.eqb a nl) eqn:E; [apply Ascii.eqb_eq in E; subst; exfalso; apply Hp; left; reflexivity | reflexivity].
  - rewrite IH by (intros H; apply Hp; right; exact H). reflexivity.
Qed.

Lemma fold_left_app_lines {S} (f : S -> str -> S) a b s : fold_left f (a ++ b) s = fold_left f b (fold_left f a s).
Proof. apply fold_left_app. Qed.

(* one value line seen by a reader whose current key is k (non-empty): appended when not blank *)
Lemma dd_extend_norm_cons d k l ls :
  dd_extend d k (norm_lines (l :: ls)) = dd_extend (match strip l with [] => d | x => dd_append d k x end) k (norm_lines ls).
Proof.
  unfold norm_lines. cbn [map filter]. destruct (strip l) as [|c r]; cbn [nonempty]; reflexivity.
Qed.

(* ------------------------------------------------------------------------------------------------ *)
(** * RDF *)

Definition rdf_entry_ok (e : str * list str) : Prop :=
  ~ In nl (fst e) /\ strip (fst e) <> [] /\ snd e <> [] /\ Forall (fun l => ~ In nl l) (snd e) /\
  Forall (fun l => startswith (L "$DTYPE") l = false /\ startswith (L "$DATUM") l = false) (tl (snd e)).

Definition rdf_entry_lines (e : str * list str) : list str :=
  match snd e with
  | [] => []
  | l0 :: ls => (L "$DTYPE " ++ fst e) :: (L "$DATUM " ++ l0) :: ls
  end.

Lemma rdf_meta_text_lines entries : Forall rdf_entry_ok entries ->
  rdf_meta_text (meta_of entries) = text_of_lines (concat (map rdf_entry_lines entries)).
Proof.
  unfold rdf_meta_text, meta_of. induction 1 as [|[k ls] entries Hk _ IH]; [reflexivity|].
  cbn [map concat fst snd]. rewrite IH. rewrite text_of_lines_app. f_equal.
  destruct Hk as [_ [_ [Hne _]]]. cbn [snd] in Hne. destruct ls as [|l0 ls]; [contradiction|].
  unfold rdf_entry_lines. cbn [fst snd].
  change (text_of_lines ((L "$DTYPE " ++ k) :: (L "$DATUM " ++ l0) :: ls))
    with (add_nl (L "$DTYPE " ++ k) ++ text_of_lines ((L "$DATUM " ++ l0) :: ls)).
  rewrite <- join_nl_lines. unfold add_nl. rewrite <- !app_assoc. f_equal. f_equal.
  destruct ls as [|x ls]; [cbn [join]; rewrite <- app_assoc; reflexivity|].
  change (join [nl] (l0 :: x :: ls)) with (l0 ++ [nl] ++ join [nl] (x :: ls)).
  change (join [nl] ((L "$DATUM " ++ l0) :: x :: ls)) with ((L "$DATUM " ++ l0) ++ [nl] ++ join [nl] (x :: ls)).
  rewrite <- !app_assoc. reflexivity.
Qed.

Lemma rdf_entry_lines_no_nl e : rdf_entry_ok e -> Forall (fun l => ~ In nl l) (rdf_entry_lines e).
Proof.
  destruct e as [k ls]. intros [Hk [_ [Hne [Hls _]]]]. cbn [fst snd] in *. unfold rdf_entry_lines. cbn [fst snd].
  destruct ls as [|l0 ls]; [constructor|]. inversion Hls as [|? ? Hl0 Hls']; subst.
  assert (Hlit : forall (p : str) x, ~ In nl p -> ~ In nl x -> ~ In nl (p ++ x)).
  { intros p x Ha Hb H. apply in_app_or in H. tauto. }
  constructor; [apply Hlit; [|exact Hk] | constructor; [apply Hlit; [|assumption] | assumption]].
  - cbn. intros H. repeat (destruct H as [H|H]; [discriminate|]). exact H.
  - cbn. intros H. repeat (destruct H as [H|H]; [discriminate|]). exact H.
Qed.

(* continuation lines of a value: each one is appended to the current key when not blank *)
Lemma rdf_continuation ls : forall k d, k <> [] ->
  Forall (fun l => startswith (L "$DTYPE") l = false /\ startswith (L "$DATUM") l = false) ls ->
  fold_left rdf_meta_step (map add_nl ls) (k, d) = (k, dd_extend d k (norm_lines ls)).
Proof.
  induction ls as [|l ls IH]; intros k d Hk H; [reflexivity|].
  inversion H as [|? ? [H1 H2] H']; subst. cbn [map fold_left]. rewrite dd_extend_norm_cons.
  unfold rdf_meta_step at 2. unfold add_nl.
  rewrite (startswith_app_nl (L "$DTYPE")) by (cbn; intros X; repeat (destruct X as [X|X]; [discriminate|]); exact X).
  rewrite H1. destruct k as [|kc kr]; [contradiction|].
  unfold datum_body, datum_set. rewrite (startswith_app_nl (L "$DATUM")) by (cbn; intros X; repeat (destruct X as [X|X]; [discriminate|]); exact X).
  rewrite H2. rewrite strip_app_nl.
  destruct (strip l) as [|c r]; apply IH; (discriminate || assumption).
Qed.

Lemma rdf_entry_fold e : rdf_entry_ok e -> forall k0 d,
  fold_left rdf_meta_step (map add_nl (rdf_entry_lines e)) (k0, d) = (strip (fst e), dd_extend d (strip (fst e)) (norm_lines (snd e))).
Proof.
  destruct e as [k ls]. intros [Hk [Hs [Hne [Hls Hc]]]] k0 d. cbn [fst snd] in *.
  destruct ls as [|l0 ls]; [contradiction|]. unfold rdf_entry_lines. cbn [fst snd map fold_left tl] in *.
  (* the $DTYPE line *)
  assert (E1 : rdf_meta_step (k0, d) (add_nl (L "$DTYPE " ++ k)) = (strip k, d)).
  { unfold rdf_meta_step, add_nl. rewrite <- app_assoc.
    change (startswith (L "$DTYPE") (L "$DTYPE " ++ k ++ [nl])) with true. cbv iota.
    change (slice_from 7 (L "$DTYPE " ++ k ++ [nl])) with (k ++ [nl]). rewrite strip_app_nl.
    destruct (strip k); [contradiction | reflexivity]. }
  rewrite E1.
  (* the $DATUM line *)
  assert (E2 : rdf_meta_step (strip k, d) (add_nl (L "$DATUM " ++ l0)) =
               (strip k, match strip l0 with [] => d | x => dd_append d (strip k) x end)).
  { unfold rdf_meta_step, add_nl. rewrite <- app_assoc.
    change (startswith (L "$DTYPE") (L "$DATUM " ++ l0 ++ [nl])) with false. cbv iota.
    destruct (strip k) as [|kc kr] eqn:Ek; [contradiction|].
    unfold datum_body, datum_set. change (startswith (L "$DATUM") (L "$DATUM " ++ l0 ++ [nl])) with true. cbv iota.
    change (slice_from 6 (L "$DATUM " ++ l0 ++ [nl])) with (sp :: l0 ++ [nl]).
    rewrite strip_sp_cons, strip_app_nl. destruct (strip l0); reflexivity. }
  rewrite E2. rewrite rdf_continuation by assumption. rewrite dd_extend_norm_cons. reflexivity.
Qed.

Lemma rdf_entries_fold entries : Forall rdf_entry_ok entries -> forall k0 d,
  snd (fold_left rdf_meta_step (map add_nl (concat (map rdf_entry_lines entries))) (k0, d)) =
  fold_left (fun d e => dd_extend d (strip (fst e)) (norm_lines (snd e))) entries d.
Proof.
  induction 1 as [|e entries He _ IH]; intros k0 d; [reflexivity|].
  cbn [map concat]. rewrite map_app, fold_left_app. rewrite rdf_entry_fold by exact He. rewrite IH. reflexivity.
Qed.

(* meta_roundtrip_normalised (RDF): what RDFWrite emits for a dictionary is read back by RDFRead.read_metadata as the
   dictionary with every value normalised line by line (stripped, blank lines dropped) *)
Theorem rdf_meta_roundtrip_normalised entries : Forall rdf_entry_ok entries ->
  rdf_read_metadata (readlines (rdf_meta_text (meta_of entries))) = meta_spec entries.
Proof.
  intros H. rewrite rdf_meta_text_lines by exact H. rewrite readlines_text_of_lines.
  - unfold rdf_read_metadata, meta_spec. rewrite rdf_entries_fold by exact H. reflexivity.
  - apply Forall_concat. apply Forall_map. eapply Forall_impl; [|exact H]. intros e He. apply rdf_entry_lines_no_nl. exact He.
Qed.

(* ------------------------------------------------------------------------------------------------ *)
(** * SDF *)

(* the key as the reader reconstructs it from the key line `>  <escaped key>` *)
Definition sdf_key_back (esc : list (string * string)) (k : str) : str :=
  fold_replace sdf_read_escape (strip (fold_replace esc k)).

(* format-inherent conditions: the escaped key has no '>' / newline and is not blank; no value line looks like a key line *)
Definition sdf_entry_ok (esc : list (string * string)) (e : str * list str) : Prop :=
  let K := fold_replace esc (fst e) in
  ~ In ">"%char K /\ ~ In "<"%char K /\ ~ In nl K /\ sdf_key_back esc (fst e) <> [] /\
  snd e <> [] /\ Forall (fun l => ~ In nl l) (snd e) /\ Forall (fun l => meta_match (add_nl l) = None) (snd e).

Definition sdf_entry_lines (esc : list (string * string)) (e : str * list str) : list str :=
  (L ">  <" ++ fold_replace esc (fst e) ++ L ">") :: snd e ++ [[]].

Lemma sdf_meta_text_lines esc entries : Forall (sdf_entry_ok esc) entries ->
  sdf_meta_text esc (meta_of entries) = text_of_lines (concat (map (sdf_entry_lines esc) entries)).
Proof.
  unfold sdf_meta_text, meta_of. induction 1 as [|[k ls] entries Hk _ IH]; [reflexivity|].
  cbn [map concat fst snd]. rewrite IH. rewrite text_of_lines_app. f_equal.
  destruct Hk as [_ [_ [_ [_ [Hne _]]]]]. cbn [snd] in Hne. destruct ls as [|l0 ls]; [contradiction|].
  unfold sdf_entry_lines. cbn [fst snd].
  change (text_of_lines ((L ">  <" ++ fold_replace esc k ++ L ">") :: (l0 :: ls) ++ [[]]))
    with (add_nl (L ">  <" ++ fold_replace esc k ++ L ">") ++ text_of_lines ((l0 :: ls) ++ [[]])).
  rewrite text_of_lines_app. rewrite <- join_nl_lines. unfold add_nl. rewrite <- !app_assoc. reflexivity.
Qed.

Lemma take_until_found c s : ~ In c s -> forall acc rest, take_until c (s ++ c :: rest) acc = Some (rev acc ++ s, rest).
Proof.
  induction s as [|d s IH]; intros H acc rest.
  - cbn. rewrite ascii_eqb_refl. rewrite app_nil_r. reflexivity.
  - cbn [app take_until]. destruct (Ascii.eqb d c) eqn:E; [apply Ascii.eqb_eq in E; subst; exfalso; apply H; left; reflexivity|].
    rewrite IH by (intros X; apply H; right; exact X). cbn [rev]. rewrite <- app_assoc. reflexivity.
Qed.

Lemma strip_two_spaces : strip (L "  ") = [].
Proof. reflexivity. Qed.
Lemma strip_nl_only : strip [nl] = [].
Proof. reflexivity. Qed.

Lemma sdf_key_line esc k k0 d :
  let K := fold_replace esc k in
  ~ In ">"%char K -> ~ In "<"%char K -> sdf_key_back esc k <> [] ->
  sdf_meta_step (k0, d) (add_nl (L ">  <" ++ K ++ L ">")) = (sdf_key_back esc k, d).
Proof.
  intros K H1 H2 H3. unfold sdf_meta_step.
  assert (E : meta_match (add_nl (L ">  <" ++ K ++ L ">")) = Some (L "  ", K, [nl])).
  { unfold add_nl, meta_match. rewrite <- !app_assoc.
    change (L ">  <" ++ K ++ L ">" ++ [nl]) with (">"%char :: (L "  " ++ "<"%char :: (K ++ ">"%char :: [nl]))).
    cbv iota. rewrite take_until_found by (cbn; intros X; repeat (destruct X as [X|X]; [discriminate|]); exact X).
    cbn [rev app L list_ascii_of_string].
    rewrite take_until_found by exact H1. cbn [rev app].
    destruct K as [|kc kr] eqn:EK.
    - exfalso. apply H3. unfold sdf_key_back. fold K. rewrite EK. reflexivity.
    - reflexivity. }
  rewrite E. rewrite strip_two_spaces, strip_nl_only.
  unfold sdf_key_back in *. fold K in H3 |- *. cbn [filter nonempty].
  destruct (strip K) as [|c r] eqn:Es.
  - exfalso. apply H3. reflexivity.
  - cbn [nonempty filter join]. reflexivity.
Qed.

Lemma sdf_value_lines ls : forall k d, k <> [] ->
  Forall (fun l => meta_match (add_nl l) = None) ls ->
  fold_left sdf_meta_step (map add_nl ls) (k, d) = (k, dd_extend d k (norm_lines ls)).
Proof.
  induction ls as [|l ls IH]; intros k d Hk H; [reflexivity|].
  inversion H as [|? ? H1 H']; subst. cbn [map fold_left]. rewrite dd_extend_norm_cons.
  unfold sdf_meta_step at 2. rewrite H1. destruct k as [|kc kr]; [contradiction|].
  unfold add_nl. rewrite strip_app_nl. destruct (strip l) as [|c r]; apply IH; (discriminate || assumption).
Qed.

Lemma sdf_entry_fold esc e : sdf_entry_ok esc e -> forall k0 d,
  fold_left sdf_meta_step (map add_nl (sdf_entry_lines esc e)) (k0, d) =
  (sdf_key_back esc (fst e), dd_extend d (sdf_key_back esc (fst e)) (norm_lines (snd e))).
Proof.
  destruct e as [k ls]. intros [H1 [H2 [H3 [H4 [H5 [H6 H7]]]]]] k0 d. cbn [fst snd] in *.
  unfold sdf_entry_lines. cbn [fst snd map fold_left].
  rewrite sdf_key_line by assumption. rewrite map_app, fold_left_app. rewrite sdf_value_lines by assumption.
  cbn [map fold_left]. unfold sdf_meta_step. change (meta_match (add_nl [])) with (@None (str * str * str)).
  destruct (sdf_key_back esc k) as [|c r]; [contradiction|]. reflexivity.
Qed.

Lemma sdf_entries_fold esc entries : Forall (sdf_entry_ok esc) entries -> forall k0 d,
  snd (fold_left sdf_meta_step (map add_nl (concat (map (sdf_entry_lines esc) entries))) (k0, d)) =
  fold_left (fun d e => dd_extend d (sdf_key_back esc (fst e)) (norm_lines (snd e))) entries d.
Proof.
  induction 1 as [|e entries He _ IH]; intros k0 d; [reflexivity|].
  cbn [map concat]. rewrite map_app, fold_left_app. rewrite sdf_entry_fold by exact He. rewrite IH. reflexivity.
Qed.

Definition sdf_meta_spec (esc : list (string * string)) (entries : list (str * list str)) : list (str * str) :=
  dd_finish (fold_left (fun d e => dd_extend d (sdf_key_back esc (fst e)) (norm_lines (snd e))) entries []).

Lemma sdf_entry_lines_no_nl esc e : sdf_entry_ok esc e -> Forall (fun l => ~ In nl l) (sdf_entry_lines esc e).
Proof.
  destruct e as [k ls]. intros [H1 [H2 [H3 [H4 [H5 [H6 H7]]]]]]. cbn [fst snd] in *. unfold sdf_entry_lines. cbn [fst snd].
  constructor.
  - intros H. apply in_app_or in H. destruct H as [H|H].
    + cbn in H. repeat (destruct H as [H|H]; [discriminate|]). exact H.
    + apply in_app_or in H. destruct H as [H|H]; [exact (H3 H)|]. cbn in H. destruct H as [H|H]; [discriminate | exact H].
  - apply Forall_app. split; [exact H6 | repeat constructor]. intros H. exact H.
Qed.

(* meta_roundtrip_normalised (SDF), for SDFWrite (esc = sdf_write_escape) and ESDFWrite (esc = esdf_write_escape) *)
Theorem sdf_meta_roundtrip_normalised esc entries : Forall (sdf_entry_ok esc) entries ->
  sdf_read_metadata (readlines (sdf_meta_text esc (meta_of entries))) = sdf_meta_spec esc entries.
Proof.
  intros H. rewrite sdf_meta_text_lines by exact H. rewrite readlines_text_of_lines.
  - unfold sdf_read_metadata, sdf_meta_spec. rewrite sdf_entries_fold by exact H. reflexivity.
  - apply Forall_concat. apply Forall_map. eapply Forall_impl; [|exact H]. intros e He. apply sdf_entry_lines_no_nl. exact He.
Qed.

(* a value line that does not start with '>' never looks like a key line *)
Lemma meta_match_not_gt l : (match l with ">"%char :: _ => False | _ => True end) -> meta_match (add_nl l) = None.
Proof.
  destruct l as [|c l]; [reflexivity|]. intros H. unfold add_nl, meta_match. cbn [app].
  destruct c as [[] [] [] [] [] [] [] []]; try reflexivity. contradiction.
Qed.

(* ------------------------------------------------------------------------------------------------ *)
(** * the key escapes of SDFWrite / SDFRead *)

(* all keys of length <= n over an alphabet *)
Fixpoint words (alphabet : str) (n : nat) : list str :=
  match n with
  | O => [[]]
  | S k => [] :: flat_map (fun w => map (fun c => c :: w) alphabet) (words alphabet k)
  end.
Definition key_has_amp (k : str) : bool := existsb (Ascii.eqb "&"%char) k.
(* every key over {<, >, g, t, l, ;, x, space} (no '&') of length <= 5 comes back as its strip() *)
Lemma sdf_key_escape_bounded :
  forallb (fun k => str_eqb (sdf_key_back sdf_write_escape k) (strip k)) (words (L "<>gtl;x ") 5) = true.
Proof. vm_compute. reflexivity. Qed.
(* but a key that contains the text of an entity does not: the writer does not escape '&' *)
Lemma sdf_key_escape_refuted : exists k, sdf_key_back sdf_write_escape k <> strip k.
Proof. exists (L "&gt;"). vm_compute. discriminate. Qed.

(* ------------------------------------------------------------------------------------------------ *)
(** * non-vacuity: concrete dictionaries (the second one is the former lstrip("$DATUM") witness) *)

Example rdf_meta_example :
  rdf_entry_ok (L "k1", [L "first"; L "MAD value"; L "TAU"]) /\
  rdf_read_metadata (readlines (rdf_meta_text [(L "k1", L "first" ++ [nl] ++ L "MAD value" ++ [nl] ++ L "TAU"); (L " key two ", L "  x " ++ [nl; nl] ++ L "y")])) =
  [(L "k1", L "first" ++ [nl] ++ L "MAD value" ++ [nl] ++ L "TAU"); (L "key two", L "x" ++ [nl] ++ L "y")].
Proof.
  split; [|vm_compute; reflexivity].
  unfold rdf_entry_ok. cbn [fst snd tl]. repeat split; try discriminate; repeat constructor;
    try (cbn; intros X; repeat (destruct X as [X|X]; [discriminate|]); exact X).
Qed.
Example sdf_meta_example :
  sdf_read_metadata (readlines (sdf_meta_text sdf_write_escape [(L "a>b", L " v1 " ++ [nl; nl] ++ L "v2"); (L "a>b", L "v3"); (L "c", L "w")])) =
  [(L "a>b", L "v1" ++ [nl] ++ L "v2" ++ [nl] ++ L "v3"); (L "c", L "w")].
Proof. vm_compute. reflexivity. Qed.
