(* C20 extension 4: the stereo registry is no longer an input: stereogenic_tetrahedrons is a function of the molecule
   (Model.RdkitRegistry), and the registry of a rebuilt molecule is PROVED to be an arrangement of the renamed old one. *)
From Coq Require Import ZArith List String Bool Lia Permutation.
From Model Require Import PyBase Graph PeriodicTable Stereo Rdkit RdkitRegistry.
From Gen Require Import Elements RdkitTables StereoTables.
From Proofs Require Import StereoProofs RdkitProofs RdkitExt.
Import ListNotations.
Open Scope Z_scope.

(* ================================================================================================ *)
(* 1. a permutation of distinct atoms IS an arrangement [sel _ q] with q one of the 24 (6) index permutations *)
Lemma index_from_spec x : forall o k, In x o ->
  exists i, index_from x o k = Some (k + i) /\ 0 <= i < Z.of_nat (List.length o) /\ znth o i 0 = x.
Proof.
  induction o as [|y r IH]; intros k Hin; [contradiction|]. cbn [index_from].
  destruct (x =? y) eqn:E.
  - apply Z.eqb_eq in E. subst y. exists 0. split; [f_equal; lia|]. split; [cbn [List.length]; lia | reflexivity].
  - destruct Hin as [->|Hin]; [rewrite Z.eqb_refl in E; discriminate|].
    destruct (IH (k + 1) Hin) as (i & Hi & Hr & Hz). exists (i + 1). split; [rewrite Hi; f_equal; lia|].
    split; [cbn [List.length]; lia|]. rewrite znth_cons by lia. replace (i + 1 - 1) with i by lia. exact Hz.
Qed.

Definition pos_in (o : list Z) (x : Z) : Z := match index_of o x with Some i => i | None => 0 end.

Lemma pos_in_spec o x : In x o -> 0 <= pos_in o x < Z.of_nat (List.length o) /\ znth o (pos_in o x) 0 = x.
Proof.
  intros Hin. unfold pos_in, index_of. destruct (index_from_spec x o 0 Hin) as (i & Hi & Hr & Hz). rewrite Hi.
  replace (0 + i) with i by lia. auto.
Qed.

Lemma sel_pos o l : (forall x, In x l -> In x o) -> l = sel o (map (pos_in o) l).
Proof.
  intros H. unfold sel. rewrite map_map. rewrite <- (map_id l) at 1. apply map_ext_in. intros x Hx.
  symmetry. apply (pos_in_spec o x (H x Hx)).
Qed.

Lemma pos_in_inj o x y : In x o -> In y o -> pos_in o x = pos_in o y -> x = y.
Proof.
  intros Hx Hy E. rewrite <- (proj2 (pos_in_spec o x Hx)), <- (proj2 (pos_in_spec o y Hy)), E. reflexivity.
Qed.

Lemma NoDup_map_pos o l : (forall x, In x l -> In x o) -> NoDup l -> NoDup (map (pos_in o) l).
Proof.
  intros H Hn. induction Hn as [|x r Hx Hr IH]; [constructor|]. cbn [map]. constructor.
  - intros Hin. apply in_map_iff in Hin. destruct Hin as (y & Ey & Hy). apply Hx.
    rewrite (pos_in_inj o x y); [exact Hy | apply H; left; reflexivity | apply H; right; exact Hy | symmetry; exact Ey].
  - apply IH. intros y Hy. apply H. right. exact Hy.
Qed.

Theorem arrangement4_of_permutation a b c d l :
  NoDup [a; b; c; d] -> Permutation [a; b; c; d] l -> exists q, In q perms4 /\ l = sel [a; b; c; d] q.
Proof.
  intros Hn Hp. set (o := [a; b; c; d]) in *.
  assert (Hin : forall x, In x l -> In x o) by (intros x Hx; apply (Permutation_in x (Permutation_sym Hp) Hx)).
  assert (Hl : List.length l = 4%nat) by (rewrite <- (Permutation_length Hp); reflexivity).
  assert (Hnl : NoDup l) by (apply (Permutation_NoDup Hp Hn)).
  exists (map (pos_in o) l). split; [|apply sel_pos; exact Hin].
  pose proof (NoDup_map_pos o l Hin Hnl) as Hq.
  destruct l as [|x0 [|x1 [|x2 [|x3 [|]]]]]; try discriminate. cbn [map] in *.
  apply perms4_complete; try exact Hq;
    match goal with |- 0 <= pos_in o ?x < 4 => apply (proj1 (pos_in_spec o x (Hin x ltac:(cbn; tauto)))) end.
Qed.

Lemma perms3_complete_b :
  forallb (fun a => forallb (fun b => forallb (fun c =>
     implb (negb (a =? b) && negb (a =? c) && negb (b =? c)) (in_perms perms3 [a; b; c])) [0; 1; 2]) [0; 1; 2]) [0; 1; 2] = true.
Proof. vm_compute. reflexivity. Qed.

Lemma perms3_complete a b c : 0 <= a < 3 -> 0 <= b < 3 -> 0 <= c < 3 -> NoDup [a; b; c] -> In [a; b; c] perms3.
Proof.
  intros Ha Hb Hc Hn. pose proof perms3_complete_b as H. rewrite forallb_forall in H.
  assert (R : forall z, 0 <= z < 3 -> In z [0; 1; 2]) by (intros z Hz; cbn; lia).
  specialize (H a (R a Ha)). rewrite forallb_forall in H. specialize (H b (R b Hb)). rewrite forallb_forall in H.
  specialize (H c (R c Hc)). destruct (NoDup3_neq _ _ _ Hn) as (N1 & N2 & N3).
  assert (D : negb (a =? b) && negb (a =? c) && negb (b =? c) = true).
  { repeat (apply andb_true_intro; split); apply negb_true_iff; apply Z.eqb_neq; assumption. }
  rewrite D in H. cbn [implb] in H. apply in_perms_In. exact H.
Qed.

Theorem arrangement3_of_permutation a b c l :
  NoDup [a; b; c] -> Permutation [a; b; c] l -> exists q, In q perms3 /\ l = sel [a; b; c] q.
Proof.
  intros Hn Hp. set (o := [a; b; c]) in *.
  assert (Hin : forall x, In x l -> In x o) by (intros x Hx; apply (Permutation_in x (Permutation_sym Hp) Hx)).
  assert (Hl : List.length l = 3%nat) by (rewrite <- (Permutation_length Hp); reflexivity).
  assert (Hnl : NoDup l) by (apply (Permutation_NoDup Hp Hn)).
  exists (map (pos_in o) l). split; [|apply sel_pos; exact Hin].
  pose proof (NoDup_map_pos o l Hin Hnl) as Hq.
  destruct l as [|x0 [|x1 [|x2 [|]]]]; try discriminate. cbn [map] in *.
  apply perms3_complete; try exact Hq;
    match goal with |- 0 <= pos_in o ?x < 3 => apply (proj1 (pos_in_spec o x (Hin x ltac:(cbn; tauto)))) end.
Qed.

(* ================================================================================================ *)
(* 2. the registry entry of a centre depends only on the element / charge / radical flag of the centre, the elements of its
   neighbours and the multiset of its bonds: it is equivariant under renaming and under ANY reordering of the adjacency *)
Lemma forallb_perm {A} (f : A -> bool) l l' : Permutation l l' -> forallb f l = forallb f l'.
Proof.
  induction 1 as [|x l l' _ IH|x y l|l l' l'' _ IH1 _ IH2]; cbn; [reflexivity | rewrite IH; reflexivity | | congruence].
  destruct (f x), (f y); reflexivity.
Qed.

Lemma filter_perm {A} (f : A -> bool) l l' : Permutation l l' -> Permutation (filter f l) (filter f l').
Proof.
  induction 1 as [|x l l' _ IH|x y l|l l' l'' _ IH1 _ IH2]; cbn.
  - constructor.
  - destruct (f x); [constructor; exact IH | exact IH].
  - destruct (f x), (f y); try reflexivity. apply perm_swap.
  - eapply Permutation_trans; eassumption.
Qed.

Lemma filter_map_comm {A B} (f : B -> bool) (h : A -> B) l : filter f (map h l) = map h (filter (fun x => f (h x)) l).
Proof. induction l as [|x r IH]; cbn; [reflexivity|]. destruct (f (h x)); cbn; rewrite IH; reflexivity. Qed.

Lemma forallb_map_comm {A B} (f : B -> bool) (h : A -> B) l : forallb f (map h l) = forallb (fun x => f (h x)) l.
Proof. induction l as [|x r IH]; cbn; [reflexivity | rewrite IH; reflexivity]. Qed.

Lemma forallb_ext_in' {A} (f h : A -> bool) l : (forall x, In x l -> f x = h x) -> forallb f l = forallb h l.
Proof.
  induction l as [|x r IH]; intros H; cbn; [reflexivity|]. rewrite (H x (or_introl eq_refl)), IH; [reflexivity|].
  intros y Hy. apply H. right. exact Hy.
Qed.

Lemma filter_ext_in' {A} (f h : A -> bool) l : (forall x, In x l -> f x = h x) -> filter f l = filter h l.
Proof.
  induction l as [|x r IH]; intros H; cbn; [reflexivity|]. rewrite (H x (or_introl eq_refl)), IH; [reflexivity|].
  intros y Hy. apply H. right. exact Hy.
Qed.

Section Equivariance.
  Variables g g' : mol.             (* the molecule given / any molecule rebuilt from it *)
  Variable rho : Z -> Z.            (* old number -> new number *)

  Definition same_kind (x : Z) : Prop :=
    exists a a', atom_of g x = Some a /\ atom_of g' (rho x) = Some a' /\
                 a_num a' = a_num a /\ a_chg a' = a_chg a /\ a_rad a' = a_rad a.

  (* the neighbours of rho n are the renamed neighbours of n with the same bond orders -- in any order *)
  Definition same_nbrs (n : Z) : Prop :=
    Permutation (map (fun mb => (rho (fst mb), b_ord (snd mb))) (nbrs g n))
                (map (fun mb => (fst mb, b_ord (snd mb))) (nbrs g' (rho n))).

  Lemma same_nbrs_ids n : same_nbrs n -> Permutation (map rho (nbr_ids g n)) (nbr_ids g' (rho n)).
  Proof.
    intros H. apply (Permutation_map fst) in H. rewrite !map_map in H. cbn [fst] in H.
    unfold nbr_ids, keys. rewrite map_map. exact H.
  Qed.

  Lemma same_nbrs_orders n : same_nbrs n ->
    Permutation (map (fun mb => b_ord (snd mb)) (nbrs g n)) (map (fun mb => b_ord (snd mb)) (nbrs g' (rho n))).
  Proof. intros H. apply (Permutation_map snd) in H. rewrite !map_map in H. cbn [snd] in H. exact H. Qed.

  Theorem registry_equivariant n :
    same_kind n -> (forall x, In x (nbr_ids g n) -> same_kind x) -> same_nbrs n ->
    match stereogenic_entry g n with
    | Some env => exists env', stereogenic_entry g' (rho n) = Some env' /\ Permutation (map rho env) env'
    | None => stereogenic_entry g' (rho n) = None
    end.
  Proof.
    intros (a & a' & Ha & Ha' & Hnum & Hchg & Hrad) Hk Hs.
    pose proof (same_nbrs_ids n Hs) as Pids. pose proof (same_nbrs_orders n Hs) as Pord.
    assert (Ht : is_tetrahedron g' (rho n) = is_tetrahedron g n).
    { unfold is_tetrahedron. rewrite Ha, Ha', Hnum, Hchg, Hrad. f_equal; [f_equal|].
      - rewrite <- (forallb_map_comm (fun o => o =? 1) (fun mb => b_ord (snd mb)) (nbrs g' (rho n))).
        rewrite <- (forallb_map_comm (fun o => o =? 1) (fun mb => b_ord (snd mb)) (nbrs g n)).
        symmetry. apply forallb_perm. exact Pord.
      - apply Permutation_length in Pord. rewrite !map_length in Pord. rewrite Pord. reflexivity. }
    assert (Hsf : forall x, In x (nbr_ids g n) -> single_former g' (rho x) = single_former g x).
    { intros x Hx. destruct (Hk x Hx) as (b & b' & Hb & Hb' & Hn' & _). unfold single_former. rewrite Hb, Hb', Hn'. reflexivity. }
    assert (Hh : forall x, In x (nbr_ids g n) -> is_hydrogen g' (rho x) = is_hydrogen g x).
    { intros x Hx. destruct (Hk x Hx) as (b & b' & Hb & Hb' & Hn' & _). unfold is_hydrogen. rewrite Hb, Hb', Hn'. reflexivity. }
    assert (Hall : forallb (single_former g') (nbr_ids g' (rho n)) = forallb (single_former g) (nbr_ids g n)).
    { rewrite <- (forallb_perm _ _ _ Pids). rewrite forallb_map_comm. apply forallb_ext_in'. exact Hsf. }
    assert (Pfil : Permutation (map rho (filter (fun x => negb (is_hydrogen g x)) (nbr_ids g n)))
                               (filter (fun x => negb (is_hydrogen g' x)) (nbr_ids g' (rho n)))).
    { eapply Permutation_trans; [|apply filter_perm; exact Pids]. rewrite filter_map_comm.
      rewrite (filter_ext_in' (fun x => negb (is_hydrogen g' (rho x))) (fun x => negb (is_hydrogen g x))); [reflexivity|].
      intros x Hx. rewrite (Hh x Hx). reflexivity. }
    unfold stereogenic_entry. rewrite Ht, Hall.
    destruct (is_tetrahedron g n); [|reflexivity]. destruct (forallb (single_former g) (nbr_ids g n)); [|reflexivity].
    cbv zeta. pose proof (Permutation_length Pfil) as Hlen. rewrite map_length in Hlen. rewrite <- Hlen.
    destruct ((Z.of_nat (List.length (filter (fun x => negb (is_hydrogen g x)) (nbr_ids g n))) =? 3) ||
              (Z.of_nat (List.length (filter (fun x => negb (is_hydrogen g x)) (nbr_ids g n))) =? 4)); [|reflexivity].
    eexists. split; [reflexivity | exact Pfil].
  Qed.
End Equivariance.

(* the dictionary lookup is the entry *)
Lemma zget_flat_map_entry (f : Z -> option (list Z)) : forall l n, In n l ->
  zget (flat_map (fun k => match f k with Some e => [(k, e)] | None => [] end) l) n = f n.
Proof.
  induction l as [|k r IH]; intros n Hin; [contradiction|]. cbn [flat_map].
  destruct (Z.eq_dec n k) as [->|Hne].
  - destruct (f k) as [e|] eqn:E; cbn [app zget]; [rewrite Z.eqb_refl; reflexivity|].
    destruct (in_dec Z.eq_dec k r) as [Hr|Hr]; [rewrite (IH k Hr); exact E|].
    clear IH Hin. induction r as [|j s IHs]; [reflexivity|]. cbn [flat_map].
    assert (j <> k) by (intros ->; apply Hr; left; reflexivity).
    destruct (f j); cbn [app zget]; [replace (k =? j) with false by (symmetry; apply Z.eqb_neq; congruence)|];
      apply IHs; intros Hin; apply Hr; right; exact Hin.
  - destruct Hin as [->|Hin]; [congruence|]. destruct (f k); cbn [app zget];
      [replace (n =? k) with false by (symmetry; apply Z.eqb_neq; exact Hne)|]; apply IH; exact Hin.
Qed.

Theorem registry_lookup g n : In n (ids g) -> zget (stereogenic_tetrahedrons_of g) n = stereogenic_entry g n.
Proof. intros H. unfold stereogenic_tetrahedrons_of. apply zget_flat_map_entry. exact H. Qed.

(* ================================================================================================ *)
(* 3. hence: the registry entry of the rebuilt molecule is an ARRANGEMENT of the renamed old entry (the hypothesis
   `zget th' (k + 1) = Some (sel (map rho o) q)` of the whole-molecule theorem, now derived from facts about the graph) *)
Theorem registry_arrangement4 g g' rho n a b c d :
  same_kind g g' rho n -> (forall x, In x (nbr_ids g n) -> same_kind g g' rho x) -> same_nbrs g g' rho n ->
  stereogenic_entry g n = Some [a; b; c; d] -> NoDup (map rho [a; b; c; d]) ->
  exists q, In q perms4 /\ stereogenic_entry g' (rho n) = Some (sel (map rho [a; b; c; d]) q).
Proof.
  intros Hk Hn Hs He Hnd. pose proof (registry_equivariant g g' rho n Hk Hn Hs) as H. rewrite He in H.
  destruct H as (env' & He' & Hp). cbn [map] in *.
  destruct (arrangement4_of_permutation _ _ _ _ env' Hnd Hp) as (q & Hq & ->). exists q. auto.
Qed.

Theorem registry_arrangement3 g g' rho n a b c :
  same_kind g g' rho n -> (forall x, In x (nbr_ids g n) -> same_kind g g' rho x) -> same_nbrs g g' rho n ->
  stereogenic_entry g n = Some [a; b; c] -> NoDup (map rho [a; b; c]) ->
  exists q, In q perms3 /\ stereogenic_entry g' (rho n) = Some (sel (map rho [a; b; c]) q).
Proof.
  intros Hk Hn Hs He Hnd. pose proof (registry_equivariant g g' rho n Hk Hn Hs) as H. rewrite He in H.
  destruct H as (env' & He' & Hp). cbn [map] in *.
  destruct (arrangement3_of_permutation _ _ _ env' Hnd Hp) as (q & Hq & ->). exists q. auto.
Qed.

(* non-vacuity: alanine-like N(3)-C(7)(-C(9))-C(4) with an explicit H(5) on the centre, rebuilt with other numbers and another
   adjacency order *)
Example registry_example :
  let atm := fun z => mkAtom z None 0 false (Some 0) None in
  let sb := mkBond 1 None in
  let g := mkMol [(3, atm 7); (7, atm 6); (9, atm 6); (4, atm 6); (5, atm 1)]
                 [(3, [(7, sb)]); (7, [(3, sb); (9, sb); (4, sb); (5, sb)]); (9, [(7, sb)]); (4, [(7, sb)]); (5, [(7, sb)])] in
  let g' := mkMol [(1, atm 7); (2, atm 6); (3, atm 6); (4, atm 6); (5, atm 1)]
                  [(1, [(2, sb)]); (2, [(5, sb); (4, sb); (1, sb); (3, sb)]); (3, [(2, sb)]); (4, [(2, sb)]); (5, [(2, sb)])] in
  let rho := fun x => if x =? 3 then 1 else if x =? 7 then 2 else if x =? 9 then 3 else x in
  stereogenic_tetrahedrons_of g = [(7, [3; 9; 4])] /\ stereogenic_tetrahedrons_of g' = [(2, [4; 1; 3])] /\
  same_kind g g' rho 7 /\ (forall x, In x (nbr_ids g 7) -> same_kind g g' rho x) /\ same_nbrs g g' rho 7 /\
  [4; 1; 3] = sel (map rho [3; 9; 4]) [2; 0; 1].
Proof.
  cbn zeta. split; [vm_compute; reflexivity|]. split; [vm_compute; reflexivity|]. split.
  - eexists. eexists. repeat split; vm_compute; reflexivity.
  - split; [|split; [|vm_compute; reflexivity]].
    + intros x Hx. vm_compute in Hx. repeat (destruct Hx as [<-|Hx]; [eexists; eexists; repeat split; vm_compute; reflexivity|]). contradiction.
    + unfold same_nbrs. vm_compute.
      apply Permutation_trans with (l' := [(4, 1); (1, 1); (3, 1); (5, 1)]).
      * apply Permutation_trans with (l' := [(1, 1); (4, 1); (3, 1); (5, 1)]); [apply perm_skip; apply perm_swap | apply perm_swap].
      * apply Permutation_trans with (l' := [(4, 1); (1, 1); (5, 1); (3, 1)]); [do 2 apply perm_skip; apply perm_swap|].
        apply Permutation_trans with (l' := [(4, 1); (5, 1); (1, 1); (3, 1)]); [apply perm_skip; apply perm_swap | apply perm_swap].
Qed.

(* ================================================================================================ *)
(* 4. the whole-molecule tetrahedral theorem with hypotheses about the GRAPH only (the registries are computed) *)
Lemma filter_partition_perm {A} (f : A -> bool) l : Permutation l (filter f l ++ filter (fun x => negb (f x)) l).
Proof.
  induction l as [|x r IH]; cbn; [constructor|]. destruct (f x); cbn.
  - constructor. exact IH.
  - apply Permutation_cons_app. exact IH.
Qed.

Lemma filter_length_le {A} (f : A -> bool) l : (List.length (filter f l) <= List.length l)%nat.
Proof. induction l as [|x r IH]; cbn; [lia|]. destruct (f x); cbn; lia. Qed.

Lemma filter_all {A} (f : A -> bool) l : List.length (filter f l) = List.length l -> filter f l = l.
Proof.
  induction l as [|x r IH]; cbn; [reflexivity|]. destruct (f x); cbn; intros H.
  - f_equal. apply IH. lia.
  - pose proof (filter_length_le f r). lia.
Qed.

Section GraphCentre.
  Variables g g' : mol.
  Variable rho : Z -> Z.
  Variable nums : list Z.
  Variable nb : Z -> list Z.

  Let isH := is_hydrogen g.
  Let isH' := is_hydrogen g'.
  Let th' := stereogenic_tetrahedrons_of g'.

  Lemma hydrogen_same n x : (forall y, In y (nbr_ids g n) -> same_kind g g' rho y) -> In x (nbr_ids g n) -> isH' (rho x) = isH x.
  Proof.
    intros Hk Hx. destruct (Hk x Hx) as (b & b' & Hb & Hb' & Hn' & _). unfold isH, isH', is_hydrogen. rewrite Hb, Hb', Hn'. reflexivity.
  Qed.

  (* a labelled centre n at RDKit index k: RDKit lists exactly its neighbours (any order), the rebuilt molecule has the renamed
     atom with the same kind, the renamed neighbours with the same bond orders (any order) *)
  Theorem centre_from_graph k n o :
    In (rho n) (ids g') -> rho n = k + 1 ->
    same_kind g g' rho n -> (forall x, In x (nbr_ids g n) -> same_kind g g' rho x) -> same_nbrs g g' rho n ->
    NoDup (nbr_ids g n) -> NoDup (map rho (nbr_ids g n)) ->
    Permutation (nbr_ids g n) (env_old nums nb k) ->
    stereogenic_entry g n = Some o ->
    centre_wf isH isH' th' nums nb rho k o.
  Proof.
    intros Hin' Hrho Hk Hnk Hs Hnd Hnd' Hrd He.
    assert (Hlook : zget th' (k + 1) = stereogenic_entry g' (rho n)) by (rewrite <- Hrho; apply registry_lookup; exact Hin').
    pose proof He as He0. unfold stereogenic_entry in He.
    destruct (is_tetrahedron g n) eqn:Et; [|discriminate]. destruct (forallb (single_former g) (nbr_ids g n)); [|discriminate].
    cbv zeta in He. set (env := filter (fun x => negb (is_hydrogen g x)) (nbr_ids g n)) in *.
    assert (Hle : (List.length (nbr_ids g n) <= 4)%nat).
    { unfold is_tetrahedron in Et. destruct (atom_of g n); [|discriminate]. apply andb_prop in Et. destruct Et as [_ Et].
      apply negb_true_iff in Et. apply Z.ltb_ge in Et. unfold nbr_ids, keys. rewrite map_length. lia. }
    pose proof (filter_length_le (fun x => negb (is_hydrogen g x)) (nbr_ids g n)) as Hfl. fold env in Hfl.
    destruct ((Z.of_nat (List.length env) =? 3) || (Z.of_nat (List.length env) =? 4)) eqn:El; [|discriminate]. injection He as <-.
    apply orb_prop in El. destruct El as [El|El]; apply Z.eqb_eq in El.
    - (* three heavy neighbours *)
      assert (L3 : List.length env = 3%nat) by lia.
      destruct (Nat.eq_dec (List.length (nbr_ids g n)) 3) as [Hn3|Hn3].
      + (* hydrogen implicit: RDKit lists the three *)
        assert (Eenv : env = nbr_ids g n) by (apply filter_all; fold env; lia).
        destruct env as [|a [|b [|c [|]]]] eqn:Eq; try discriminate.
        rewrite <- Eenv in Hrd, Hnd, Hnd'.
        destruct (arrangement3_of_permutation a b c _ Hnd Hrd) as (p & Hp & Hsel).
        destruct (registry_arrangement3 g g' rho n a b c Hk Hnk Hs He0 Hnd') as (q & Hq & Hq').
        apply wf3 with (a := a) (b := b) (c := c) (p := p) (q := q); auto. rewrite Hlook. exact Hq'.
      + (* one hydrogen atom among four neighbours *)
        assert (Hn4 : List.length (nbr_ids g n) = 4%nat) by lia.
        pose proof (filter_partition_perm (fun x => negb (is_hydrogen g x)) (nbr_ids g n)) as Pp. fold env in Pp.
        set (hs := filter (fun x => negb (negb (is_hydrogen g x))) (nbr_ids g n)) in *.
        assert (Lh : List.length hs = 1%nat) by (apply Permutation_length in Pp; rewrite app_length in Pp; lia).
        destruct hs as [|h [|]] eqn:Eh; try discriminate.
        assert (Hh : In h (nbr_ids g n) /\ is_hydrogen g h = true).
        { assert (Hi : In h (filter (fun x => negb (negb (is_hydrogen g x))) (nbr_ids g n))) by (fold hs; rewrite Eh; left; reflexivity).
          apply filter_In in Hi. destruct Hi as [Hi1 Hi2]. rewrite negb_involutive in Hi2. auto. }
        destruct env as [|a [|b [|c [|]]]] eqn:Eq; try discriminate. cbn [app] in Pp.
        assert (Hheavy : forall x, In x [a; b; c] -> In x (nbr_ids g n) /\ is_hydrogen g x = false).
        { intros x Hx. assert (Hi : In x (filter (fun y => negb (is_hydrogen g y)) (nbr_ids g n))) by (fold env; rewrite Eq; exact Hx).
          apply filter_In in Hi. destruct Hi as [Hi1 Hi2]. apply negb_true_iff in Hi2. auto. }
        assert (Hn4' : NoDup [a; b; c; h]) by (apply (Permutation_NoDup Pp Hnd)).
        assert (Hnr : NoDup (map rho [a; b; c; h])) by (apply (Permutation_NoDup (Permutation_map rho Pp) Hnd')).
        assert (Hrd' : Permutation [a; b; c; h] (env_old nums nb k)) by (eapply Permutation_trans; [apply Permutation_sym; exact Pp | exact Hrd]).
        destruct (arrangement4_of_permutation a b c h _ Hn4' Hrd') as (p & Hp & Hsel).
        assert (Hnr3 : NoDup (map rho [a; b; c])).
        { cbn [map] in *. destruct (NoDup4_neq _ _ _ _ Hnr) as (N1 & N2 & N3 & N4 & N5 & N6). apply neq_NoDup3; assumption. }
        destruct (registry_arrangement3 g g' rho n a b c Hk Hnk Hs He0 Hnr3) as (q & Hq & Hq').
        assert (Fa : isH a = false) by (apply (Hheavy a); cbn; tauto).
        assert (Fb : isH b = false) by (apply (Hheavy b); cbn; tauto).
        assert (Fc : isH c = false) by (apply (Hheavy c); cbn; tauto).
        assert (Fh : isH h = true) by (apply Hh).
        assert (Fa' : isH' (rho a) = false) by (rewrite (hydrogen_same n a Hnk); [exact Fa | apply (Hheavy a); cbn; tauto]).
        assert (Fb' : isH' (rho b) = false) by (rewrite (hydrogen_same n b Hnk); [exact Fb | apply (Hheavy b); cbn; tauto]).
        assert (Fc' : isH' (rho c) = false) by (rewrite (hydrogen_same n c Hnk); [exact Fc | apply (Hheavy c); cbn; tauto]).
        assert (Fh' : isH' (rho h) = true) by (rewrite (hydrogen_same n h Hnk); [exact Fh | apply Hh]).
        assert (Fq : zget th' (k + 1) = Some (sel (map rho [a; b; c]) q)) by (rewrite Hlook; exact Hq').
        apply wf3H with (a := a) (b := b) (c := c) (h := h) (p := p) (q := q); try assumption; try reflexivity.
    - (* four heavy neighbours *)
      assert (L4 : List.length env = 4%nat) by lia.
      assert (Eenv : env = nbr_ids g n) by (apply filter_all; fold env; lia).
      destruct env as [|a [|b [|c [|d [|]]]]] eqn:Eq; try discriminate.
      rewrite <- Eenv in Hrd, Hnd, Hnd'.
      destruct (arrangement4_of_permutation a b c d _ Hnd Hrd) as (p & Hp & Hsel).
      destruct (registry_arrangement4 g g' rho n a b c d Hk Hnk Hs He0 Hnd') as (q & Hq & Hq').
      apply wf4 with (a := a) (b := b) (c := c) (d := d) (p := p) (q := q); auto. rewrite Hlook. exact Hq'.
  Qed.
End GraphCentre.

Section WholeGraph.
  Variables g g' : mol.
  Variable rho : Z -> Z.
  Variable nums : list Z.
  Variable nb : Z -> list Z.

  (* per atom (number n, label s) at RDKit index k; for a labelled stereogenic centre only facts about the two graphs and
     about which atoms RDKit lists as neighbours -- no registry, no arrangement *)
  Fixpoint graph_wf (k : Z) (atoms : list (Z * option bool)) : Prop :=
    match atoms with
    | [] => True
    | (n, s) :: r =>
        (rho n = k + 1 /\ In n (ids g) /\
         match s, stereogenic_entry g n with
         | Some _, Some _ =>
             In (rho n) (ids g') /\ env_new nb k = map rho (env_old nums nb k) /\
             same_kind g g' rho n /\ (forall x, In x (nbr_ids g n) -> same_kind g g' rho x) /\ same_nbrs g g' rho n /\
             NoDup (nbr_ids g n) /\ NoDup (map rho (nbr_ids g n)) /\
             Permutation (nbr_ids g n) (env_old nums nb k)          (* RDKit lists exactly the neighbours, in its own order *)
         | _, _ => True
         end) /\ graph_wf (k + 1) r
    end.

  Lemma graph_wf_atoms_wf : forall atoms k, graph_wf k atoms ->
    atoms_wf (is_hydrogen g) (is_hydrogen g') (stereogenic_tetrahedrons_of g) (stereogenic_tetrahedrons_of g') nums nb rho k atoms.
  Proof.
    induction atoms as [|[n s] r IH]; intros k H; [exact I|]. destruct H as [(Hrho & Hin & Hc) Hr].
    cbn [atoms_wf]. split; [|apply IH; exact Hr]. split; [exact Hrho|].
    rewrite (registry_lookup g n Hin). destruct s as [sv|]; [|exact I].
    destruct (stereogenic_entry g n) as [o|] eqn:Eo; [|exact I].
    destruct Hc as (Hin' & Henv & Hk & Hnk & Hs & Hnd & Hnd' & Hrd). split; [exact Henv|].
    apply (centre_from_graph g g' rho nums nb k n o Hin' Hrho Hk Hnk Hs Hnd Hnd' Hrd Eo).
  Qed.

  (* ALL tetrahedral labels of a molecule, registries computed from the two graphs *)
  Theorem tetrahedra_from_to_graph : forall atoms k, graph_wf k atoms ->
    exists tags, to_tags (is_hydrogen g) (stereogenic_tetrahedrons_of g) nums nb k atoms = Ok tags /\
      exists labels', from_tags (is_hydrogen g') (stereogenic_tetrahedrons_of g') nb k (map tag_name tags) = Ok labels' /\
        Forall2 (label_image (is_hydrogen g') (stereogenic_tetrahedrons_of g) (stereogenic_tetrahedrons_of g') rho) atoms labels'.
  Proof. intros atoms k H. apply tetrahedra_from_to. apply graph_wf_atoms_wf. exact H. Qed.
End WholeGraph.

(* non-vacuity on the molecule of [registry_example]: label true on C(7), RDKit lists the neighbours of index 1 as 3, 0, 4, 2 *)
Example graph_example :
  let atm := fun z s => mkAtom z None 0 false (Some 0) s in
  let sb := mkBond 1 None in
  let g := mkMol [(3, atm 7 None); (7, atm 6 (Some true)); (9, atm 6 None); (4, atm 6 None); (5, atm 1 None)]
                 [(3, [(7, sb)]); (7, [(3, sb); (9, sb); (4, sb); (5, sb)]); (9, [(7, sb)]); (4, [(7, sb)]); (5, [(7, sb)])] in
  let g' := mkMol [(1, atm 7 None); (2, atm 6 None); (3, atm 6 None); (4, atm 6 None); (5, atm 1 None)]
                  [(1, [(2, sb)]); (2, [(5, sb); (4, sb); (1, sb); (3, sb)]); (3, [(2, sb)]); (4, [(2, sb)]); (5, [(2, sb)])] in
  let nums := [3; 7; 9; 4; 5] in
  let nb := fun k => if k =? 1 then [3; 0; 4; 2] else [1] in
  graph_wf g g' (rho_of nums) nums nb 0 [(3, None); (7, Some true); (9, None); (4, None); (5, None)].
Proof.
  cbn zeta. cbn [graph_wf]. repeat split; try (vm_compute; tauto); try exact I.
  - eexists. eexists. repeat split; vm_compute; reflexivity.
  - intros x Hx. vm_compute in Hx. repeat (destruct Hx as [<-|Hx]; [eexists; eexists; repeat split; vm_compute; reflexivity|]). contradiction.
  - unfold same_nbrs. vm_compute.
    apply Permutation_trans with (l' := [(4, 1); (1, 1); (3, 1); (5, 1)]).
    + apply Permutation_trans with (l' := [(1, 1); (4, 1); (3, 1); (5, 1)]); [apply perm_skip; apply perm_swap | apply perm_swap].
    + apply Permutation_trans with (l' := [(4, 1); (1, 1); (5, 1); (3, 1)]); [do 2 apply perm_skip; apply perm_swap|].
      apply Permutation_trans with (l' := [(4, 1); (5, 1); (1, 1); (3, 1)]); [apply perm_skip; apply perm_swap | apply perm_swap].
  - vm_compute. repeat constructor; cbn; intuition lia.
  - vm_compute. repeat constructor; cbn; intuition lia.
  - vm_compute.
    apply Permutation_trans with (l' := [3; 4; 9; 5]); [apply perm_skip; apply perm_swap|].
    apply Permutation_trans with (l' := [4; 3; 9; 5]); [apply perm_swap|].
    apply perm_skip. apply perm_skip. apply perm_swap.
Qed.
