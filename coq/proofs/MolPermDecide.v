(* C01: mol_perm (the same molecule with atoms, adjacency rows and neighbours inserted in another order) is decidable: sort atoms,
   rows and neighbours by atom number and compare.  Soundness of the decision procedure the check evaluates ([mol_perm_b]). *)
From Coq Require Import ZArith List Bool Lia Permutation.
From Model Require Import PyBase PyHash Graph Morgan.
From Proofs Require Import MorganProofs.
Import ListNotations.
Open Scope Z_scope.

Lemma option_eqb_sound {T} (eqb : T -> T -> bool) : (forall a b, eqb a b = true -> a = b) -> forall a b, option_eqb eqb a b = true -> a = b.
Proof. intros H [x|] [y|] E; cbn in E; try discriminate; [rewrite (H x y E)|]; reflexivity. Qed.
Lemma list_eqb_sound' {T} (eqb : T -> T -> bool) : (forall a b, eqb a b = true -> a = b) -> forall l l', list_eqb eqb l l' = true -> l = l'.
Proof.
  intros H. induction l as [|x l IH]; intros [|y l'] E; cbn [list_eqb] in E; try discriminate; [reflexivity|].
  apply andb_prop in E. destruct E as [E1 E2]. rewrite (H x y E1), (IH l' E2). reflexivity.
Qed.
Lemma pair_eqb_sound {S T} (ea : S -> S -> bool) (eb : T -> T -> bool) : (forall a b, ea a b = true -> a = b) -> (forall a b, eb a b = true -> a = b) ->
  forall x y, pair_eqb ea eb x y = true -> x = y.
Proof. intros Ha Hb [a b] [c d] E. unfold pair_eqb in E. cbn [fst snd] in E. apply andb_prop in E. destruct E as [E1 E2]. rewrite (Ha _ _ E1), (Hb _ _ E2). reflexivity. Qed.
Lemma zeqb_sound a b : (a =? b) = true -> a = b. Proof. apply Z.eqb_eq. Qed.
Lemma atom_eqb_sound a b : atom_eqb a b = true -> a = b.
Proof.
  destruct a as [n1 i1 c1 r1 h1 s1], b as [n2 i2 c2 r2 h2 s2]. unfold atom_eqb. cbn. intros E.
  repeat (apply andb_prop in E; let E' := fresh "F" in destruct E as [E E']).
  apply Z.eqb_eq in E. apply (option_eqb_sound Z.eqb zeqb_sound) in F3. apply Z.eqb_eq in F2. apply eqb_prop in F1.
  apply (option_eqb_sound Z.eqb zeqb_sound) in F0. apply (option_eqb_sound Bool.eqb eqb_prop) in F. subst. reflexivity.
Qed.
Lemma bond_eqb_sound a b : bond_eqb a b = true -> a = b.
Proof.
  destruct a as [o1 s1], b as [o2 s2]. unfold bond_eqb. cbn. intros E. apply andb_prop in E. destruct E as [E F].
  apply Z.eqb_eq in E. apply (option_eqb_sound Bool.eqb eqb_prop) in F. subst. reflexivity.
Qed.

(* adj_perm is an equivalence *)
Lemma nb_perm_sym {B} (a b : Z * list (Z * B)) : nb_perm a b -> nb_perm b a.
Proof. intros [E P]. split; [symmetry; exact E | apply Permutation_sym; exact P]. Qed.
Lemma nb_perm_trans {B} (a b c : Z * list (Z * B)) : nb_perm a b -> nb_perm b c -> nb_perm a c.
Proof. intros [E P] [E' P']. split; [congruence | eapply Permutation_trans; eassumption]. Qed.
Lemma Forall2_flip {X Y} (P : X -> Y -> Prop) (Q : Y -> X -> Prop) l l' : (forall x y, P x y -> Q y x) -> Forall2 P l l' -> Forall2 Q l' l.
Proof. intros H F. induction F; constructor; [apply H; assumption | assumption]. Qed.
Lemma Forall2_trans' {X Y W} (P : X -> Y -> Prop) (Q : Y -> W -> Prop) (R : X -> W -> Prop) :
  (forall x y z, P x y -> Q y z -> R x z) -> forall l l' l'', Forall2 P l l' -> Forall2 Q l' l'' -> Forall2 R l l''.
Proof.
  intros H l l' l'' H1. revert l''. induction H1; intros l'' H2; inversion H2; subst; constructor; [eapply H; eassumption | apply IHForall2; assumption].
Qed.
Lemma adj_perm_sym {B} (a b : list (Z * list (Z * B))) : adj_perm a b -> adj_perm b a.
Proof.
  intros [mid [F P]].
  destruct (@Permutation_Forall2 _ _ (fun x y => nb_perm x y) mid b a P (Forall2_flip _ _ _ _ (fun x y => nb_perm_sym x y) F)) as [a' [Pa Fa]].
  exists a'. split; [exact Fa | apply Permutation_sym; exact Pa].
Qed.
Lemma adj_perm_trans {B} (a b c : list (Z * list (Z * B))) : adj_perm a b -> adj_perm b c -> adj_perm a c.
Proof.
  intros [m1 [F1 P1]] [m2 [F2 P2]].
  destruct (@Permutation_Forall2 _ _ (fun x y => nb_perm x y) b m1 m2 (Permutation_sym P1) F2) as [m2' [P2' F2']].
  exists m2'. split; [apply (Forall2_trans' _ _ _ (fun x y z => nb_perm_trans x y z) _ _ _ F1 F2')|].
  eapply Permutation_trans; [apply Permutation_sym; exact P2' | exact P2].
Qed.

Definition norm_adj {B} (adj : list (Z * list (Z * B))) : list (Z * list (Z * B)) :=
  isort (fun a b : Z * list (Z * B) => fst a <=? fst b) (map (fun nl => (fst nl, isort (fun a b : Z * B => fst a <=? fst b) (snd nl))) adj).
Lemma adj_perm_norm {B} (adj : list (Z * list (Z * B))) : adj_perm adj (norm_adj adj).
Proof.
  exists (map (fun nl => (fst nl, isort (fun a b : Z * B => fst a <=? fst b) (snd nl))) adj). split.
  - induction adj as [|[n row] adj IH]; cbn [map]; constructor; [|exact IH]. split; [reflexivity|]. cbn [snd]. apply Permutation_sym, isort_perm.
  - apply Permutation_sym, isort_perm.
Qed.
Definition norm_mol (g : mol) : mol := mkMol (isort (fun a b : Z * atom => fst a <=? fst b) (m_atoms g)) (norm_adj (m_adj g)).
Definition mol_perm_b (g g' : mol) : bool := mol_eqb (norm_mol g) (norm_mol g').

Theorem mol_perm_b_sound g g' : mol_perm_b g g' = true -> mol_perm g g'.
Proof.
  unfold mol_perm_b, mol_eqb. intros H. apply andb_prop in H. destruct H as [H1 H2]. cbn [norm_mol m_atoms m_adj] in H1, H2.
  apply (list_eqb_sound' _ (pair_eqb_sound _ _ zeqb_sound atom_eqb_sound)) in H1.
  apply (list_eqb_sound' _ (pair_eqb_sound _ _ zeqb_sound (list_eqb_sound' _ (pair_eqb_sound _ _ zeqb_sound bond_eqb_sound)))) in H2.
  split.
  - eapply Permutation_trans; [apply Permutation_sym, (isort_perm (fun a b : Z * atom => fst a <=? fst b))|]. rewrite H1. apply isort_perm.
  - apply (adj_perm_trans _ (norm_adj (m_adj g))); [apply adj_perm_norm|]. rewrite H2. apply adj_perm_sym, adj_perm_norm.
Qed.
