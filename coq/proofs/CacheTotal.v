(* C13 -- totality of remap and split for valid arguments (formerly compared / searched only):
   remap raises exactly when the mapping overlaps (ValueError) and nothing otherwise; split() of the current molecule of any state
   satisfying W raises nothing (every connected component the model computes is a non-empty set of existing atoms, and
   substructure(.., recalculate_hydrogens=False) is total on those). *)
From Coq Require Import ZArith List Bool Lia.
From Model Require Import PyBase Cache.
From Proofs Require Import CacheProofs CacheWf CacheCopy CacheCopyTotal CacheCoh CacheWorld CacheUnion CacheTheorems CacheUsable CacheExamples CacheTxn
  CacheFresh CacheFreshOps CacheFreshWorld CacheFreshSplit CacheUsable2 CacheUsable3 CacheUsable4.
Import ListNotations.
Open Scope Z_scope.

(* ---- remap *)
Definition remap_overlap (mp : list (Z * Z)) (o : mobj) : bool :=
  negb (nodup_z (map snd mp)) || existsb (fun n => negb (zmem n (keys mp)) && zmem n (map snd mp)) (keys (o_atoms o)).
Theorem remap_exact mp s :
  snd (step s (ORemap mp)) = if remap_overlap mp (s_cur s) then Some ValueError else None.
Proof.
  cbn [step]. unfold lift, remap, remap_overlap. destruct (negb (nodup_z (map snd mp)) || _); reflexivity.
Qed.
Lemma NoDup_nodup_z l : NoDup l -> nodup_z l = true.
Proof.
  induction 1 as [|x l Hx _ IH]; simpl; [reflexivity|]. rewrite IH. apply zmem_false_notin in Hx. rewrite Hx. reflexivity.
Qed.
Theorem remap_total mp s :
  NoDup (map snd mp) ->
  (forall n, In n (keys (o_atoms (s_cur s))) -> ~ In n (keys mp) -> ~ In n (map snd mp)) ->
  snd (step s (ORemap mp)) = None.
Proof.
  intros Hnd Hdis. rewrite remap_exact. unfold remap_overlap. rewrite (NoDup_nodup_z _ Hnd). simpl.
  replace (existsb _ _) with false; [reflexivity|]. symmetry. apply not_true_is_false. intros H.
  apply existsb_exists in H. destruct H as [n [Hn Hc]]. apply andb_prop in Hc. destruct Hc as [H1 H2].
  apply negb_true_iff in H1. apply zmem_false_notin in H1. apply zmem_In in H2. exact (Hdis n Hn H1 H2).
Qed.

(* ---- split *)
Lemma closure_sub adj : (forall x y, In y (nbrs adj x) -> In y (keys adj)) ->
  forall fuel cur, incl cur (keys adj) -> incl (closure adj cur fuel) (keys adj).
Proof.
  intros NK. induction fuel as [|f IH]; intros cur Hc; cbn [closure]; [exact Hc|].
  set (new := filter _ _). destruct new as [|a t] eqn:En; [exact Hc|]. apply IH. intros x Hx. apply in_app_or in Hx.
  destruct Hx as [Hx|Hx]; [apply Hc; exact Hx|]. apply In_fold_sadd in Hx. destruct Hx as [Hx|[]].
  rewrite <- En in Hx. unfold new in Hx. apply filter_In in Hx. destruct Hx as [Hx _]. apply in_flat_map in Hx.
  destruct Hx as [y [Hy Hxy]]. apply (NK y x). exact Hxy.
Qed.
Lemma comps_sub adj : (forall x y, In y (nbrs adj x) -> In y (keys adj)) ->
  forall ks seen c, incl ks (keys adj) -> In c (comps_from adj ks seen) -> c <> [] /\ incl c (keys adj).
Proof.
  intros NK. induction ks as [|k t IH]; intros seen c Hk Hc; cbn [comps_from] in Hc; [destruct Hc|].
  assert (incl t (keys adj)) as Ht by (intros x Hx; apply Hk; now right).
  destruct (zmem k seen); [eapply IH; eauto|]. destruct Hc as [<-|Hc]; [|eapply IH; eauto]. split.
  - assert (incl [k] (closure adj [k] (length adj))) as Hi.
    { apply closure_closed; [exact NK|]. unfold uncovered. pose proof (filter_len (fun k0 => negb (zmem k0 [k])) (keys adj)) as L.
      unfold keys in *. rewrite map_length in L. exact L. }
    intros E. specialize (Hi k (or_introl eq_refl)). rewrite E in Hi. destruct Hi.
  - apply closure_sub; [exact NK|]. intros x [<-|[]]. apply Hk. now left.
Qed.

Lemma split_loop_total cs : forall s old, W s ->
  (forall c, In c cs -> c <> [] /\ incl c (keys (o_atoms (s_cur s)))) -> snd (split_loop cs s old) = None.
Proof.
  induction cs as [|c t IH]; intros [h o others] old Ws Hc; cbn [split_loop snd s_heap s_cur s_others] in *; [reflexivity|].
  pose proof (W_cur _ Ws) as [[Wf _] _]. cbn [s_heap s_cur] in Wf.
  destruct (Hc c (or_introl eq_refl)) as [Ne Sub].
  destruct (sub_total false c h o Wf Ne Sub) as [h2 [o2 E]]. rewrite E.
  destruct (W_sub_g false c h o others h2 o2 None Ws E) as [_ K].
  apply IH; [apply K; reflexivity|]. cbn [s_cur]. intros c' Hc'. apply Hc. now right.
Qed.

Theorem split_total s : W s -> snd (step s OSplit) = None.
Proof.
  intros Ws. cbn [step].
  assert (W (fst (lift (read Kcc) s))) as W1 by (apply (step_W s (ORead Kcc)); [exact Ws | exact I]).
  set (s1 := fst (lift (read Kcc) s)) in *.
  assert (o_atoms (s_cur s1) = o_atoms (s_cur s) /\ o_adj (s_cur s1) = o_adj (s_cur s)) as [Ea Eb]
    by (unfold s1; destruct s; split; reflexivity).
  apply split_loop_total; [exact W1|]. intros c Hc. unfold comps in Hc.
  pose proof (W_cur _ W1) as [[Wf _] _]. rewrite <- (wf_keys _ _ _ Wf).
  eapply comps_sub; [|apply incl_refl|exact Hc]. intros x y Hy. eapply wf_nbrs; eauto.
Qed.

(* non-vacuity: CC.O splits into two parts; swapping two atoms of C-C-O is fine, mapping 1 onto the unmapped atom 2 is refused *)
Example total_example :
  let s := init [(1, mkCore 6 None 0 false); (2, mkCore 6 None 0 false); (3, mkCore 8 None 0 false)]
                [(1, [(2, 1)]); (2, [(1, 1)]); (3, [])] [] [] in
  List.length (s_others (fst (step s OSplit))) = 3%nat /\
  map (fun o => keys (o_atoms o)) (s_others (fst (step s OSplit))) = [[3]; [1; 2]; []] /\
  snd (step s (ORemap [(1, 2); (2, 1)])) = None /\ snd (step s (ORemap [(1, 2)])) = Some ValueError.
Proof. vm_compute. repeat split; reflexivity. Qed.
