(* C06 -- extension round: insertion order.  Two well-formed adjacency lists with the same atoms and the same neighbour SETS
   (any order of the entries and of the neighbour lists) have the same cycle bases and the same minimum ring sizes. *)
From Coq Require Import ZArith List Bool Lia Permutation Sorted.
From Model Require Import PyBase Graph Rings.
From Proofs Require Import RingsProofs RingsMcb RingsRank RingsExt RingsDim RingsFund RingsMin RingsHorton RingsSizes RingsIso.
Import ListNotations.
Open Scope Z_scope.

Definition gequiv (g h : graph) : Prop :=
  (forall v, In v (keys g) <-> In v (keys h)) /\ forall v x, In x (gnbrs g v) <-> In x (gnbrs h v).

Lemma gequiv_sym g h : gequiv g h -> gequiv h g.
Proof. intros [A B]. split; [intros v; symmetry; apply A | intros v x; symmetry; apply B]. Qed.

Section Equiv.
Variables g h : graph.
Hypothesis Wg : gwf g.
Hypothesis Wh : gwf h.
Hypothesis E : gequiv g h.

Lemma ge_length : length g = length h.
Proof.
  destruct E as [A _]. destruct Wg as [Ng _]. destruct Wh as [Nh _]. pose proof (NoDup_Permutation Ng Nh A) as P. apply Permutation_length in P.
  unfold keys in P. rewrite !map_length in P. exact P.
Qed.

Lemma ge_edges p : In p (edges g) <-> In p (edges h).
Proof.
  destruct E as [A B]. destruct Wg as [Ng _]. destruct Wh as [Nh _]. destruct p as [a b].
  rewrite (In_edges_gnbrs g a b Ng), (In_edges_gnbrs h a b Nh), (A a), (B a b). tauto.
Qed.

Lemma ge_edges_length : length (edges g) = length (edges h).
Proof. apply Permutation_length. apply NoDup_Permutation; [apply NoDup_edges; exact Wg | apply NoDup_edges; exact Wh | exact ge_edges]. Qed.

Lemma ge_reach u v : reach g u v -> reach h u v.
Proof. destruct E as [_ B]. intros R. induction R as [|u b c R IH Hc]; [constructor|]. apply (reach_step h u b c IH). apply B. exact Hc. Qed.

End Equiv.

Lemma ge_comps g h : gwf g -> gwf h -> gequiv g h -> length (comps h) = length (comps g).
Proof.
  intros Wg Wh E. symmetry. apply (partition_count h (comps g) Wh). destruct (comps_partition g Wg) as [Cov [N Cl]]. pose proof E as [A B]. split; [|split; [exact N|]].
  - intros v Kv. apply Cov. apply A. exact Kv.
  - intros c Hc. destruct (Cl c Hc) as [Ne Cu]. split; [exact Ne|]. intros u Hu. destruct (Cu u Hu) as [Ku Cv]. split; [apply A; exact Ku|].
    intros v. rewrite Cv. split; [apply (ge_reach g h E) | apply (ge_reach h g (gequiv_sym g h E))].
Qed.

Theorem ge_cyclomatic g h : gwf g -> gwf h -> gequiv g h -> cyclomatic h = cyclomatic g.
Proof.
  intros Wg Wh E. unfold cyclomatic. fold (comps g) (comps h). rewrite (ge_comps g h Wg Wh E), (ge_edges_length g h Wg Wh E), (ge_length g h Wg Wh E). reflexivity.
Qed.

Lemma ge_cycle g h r : gequiv g h -> is_cycle g r -> is_cycle h r.
Proof. intros [_ B] [L [N A]]. split; [exact L|]. split; [exact N|]. intros a b H. destruct (A a b H) as [A1 A2]. split; apply B; assumption. Qed.

(* the same ring lists are cycle bases *)
Theorem basis_equiv g h rs : gwf h -> gequiv g h -> is_cycle_basis g rs = true -> is_cycle_basis h rs = true.
Proof.
  intros Wh E H. pose proof (basis_checker_sound g rs H) as [Wg [C [I N]]]. apply basis_checker_complete.
  - exact Wh.
  - eapply Forall_impl; [|exact C]. intros r Hr. apply (ge_cycle g h r E Hr).
  - intros sel L Ex. destruct (I sel L Ex) as [e [He Pe]]. exists e. split; [apply (ge_edges g h Wg Wh E); exact He | exact Pe].
  - pose proof (ge_cyclomatic g h Wg Wh E) as Cy. unfold cyclomatic in Cy. etransitivity; [exact N | symmetry; exact Cy].
Qed.

Theorem mcb_total_equiv g h : gwf g -> gwf h -> gequiv g h -> total_size (mcb_ref h) = total_size (mcb_ref g).
Proof.
  intros Wg Wh E. apply Z.le_antisymm.
  - apply (mcb_ref_minimum h Wh). apply (basis_equiv g h _ Wh E). apply (mcb_ref_is_basis g Wg).
  - apply (mcb_ref_minimum g Wg). apply (basis_equiv h g _ Wg (gequiv_sym g h E)). apply (mcb_ref_is_basis h Wh).
Qed.

(* NUMBERING AND INSERTION-ORDER INDEPENDENCE of the ring sizes of a minimum cycle basis:
   h is the molecule graph after a renumbering pi, written down in any order *)
Theorem minimum_sizes_independent pi rho g h rs rs' :
  (forall a, rho (pi a) = a) -> (forall a, pi (rho a) = a) -> gwf h -> gequiv (rename pi g) h ->
  is_cycle_basis g rs = true -> total_size rs = total_size (mcb_ref g) ->
  is_cycle_basis h rs' = true -> total_size rs' = total_size (mcb_ref h) ->
  isort (map (@length Z) rs) = isort (map (@length Z) rs').
Proof.
  intros RP PR Wh E H Et H' Et'. pose proof (basis_checker_sound g rs H) as [Wg _].
  pose proof (rn_wf pi (pi_inj pi rho RP) g Wg) as Wr.
  assert (H2 : is_cycle_basis (rename pi g) rs' = true) by (apply (basis_equiv h (rename pi g) rs' Wr (gequiv_sym _ _ E) H')).
  assert (Et2 : total_size rs' = total_size (mcb_ref (rename pi g))) by (rewrite Et'; apply (mcb_total_equiv (rename pi g) h Wr Wh E)).
  apply (minimum_sizes_numbering_independent pi rho RP PR g rs rs' H Et H2 Et2).
Qed.
