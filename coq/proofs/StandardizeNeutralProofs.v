(* C14 third wave: neutralisation moves protons: skeleton and adjacency conserved; net charge and hydrogen count change by the
   same number (#acceptors - #donors), i.e. both conserved when as many sites lose a proton as gain one (keep_charge=True) *)
From Coq Require Import ZArith List String Bool Lia.
From Model Require Import PyBase Graph PeriodicTable Standardize StandardizeNeutral.
From Proofs Require Import StandardizeProofs StandardizeExt.
Import ListNotations.
Open Scope Z_scope.

Definition wsum (w : atom -> Z) (l : list (Z * atom)) : Z := zsum (map (fun na => w (snd na)) l).

Lemma wsum_upd w n f l a :
  NoDup (keys l) -> zget l n = Some a -> wsum w (upd_atoms n f l) = wsum w l - w a + w (f a).
Proof.
  unfold wsum. induction l as [|[k x] l IH]; intros Hnd Hg; [discriminate|].
  cbn [keys map fst] in Hnd. inversion Hnd as [|? ? Hnotin Hnd']; subst.
  rewrite upd_atoms_cons. cbn [zget] in Hg. destruct (n =? k) eqn:E.
  - apply Z.eqb_eq in E. subst. inversion Hg; subst. rewrite Z.eqb_refl. rewrite (upd_atoms_notin k f l Hnotin).
    cbn [map zsum fold_right snd]. lia.
  - rewrite Z.eqb_sym in E. rewrite E. cbn [map zsum fold_right snd] in *.
    fold (zsum (map (fun na => w (snd na)) (upd_atoms n f l))). fold (zsum (map (fun na => w (snd na)) l)).
    specialize (IH Hnd' Hg). unfold zsum in *. lia.
Qed.

Lemma keeps_shift d : keeps_elem (shift_proton d).
Proof. intros a. split; reflexivity. Qed.

(* the sites: atoms of g with a known hydrogen count *)
Definition sites_ok (g : mol) (ns : list Z) : Prop := forall n, In n ns -> exists a h, atom_of g n = Some a /\ a_h a = Some h.

Lemma shift_all_spec d ns : forall g, NoDup (ids g) -> NoDup ns -> sites_ok g ns ->
  let g' := shift_all d g ns in
  skeleton g' = skeleton g /\ m_adj g' = m_adj g /\
  total_charge g' = total_charge g + d * Z.of_nat (List.length ns) /\
  wsum hval (m_atoms g') = wsum hval (m_atoms g) + d * Z.of_nat (List.length ns) /\
  (forall k, ~ In k ns -> atom_of g' k = atom_of g k).
Proof.
  induction ns as [|n ns IH]; intros g Hnd Hns Hs; cbn [shift_all fold_left List.length].
  - repeat split; try lia. 
  - inversion Hns as [|? ? Hnotin Hns']; subst.
    destruct (Hs n (or_introl eq_refl)) as [a [h [Ha Hh]]].
    set (g1 := upd_atom g n (shift_proton d)).
    assert (Hnd1 : NoDup (ids g1)) by (unfold g1; rewrite ids_upd_atom; exact Hnd).
    assert (Hs1 : sites_ok g1 ns).
    { intros k Hk. destruct (Hs k (or_intror Hk)) as [a' [h' [Ha' Hh']]]. exists a', h'. split; [|exact Hh'].
      unfold g1. rewrite atom_of_upd_atom. destruct (k =? n) eqn:E; [|exact Ha'].
      apply Z.eqb_eq in E. subst. contradiction. }
    destruct (IH g1 Hnd1 Hns' Hs1) as [H1 [H2 [H3 [H4 H5]]]]. fold (shift_all d g1 ns).
    split; [rewrite H1; unfold g1; apply skeleton_upd_atom, keeps_shift|].
    split; [rewrite H2; reflexivity|].
    split; [rewrite H3; unfold g1; rewrite (total_upd_atom g n _ a Hnd Ha); cbn [a_chg shift_proton]; lia|].
    split.
    + rewrite H4. unfold g1, upd_atom. cbn [m_atoms]. rewrite (wsum_upd hval n _ (m_atoms g) a Hnd Ha).
      unfold hval. cbn [a_h shift_proton]. rewrite Hh. cbn [option_map]. lia.
    + intros k Hk. rewrite H5 by (intros Hin; apply Hk; right; exact Hin).
      unfold g1. rewrite atom_of_upd_atom. destruct (k =? n) eqn:E; [|reflexivity].
      apply Z.eqb_eq in E. subst. exfalso. apply Hk. left. reflexivity.
Qed.

Lemma h_count_skeleton : forall l1 l2 : list (Z * atom),
  map (fun na => (fst na, a_num (snd na), a_iso (snd na))) l1 = map (fun na => (fst na, a_num (snd na), a_iso (snd na))) l2 ->
  List.length (filter is_h l1) = List.length (filter is_h l2).
Proof.
  induction l1 as [|[k a] l1 IH]; intros [|[k' a'] l2] H; try discriminate; [reflexivity|].
  cbn [map fst snd] in H. injection H as Hk Hn Hi Hrest.
  assert (E : is_h (k, a) = is_h (k', a')) by (unfold is_h; cbn [snd]; rewrite Hn; reflexivity).
  change (filter is_h ((k, a) :: l1)) with (if is_h (k, a) then (k, a) :: filter is_h l1 else filter is_h l1).
  change (filter is_h ((k', a') :: l2)) with (if is_h (k', a') then (k', a') :: filter is_h l2 else filter is_h l2).
  rewrite E. destruct (is_h (k', a')); cbn [List.length]; rewrite (IH l2 Hrest); reflexivity.
Qed.
Lemma h_atoms_skeleton g g' : skeleton g' = skeleton g -> h_atoms (m_atoms g') = h_atoms (m_atoms g).
Proof. intros H. unfold h_atoms. f_equal. apply h_count_skeleton. exact H. Qed.

(* protons moved from `minus` to `plus` (disjoint site lists): skeleton and adjacency unchanged, net charge and total hydrogen
   count both change by #plus - #minus *)
Theorem move_protons_balance g minus plus :
  NoDup (ids g) -> NoDup minus -> NoDup plus -> (forall n, In n minus -> ~ In n plus) -> sites_ok g minus -> sites_ok g plus ->
  let g' := move_protons g minus plus in
  let d := Z.of_nat (List.length plus) - Z.of_nat (List.length minus) in
  skeleton g' = skeleton g /\ m_adj g' = m_adj g /\ total_charge g' = total_charge g + d /\ total_h g' = total_h g + d.
Proof.
  intros Hnd Hm Hp Hdis Hsm Hsp. unfold move_protons.
  destruct (shift_all_spec (-1) minus g Hnd Hm Hsm) as [A1 [A2 [A3 [A4 A5]]]].
  set (g1 := shift_all (-1) g minus) in *.
  assert (Hnd1 : NoDup (ids g1)) by (rewrite (skeleton_ids _ _ A1); exact Hnd).
  assert (Hsp1 : sites_ok g1 plus).
  { intros n Hn. destruct (Hsp n Hn) as [a [h [Ha Hh]]]. exists a, h. split; [|exact Hh].
    rewrite A5; [exact Ha|]. intros Hin. exact (Hdis n Hin Hn). }
  destruct (shift_all_spec 1 plus g1 Hnd1 Hp Hsp1) as [B1 [B2 [B3 [B4 _]]]].
  cbn zeta. split; [congruence|]. split; [congruence|]. split; [lia|].
  unfold total_h. rewrite (h_atoms_skeleton g (shift_all 1 g1 plus)) by congruence.
  change (implicit_sum (m_atoms (shift_all 1 g1 plus))) with (wsum hval (m_atoms (shift_all 1 g1 plus))).
  change (implicit_sum (m_atoms g)) with (wsum hval (m_atoms g)). lia.
Qed.

(* neutralize(keep_charge=True) with as many chosen sites on the larger side as the smaller side has: net charge and hydrogen
   count are conserved *)
Corollary neutralize_keep_conserves g donors acceptors chosen g' :
  NoDup (ids g) -> NoDup donors -> NoDup acceptors -> NoDup chosen ->
  (forall n, In n donors -> ~ In n acceptors) ->
  (forall n, In n chosen -> if (List.length acceptors <? List.length donors)%nat then In n donors else In n acceptors) ->
  List.length chosen = Nat.min (List.length donors) (List.length acceptors) ->
  sites_ok g donors -> sites_ok g acceptors ->
  neutralize_model true g donors acceptors chosen = Some g' ->
  skeleton g' = skeleton g /\ m_adj g' = m_adj g /\ total_charge g' = total_charge g /\ total_h g' = total_h g.
Proof.
  intros Hnd Hd Ha Hc Hdis Hsub Hlen Hsd Hsa. unfold neutralize_model.
  destruct donors as [|d0 dr] eqn:Ed; [discriminate|]. destruct acceptors as [|a0 ar] eqn:Ea; [discriminate|].
  rewrite <- Ed, <- Ea in *. clear d0 dr a0 ar Ed Ea.
  destruct (List.length acceptors <? List.length donors)%nat eqn:E1.
  - apply Nat.ltb_lt in E1. intros H. inversion H; subst g'.
    assert (Hsc : sites_ok g chosen) by (intros n Hn; apply Hsd; exact (Hsub n Hn)).
    destruct (move_protons_balance g chosen acceptors Hnd Hc Ha (fun n Hn => Hdis n (Hsub n Hn)) Hsc Hsa) as [B1 [B2 [B3 B4]]].
    rewrite Hlen, Nat.min_r in B3, B4 by lia. repeat split; try assumption; lia.
  - destruct (List.length donors <? List.length acceptors)%nat eqn:E2.
    + apply Nat.ltb_lt in E2. intros H. inversion H; subst g'.
      assert (Hsc : sites_ok g chosen) by (intros n Hn; apply Hsa; exact (Hsub n Hn)).
      assert (Hdis' : forall n, In n donors -> ~ In n chosen) by (intros n Hn Hin; exact (Hdis n Hn (Hsub n Hin))).
      destruct (move_protons_balance g donors chosen Hnd Hd Hc Hdis' Hsd Hsc) as [B1 [B2 [B3 B4]]].
      rewrite Hlen, Nat.min_l in B3, B4 by lia. repeat split; try assumption; lia.
    + apply Nat.ltb_ge in E1, E2. intros H. inversion H; subst g'.
      destruct (move_protons_balance g donors acceptors Hnd Hd Ha Hdis Hsd Hsa) as [B1 [B2 [B3 B4]]].
      assert (List.length donors = List.length acceptors) by lia. repeat split; try assumption; lia.
Qed.
