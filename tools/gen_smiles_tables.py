"""Translator: the constant tables of the SMILES writer (chython/algorithms/smiles.py) and of the part of the reader that
the writer has to agree with (chython/files/daylight/tokenize.py) -> coq/gen/SmilesTables.v

Read from the Python AST, fail closed:
  smiles.py   : charge_str (dict int -> str), organic_set (set of str), the atomic-number constants B C N P S,
                the literal heap bound `list(range(1, 100))` and the `c < 10` / '%' convention of _format_closure
  tokenize.py : replace_dict, charge_dict, the character-class literals of `_tokenize` (`s in '...'`), the tuple of
                aromatic bracket symbols of `_atom_parse`, and the source text of `atom_re` (the hand-written matcher of
                coq/model/Writer.v implements exactly this pattern: any other pattern text stops the translator)."""
import ast
import os
import sys

sys.path.insert(0, os.path.dirname(__file__))
from coqfmt import *  # noqa

ATOM_RE = r'([1-9][0-9]{0,2})?([A-IK-PR-Zacnopsbt][a-ik-pr-vy]?)(@@|@)?(H[1-4]?)?([+-][1-4+-]?)?(:[0-9]+)?'
CLASSES = ['=#:-~', '\\/', 'NOPSFI', 'cnopsb', 'CB']
AROMATIC_BRACKET = ('c', 'n', 'o', 'p', 's', 'as', 'se', 'b', 'te')


def top_assign(tree, name, path):
    for node in tree.body:
        if isinstance(node, ast.Assign) and len(node.targets) == 1 and getattr(node.targets[0], 'id', None) == name:
            return node
    raise TranslatorError(f'{path}: {name} not found')


def literal(tree, name, path, typ):
    node = top_assign(tree, name, path)
    try:
        v = ast.literal_eval(node.value)
    except Exception:
        raise TranslatorError(f'{path}:{node.lineno}: {name} is not a literal')
    if not isinstance(v, typ):
        raise TranslatorError(f'{path}:{node.lineno}: {name} has type {type(v).__name__}')
    return v


def find_func(tree, name, path):
    for node in ast.walk(tree):
        if isinstance(node, ast.FunctionDef) and node.name == name:
            return node
    raise TranslatorError(f'{path}: function {name} not found')


def main(repo='/repo', dest=None):
    dest = dest or gen_path('SmilesTables.v')
    # ---------------- writer
    path = os.path.join(repo, 'chython/algorithms/smiles.py')
    tree = ast.parse(open(path).read())
    charge_str = literal(tree, 'charge_str', path, dict)
    if not all(type(k) is int and type(v) is str for k, v in charge_str.items()):
        raise TranslatorError(f'{path}: charge_str must map int to str')
    organic = literal(tree, 'organic_set', path, set)
    if not all(type(x) is str for x in organic):
        raise TranslatorError(f'{path}: organic_set must hold str')
    consts = {k: literal(tree, k, path, int) for k in 'BCNPS'}
    # heap = list(range(1, 100)) inside Smiles._smiles
    fn = find_func(tree, '_smiles', path)
    heap = None
    for node in ast.walk(fn):
        if isinstance(node, ast.Assign) and getattr(node.targets[0], 'id', None) == 'heap':
            v = node.value
            ok = (isinstance(v, ast.Call) and getattr(v.func, 'id', None) == 'list' and len(v.args) == 1 and
                  isinstance(v.args[0], ast.Call) and getattr(v.args[0].func, 'id', None) == 'range' and
                  len(v.args[0].args) == 2 and all(isinstance(a, ast.Constant) and type(a.value) is int for a in v.args[0].args))
            if not ok:
                raise TranslatorError(f'{path}:{node.lineno}: heap is not list(range(a, b))')
            heap = (v.args[0].args[0].value, v.args[0].args[1].value)
    if heap is None:
        raise TranslatorError(f'{path}: heap assignment not found in _smiles')
    # _format_closure: return str(c) if c < 10 else f'%{c}'
    fn = find_func(tree, '_format_closure', path)
    src = ast.unparse(fn.body[0])
    if src != "return str(c) if c < 10 else f'%{c}'":
        raise TranslatorError(f'{path}:{fn.lineno}: _format_closure has an unrecognised body: {src}')
    # ---------------- reader tables
    tpath = os.path.join(repo, 'chython/files/daylight/tokenize.py')
    ttree = ast.parse(open(tpath).read())
    replace_dict = literal(ttree, 'replace_dict', tpath, dict)
    charge_dict = literal(ttree, 'charge_dict', tpath, dict)
    if not all(type(k) is str and len(k) == 1 and type(v) is int for k, v in replace_dict.items()):
        raise TranslatorError(f'{tpath}: replace_dict must map one character to int')
    if not all(type(k) is str and type(v) is int for k, v in charge_dict.items()):
        raise TranslatorError(f'{tpath}: charge_dict must map str to int')
    node = top_assign(ttree, 'atom_re', tpath)
    v = node.value
    if not (isinstance(v, ast.Call) and getattr(v.func, 'id', None) == 'compile' and len(v.args) == 1 and
            isinstance(v.args[0], ast.Constant) and type(v.args[0].value) is str):
        raise TranslatorError(f'{tpath}:{node.lineno}: atom_re is not compile(<literal>)')
    if v.args[0].value != ATOM_RE:
        raise TranslatorError(f'{tpath}:{node.lineno}: atom_re changed; the bracket-atom matcher of coq/model/Writer.v implements '
                              f'{ATOM_RE!r}, found {v.args[0].value!r}')
    fn = find_func(ttree, '_tokenize', tpath)
    classes = []
    for node in ast.walk(fn):
        if isinstance(node, ast.Compare) and len(node.ops) == 1 and isinstance(node.ops[0], ast.In) and \
                getattr(node.left, 'id', None) == 's' and isinstance(node.comparators[0], ast.Constant) and \
                type(node.comparators[0].value) is str:
            classes.append((node.lineno, node.comparators[0].value))
    classes = [c for _, c in sorted(classes)]
    if classes != CLASSES:
        raise TranslatorError(f'{tpath}: character classes of _tokenize changed: {classes!r} (expected {CLASSES!r})')
    fn = find_func(ttree, '_atom_parse', tpath)
    arom = None
    for node in ast.walk(fn):
        if isinstance(node, ast.Compare) and getattr(node.left, 'id', None) == 'element' and isinstance(node.ops[0], ast.In):
            try:
                arom = ast.literal_eval(node.comparators[0])
            except Exception:
                raise TranslatorError(f'{tpath}:{node.lineno}: aromatic symbol tuple is not a literal')
    if arom is None or not all(type(x) is str for x in arom):
        raise TranslatorError(f'{tpath}: aromatic symbol tuple of _atom_parse not found')

    def sp(pairs, fk, fv):
        return lst([tup(fk(k), fv(v)) for k, v in pairs], per_line=6)

    out = ['(* GENERATED by tools/gen_smiles_tables.py from chython/algorithms/smiles.py and chython/files/daylight/tokenize.py.',
           '   Do not edit. *)',
           'From Coq Require Import ZArith List String Bool.', 'Import ListNotations.', 'Open Scope Z_scope.', '',
           '(* ---- writer (algorithms/smiles.py) ---- *)',
           'Definition charge_str : list (Z * string) :=\n  ' + sp(charge_str.items(), zraw, s) + '.',
           '(* a Python set display: membership only, printed sorted *)',
           'Definition organic_set : list string :=\n  ' + lst(sorted(organic), s) + '.']
    for k in 'BCNPS':
        out.append(f'Definition num_{k} : Z := {zraw(consts[k])}.')
    out += [f'(* heap = list(range({heap[0]}, {heap[1]})) *)',
            f'Definition heap_lo : Z := {zraw(heap[0])}.', f'Definition heap_hi : Z := {zraw(heap[1])}.',
            '(* _format_closure: str(c) if c < 10 else "%" + str(c)  (body checked literally by the translator) *)',
            'Definition closure_percent_from : Z := 10.', '',
            '(* ---- reader (files/daylight/tokenize.py) ---- *)',
            'Definition replace_dict : list (string * Z) :=\n  ' + sp(replace_dict.items(), s, zraw) + '.',
            'Definition charge_dict : list (string * Z) :=\n  ' + sp(charge_dict.items(), s, zraw) + '.',
            '(* character classes of _tokenize, in source order *)',
            f'Definition tk_bond_chars : string := {s(classes[0])}.',
            f'Definition tk_updown_chars : string := {s(classes[1])}.',
            f'Definition tk_organic_chars : string := {s(classes[2])}.',
            f'Definition tk_aromatic_chars : string := {s(classes[3])}.',
            f'Definition tk_flag_chars : string := {s(classes[4])}.',
            '(* _atom_parse: bracket symbols that denote aromatic atoms *)',
            'Definition aromatic_bracket_symbols : list string :=\n  ' + lst(list(arom), s) + '.',
            '(* the pattern text the hand-written matcher implements (the translator stops on any other text) *)',
            f'Definition atom_re_pattern : string := {s(ATOM_RE)}.', '']
    return write_if_changed(dest, '\n'.join(out))


if __name__ == '__main__':
    main(*sys.argv[1:])
