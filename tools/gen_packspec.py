"""Translator (C10): the published pack format specification and the hand-copied constants of the pack codecs
   -> coq/gen/PackSpecGen.v

Read from the SOURCE TEXT / AST only (nothing is imported), fail closed:
  * the "Format V2 specification" text: it must appear three times (comment of _pack_v2.pyx, comment of _unpack_v0v2.pyx,
    docstring of MoleculeContainer.pack) with the same `<n> bit - ...` lines; the field widths are emitted per block
    (header, atom record, connection table entry, bond order, cis/trans record)
  * _pack_v2.pyx: the version byte, the four stereo nibble constants with their conditions, the 'unknown hydrogens' byte,
    the size of the `seen` table
  * _unpack_v0v2.pyx: the if/elif chain decoding the stereo nibble (patterns in source order + the else value), the
    hydrogen value decoded as None
  * molecule.py: the three limits of the `if check:` block of pack, the accepted version bytes of unpack / pack_len
  * reaction.py: the header byte of the reaction pack
"""
import ast
import os
import re
import sys

sys.path.insert(0, os.path.dirname(__file__))
from coqfmt import *  # noqa

BLOCKS = ['header', 'atom', 'conn', 'order', 'cis_trans']


def spec_lines(text, where):
    """[(width, rest-of-line)] of the `N bit - ...` lines after the specification title, up to the first non-spec line"""
    m = re.search(r'Format (?:V2 )?specification::', text)
    if not m:
        raise TranslatorError(f'{where}: format specification title not found')
    out = []
    titles = 0
    for raw in text[m.end():].split('\n')[1:]:
        line = raw.strip().lstrip('#').strip()
        if not line:
            if out and titles >= 3:
                # blank line after the last block ends the specification
                if out[-1][1].startswith('sign'):
                    break
            continue
        mm = re.fullmatch(r'(\d+) bit\s*-?\s*(.*)', line) or re.fullmatch(r'(\d+) bit (.*)', line)
        if mm:
            out.append((int(mm.group(1)), mm.group(2).strip()))
            continue
        if re.match(r'(Big endian|Atom block|Connection table|For example|Repeated block|Bonds order block|Cis/trans data block)', line):
            if line.startswith('Bonds order block'):
                mo = re.match(r'Bonds order block (\d+) bit per bond zero-padded to full byte at the end', line)
                if not mo:
                    raise TranslatorError(f'{where}: bond order block line not recognised: {line!r}')
                out.append((int(mo.group(1)), 'ORDER'))
            titles += 1
            continue
        break
    return out


def split_blocks(lines, where):
    widths = [w for w, _ in lines]
    tags = [t for _, t in lines]
    # header 3 fields, atom 10 fields, connection 1 (pair), order 1, cis/trans 3
    if len(lines) != 18 or tags[14] != 'ORDER':
        raise TranslatorError(f'{where}: expected 18 field lines (3 + 10 + 1 + order + 3), got {len(lines)}: {lines}')
    return {'header': widths[0:3], 'atom': widths[3:13], 'conn': widths[13:14], 'order': widths[14:15], 'cis_trans': widths[15:18]}, \
        [t for t in tags]


def pyx_consts(repo):
    p = os.path.join(repo, 'chython/containers/_pack_v2.pyx')
    src = open(p).read()
    def one(pat, what, conv=lambda x: int(x, 0)):
        ms = re.findall(pat, src)
        if len(ms) != 1:
            raise TranslatorError(f'{p}: {what}: expected exactly one match of {pat!r}, got {len(ms)}')
        return conv(ms[0])
    version = one(r'data\[0\] = (\d+)  # header', 'version byte')
    hnone = one(r'if py_nan_int is None:\n\s+hcr = (0x[0-9a-fA-F]+)', 'unknown hydrogens byte')
    seen = one(r'cdef unsigned char\[(\d+)\] seen', 'seen table size')
    m = re.search(r'py_nan_int = py_atom\._stereo\n\s+if py_nan_int is None:\n\s+stereo = (\w+)\n(?:\s+#.*\n)*\s+elif py_nan_int:\n\s+if ngb_count == (\d+):.*\n\s+stereo = (\w+)\n\s+else:\n\s+stereo = (\w+)\n\s+else:\n\s+if ngb_count == (\d+):.*\n\s+stereo = (\w+)\n\s+else:\n\s+stereo = (\w+)\n', src)
    if not m:
        raise TranslatorError(f'{p}: stereo nibble branch not recognised')
    none_v, n1, t_al, t_te, n2, f_al, f_te = m.groups()
    if n1 != n2:
        raise TranslatorError(f'{p}: allene neighbour counts differ')
    stereo = dict(none=int(none_v, 0), allene_ngb=int(n1), true_allene=int(t_al, 0), true_tetra=int(t_te, 0), false_allene=int(f_al, 0), false_tetra=int(f_te, 0))
    p2 = os.path.join(repo, 'chython/containers/_unpack_v0v2.pyx')
    src2 = open(p2).read()
    m = re.search(r'stereo = a >> 4\n\s+if stereo == (\w+):\n\s+py_nan_bool = (\w+)\n((?:\s+elif stereo == \w+:\n\s+py_nan_bool = \w+\n)+)\s+else:.*\n\s+py_nan_bool = (\w+)\n', src2)
    if not m:
        raise TranslatorError(f'{p2}: stereo nibble decoding chain not recognised')
    chain = [(int(m.group(1), 0), m.group(2))] + [(int(a, 0), v) for a, v in re.findall(r'elif stereo == (\w+):\n\s+py_nan_bool = (\w+)', m.group(3))]
    else_v = m.group(4)
    for _, v in chain + [(0, else_v)]:
        if v not in ('None', 'True', 'False'):
            raise TranslatorError(f'{p2}: unexpected stereo value {v}')
    ms = re.findall(r'if hydrogens == (\d+):\n\s+py_atom\._implicit_hydrogens = None', src2)
    if len(ms) != 1:
        raise TranslatorError(f'{p2}: unknown-hydrogens test not recognised')
    return version, hnone, seen, stereo, chain, else_v, int(ms[0])


def py_consts(repo):
    p = os.path.join(repo, 'chython/containers/molecule.py')
    tree = ast.parse(open(p).read())
    cls = [n for n in tree.body if isinstance(n, ast.ClassDef) and n.name == 'MoleculeContainer']
    if len(cls) != 1:
        raise TranslatorError(f'{p}: class MoleculeContainer not found')
    funcs = {n.name: n for n in cls[0].body if isinstance(n, ast.FunctionDef)}
    for f in ('pack', 'unpack', 'pack_len'):
        if f not in funcs:
            raise TranslatorError(f'{p}: MoleculeContainer.{f} not found')
    chk = [n for n in funcs['pack'].body if isinstance(n, ast.If) and isinstance(n.test, ast.Name) and n.test.id == 'check']
    if len(chk) != 1:
        raise TranslatorError(f'{p}: `if check:` block of pack not found')
    tests = [ast.unparse(n.test) for n in chk[0].body if isinstance(n, ast.If)]
    if len(tests) != 3 or tests[0] != 'not bonds':
        raise TranslatorError(f'{p}: unexpected tests in the check block: {tests}')
    m = re.fullmatch(r'min\(bonds\) < (\d+) or max\(bonds\) > (\d+)', tests[1])
    m2 = re.fullmatch(r'any\(\(len\(x\) > (\d+) for x in bonds\.values\(\)\)\)', tests[2])
    if not m or not m2:
        raise TranslatorError(f'{p}: limits of the check block not recognised: {tests}')
    for n in chk[0].body:
        if isinstance(n, ast.If) and not (len(n.body) == 1 and isinstance(n.body[0], ast.Raise) and ast.unparse(n.body[0].exc).startswith('ValueError(')):
            raise TranslatorError(f'{p}: a limit test does not raise ValueError')
    heads = []
    for f in ('unpack', 'pack_len'):
        hs = re.findall(r'data\[0\] (?:not )?in \((\d+), (\d+)\)', ast.unparse(funcs[f]))
        if len(hs) != 1:
            raise TranslatorError(f'{p}: accepted version bytes of {f} not recognised')
        heads.append((int(hs[0][0]), int(hs[0][1])))
    if heads[0] != heads[1]:
        raise TranslatorError(f'{p}: unpack and pack_len accept different version bytes')
    p3 = os.path.join(repo, 'chython/containers/reaction.py')
    src3 = open(p3).read()
    rh = re.findall(r'bytearray\(\((\d+), len\(self\.reactants\), len\(self\.reagents\), len\(self\.products\)\)\)', src3)
    rc = re.findall(r'if data\[0\] != (\d+):', src3)
    if len(rh) != 1 or len(rc) != 2 or {rh[0]} != set(rc):
        raise TranslatorError(f'{p3}: reaction header byte not recognised')
    return int(m.group(1)), int(m.group(2)), int(m2.group(1)), heads[0], int(rh[0])


def main(repo='/repo', dest=None):
    specs = []
    for rel in ('chython/containers/_pack_v2.pyx', 'chython/containers/_unpack_v0v2.pyx', 'chython/containers/molecule.py'):
        p = os.path.join(repo, rel)
        lines = spec_lines(open(p).read(), p)
        specs.append((p, split_blocks(lines, p)))
    w0, t0 = specs[0][1]
    for p, (w, t) in specs[1:]:
        if w != w0:
            raise TranslatorError(f'{p}: the format specification differs from the one in _pack_v2.pyx: {w} vs {w0}')
    version, hnone, seen, st, chain, else_v, hnone_dec = pyx_consts(repo)
    cmin, cmax, cngb, heads, rhead = py_consts(repo)
    ob = lambda v: {'None': 'None', 'True': '(Some true)', 'False': '(Some false)'}[v]
    out = ['(* GENERATED by tools/gen_packspec.py from the format specification text and the constants of',
           '   chython/containers/_pack_v2.pyx, _unpack_v0v2.pyx, molecule.py, reaction.py.  Do not edit. *)',
           'From Coq Require Import ZArith List Bool.', 'Import ListNotations.', 'Open Scope Z_scope.', '']
    for blk in BLOCKS:
        out.append(f'Definition spec_{blk}_widths : list Z := {lst(w0[blk], zraw)}.')
    out += [f'Definition gen_version : Z := {version}.',
            f'Definition gen_h_none_byte : Z := {hnone}.',
            f'Definition gen_h_none_value : Z := {hnone_dec}.',
            f'Definition gen_seen_size : Z := {seen}.',
            f'Definition gen_stereo_none : Z := {st["none"]}.',
            f'Definition gen_allene_ngb : Z := {st["allene_ngb"]}.',
            f'Definition gen_stereo_true_allene : Z := {st["true_allene"]}.',
            f'Definition gen_stereo_true_tetra : Z := {st["true_tetra"]}.',
            f'Definition gen_stereo_false_allene : Z := {st["false_allene"]}.',
            f'Definition gen_stereo_false_tetra : Z := {st["false_tetra"]}.',
            f'Definition gen_unpack_stereo_chain : list (Z * option bool) := {lst([tup(zraw(k), ob(v)) for k, v in chain])}.',
            f'Definition gen_unpack_stereo_else : option bool := {ob(else_v)}.',
            f'Definition gen_check_min : Z := {cmin}.',
            f'Definition gen_check_max : Z := {cmax}.',
            f'Definition gen_check_ngb : Z := {cngb}.',
            f'Definition gen_accepted_versions : list Z := {lst(list(heads), zraw)}.',
            f'Definition gen_rxn_header : Z := {rhead}.', '']
    write_if_changed(dest or gen_path('PackSpecGen.v'), '\n'.join(out))


if __name__ == '__main__':
    main(*sys.argv[1:])
