"""Translator for C05: the backtracking search `_kekule_component` (chython/algorithms/aromatics/kekule.py) ->
coq/gen/KekuleComp.v.  Same method as tools/gen_thielepost.py: the WHOLE function is compared with a skeleton kept here in
which the decisions are holes (start atom selection, initial stack items, size, the `len(path) == size` test, the
pyridine-over-pyrrole buffer tests, the classification of the neighbours, the `if loop:` chain with the items it inserts, the
first test of the growth step); the holes are translated to Gallina; coq/proofs/KekuleCompTie.v proves that
Model.Kekule.kekule_component equals the same function written with these generated decisions.  Everything outside the holes
(the stack / path manipulations of the growth step, the path cutting after a yield - `path = path[:k]`, a fresh list -, the
tuples appended) is pinned by the skeleton: any edit there raises TranslatorError.  Python `ast` only, fail closed."""
import ast
import copy
import os
import sys

sys.path.insert(0, os.path.dirname(__file__))
from coqfmt import *  # noqa
from gen_thielepost import Ex

REL = 'chython/algorithms/aromatics/kekule.py'

SKELETON = '''def _kekule_component(rings, double_bonded, pyrroles, buffer_size):
    stack: List[List[Tuple[int, int, int, Optional[int]]]]
    if double_bonded:
        start = next(iter(double_bonded))
        stack = [[(next(iter(rings[start])), start, HOLE_init_bond_db, HOLE_init_cut_db)]]
    else:
        try:
            start = next((n for n, ms in rings.items() if HOLE_start_strict))
        except StopIteration:
            try:
                start = next((n for n, ms in rings.items() if HOLE_start_loose))
            except StopIteration:
                start = next(iter(rings))
                double_bonded.add(start)
                stack = [[(next_atom, start, HOLE_init_bond_full, HOLE_init_cut_full)] for next_atom in rings[start]]
            else:
                stack = [[(next_atom, start, HOLE_init_bond_loose, HOLE_init_cut_loose)] for next_atom in rings[start]]
        else:
            stack = [[(next_atom, start, HOLE_init_bond_strict, HOLE_init_cut_strict)] for next_atom in rings[start]]
    size = HOLE_size
    path = []
    hashed_path = set()
    nether_yielded = True
    buffer = []
    while stack:
        atom, prev_atom, bond, _ = stack[-1].pop()
        path.append((atom, prev_atom, bond))
        hashed_path.add(atom)
        if HOLE_full:
            if nether_yielded:
                nether_yielded = False
            if HOLE_use_buffer:
                g = defaultdict(int)
                for n, m, b in path:
                    g[n] += b
                    g[m] += b
                if HOLE_pair_test:
                    if HOLE_buffer_full:
                        buffer_size = 0
                        yield from buffer
                        yield path
                        buffer = []
                    else:
                        buffer.append(path)
                else:
                    yield path
                    buffer_size = 0
                    if buffer:
                        yield from buffer
                        buffer = []
            else:
                yield path
            del stack[-1]
            if stack:
                path = path[:stack[-1][-1][-1]]
                hashed_path = {x for x, *_ in path}
        elif HOLE_not_start:
            for_stack = []
            closures = []
            loop = 0
            for next_atom in rings[atom]:
                if HOLE_scan_back:
                    continue
                elif HOLE_scan_loop:
                    loop = next_atom
                elif next_atom in hashed_path:
                    closures.append(next_atom)
                else:
                    for_stack.append(next_atom)
            if HOLE_has_loop:
                if HOLE_bond_double:
                    if double_bonded:
                        stack[-1].insert(0, (loop, atom, HOLE_loop_single1, None))
                    else:
                        del stack[-1]
                        if stack:
                            path = path[:stack[-1][-1][-1]]
                            hashed_path = {x for x, *_ in path}
                        continue
                elif double_bonded:
                    if HOLE_side_path:
                        stack[-1].insert(0, (loop, atom, HOLE_loop_single2, None))
                    else:
                        del stack[-1]
                        if stack:
                            path = path[:stack[-1][-1][-1]]
                            hashed_path = {x for x, *_ in path}
                        continue
                else:
                    stack[-1].insert(0, (loop, atom, HOLE_loop_double, None))
                    bond = HOLE_grow_bond
            if HOLE_grow_out:
                for next_atom in closures:
                    path.append((next_atom, atom, 1))
                    stack[-1].remove((atom, next_atom, 1, None))
                for next_atom in for_stack:
                    stack[-1].append((next_atom, atom, 1, None))
            elif len(for_stack) == 1:
                next_atom = for_stack[0]
                if next_atom in double_bonded:
                    if atom in pyrroles:
                        stack[-1].append((next_atom, atom, 1, None))
                    else:
                        del stack[-1]
                        if stack:
                            path = path[:stack[-1][-1][-1]]
                            hashed_path = {x for x, *_ in path}
                elif atom in pyrroles:
                    opposite = stack[-1].copy()
                    opposite.append((next_atom, atom, 2, None))
                    stack[-1].append((next_atom, atom, 1, len(path)))
                    stack.append(opposite)
                else:
                    stack[-1].append((next_atom, atom, 2, None))
                    if closures:
                        next_atom = closures[0]
                        path.append((next_atom, atom, 1))
                        stack[-1].remove((atom, next_atom, 1, None))
            elif for_stack:
                next_atom1, next_atom2 = for_stack
                if next_atom1 in double_bonded:
                    if next_atom2 in double_bonded:
                        if atom in pyrroles:
                            stack[-1].append((next_atom1, atom, 1, None))
                            stack[-1].append((next_atom2, atom, 1, None))
                        else:
                            del stack[-1]
                            if stack:
                                path = path[:stack[-1][-1][-1]]
                                hashed_path = {x for x, *_ in path}
                    elif atom in pyrroles:
                        opposite = stack[-1].copy()
                        opposite.append((next_atom1, atom, 1, None))
                        opposite.append((next_atom2, atom, 2, None))
                        stack[-1].append((next_atom1, atom, 1, None))
                        stack[-1].append((next_atom2, atom, 1, len(path)))
                        stack.append(opposite)
                    else:
                        stack[-1].append((next_atom1, atom, 1, None))
                        stack[-1].append((next_atom2, atom, 2, None))
                elif next_atom2 in double_bonded:
                    if atom in pyrroles:
                        opposite = stack[-1].copy()
                        opposite.append((next_atom2, atom, 1, None))
                        opposite.append((next_atom1, atom, 2, None))
                        stack[-1].append((next_atom1, atom, 1, None))
                        stack[-1].append((next_atom2, atom, 1, len(path)))
                        stack.append(opposite)
                    else:
                        stack[-1].append((next_atom2, atom, 1, None))
                        stack[-1].append((next_atom1, atom, 2, None))
                elif atom in pyrroles:
                    opposite1 = stack[-1].copy()
                    opposite1.append((next_atom2, atom, 1, None))
                    opposite1.append((next_atom1, atom, 2, len(path)))
                    opposite2 = stack[-1].copy()
                    opposite2.append((next_atom1, atom, 1, None))
                    opposite2.append((next_atom2, atom, 2, None))
                    stack[-1].append((next_atom1, atom, 1, None))
                    stack[-1].append((next_atom2, atom, 1, len(path)))
                    stack.append(opposite1)
                    stack.append(opposite2)
                else:
                    opposite = stack[-1].copy()
                    stack[-1].append((next_atom1, atom, 1, None))
                    stack[-1].append((next_atom2, atom, 2, len(path)))
                    opposite.append((next_atom2, atom, 1, None))
                    opposite.append((next_atom1, atom, 2, None))
                    stack.append(opposite)
            elif closures:
                if atom in pyrroles:
                    for next_atom in closures:
                        if (atom, next_atom, 1, None) in stack[-1]:
                            path.append((next_atom, atom, 1))
                            stack[-1].remove((atom, next_atom, 1, None))
                else:
                    del stack[-1]
                    if stack:
                        path = path[:stack[-1][-1][-1]]
                        hashed_path = {x for x, *_ in path}
    if nether_yielded:
        raise InvalidAromaticRing(f'kekule form not found for: {list(rings)}')
    elif buffer:
        yield from buffer'''


class Holes:
    def __init__(self):
        self.found = {}

    def put(self, name, node):
        if name in self.found:
            raise TranslatorError(f'{REL}: hole {name} found twice')
        self.found[name] = node
        return ast.Name(id='HOLE_' + name, ctx=ast.Load())


def extract(fn):
    fn=copy.deepcopy(fn)
    h = Holes()
    body=fn.body
    # body[0] = AnnAssign stack: ...; body[1] = if double_bonded
    ini=body[1]
    t=ini.body[1].value.elts[0].elts[0]       # (next(iter(rings[start])), start, 1, 0)
    t.elts[2]=h.put('init_bond_db',t.elts[2]); t.elts[3]=h.put('init_cut_db',t.elts[3])
    tr=ini.orelse[0]                           # try: start = next(strict)
    g=tr.body[0].value.args[0]; g.generators[0].ifs[0]=h.put('start_strict',g.generators[0].ifs[0])
    tr2=tr.handlers[0].body[0]
    g=tr2.body[0].value.args[0]; g.generators[0].ifs[0]=h.put('start_loose',g.generators[0].ifs[0])
    full=tr2.handlers[0].body[2].value.elt.elts[0]    # stack = [[(next_atom, start, 2, 0)] for ...]
    full.elts[2]=h.put('init_bond_full',full.elts[2]); full.elts[3]=h.put('init_cut_full',full.elts[3])
    e1=tr2.orelse[0].value.elt.elts[0]; e1.elts[2]=h.put('init_bond_loose',e1.elts[2]); e1.elts[3]=h.put('init_cut_loose',e1.elts[3])
    e2=tr.orelse[0].value.elt.elts[0]; e2.elts[2]=h.put('init_bond_strict',e2.elts[2]); e2.elts[3]=h.put('init_cut_strict',e2.elts[3])
    sz=body[2]; assert ast.unparse(sz.targets[0])=='size'; sz.value=h.put('size',sz.value)
    wh=next(s for s in body if isinstance(s,ast.While))
    top=wh.body[3]                              # if len(path) == size
    top.test=h.put('full',top.test)
    ub=top.body[1]; ub.test=h.put('use_buffer',ub.test)
    pt=ub.body[2]                               # if sum(...) >= 2
    pt.test.left.args[0].elt=h.put('pair_elt',pt.test.left.args[0].elt)
    pt.test=h.put('pair_test',pt.test)
    bf=pt.body[0]; bf.test=h.put('buffer_full',bf.test)
    ns=top.orelse[0]; ns.test=h.put('not_start',ns.test)
    scan=ns.body[3]                             # for next_atom in rings[atom]
    c1=scan.body[0]; c1.test=h.put('scan_back',c1.test)
    c2=c1.orelse[0]; c2.test=h.put('scan_loop',c2.test)
    lp=ns.body[4]; lp.test=h.put('has_loop',lp.test)
    b2=lp.body[0]; b2.test=h.put('bond_double',b2.test)
    b2.body[0].body[0].value.args[1].elts[2]=h.put('loop_single1',b2.body[0].body[0].value.args[1].elts[2])
    q=b2.orelse[0]                              # elif double_bonded
    q.body[0].test=h.put('side_path',q.body[0].test)
    q.body[0].body[0].value.args[1].elts[2]=h.put('loop_single2',q.body[0].body[0].value.args[1].elts[2])
    fin=q.orelse
    fin[0].value.args[1].elts[2]=h.put('loop_double',fin[0].value.args[1].elts[2])
    fin[1].value=h.put('grow_bond',fin[1].value)
    gr=ns.body[5]; gr.test=h.put('grow_out',gr.test)
    return ast.unparse(fn), h.found



def main(repo='/repo', dest=None):
    with open(os.path.join(repo, REL)) as f:
        tree = ast.parse(f.read())
    fns = [s for s in tree.body if isinstance(s, ast.FunctionDef) and s.name == '_kekule_component']
    if len(fns) != 1:
        raise TranslatorError(f'{REL}: exactly one function _kekule_component expected')
    try:
        text, holes = extract(fns[0])
    except (StopIteration, AttributeError, IndexError, TypeError, AssertionError) as e:
        raise TranslatorError(f'{REL}: _kekule_component has another shape than expected ({type(e).__name__}: {e})')
    if text != SKELETON:
        import difflib
        d = '\n'.join(list(difflib.unified_diff(SKELETON.split('\n'), text.split('\n'), 'expected', 'source', lineterm='', n=0))[:12])
        raise TranslatorError(f'{REL}: _kekule_component differs from the expected statements outside the translated decisions:\n{d}')
    z0 = Ex({})
    Z, B = 'Z', 'bool'
    defs = [
        ('gen_kc_init_bond_db : Z', z0.z(holes['init_bond_db'])), ('gen_kc_init_cut_db : Z', z0.z(holes['init_cut_db'])),
        ('gen_kc_init_bond_strict : Z', z0.z(holes['init_bond_strict'])), ('gen_kc_init_cut_strict : Z', z0.z(holes['init_cut_strict'])),
        ('gen_kc_init_bond_loose : Z', z0.z(holes['init_bond_loose'])), ('gen_kc_init_cut_loose : Z', z0.z(holes['init_cut_loose'])),
        ('gen_kc_init_bond_full : Z', z0.z(holes['init_bond_full'])), ('gen_kc_init_cut_full : Z', z0.z(holes['init_cut_full'])),
        ('gen_kc_start_strict (len : Z) (inpyr : bool) : bool', Ex({'len(ms)': ('len', Z), 'n in pyrroles': ('inpyr', B)}).b(holes['start_strict'])),
        ('gen_kc_start_loose (len : Z) : bool', Ex({'len(ms)': ('len', Z)}).b(holes['start_loose'])),
        ('gen_kc_size (sumlen : Z) : Z', Ex({'sum((len(x) for x in rings.values()))': ('sumlen', Z)}).z(holes['size'])),
        ('gen_kc_full (lenpath size : Z) : bool', Ex({'len(path)': ('lenpath', Z), 'size': ('size', Z)}).b(holes['full'])),
        ('gen_kc_use_buffer (haspyr : bool) (bsize : Z) : bool', Ex({'pyrroles': ('haspyr', B), 'buffer_size': ('bsize', Z)}).b(holes['use_buffer'])),
        ('gen_kc_pair_elt (o : Z) (inpyr : bool) : bool', Ex({'b': ('o', Z), 'n in pyrroles': ('inpyr', B)}).b(holes['pair_elt'])),
        ('gen_kc_pair_test (cnt : Z) : bool', Ex({'sum((HOLE_pair_elt for n, b in g.items()))': ('cnt', Z)}).b(holes['pair_test'])),
        ('gen_kc_buffer_full (lenbuf bsize : Z) : bool', Ex({'len(buffer)': ('lenbuf', Z), 'buffer_size': ('bsize', Z)}).b(holes['buffer_full'])),
        ('gen_kc_not_start (atom start : Z) : bool', Ex({'atom': ('atom', Z), 'start': ('start', Z)}).b(holes['not_start'])),
        ('gen_kc_scan_back (nx prev : Z) : bool', Ex({'next_atom': ('nx', Z), 'prev_atom': ('prev', Z)}).b(holes['scan_back'])),
        ('gen_kc_scan_loop (nx start : Z) : bool', Ex({'next_atom': ('nx', Z), 'start': ('start', Z)}).b(holes['scan_loop'])),
        ('gen_kc_has_loop (lp : Z) : bool', Ex({'loop': ('lp', Z)}).b(holes['has_loop'])),
        ('gen_kc_bond_double (bond : Z) : bool', Ex({'bond': ('bond', Z)}).b(holes['bond_double'])),
        ('gen_kc_side_path (fs indb inpyr : bool) : bool',
         Ex({'for_stack': ('fs', B), 'atom in double_bonded': ('indb', B), 'atom in pyrroles': ('inpyr', B)}).b(holes['side_path'])),
        ('gen_kc_loop_single1 : Z', z0.z(holes['loop_single1'])), ('gen_kc_loop_single2 : Z', z0.z(holes['loop_single2'])),
        ('gen_kc_loop_double : Z', z0.z(holes['loop_double'])), ('gen_kc_grow_bond : Z', z0.z(holes['grow_bond'])),
        ('gen_kc_grow_out (bond : Z) (indb : bool) : bool', Ex({'bond': ('bond', Z), 'atom in double_bonded': ('indb', B)}).b(holes['grow_out'])),
    ]
    out = ('(* GENERATED by tools/gen_kekulecomp.py from chython/algorithms/aromatics/kekule.py (_kekule_component) -- do not edit.\n'
           '   The decisions of the backtracking search as the source writes them; the statements around them are compared with a\n'
           '   skeleton kept in the translator.  proofs/KekuleCompTie.v proves that Model.Kekule.kekule_component is built from them. *)\n'
           'From Coq Require Import ZArith Bool.\nOpen Scope Z_scope.\n\n')
    out += ''.join(f'Definition {sig} := {body}.\n' for sig, body in defs)
    write_if_changed(dest or gen_path('KekuleComp.v'), out)
    return [sig.split()[0] for sig, _ in defs]


if __name__ == '__main__':
    print(main(sys.argv[1] if len(sys.argv) > 1 else '/repo'))
