"""Translator (C17): the constants, tuple layouts and branch constants of the fingerprint code that the hand-written models
Model.Fingerprint / FingerprintCGR / LinearSpell copy -> coq/gen/FingerprintConsts.v.  Read from the Python AST, fail closed.

  chython/algorithms/fingerprints/linear.py
      the 'unreachable' multiplicity cap assigned under `if not number_bit_pairs:` in linear_hash_set and linear_hash_smiles
      (both must agree), the mask / log expressions and the `number_active_bits == K` / `> K` constants of linear_bit_set
  chython/algorithms/fingerprints/morgan.py
      the same expressions and constants of morgan_bit_set; the lower bounds of the two asserts of _morgan_hash_dict
  chython/algorithms/fingerprints/__init__.py
      the tuple hashed by Fingerprints._atom_identifiers and by FingerprintsCGR._atom_identifiers (source text of each item)
  chython/containers/bonds.py
      the tuple hashed by DynamicBond.__hash__
  chython/algorithms/smiles.py
      MoleculeSmiles._format_bond: for every `bond == K` branch the string returned last in the branch (the value for
      stereo=False, aromatic=False) and the string of the final else branch"""
import ast
import os
import sys

sys.path.insert(0, os.path.dirname(__file__))
from coqfmt import *  # noqa


def find_class_func(tree, cls, name, path):
    for node in ast.walk(tree):
        if isinstance(node, ast.ClassDef) and node.name == cls:
            for f in node.body:
                if isinstance(f, ast.FunctionDef) and f.name == name:
                    return f
    raise TranslatorError(f'{path}: {cls}.{name} not found')


def cap_of(fn, path):
    """value assigned to number_bit_pairs under `if not number_bit_pairs:`"""
    for node in ast.walk(fn):
        if isinstance(node, ast.If) and isinstance(node.test, ast.UnaryOp) and isinstance(node.test.op, ast.Not) \
                and getattr(node.test.operand, 'id', None) == 'number_bit_pairs':
            if len(node.body) == 1 and isinstance(node.body[0], ast.Assign) and getattr(node.body[0].targets[0], 'id', None) == 'number_bit_pairs' \
                    and isinstance(node.body[0].value, ast.Constant) and type(node.body[0].value.value) is int and not node.orelse:
                return node.body[0].value.value
            raise TranslatorError(f'{path}:{node.lineno}: unexpected shape of the number_bit_pairs default in {fn.name}')
    raise TranslatorError(f'{path}: no `if not number_bit_pairs:` in {fn.name}')


def fold_consts(fn, path):
    """(mask expression, log expression, K of `== K`, K of `> K`) of a *_bit_set function"""
    mask = log = eq = gt = None
    for node in ast.walk(fn):
        if isinstance(node, ast.Assign) and len(node.targets) == 1:
            name = getattr(node.targets[0], 'id', None)
            if name == 'mask':
                mask = ast.unparse(node.value)
            elif name == 'log':
                log = ast.unparse(node.value)
        if isinstance(node, ast.Compare) and getattr(node.left, 'id', None) == 'number_active_bits' and len(node.ops) == 1 \
                and isinstance(node.comparators[0], ast.Constant) and type(node.comparators[0].value) is int:
            if isinstance(node.ops[0], ast.Eq):
                eq = node.comparators[0].value if eq is None else ('dup' if eq != node.comparators[0].value else eq)
            elif isinstance(node.ops[0], ast.Gt):
                gt = node.comparators[0].value if gt is None else ('dup' if gt != node.comparators[0].value else gt)
            else:
                raise TranslatorError(f'{path}:{node.lineno}: unexpected comparison of number_active_bits in {fn.name}')
    if None in (mask, log, eq, gt) or 'dup' in (eq, gt):
        raise TranslatorError(f'{path}: {fn.name}: mask / log / number_active_bits comparisons not recognised')
    return mask, log, eq, gt


def hashed_tuple(fn, path):
    """source text of the items of the single `hash((...))` call of fn"""
    calls = [n for n in ast.walk(fn) if isinstance(n, ast.Call) and getattr(n.func, 'id', None) == 'hash']
    if len(calls) != 1 or len(calls[0].args) != 1 or not isinstance(calls[0].args[0], ast.Tuple):
        raise TranslatorError(f'{path}: {fn.name}: expected exactly one hash((...)) call')
    return [ast.unparse(e) for e in calls[0].args[0].elts]


def assert_bounds(fn, path):
    """the asserts of _morgan_hash_dict as source text"""
    out = [ast.unparse(n.test) for n in fn.body if isinstance(n, ast.Assert)]
    if len(out) != 2:
        raise TranslatorError(f'{path}: {fn.name}: expected two asserts')
    return out


def bond_spelling(fn, path):
    """[(K, last returned string of the `bond == K` branch)], string of the else branch"""
    chain = [n for n in fn.body if isinstance(n, ast.If) and isinstance(n.test, ast.Compare) and getattr(n.test.left, 'id', None) == 'bond']
    if len(chain) != 1:
        raise TranslatorError(f'{path}: _format_bond: expected one if-chain on `bond`')
    node = chain[0]
    table = []
    while True:
        t = node.test
        if not (isinstance(t, ast.Compare) and getattr(t.left, 'id', None) == 'bond' and len(t.ops) == 1 and isinstance(t.ops[0], ast.Eq)
                and isinstance(t.comparators[0], ast.Constant) and type(t.comparators[0].value) is int):
            raise TranslatorError(f'{path}:{node.lineno}: _format_bond: unexpected test')
        last = node.body[-1]
        if not (isinstance(last, ast.Return) and isinstance(last.value, ast.Constant) and type(last.value.value) is str):
            raise TranslatorError(f'{path}:{node.lineno}: _format_bond: branch does not end in `return <str>`')
        table.append((t.comparators[0].value, last.value.value))
        if len(node.orelse) == 1 and isinstance(node.orelse[0], ast.If):
            node = node.orelse[0]
            continue
        if len(node.orelse) == 1 and isinstance(node.orelse[0], ast.Return) and isinstance(node.orelse[0].value, ast.Constant) \
                and type(node.orelse[0].value.value) is str:
            return table, node.orelse[0].value.value
        raise TranslatorError(f'{path}:{node.lineno}: _format_bond: unexpected else branch')


def main(repo='/repo', dest=None):
    dest = dest or gen_path('FingerprintConsts.v')
    fp = os.path.join(repo, 'chython/algorithms/fingerprints')
    p_lin, p_mor, p_ini = (os.path.join(fp, x) for x in ('linear.py', 'morgan.py', '__init__.py'))
    t_lin, t_mor, t_ini = (ast.parse(open(p).read()) for p in (p_lin, p_mor, p_ini))
    caps = {cap_of(find_class_func(t_lin, 'LinearFingerprint', f, p_lin), p_lin) for f in ('linear_hash_set', 'linear_hash_smiles')}
    if len(caps) != 1:
        raise TranslatorError(f'{p_lin}: linear_hash_set and linear_hash_smiles use different caps {sorted(caps)}')
    lin = fold_consts(find_class_func(t_lin, 'LinearFingerprint', 'linear_bit_set', p_lin), p_lin)
    mor = fold_consts(find_class_func(t_mor, 'MorganFingerprint', 'morgan_bit_set', p_mor), p_mor)
    asserts = assert_bounds(find_class_func(t_mor, 'MorganFingerprint', '_morgan_hash_dict', p_mor), p_mor)
    mol_fields = hashed_tuple(find_class_func(t_ini, 'Fingerprints', '_atom_identifiers', p_ini), p_ini)
    cgr_fields = hashed_tuple(find_class_func(t_ini, 'FingerprintsCGR', '_atom_identifiers', p_ini), p_ini)
    p_b = os.path.join(repo, 'chython/containers/bonds.py')
    dyn_fields = hashed_tuple(find_class_func(ast.parse(open(p_b).read()), 'DynamicBond', '__hash__', p_b), p_b)
    p_s = os.path.join(repo, 'chython/algorithms/smiles.py')
    table, default = bond_spelling(find_class_func(ast.parse(open(p_s).read()), 'MoleculeSmiles', '_format_bond', p_s), p_s)

    def sl(xs):
        return lst([s(x) for x in xs])

    text = f'''(* GENERATED by tools/gen_fingerprints.py from chython/algorithms/fingerprints/*.py, chython/containers/bonds.py and
   chython/algorithms/smiles.py.  Do not edit. *)
From Coq Require Import ZArith List String Bool.
Import ListNotations.
Open Scope Z_scope.

(* number_bit_pairs = 0: the 'unreachable' cap of linear_hash_set / linear_hash_smiles *)
Definition fpc_cap : Z := {zraw(caps.pop())}.
(* linear_bit_set / morgan_bit_set: mask, log, `number_active_bits == K`, `number_active_bits > K` *)
Definition fpc_linear_fold : string * string * Z * Z := ({s(lin[0])}, {s(lin[1])}, {zraw(lin[2])}, {zraw(lin[3])}).
Definition fpc_morgan_fold : string * string * Z * Z := ({s(mor[0])}, {s(mor[1])}, {zraw(mor[2])}, {zraw(mor[3])}).
(* the asserts of _morgan_hash_dict *)
Definition fpc_morgan_asserts : list string := {sl(asserts)}.
(* the tuples hashed by Fingerprints._atom_identifiers, FingerprintsCGR._atom_identifiers, DynamicBond.__hash__ *)
Definition fpc_mol_fields : list string := {sl(mol_fields)}.
Definition fpc_cgr_fields : list string := {sl(cgr_fields)}.
Definition fpc_dynbond_fields : list string := {sl(dyn_fields)}.
(* MoleculeSmiles._format_bond with stereo=False, aromatic=False: bond order -> spelling, and the else branch *)
Definition fpc_bond_spelling : list (Z * string) := {lst([tup(zraw(k), s(v)) for k, v in table])}.
Definition fpc_bond_default : string := {s(default)}.
'''
    write_if_changed(dest, text)


if __name__ == '__main__':
    main(*sys.argv[1:])
