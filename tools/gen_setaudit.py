"""Translator (C19): static audit of every place in the anchored chython files where the ITERATION ORDER of a
set / frozenset / dict-view difference can reach a result, and of every call of the builtin hash().

For each audited file the Python AST is walked with a small, flow-insensitive abstract typing of expressions
('set', 'view' = dict keys/items view, 'dos' = dict whose values are sets, 'los' = list/iterable of sets) that is
seeded by: set displays / comprehensions, set()/frozenset() calls, set algebra (`-`, `&`, `|`, `^` with a set or a
dict view on either side), the set-returning methods (.intersection/.union/.difference/.symmetric_difference/.copy),
`defaultdict(set)`, subscript stores `d[k] = <set>`, parameter and return annotations (Set[..], Dict[.., Set[..]],
List[Set[..]], also through Union/Optional) of the functions and properties of the audited files (attribute reads
`x.<name>` resolve by property name), and loop targets over those.

A SITE is one of
  for     `for t in <set>` (statement or comprehension clause)
  call    min/max/sorted/next/iter/list/tuple/deque/enumerate/zip/reversed/map/filter/sum/array/dict.fromkeys(<set> ...)
          and `sep.join(<set>)`, `x.extend(<set>)`
  star    `*<set>` in a call or display
  pop     `<set>.pop()`
  unpack  `a, b = <set>`
  hash    any call of the builtin hash(...)
and is emitted as the triple (file, qualified function name, kind + ' ' + normalised source text of the expression)
- no line numbers, so unrelated edits do not move it; a repeated identical triple gets the suffix ' #2', ' #3'...
The list goes to coq/gen/SetAudit.v; coq/model/Determinism.v holds the hand-written allow-list with the reason why
each site is harmless, and the theorems C19_audit_complete / C19_audit_tight compare the two (fail closed: a new,
changed or vanished site stops the build).

The typing is a heuristic: it can miss a set that reaches a loop through an untyped container.  It is a tripwire for
changes, not a proof of absence; the differential runs under several hash seeds are the test of the claim itself."""
import ast
import os
import sys

sys.path.insert(0, os.path.dirname(__file__))
from coqfmt import *  # noqa

FILES = ['chython/algorithms/morgan.py', 'chython/algorithms/smiles.py', 'chython/algorithms/rings.py',
         'chython/algorithms/fingerprints/linear.py', 'chython/algorithms/fingerprints/morgan.py',
         'chython/algorithms/isomorphism.py', 'chython/containers/graph.py', 'chython/_functions.py',
         'chython/periodictable/base/element.py',
         # not an anchor of the property: audited because the differential runs found a seed dependence here
         'chython/algorithms/standardize/reaction.py',
         # every other .py file anchored by any of the 20 properties (properties.jsonl), extension round
         'chython/algorithms/aromatics/_rules.py',
         'chython/algorithms/aromatics/kekule.py',
         'chython/algorithms/aromatics/thiele.py',
         'chython/algorithms/fingerprints/__init__.py',
         'chython/algorithms/standardize/_charged.py',
         'chython/algorithms/standardize/_groups.py',
         'chython/algorithms/standardize/_metal_organics.py',
         'chython/algorithms/standardize/molecule.py',
         'chython/algorithms/standardize/resonance.py',
         'chython/algorithms/standardize/salts.py',
         'chython/algorithms/stereo.py',
         'chython/algorithms/tautomers/__init__.py',
         'chython/algorithms/tautomers/acid_base.py',
         'chython/algorithms/tautomers/heteroarenes.py',
         'chython/algorithms/tautomers/keto_enol.py',
         'chython/containers/__init__.py',
         'chython/containers/bonds.py',
         'chython/containers/cgr.py',
         'chython/containers/molecule.py',
         'chython/containers/query.py',
         'chython/containers/reaction.py',
         'chython/files/MRVrw.py',
         'chython/files/RDFrw.py',
         'chython/files/SDFrw.py',
         'chython/files/_convert.py',
         'chython/files/_mapping.py',
         'chython/files/daylight/parser.py',
         'chython/files/daylight/smarts.py',
         'chython/files/daylight/smiles.py',
         'chython/files/daylight/tokenize.py',
         'chython/files/mdl/emol.py',
         'chython/files/mdl/erxn.py',
         'chython/files/mdl/mol.py',
         'chython/files/mdl/read.py',
         'chython/files/mdl/rxn.py',
         'chython/files/mdl/stereo.py',
         'chython/files/mdl/write.py',
         'chython/periodictable/__init__.py',
         'chython/periodictable/base/dynamic.py',
         'chython/periodictable/base/query.py',
         'chython/periodictable/groupI.py',
         'chython/periodictable/groupVIII.py',
         'chython/periodictable/groupXIV.py',
         'chython/periodictable/groupXV.py',
         'chython/periodictable/groupXVI.py',
         'chython/periodictable/groupXVII.py',
         'chython/reactor/base.py',
         'chython/reactor/deprotection.py',
         'chython/reactor/reactions/__init__.py',
         'chython/reactor/reactor.py',
         'chython/reactor/transformer.py',
         'chython/utils/rdkit.py']

ORDER_FUNCS = {'min', 'max', 'sorted', 'next', 'iter', 'list', 'tuple', 'deque', 'enumerate', 'zip', 'reversed', 'map',
               'filter', 'sum', 'array', 'islice', 'chain', 'product', 'permutations', 'combinations', 'groupby'}
SET_METHODS = {'intersection', 'union', 'difference', 'symmetric_difference'}
SETOPS = (ast.Sub, ast.BitAnd, ast.BitOr, ast.BitXor)


# type hints for expressions the inference cannot type (unannotated parameters, attributes, values coming out of untyped
# containers).  Every entry was found by the run-time cross-check (harness/checks/C19.py runtime_audit): a set iteration was
# EXECUTED at a place the static audit did not list.  (file, function) -> {source text of the expression: abstract type}
HINTS = {
    ('chython/algorithms/aromatics/kekule.py', '_kekule_component'): {'double_bonded': 'set'},
    ('chython/algorithms/rings.py', '_bfs'): {'bonds': 'dos'},
    ('chython/algorithms/standardize/resonance.py', 'Resonance.fix_resonance'): {'entries': 'set'},
    ('chython/algorithms/stereo.py', 'MoleculeStereo.__differentiation'): {'atoms_stereo': 'set', 'cis_trans_stereo': 'set', 'allenes_stereo': 'set'},
    ('chython/algorithms/tautomers/keto_enol.py', 'KetoEnol.__enumerate_bonds'): {'dirs': 'set'},
    ('chython/containers/molecule.py', 'MoleculeContainer.fix_structure'): {'self._changed': 'set'},
    ('chython/reactor/base.py', 'BaseReactor._get_deleted'): {'self._to_delete': 'set'},
    ('chython/reactor/reactor.py', 'Reactor._single_stage'): {'ignored': 'set'},
}


def ann_type(node):
    """abstract type of an annotation expression"""
    if node is None:
        return None
    if isinstance(node, ast.Constant) and isinstance(node.value, str):
        try:
            return ann_type(ast.parse(node.value, mode='eval').body)
        except SyntaxError:
            return None
    if isinstance(node, ast.Name):
        return 'set' if node.id in ('set', 'frozenset', 'Set', 'FrozenSet', 'AbstractSet', 'MutableSet') else None
    if isinstance(node, ast.Subscript):
        base = node.value
        name = base.id if isinstance(base, ast.Name) else base.attr if isinstance(base, ast.Attribute) else None
        args = node.slice.elts if isinstance(node.slice, ast.Tuple) else [node.slice]
        if name in ('Set', 'FrozenSet', 'set', 'frozenset', 'AbstractSet', 'MutableSet'):
            return 'set'
        if name in ('Union', 'Optional'):
            ts = [ann_type(a) for a in args]
            for t in ('set', 'dos', 'los'):
                if t in ts:
                    return t
            return None
        if name in ('Dict', 'dict', 'Mapping', 'DefaultDict', 'MutableMapping') and len(args) == 2:
            return 'dos' if ann_type(args[1]) == 'set' else None
        if name in ('List', 'list', 'Tuple', 'tuple', 'Iterator', 'Iterable', 'Sequence', 'Collection', 'Deque', 'Generator'):
            return 'los' if args and ann_type(args[0]) == 'set' else None
    return None


class Registry:
    """return types of module-level functions (by name) and of methods/properties (by attribute name)"""

    def __init__(self):
        self.funcs = {}
        self.attrs = {}

    def scan(self, tree):
        for node in tree.body:
            if isinstance(node, (ast.FunctionDef, ast.AsyncFunctionDef)):
                t = ann_type(node.returns)
                if t:
                    self.funcs[node.name] = t
            elif isinstance(node, ast.ClassDef):
                for sub in node.body:
                    if isinstance(sub, (ast.FunctionDef, ast.AsyncFunctionDef)):
                        t = ann_type(sub.returns)
                        if not t:
                            continue
                        decos = {d.id if isinstance(d, ast.Name) else d.attr if isinstance(d, ast.Attribute) else '' for d in sub.decorator_list}
                        if decos & {'property', 'cached_property', 'class_cached_property'}:
                            self.attrs[sub.name] = t
                        else:
                            self.funcs['.' + sub.name] = t     # method call x.name(...)


class FuncAudit:
    def __init__(self, reg, rel, qual, fn):
        self.reg, self.rel, self.qual, self.fn = reg, rel, qual, fn
        self.env = {}
        self.sites = []

    # ---- the nodes of this function, not of nested functions / classes
    def own_nodes(self):
        out = []
        body = self.fn.body if not isinstance(self.fn, ast.Module) else \
            [n for n in self.fn.body if not isinstance(n, (ast.FunctionDef, ast.AsyncFunctionDef, ast.ClassDef))]
        todo = list(body)
        if isinstance(self.fn, (ast.FunctionDef, ast.AsyncFunctionDef)):
            todo += [d for d in self.fn.args.defaults + self.fn.args.kw_defaults if d is not None]
        while todo:
            n = todo.pop()
            out.append(n)
            for c in ast.iter_child_nodes(n):
                if isinstance(c, (ast.FunctionDef, ast.AsyncFunctionDef, ast.ClassDef)):
                    continue
                todo.append(c)        # a lambda body belongs to the enclosing function
        return out

    def typ(self, e):
        env = self.env
        hints = HINTS.get((self.rel, self.qual))
        if hints and isinstance(e, (ast.Name, ast.Attribute, ast.Subscript)):
            h = hints.get(ast.unparse(e))
            if h:
                return h
        if isinstance(e, ast.BoolOp):          # `a or b`: either operand
            for v in e.values:
                tv = self.typ(v)
                if tv:
                    return tv
            return None
        if isinstance(e, (ast.Set, ast.SetComp)):
            return 'set'
        if isinstance(e, ast.Name):
            return env.get(e.id)
        if isinstance(e, ast.NamedExpr):
            return self.typ(e.value)
        if isinstance(e, ast.IfExp):
            return self.typ(e.body) or self.typ(e.orelse)
        if isinstance(e, ast.BinOp) and isinstance(e.op, SETOPS):
            l, r = self.typ(e.left), self.typ(e.right)
            if l in ('set', 'view') or r in ('set', 'view'):
                return 'set'
            return None
        if isinstance(e, ast.Attribute):
            return self.reg.attrs.get(e.attr)
        if isinstance(e, ast.Subscript):
            if self.typ(e.value) == 'dos':
                return 'set'
            if self.typ(e.value) == 'los' and not isinstance(e.slice, ast.Slice):
                return 'set'
            if self.typ(e.value) == 'los':
                return 'los'
            return None
        if isinstance(e, ast.DictComp):
            return 'dos' if self.typ(e.value) == 'set' else None
        if isinstance(e, (ast.ListComp, ast.GeneratorExp)):
            return 'los' if self.typ(e.elt) == 'set' else None
        if isinstance(e, (ast.List, ast.Tuple)):
            return 'los' if e.elts and all(self.typ(x) == 'set' for x in e.elts) else None
        if isinstance(e, ast.Call):
            f = e.func
            if isinstance(f, ast.Name):
                if f.id in ('set', 'frozenset'):
                    return 'set'
                if f.id == 'defaultdict' and e.args and isinstance(e.args[0], ast.Name) and e.args[0].id in ('set', 'frozenset'):
                    return 'dos'
                if f.id in ('list', 'tuple', 'sorted', 'reversed', 'deque', 'iter') and e.args and self.typ(e.args[0]) == 'los':
                    return 'los'
                if f.id == 'dict' and e.args and self.typ(e.args[0]) == 'dos':
                    return 'dos'
                if f.id in self.reg.funcs:
                    return self.reg.funcs[f.id]
                return None
            if isinstance(f, ast.Attribute):
                base = self.typ(f.value)
                if f.attr in SET_METHODS:
                    return 'set'
                if f.attr == 'copy':
                    return base
                if f.attr in ('keys', 'items') and not e.args:
                    return 'view'
                if f.attr == 'values' and base == 'dos':
                    return 'los'
                if f.attr in ('pop', 'get', 'setdefault', 'popitem') and base == 'dos' and e.args:
                    return 'set'
                if f.attr in ('pop', 'popleft') and base == 'los':
                    return 'set'
                if '.' + f.attr in self.reg.funcs:
                    return self.reg.funcs['.' + f.attr]
        return None

    def bind(self, target, t, changed):
        if isinstance(target, ast.Name):
            if t and self.env.get(target.id) != t and self.env.get(target.id) is None:
                self.env[target.id] = t
                changed.append(1)
        elif isinstance(target, ast.Subscript) and t == 'set':
            # d[k] = <set>  makes d a dict of sets
            if isinstance(target.value, ast.Name) and self.env.get(target.value.id) is None:
                self.env[target.value.id] = 'dos'
                changed.append(1)

    def bind_loop(self, target, it, changed):
        """for target in it"""
        t = self.typ(it)
        if t == 'los':
            self.bind(target, 'set', changed)
        if isinstance(it, ast.Call) and isinstance(it.func, ast.Attribute) and it.func.attr == 'items' \
                and self.typ(it.func.value) == 'dos' and isinstance(target, ast.Tuple) and len(target.elts) == 2:
            self.bind(target.elts[1], 'set', changed)
        if isinstance(it, ast.Call) and isinstance(it.func, ast.Name) and it.func.id == 'enumerate' and it.args \
                and isinstance(target, ast.Tuple) and len(target.elts) == 2:
            self.bind_loop(target.elts[1], it.args[0], changed)

    def infer(self):
        if isinstance(self.fn, (ast.FunctionDef, ast.AsyncFunctionDef)):
            a = self.fn.args
            for arg in a.posonlyargs + a.args + a.kwonlyargs + ([a.vararg] if a.vararg else []) + ([a.kwarg] if a.kwarg else []):
                t = ann_type(arg.annotation)
                if t:
                    self.env[arg.arg] = t
        nodes = self.own_nodes()
        for _ in range(6):
            changed = []
            for n in nodes:
                if isinstance(n, ast.Assign):
                    t = self.typ(n.value)
                    for tg in n.targets:
                        self.bind(tg, t, changed)
                elif isinstance(n, ast.AnnAssign):
                    t = ann_type(n.annotation) or (self.typ(n.value) if n.value else None)
                    self.bind(n.target, t, changed)
                elif isinstance(n, ast.AugAssign):
                    self.bind(n.target, self.typ(n.value) if isinstance(n.op, SETOPS) else None, changed)
                elif isinstance(n, ast.NamedExpr):
                    self.bind(n.target, self.typ(n.value), changed)
                elif isinstance(n, (ast.For, ast.AsyncFor)):
                    self.bind_loop(n.target, n.iter, changed)
                elif isinstance(n, ast.comprehension):
                    self.bind_loop(n.target, n.iter, changed)
            if not changed:
                break
        return nodes

    def add(self, kind, text):
        self.sites.append((self.rel, self.qual, kind + ' ' + ' '.join(text.split())))

    def run(self):
        nodes = self.infer()
        # deterministic order: by position in the source
        nodes.sort(key=lambda n: (getattr(n, 'lineno', 0), getattr(n, 'col_offset', 0)))
        for n in nodes:
            if isinstance(n, (ast.For, ast.AsyncFor, ast.comprehension)):
                if self.typ(n.iter) == 'set':
                    self.add('for', f'for {ast.unparse(n.target)} in {ast.unparse(n.iter)}')
            elif isinstance(n, ast.Call):
                f = n.func
                if isinstance(f, ast.Name) and f.id == 'hash':
                    self.add('hash', ast.unparse(n))
                    continue
                args = list(n.args) + [k.value for k in n.keywords]
                setargs = [a for a in args if self.typ(a) == 'set']
                if isinstance(f, ast.Name) and f.id in ORDER_FUNCS and setargs:
                    self.add('call', ast.unparse(n))
                elif isinstance(f, ast.Attribute):
                    if f.attr == 'pop' and not args and self.typ(f.value) == 'set':
                        self.add('pop', ast.unparse(n))
                    elif f.attr in ('join', 'extend', 'extendleft', 'fromkeys', 'writelines') and setargs:
                        self.add('call', ast.unparse(n))
                    elif f.attr == 'update' and setargs and self.typ(f.value) not in ('set',) and \
                            not (isinstance(f.value, ast.Name) and self.env.get(f.value.id) == 'set'):
                        # dict.update(<set>) would raise; list has no update: only flag when the receiver is not a known set
                        rt = self.typ(f.value)
                        if rt is None and not isinstance(f.value, (ast.Name, ast.Attribute, ast.Subscript)):
                            self.add('call', ast.unparse(n))
                for a in args:
                    if isinstance(a, ast.Starred) and self.typ(a.value) == 'set':
                        self.add('star', ast.unparse(n))
            elif isinstance(n, (ast.Tuple, ast.List, ast.Set)):
                for a in n.elts:
                    if isinstance(a, ast.Starred) and isinstance(getattr(a, 'ctx', None), ast.Load) and self.typ(a.value) == 'set':
                        self.add('star', ast.unparse(n))
            elif isinstance(n, ast.Assign):
                if any(isinstance(t, (ast.Tuple, ast.List)) for t in n.targets) and self.typ(n.value) == 'set':
                    self.add('unpack', ast.unparse(n))
            elif isinstance(n, (ast.YieldFrom,)):
                if self.typ(n.value) == 'set':
                    self.add('for', ast.unparse(n))
        return self.sites


def functions(tree):
    """(qualified name, node) of the module body and every function, nested ones included"""
    out = [('<module>', tree)]

    def walk(node, prefix):
        for c in ast.iter_child_nodes(node):
            if isinstance(c, (ast.FunctionDef, ast.AsyncFunctionDef)):
                q = prefix + c.name
                out.append((q, c))
                walk(c, q + '.')
            elif isinstance(c, ast.ClassDef):
                # class body statements are audited as part of '<class>'
                out.append((prefix + c.name + '.<class>', ast.Module(body=[s for s in c.body if not isinstance(s, (ast.FunctionDef, ast.AsyncFunctionDef, ast.ClassDef))], type_ignores=[])))
                walk(c, prefix + c.name + '.')
            else:
                walk(c, prefix)
    walk(tree, '')
    return out


def audit(repo='/repo', files=FILES):
    reg = Registry()
    trees = {}
    for rel in files:
        path = os.path.join(repo, rel)
        try:
            src = open(path).read()
        except OSError as e:
            raise TranslatorError(f'{rel}: cannot be read ({e})')
        try:
            trees[rel] = ast.parse(src)
        except SyntaxError as e:
            raise TranslatorError(f'{rel}: does not parse ({e})')
        reg.scan(trees[rel])
    sites = []
    for rel in files:
        for qual, fn in functions(trees[rel]):
            sites.extend(FuncAudit(reg, rel, qual, fn).run())
    # repeated identical triples get an occurrence number
    seen = {}
    out = []
    for s in sites:
        seen[s] = seen.get(s, 0) + 1
        out.append(s if seen[s] == 1 else (s[0], s[1], f'{s[2]} #{seen[s]}'))
    return out


# ---------------------------------------------------------------------------------------------------------------
# run-time cross-check of the static typing: the audited modules are imported through an AST rewriter that wraps the
# iterable of every `for` (statement and comprehension clause), every argument of the order-sensitive calls, every
# zero-argument .pop() receiver, every starred argument and every unpacked right-hand side in a recorder.  The recorder
# notes (file, function, kind + source text) whenever the value really IS a set / frozenset at run time.  Every executed
# set site must be one of the statically audited sites.

EXECUTED = {}          # (file, function, kind + text) -> number of executions with a set / frozenset
SEEN_NON_SET = {}      # the same key -> executions with something else (lists, dicts, views): static false positives


def _rec(v, key):
    if isinstance(v, (set, frozenset)):
        EXECUTED[key] = EXECUTED.get(key, 0) + 1
    else:
        SEEN_NON_SET[key] = SEEN_NON_SET.get(key, 0) + 1
    return v


def _rec_pop(v, key):
    _rec(v, key)
    return v.pop()


class _Instrument(ast.NodeTransformer):
    def __init__(self, rel):
        self.rel = rel
        self.stack = []
        self.keys = []

    def qual(self):
        return '.'.join(self.stack) if self.stack else '<module>'

    def key(self, kind, text):
        k = (self.rel, self.qual(), kind + ' ' + ' '.join(text.split()))
        self.keys.append(k)
        return ast.Constant(value=k)

    def wrap(self, expr, kind, text, fn='_c19_rec'):
        return ast.Call(func=ast.Name(id=fn, ctx=ast.Load()), args=[expr, self.key(kind, text)], keywords=[])

    def visit_FunctionDef(self, node):
        self.stack.append(node.name)
        self.generic_visit(node)
        self.stack.pop()
        return node
    visit_AsyncFunctionDef = visit_FunctionDef

    def visit_ClassDef(self, node):
        # statements of a class body are audited as `Class.<class>`, its methods as `Class.method`
        self.stack.append(node.name)
        new_body = []
        for s in node.body:
            if isinstance(s, (ast.FunctionDef, ast.AsyncFunctionDef, ast.ClassDef)):
                new_body.append(self.visit(s))
            else:
                self.stack.append('<class>')
                new_body.append(self.visit(s))
                self.stack.pop()
        node.body = new_body
        node.decorator_list = [self.visit(d) for d in node.decorator_list]
        self.stack.pop()
        return node

    def visit_For(self, node):
        text = f'for {ast.unparse(node.target)} in {ast.unparse(node.iter)}'
        self.generic_visit(node)
        node.iter = self.wrap(node.iter, 'for', text)
        return node
    visit_AsyncFor = visit_For

    def visit_comprehension(self, node):
        text = f'for {ast.unparse(node.target)} in {ast.unparse(node.iter)}'
        self.generic_visit(node)
        node.iter = self.wrap(node.iter, 'for', text)
        return node

    def visit_Call(self, node):
        text = ast.unparse(node)
        f = node.func
        order_call = isinstance(f, ast.Name) and f.id in ORDER_FUNCS
        order_meth = isinstance(f, ast.Attribute) and f.attr in ('join', 'extend', 'extendleft', 'fromkeys', 'writelines')
        is_pop = isinstance(f, ast.Attribute) and f.attr == 'pop' and not node.args and not node.keywords
        self.generic_visit(node)
        if is_pop:
            return ast.Call(func=ast.Name(id='_c19_pop', ctx=ast.Load()), args=[node.func.value, self.key('pop', text)], keywords=[])
        new_args = []
        for a in node.args:
            if isinstance(a, ast.Starred):
                a.value = self.wrap(a.value, 'star', text)
                new_args.append(a)
            elif order_call or order_meth:
                new_args.append(self.wrap(a, 'call', text))
            else:
                new_args.append(a)
        node.args = new_args
        if order_call or order_meth:
            for k in node.keywords:
                if k.arg != 'key':
                    k.value = self.wrap(k.value, 'call', text)
        return node

    def visit_Assign(self, node):
        text = ast.unparse(node)
        self.generic_visit(node)
        if any(isinstance(t, (ast.Tuple, ast.List)) for t in node.targets):
            node.value = self.wrap(node.value, 'unpack', text)
        return node


def instrument_source(src, rel):
    tree = ast.parse(src)
    tr = _Instrument(rel)
    tree = tr.visit(tree)
    ast.fix_missing_locations(tree)
    return tree


def install_runtime_audit(repo, files=None):
    """import hook: the audited modules under `repo` are compiled from their instrumented AST"""
    import builtins
    import importlib.abc
    import importlib.machinery
    files = files or FILES
    wanted = {os.path.realpath(os.path.join(repo, f)): f for f in files}
    builtins._c19_rec = _rec
    builtins._c19_pop = _rec_pop

    class Loader(importlib.machinery.SourceFileLoader):
        def source_to_code(self, data, path, *, _optimize=-1):
            rel = wanted.get(os.path.realpath(path))
            if rel is None:
                return super().source_to_code(data, path, _optimize=_optimize)
            return compile(instrument_source(data.decode() if isinstance(data, bytes) else data, rel), path, 'exec', dont_inherit=True)

        def get_code(self, fullname):          # never use / write the bytecode cache for instrumented modules
            path = self.get_filename(fullname)
            if os.path.realpath(path) in wanted:
                return self.source_to_code(self.get_data(path), path)
            return super().get_code(fullname)

    class Finder(importlib.abc.MetaPathFinder):
        def find_spec(self, fullname, path, target=None):
            spec = importlib.machinery.PathFinder.find_spec(fullname, path, target)
            if spec is not None and spec.origin and os.path.realpath(spec.origin) in wanted:
                spec.loader = Loader(fullname, spec.origin)
            return spec
    sys.meta_path.insert(0, Finder())
    return wanted


def strip_occurrence(site):
    import re
    return (site[0], site[1], re.sub(r' #\d+$', '', site[2]))


def main(repo='/repo', dest=None):
    dest = dest or gen_path('SetAudit.v')
    sites = audit(repo)
    if not sites:
        raise TranslatorError('no set-iteration site found at all: the audit does not see the anchored files')
    for f, q, t in sites:
        for x in (f, q, t):
            if not all(32 <= ord(c) < 127 for c in x):
                raise TranslatorError(f'{f}:{q}: non-ASCII text in an audited expression')
    out = ['(* GENERATED by tools/gen_setaudit.py from the anchored chython files of C19. Do not edit. *)',
           'From Coq Require Import List String.', 'Import ListNotations.', 'Open Scope string_scope.', '',
           '(* (file, function, kind + normalised source text) of every set-order / hash() site *)',
           'Definition audit : list (string * string * string) := [',
           ';\n'.join('  ' + tup(s(f), s(q), s(t)) for f, q, t in sites),
           '].', '',
           'Definition audited_files : list string := ' + lst(FILES, s) + '.', '']
    return write_if_changed(dest, '\n'.join(out))


if __name__ == '__main__':
    if len(sys.argv) > 1 and sys.argv[1] == '--print':
        for x in audit(*(sys.argv[2:3] or ['/repo'])):
            print(x)
    else:
        main(*sys.argv[1:])
