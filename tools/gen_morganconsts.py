"""Translator (C01): the constants, the tuple layouts and the key expressions that the hand-written models coq/model/Morgan.v and
coq/model/ChiralMorgan.v copy from the source -> coq/gen/MorganConsts.v, read from /repo's SOURCE with Python `ast` on every run.
coq/proofs/MorganConstsProofs.v proves `generated = what the model uses`, so an edit of the source that the models do not follow breaks
a named obligation (C01_source_constants_match_model) - in addition to the exact-integer correspondence.

  chython/algorithms/morgan.py          _morgan: `tries = len(atoms) - 1`, `stab = old_numb = 0`, `if stab == 3`, `stab += 1`, `stab = 0`,
                                                 `enumerate(..., start=1)`, the branch tests in order, the hashed tuple, the final ranking
                                        Morgan.atoms_order / Morgan.int_adjacency: the returned expressions
  chython/periodictable/base/element.py Element.__hash__: the fields of the hashed tuple, in order
  chython/containers/bonds.py           Bond.__hash__: the returned expression
  chython/algorithms/stereo.py          MoleculeStereo._chiral_morgan / __differentiation: every min(...) / sorted(..., key=...) reference
                                        choice, the evenness / truly-stereogenic / RS-pair tests, the flip-half slices

Fail closed (TranslatorError) when a function, statement or shape is not found."""
import ast
import os
import sys

sys.path.insert(0, os.path.dirname(__file__))
from coqfmt import *  # noqa


def _parse(repo, rel):
    path = os.path.join(repo, rel)
    try:
        return ast.parse(open(path).read()), rel
    except (OSError, SyntaxError) as e:
        raise TranslatorError(f'{rel}: {e}')


def _func(tree, name, path, cls=None):
    for node in ast.walk(tree):
        if cls is not None and isinstance(node, ast.ClassDef) and node.name == cls:
            for sub in node.body:
                if isinstance(sub, ast.FunctionDef) and sub.name == name:
                    return sub
        if cls is None and isinstance(node, ast.FunctionDef) and node.name == name:
            return node
    raise TranslatorError(f'{path}: function {cls + "." if cls else ""}{name} not found')


def _int(node, path, what):
    if isinstance(node, ast.Constant) and type(node.value) is int:
        return node.value
    raise TranslatorError(f'{path}:{getattr(node, "lineno", "?")}: {what}: not an integer literal: {ast.dump(node)[:80]}')


def _one(items, path, what):
    if len(items) != 1:
        raise TranslatorError(f'{path}: {what}: expected exactly one, found {len(items)}')
    return items[0]


def _returns(fn):
    return [n for n in ast.walk(fn) if isinstance(n, ast.Return) and n.value is not None]


def morgan_consts(repo):
    tree, path = _parse(repo, 'chython/algorithms/morgan.py')
    fn = _func(tree, '_morgan', path)
    ints, strs, lists = {}, {}, {}
    assigns = [n for n in ast.walk(fn) if isinstance(n, ast.Assign)]
    tries = _one([a for a in assigns if any(isinstance(t, ast.Name) and t.id == 'tries' for t in a.targets)], path, 'tries = ...')
    v = tries.value
    if not (isinstance(v, ast.BinOp) and isinstance(v.op, ast.Sub) and ast.unparse(v.left) == 'len(atoms)'):
        raise TranslatorError(f'{path}:{tries.lineno}: tries is not `len(atoms) - <int>`')
    ints['tries_offset'] = _int(v.right, path, 'tries offset')
    inits = [a for a in assigns if any(isinstance(t, ast.Name) and t.id == 'stab' for t in a.targets)]
    if len(inits) != 2 or sorted(ast.unparse(a) for a in inits) != ['stab = 0', 'stab = old_numb = 0']:
        raise TranslatorError(f'{path}: expected `stab = old_numb = 0` and `stab = 0`, found {[ast.unparse(a) for a in inits]}')
    ints['stab_init'] = 0
    aug = _one([n for n in ast.walk(fn) if isinstance(n, ast.AugAssign)], path, 'augmented assignment')
    if not (isinstance(aug.target, ast.Name) and aug.target.id == 'stab' and isinstance(aug.op, ast.Add)):
        raise TranslatorError(f'{path}:{aug.lineno}: expected `stab += <int>`')
    ints['stab_step'] = _int(aug.value, path, 'stab step')
    loop = _one([n for n in fn.body if isinstance(n, ast.For)], path, 'for loop')
    if ast.unparse(loop.iter) != 'range(tries)':
        raise TranslatorError(f'{path}:{loop.lineno}: loop is not `for _ in range(tries)`')
    body = loop.body
    if len(body) != 3 or not isinstance(body[2], ast.If):
        raise TranslatorError(f'{path}:{loop.lineno}: loop body is not (round, counters, if-chain)')
    strs['round_stmt'] = ast.unparse(body[0])
    strs['counters_stmt'] = ast.unparse(body[1])
    tests, node = [], body[2]
    while True:
        tests.append(ast.unparse(node.test))
        if len(node.orelse) == 1 and isinstance(node.orelse[0], ast.If):
            node = node.orelse[0]
        else:
            if node.orelse:
                raise TranslatorError(f'{path}:{node.lineno}: the if-chain of the loop has an else branch')
            break
    lists['branch_tests'] = tests
    lim = _one([n for n in ast.walk(body[2]) if isinstance(n, ast.Compare) and ast.unparse(n.left) == 'stab'], path, 'stab == <int>')
    if not (len(lim.ops) == 1 and isinstance(lim.ops[0], ast.Eq)):
        raise TranslatorError(f'{path}:{lim.lineno}: the stability test is not an equality')
    ints['stab_limit'] = _int(lim.comparators[0], path, 'stability limit')
    ret = _one(_returns(fn), path, 'return of _morgan')
    strs['rank_expr'] = ast.unparse(ret.value)
    en = _one([n for n in ast.walk(ret) if isinstance(n, ast.Call) and ast.unparse(n.func) == 'enumerate'], path, 'enumerate')
    ints['rank_start'] = _int(_one([k.value for k in en.keywords if k.arg == 'start'], path, 'enumerate start'), path, 'enumerate start')
    for name in ('atoms_order', 'int_adjacency'):
        f = _func(tree, name, path, 'Morgan')
        rets = _returns(f)
        if not rets:
            raise TranslatorError(f'{path}: Morgan.{name} returns nothing')
        strs[name + '_expr'] = ast.unparse(rets[-1].value)
        lists[name + '_returns'] = [ast.unparse(r.value) for r in rets]
    return ints, strs, lists


def hash_layouts(repo):
    strs, lists = {}, {}
    tree, path = _parse(repo, 'chython/periodictable/base/element.py')
    ret = _one(_returns(_func(tree, '__hash__', path, 'Element')), path, 'return of Element.__hash__')
    v = ret.value
    if not (isinstance(v, ast.Call) and ast.unparse(v.func) == 'hash' and len(v.args) == 1 and isinstance(v.args[0], ast.Tuple)):
        raise TranslatorError(f'{path}:{ret.lineno}: Element.__hash__ is not hash((...))')
    lists['atom_hash_fields'] = [ast.unparse(e) for e in v.args[0].elts]
    tree, path = _parse(repo, 'chython/containers/bonds.py')
    ret = _one(_returns(_func(tree, '__hash__', path, 'Bond')), path, 'return of Bond.__hash__')
    strs['bond_hash_expr'] = ast.unparse(ret.value)
    return strs, lists


def stereo_shapes(repo):
    tree, path = _parse(repo, 'chython/algorithms/stereo.py')
    lists = {}
    d = _func(tree, '_MoleculeStereo__differentiation', path, 'MoleculeStereo') if False else _func(tree, '__differentiation', path, 'MoleculeStereo')
    calls = [n for n in ast.walk(d) if isinstance(n, ast.Call) and isinstance(n.func, ast.Name) and n.func.id in ('min', 'sorted')]
    calls.sort(key=lambda n: (n.lineno, n.col_offset))
    lists['diff_reference_choices'] = [ast.unparse(c) for c in calls]
    tests = [n for n in ast.walk(d) if isinstance(n, ast.If)]
    tests.sort(key=lambda n: (n.lineno, n.col_offset))
    lists['diff_tests'] = [ast.unparse(t.test) for t in tests]
    cm = _func(tree, '_chiral_morgan', path, 'MoleculeStereo')
    loops = [n for n in ast.walk(cm) if isinstance(n, ast.For)]
    loops.sort(key=lambda n: (n.lineno, n.col_offset))
    lists['chiral_loops'] = [f'for {ast.unparse(l.target)} in {ast.unparse(l.iter)}' for l in loops]
    sets = [n for n in ast.walk(cm) if isinstance(n, ast.Assign)]
    sets.sort(key=lambda n: (n.lineno, n.col_offset))
    lists['chiral_assigns'] = [ast.unparse(a) for a in sets]
    if not lists['diff_reference_choices'] or not lists['chiral_loops']:
        raise TranslatorError(f'{path}: no reference choices / loops found in __differentiation / _chiral_morgan')
    return lists


def cstr(text):
    if not all(32 <= ord(c) < 127 for c in text):
        raise TranslatorError(f'non-ASCII source text: {text!r}')
    return '"' + text.replace('"', '""') + '"'


def render(ints, strs, lists):
    lines = ['(* GENERATED by tools/gen_morganconsts.py from the SOURCE of chython/algorithms/morgan.py, chython/algorithms/stereo.py,',
             '   chython/periodictable/base/element.py and chython/containers/bonds.py (Python ast).  Do not edit. *)',
             'From Coq Require Import ZArith List String.', 'Import ListNotations.', 'Open Scope Z_scope.', 'Open Scope string_scope.', '']
    for k, v in ints.items():
        lines.append(f'Definition msrc_{k} : Z := {zraw(v)}.')
    lines.append('')
    for k, v in strs.items():
        lines.append(f'Definition msrc_{k} : string := {cstr(v)}.')
    lines.append('')
    for k, v in lists.items():
        lines.append(f'Definition msrc_{k} : list string :=\n  [' + ';\n   '.join(cstr(x) for x in v) + '].')
    return '\n'.join(lines) + '\n'


def collect(repo='/repo'):
    ints, strs, lists = morgan_consts(repo)
    s2, l2 = hash_layouts(repo)
    strs.update(s2)
    lists.update(l2)
    lists.update(stereo_shapes(repo))
    return ints, strs, lists


def main(repo='/repo', dest=None):
    dest = dest or gen_path('MorganConsts.v')
    return write_if_changed(dest, render(*collect(repo)))


if __name__ == '__main__':
    main(*sys.argv[1:])
