"""Translator (C19): which cached values are taken as WORKING VARIABLES and updated in place, read from the Python AST (fail closed).

A cached_property / cached_method value lives in the instance __dict__ and every later reader gets the SAME object.  A body that binds
such a value to a local name and then updates that name in place (subscript store / delete, augmented assignment, a mutating method)
rewrites the cache entry of ANOTHER attribute: every later read of that attribute returns the rewritten value, while a copy of the
molecule (empty cache) recomputes the clean one - `cached == uncached == copy` breaks although no set order and no hash is involved.

For every function of the audited files (tools/gen_setaudit.py FILES) the translator lists

  bindings     `<name> = <receiver>.<cached attr>`                      -> Alias      (the cache entry itself)
               `<name> = <receiver>.<cached attr>.copy()` / dict(...) / list(...) / set(...) / sorted(...) / tuple(...)/frozenset(...)
                                                                        -> Copy       (a fresh object)
  in-place     `<name>[...] = ...`, `del <name>[...]`, `<name>[...] op= ...`, `<name> op= ...`, `<name>.<mutating method>(...)`,
  updates      and the same directly on `<receiver>.<cached attr>`

and emits (coq/gen/CacheAlias.v)

  mutated_aliases   every (file, function, variable, cached attribute) where a name with an Alias binding (flow-insensitive: ANY binding
                    of that name in the function) is updated in place, and every direct in-place update of `<receiver>.<cached attr>`
  read_only_aliases every name bound to a cache entry itself that is NOT updated in place in that function
  working_copies    every (file, function, variable, cached attribute) where a name bound to a Copy of a cached attribute is updated in
                    place - the sound pattern
  chiral_morgan_start   how MoleculeStereo._chiral_morgan binds its working variable `morgan` (the start of the stereo-aware ranking):
                        (cached attribute, true = through .copy()) - used as the start mode of the model Model.DeterminismAlias

`cached attr` = every name defined under a decorator whose name contains `cached` anywhere in the chython package (so an attribute
of ANOTHER class read through self counts too).  Receivers: any expression (self, a parameter, ...): a cached value of another object is
shared just the same.  Unrecognised shapes of a binding whose right-hand side mentions a cached attribute inside a tuple / starred
target raise TranslatorError."""
import ast
import os
import sys
import warnings

sys.path.insert(0, os.path.dirname(__file__))
from coqfmt import *  # noqa
import gen_setaudit

MUTATORS = {'add', 'update', 'pop', 'popitem', 'remove', 'discard', 'clear', 'append', 'extend', 'insert', 'setdefault', 'sort', 'reverse',
            'difference_update', 'intersection_update', 'symmetric_difference_update', 'appendleft', 'popleft', 'extendleft', 'rotate',
            '__setitem__', '__delitem__', 'move_to_end', 'subtract'}
COPIERS = {'dict', 'list', 'set', 'sorted', 'tuple', 'frozenset', 'deque', 'defaultdict', 'Counter'}


def cached_names(repo):
    """every def decorated with something whose name contains `cached`, anywhere in the package"""
    names = set()
    n_files = 0
    for root, _, fs in os.walk(os.path.join(repo, 'chython')):
        for f in sorted(fs):
            if not f.endswith('.py'):
                continue
            n_files += 1
            with warnings.catch_warnings():          # docstrings of the package with stray backslashes
                warnings.simplefilter('ignore')
                tree = ast.parse(open(os.path.join(root, f)).read())
            for node in ast.walk(tree):
                if isinstance(node, (ast.FunctionDef, ast.AsyncFunctionDef)):
                    for d in node.decorator_list:
                        if 'cached' in ast.unparse(d):
                            names.add(node.name)
    if len(names) < 20 or 'atoms_order' not in names or 'sssr' not in names:
        raise TranslatorError(f'cached attribute scan found only {len(names)} names in {n_files} files: decorator convention changed?')
    return names


def cached_attr(node, names):
    """node is `<expr>.<cached name>` (not a call) -> the name"""
    if isinstance(node, ast.Attribute) and node.attr in names and isinstance(node.ctx, ast.Load):
        return node.attr
    return None


def classify_value(v, names):
    """('Alias' | 'Copy', attr) when the bound value is a cached attribute / a fresh copy of one, else None"""
    a = cached_attr(v, names)
    if a:
        return ('Alias', a)
    if isinstance(v, ast.Call):
        # <cached>.copy()
        if isinstance(v.func, ast.Attribute) and v.func.attr == 'copy' and not v.args and not v.keywords:
            a = cached_attr(v.func.value, names)
            if a:
                return ('Copy', a)
        # dict(<cached>) ...
        if isinstance(v.func, ast.Name) and v.func.id in COPIERS and len(v.args) >= 1:
            a = cached_attr(v.args[0], names)
            if a:
                return ('Copy', a)
    if isinstance(v, ast.IfExp):          # x = self.a if c else self.b : an alias if either arm is
        for arm in (v.body, v.orelse):
            r = classify_value(arm, names)
            if r and r[0] == 'Alias':
                return r
    if isinstance(v, ast.NamedExpr):
        return classify_value(v.value, names)
    return None


def own_nodes(fn):
    """nodes of a function body without nested function / class bodies (they are listed separately); lambdas included"""
    todo = list(fn.body) if hasattr(fn, 'body') and isinstance(fn.body, list) else []
    while todo:
        n = todo.pop()
        yield n
        for c in ast.iter_child_nodes(n):
            if not isinstance(c, (ast.FunctionDef, ast.AsyncFunctionDef, ast.ClassDef)):
                todo.append(c)


def scan_function(rel, qual, fn, names):
    binds = {}          # name -> list of (kind, attr, lineno)
    muts = []           # (name | None, attr | None, lineno, how)
    for n in own_nodes(fn):
        targets, value = [], None
        if isinstance(n, ast.Assign):
            targets, value = n.targets, n.value
        elif isinstance(n, ast.AnnAssign) and n.value is not None:
            targets, value = [n.target], n.value
        elif isinstance(n, ast.NamedExpr):
            targets, value = [n.target], n.value
        if value is not None:
            for tg in targets:
                if isinstance(tg, ast.Name):
                    r = classify_value(value, names)
                    if r:
                        binds.setdefault(tg.id, []).append((r[0], r[1], n.lineno))
                elif isinstance(tg, (ast.Tuple, ast.List)) and isinstance(value, (ast.Tuple, ast.List)) and len(tg.elts) == len(value.elts):
                    for t2, v2 in zip(tg.elts, value.elts):
                        if isinstance(t2, ast.Name):
                            r = classify_value(v2, names)
                            if r:
                                binds.setdefault(t2.id, []).append((r[0], r[1], n.lineno))
                        elif isinstance(t2, ast.Starred) and classify_value(v2, names):
                            raise TranslatorError(f'{rel}:{n.lineno}: starred binding of a cached attribute')
        # in-place updates
        stores = []
        if isinstance(n, ast.Assign):
            stores = [t for t in n.targets]
        elif isinstance(n, ast.AugAssign):
            stores = [n.target]
            if isinstance(n.target, ast.Name):          # x |= ..., x += ... on a mutable container is in place
                muts.append((n.target.id, None, n.lineno, 'augmented assignment'))
            elif cached_attr(ast.Attribute(value=n.target.value, attr=n.target.attr, ctx=ast.Load()), names) if isinstance(n.target, ast.Attribute) else None:
                muts.append((None, n.target.attr, n.lineno, 'augmented assignment'))
        elif isinstance(n, ast.Delete):
            stores = n.targets
        for t in stores:
            for t2 in (t.elts if isinstance(t, (ast.Tuple, ast.List)) else [t]):
                if isinstance(t2, ast.Subscript):
                    base = t2.value
                    if isinstance(base, ast.Name):
                        muts.append((base.id, None, n.lineno, 'subscript store'))
                    else:
                        a = cached_attr(base, names)
                        if a:
                            muts.append((None, a, n.lineno, 'subscript store'))
        if isinstance(n, ast.Call) and isinstance(n.func, ast.Attribute) and n.func.attr in MUTATORS:
            base = n.func.value
            if isinstance(base, ast.Name):
                muts.append((base.id, None, n.lineno, '.' + n.func.attr + '()'))
            else:
                a = cached_attr(base, names)
                if a:
                    muts.append((None, a, n.lineno, '.' + n.func.attr + '()'))
    aliases, copies = [], []
    for name, attr, line, how in muts:
        if name is None:
            aliases.append((rel, qual, '<direct>', attr))
            continue
        for kind, a, _ in binds.get(name, []):
            (aliases if kind == 'Alias' else copies).append((rel, qual, name, a))
    return sorted(set(aliases)), sorted(set(copies)), binds


def translate_inplace(fn, rel):
    """the in-place part of _chiral_morgan, statement by statement:
           for group in <groups>:
               for <n | n, _> in group[:len(group) // <k>]:
                   morgan[n] = -morgan[n]
    (one such loop per group list, inside the `while True:`) -> Gallina text of `chiral_inplace`; anything else raises"""
    loops = [n for n in own_nodes(fn) if isinstance(n, ast.For) and isinstance(n.iter, ast.Name) and n.iter.id.endswith('_groups')]
    loops.sort(key=lambda n: n.lineno)
    if [l.iter.id for l in loops] != ['atoms_groups', 'cis_trans_groups', 'allenes_groups']:
        raise TranslatorError(f'{rel}: _chiral_morgan: expected the loops over atoms_groups, cis_trans_groups, allenes_groups, found {[l.iter.id for l in loops]}')
    # every subscript store on `morgan` of the function must be inside one of these loops
    stores = [n for n in own_nodes(fn) if isinstance(n, (ast.Assign, ast.AugAssign, ast.Delete)) and 'morgan[' in ast.unparse(n).split('=')[0]]
    inside = [st for l in loops for st in ast.walk(l) if isinstance(st, (ast.Assign, ast.AugAssign, ast.Delete))]
    if any(st not in inside for st in stores):
        raise TranslatorError(f'{rel}: _chiral_morgan updates `morgan` in place outside the three group loops')
    lets = []
    for l in loops:
        if not (isinstance(l.target, ast.Name) and len(l.body) == 1 and isinstance(l.body[0], ast.For) and not l.orelse):
            raise TranslatorError(f'{rel}:{l.lineno}: outer group loop has an unexpected shape')
        g = l.target.id
        inner = l.body[0]
        it = inner.iter
        # group[:len(group) // k]
        if not (isinstance(it, ast.Subscript) and isinstance(it.value, ast.Name) and it.value.id == g and isinstance(it.slice, ast.Slice)
                and it.slice.lower is None and it.slice.step is None and isinstance(it.slice.upper, ast.BinOp) and isinstance(it.slice.upper.op, ast.FloorDiv)
                and ast.unparse(it.slice.upper.left) == f'len({g})' and isinstance(it.slice.upper.right, ast.Constant) and isinstance(it.slice.upper.right.value, int)
                and it.slice.upper.right.value > 0):
            raise TranslatorError(f'{rel}:{inner.lineno}: inner loop does not iterate `{g}[:len({g}) // k]`: {ast.unparse(it)}')
        k = it.slice.upper.right.value
        if isinstance(inner.target, ast.Name):
            pat, key = inner.target.id, inner.target.id
        elif isinstance(inner.target, ast.Tuple) and len(inner.target.elts) == 2 and all(isinstance(e, ast.Name) for e in inner.target.elts):
            pat, key = f"'({inner.target.elts[0].id}, {inner.target.elts[1].id})", None
        else:
            raise TranslatorError(f'{rel}:{inner.lineno}: inner loop target {ast.unparse(inner.target)}')
        if not (len(inner.body) == 1 and isinstance(inner.body[0], ast.Assign) and not inner.orelse and len(inner.body[0].targets) == 1):
            raise TranslatorError(f'{rel}:{inner.lineno}: inner loop body is not a single assignment')
        st = inner.body[0]
        tg = st.targets[0]
        if not (isinstance(tg, ast.Subscript) and isinstance(tg.value, ast.Name) and tg.value.id == 'morgan' and isinstance(tg.slice, ast.Name)):
            raise TranslatorError(f'{rel}:{st.lineno}: store target {ast.unparse(tg)}')
        kname = tg.slice.id
        if key is None:
            if kname not in [e.id for e in inner.target.elts]:
                raise TranslatorError(f'{rel}:{st.lineno}: key {kname} is not a loop variable')
        elif kname != key:
            raise TranslatorError(f'{rel}:{st.lineno}: key {kname} is not the loop variable')
        # value: -morgan[<same key>]
        v = st.value
        if not (isinstance(v, ast.UnaryOp) and isinstance(v.op, ast.USub) and isinstance(v.operand, ast.Subscript) and ast.unparse(v.operand) == f'morgan[{kname}]'):
            raise TranslatorError(f'{rel}:{st.lineno}: stored value is not -morgan[{kname}]: {ast.unparse(v)}')
        store = f'map (fun kv : Z * Z => if Z.eqb (fst kv) {kname} then (fst kv, Z.opp (snd kv)) else kv) morgan'
        lets.append(f'  let morgan := fold_left (fun morgan {g} => fold_left (fun morgan {pat} => {store})\n'
                    f'                 (firstn (Nat.div (List.length {g}) {k}) {g}) morgan) {l.iter.id} morgan in')
    first, last = loops[0].lineno, max(getattr(n, 'end_lineno', n.lineno) for n in ast.walk(loops[-1]) if hasattr(n, 'lineno'))
    text = ('Definition chiral_inplace {X : Type} (atoms_groups : list (list Z)) (cis_trans_groups : list (list (Z * X))) (allenes_groups : list (list Z))\n'
            '    (morgan : list (Z * Z)) : list (Z * Z) :=\n' + '\n'.join(lets) + '\n  morgan.')
    return text, (first, last)


def extract(repo='/repo'):
    names = cached_names(repo)
    aliases, copies, readonly = [], [], []
    start = None
    for rel in gen_setaudit.FILES:
        tree = ast.parse(open(os.path.join(repo, rel)).read())
        for qual, fn in gen_setaudit.functions(tree):
            a, c, binds = scan_function(rel, qual, fn, names)
            aliases += a
            copies += c
            readonly += sorted({(rel, qual, v, at) for v, l in binds.items() for k, at, _ in l if k == 'Alias'} - set(a))
            if rel == 'chython/algorithms/stereo.py' and qual == 'MoleculeStereo._chiral_morgan':
                b = binds.get('morgan', [])
                first = sorted(b, key=lambda x: x[2])[:1]
                if len(first) != 1:
                    raise TranslatorError(f'{rel}: _chiral_morgan does not bind `morgan` to a cached attribute (or a copy of one) any more')
                start = (first[0][1], first[0][0] == 'Copy')
                inplace, lines = translate_inplace(fn, rel)
                # the in-place updates of the branch `set new weights in half of the group` must still be there
                if not any(isinstance(n, ast.Assign) and any(isinstance(t, ast.Subscript) and ast.unparse(t.value) == 'morgan' for t in n.targets)
                           for n in own_nodes(fn)):
                    raise TranslatorError(f'{rel}: _chiral_morgan has no `morgan[n] = ...` update any more: re-model it')
    if start is None:
        raise TranslatorError('MoleculeStereo._chiral_morgan not found in chython/algorithms/stereo.py')
    return {'cached': sorted(names), 'aliases': aliases, 'copies': copies, 'start': start, 'readonly': readonly, 'inplace': inplace, 'inplace_lines': lines}


def main(repo='/repo', dest=None):
    dest = dest or gen_path('CacheAlias.v')
    d = extract(repo)
    q4 = lambda t: tup(*[s(x) for x in t])
    out = ['(* GENERATED by tools/gen_cachealias.py from the audited files of /repo. Do not edit. *)',
           'From Coq Require Import ZArith List String Bool.', 'Import ListNotations.', 'Open Scope string_scope.', '',
           f'(* {len(d["cached"])} cached attribute names of the package *)',
           'Definition cached_attribute_names : list string := ' + lst(d['cached'], s, per_line=6) + '.',
           '(* (file, function, variable, cached attribute): the variable is (in some binding) the cache entry itself and is updated in place *)',
           'Definition mutated_aliases : list (string * string * string * string) := [',
           ';\n'.join('  ' + q4(t) for t in d['aliases']), '].',
           '(* the variable is a fresh copy of the cache entry and is updated in place *)',
           'Definition working_copies : list (string * string * string * string) := [',
           ';\n'.join('  ' + q4(t) for t in d['copies']), '].',
           f'(* {len(d["readonly"])} names bound to a cache entry itself and never updated in place in that function (read-only use: the sound way to alias) *)',
           'Definition read_only_aliases : list (string * string * string * string) := [',
           ';\n'.join('  ' + q4(t) for t in d['readonly']), '].',
           '(* MoleculeStereo._chiral_morgan: `morgan = self.<attr>[.copy()]` : (attr, copied) *)',
           'Definition chiral_morgan_start : string * bool := ' + tup(s(d['start'][0]), b(d['start'][1])) + '.',
           'Close Scope string_scope.', 'Open Scope Z_scope.',
           f'(* the in-place part of _chiral_morgan, translated statement by statement from chython/algorithms/stereo.py lines {d["inplace_lines"][0]}-{d["inplace_lines"][1]}',
           '   (a dict store `morgan[k] = -morgan[k]` of an existing key = the entry rewritten in place, insertion order kept) *)',
           d['inplace'], '']
    return write_if_changed(dest, '\n'.join(out))


if __name__ == '__main__':
    if len(sys.argv) > 1 and sys.argv[1] == '--print':
        import json
        print(json.dumps(extract(*(sys.argv[2:3] or ['/repo'])), indent=1))
    else:
        main(*sys.argv[1:])
