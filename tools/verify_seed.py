#!/usr/bin/env python3
"""Confirm a seeded change produced in a scratch worktree and store it under /verif/seeded/<name>/.
Checks, in a fresh scratch copy of /repo: the patch applies; the demonstration exits 0 without it and non-zero with it;
the 30 stable tests pass with it.  usage: tools/verify_seed.py <worktree> <name>"""
import json
import os
import shutil
import subprocess
import sys

VERIF = os.path.dirname(os.path.dirname(os.path.abspath(__file__)))
TESTS = ['/venv/bin/python', '-m', 'pytest', '-q', '-p', 'no:cacheprovider', 'chython/files/daylight/test', 'chython/utils/test/test_rdkit.py']


def run(cmd, cwd, env=None):
    e = dict(os.environ)
    e.update(env or {})
    return subprocess.run(cmd, cwd=cwd, env=e, capture_output=True, text=True, timeout=1800)


def main(wt, name):
    meta = json.load(open(os.path.join(wt, 'meta.json')))
    pid = meta['property']
    demo = f'demo_{pid}.py'
    dest = os.path.join(VERIF, 'seeded', name)
    scratch = f'/tmp/seedverify_{name}'
    shutil.rmtree(scratch, ignore_errors=True)
    subprocess.run(['rsync', '-a', '--exclude', '.git', '/repo/', scratch + '/'], check=True)
    shutil.copy(os.path.join(wt, demo), scratch)
    env = {'PYTHONPATH': f'{scratch}:/tmp/shim', 'PYTHONHASHSEED': '0'}
    r0 = run(['/venv/bin/python', demo], scratch, env)
    p = run(['patch', '-p1', '-s', '-i', os.path.join(wt, 'patch.diff')], scratch)
    r1 = run(['/venv/bin/python', demo], scratch, env)
    t = run(TESTS, scratch)
    passed = [l for l in t.stdout.split('\n') if ' passed' in l]
    ok = p.returncode == 0 and r0.returncode == 0 and r1.returncode != 0 and any('30 passed' in l for l in passed)
    print(name, 'patch', p.returncode, 'demo-orig', r0.returncode, 'demo-changed', r1.returncode, passed[-1:] )
    if ok:
        os.makedirs(dest, exist_ok=True)
        shutil.copy(os.path.join(wt, 'patch.diff'), dest)
        shutil.copy(os.path.join(wt, demo), dest)
        meta['confirmed'] = {'demo_on_original_exit': r0.returncode, 'demo_on_changed_exit': r1.returncode,
                             'demo_changed_tail': r1.stdout[-600:], 'stable_tests_with_change': passed[-1].strip(),
                             'how': 'tools/verify_seed.py: fresh copy of /repo, demo before/after patch -p1, stable 30 tests after'}
        meta['demo_cmd'] = f'PYTHONPATH=<repo copy>:/tmp/shim PYTHONHASHSEED=0 /venv/bin/python {demo}  (boot.py = harness/boot.py)'
        json.dump(meta, open(os.path.join(dest, 'meta.json'), 'w'), indent=1)
    else:
        print(r0.stdout[-500:], r0.stderr[-500:], r1.stdout[-300:], p.stdout, p.stderr)
    shutil.rmtree(scratch, ignore_errors=True)
    return 0 if ok else 1


if __name__ == '__main__':
    sys.exit(main(sys.argv[1], sys.argv[2]))
