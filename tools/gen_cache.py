"""Translator for C13: the constants and name lists the hand-written model coq/model/Cache.v copies from the source ->
coq/gen/CacheTables.v (fail closed on any unexpected source shape).

  chython/containers/bonds.py      Bond.__init__: the tuple of valid orders
  chython/periodictable/base/element.py   charge setter: the two bounds
  chython/containers/molecule.py   flush_cache / copy: the names kept by keep_sssr, the name kept by keep_components;
                                   add_bond / delete_atom / delete_bond: the order compared with `bond` (special bond);
                                   __enter__: the keep_* flags of the backup copy
  chython/algorithms/standardize/molecule.py   __standardize: the charge bound, the orders that drop keep_sssr
  chython/algorithms/rings.py      which cached properties each cached property of the ring family reads (self.<name>)"""
import ast
import os
import sys

sys.path.insert(0, os.path.dirname(__file__))
from coqfmt import *  # noqa

TRACKED = ('not_special_connectivity', 'rings_count', 'sssr', 'atoms_rings', 'atoms_rings_sizes', 'connected_components')


def _parse(repo, rel):
    path = os.path.join(repo, rel)
    try:
        return path, ast.parse(open(path).read())
    except Exception as e:
        raise TranslatorError(f'{path}: cannot parse: {e}')


def _method(tree, cls, name, path, nth=0):
    found = []
    for node in tree.body:
        if isinstance(node, ast.ClassDef) and node.name == cls:
            found += [f for f in node.body if isinstance(f, ast.FunctionDef) and f.name == name]
    if len(found) <= nth:
        raise TranslatorError(f'{path}: {cls}.{name} not found')
    return found[nth]


def _int(node, path):
    if isinstance(node, ast.Constant) and type(node.value) is int:
        return node.value
    if isinstance(node, ast.UnaryOp) and isinstance(node.op, ast.USub) and isinstance(node.operand, ast.Constant) and type(node.operand.value) is int:
        return -node.operand.value
    raise TranslatorError(f'{path}:{getattr(node, "lineno", "?")}: integer literal expected')


def bond_orders(repo):
    path, tree = _parse(repo, 'chython/containers/bonds.py')
    fn = _method(tree, 'Bond', '__init__', path)
    tuples = [c for n in ast.walk(fn) if isinstance(n, ast.Compare) and len(n.ops) == 1 and isinstance(n.ops[0], ast.NotIn)
              and isinstance(n.left, ast.Name) and n.left.id == 'order' for c in n.comparators if isinstance(c, ast.Tuple)]
    if len(tuples) != 1:
        raise TranslatorError(f'{path}:{fn.lineno}: expected exactly one `order not in (...)` in Bond.__init__')
    return [_int(e, path) for e in tuples[0].elts]


def charge_bounds(repo):
    path, tree = _parse(repo, 'chython/periodictable/base/element.py')
    setters = []
    for node in tree.body:
        if isinstance(node, ast.ClassDef) and node.name == 'Element':
            for f in node.body:
                if isinstance(f, ast.FunctionDef) and f.name == 'charge' and any(isinstance(d, ast.Attribute) and d.attr == 'setter' for d in f.decorator_list):
                    setters.append(f)
    if len(setters) != 1:
        raise TranslatorError(f'{path}: Element.charge setter not found')
    hi = lo = None
    for n in ast.walk(setters[0]):
        if isinstance(n, ast.Compare) and isinstance(n.left, ast.Name) and n.left.id == 'value' and len(n.ops) == 1:
            if isinstance(n.ops[0], ast.Gt):
                hi = _int(n.comparators[0], path)
            elif isinstance(n.ops[0], ast.Lt):
                lo = _int(n.comparators[0], path)
            else:
                raise TranslatorError(f'{path}:{n.lineno}: unexpected comparison of value in the charge setter')
    if hi is None or lo is None:
        raise TranslatorError(f'{path}:{setters[0].lineno}: charge setter: `value > hi or value < lo` not found')
    return hi, lo


def _keep_lists(fn, path):
    """in a function with `if keep_sssr: for k, v in ...: if k in (<names>)` and `if keep_components: if '<name>' in self.__dict__`"""
    sssr = comp = None
    for n in ast.walk(fn):
        if isinstance(n, ast.If) and isinstance(n.test, ast.Name) and n.test.id == 'keep_sssr':
            tuples = [c for m in ast.walk(n) if isinstance(m, ast.Compare) and len(m.ops) == 1 and isinstance(m.ops[0], ast.In)
                      for c in m.comparators if isinstance(c, ast.Tuple)]
            if len(tuples) != 1 or not all(isinstance(e, ast.Constant) and type(e.value) is str for e in tuples[0].elts):
                raise TranslatorError(f'{path}:{n.lineno}: keep_sssr branch: one tuple of names expected')
            sssr = [e.value for e in tuples[0].elts]
        if isinstance(n, ast.If) and isinstance(n.test, ast.Name) and n.test.id == 'keep_components':
            names = [m.left.value for m in ast.walk(n) if isinstance(m, ast.Compare) and len(m.ops) == 1 and isinstance(m.ops[0], ast.In)
                     and isinstance(m.left, ast.Constant) and type(m.left.value) is str]
            if len(names) != 1:
                raise TranslatorError(f'{path}:{n.lineno}: keep_components branch: one name expected')
            comp = names[0]
    if sssr is None or comp is None:
        raise TranslatorError(f'{path}:{fn.lineno}: keep_sssr / keep_components branches not found in {fn.name}')
    return sssr, comp


def _bond_cmp(fn, path):
    """integer literals compared (== / !=) with the variable `bond` (or the value popped from _bonds) in a mutator"""
    out = []
    for n in sorted((n for n in ast.walk(fn) if isinstance(n, ast.Compare)), key=lambda n: (n.lineno, n.col_offset)):
        if len(n.ops) == 1 and isinstance(n.ops[0], (ast.Eq, ast.NotEq)) and isinstance(n.comparators[0], ast.Constant) and type(n.comparators[0].value) is int:
            src = ast.unparse(n.left)
            if src == 'bond' or '_bonds' in src:
                out.append(n.comparators[0].value)
    if not out:
        raise TranslatorError(f'{path}:{fn.lineno}: {fn.name}: no comparison of the bond with an order found')
    return out


def molecule_facts(repo):
    path, tree = _parse(repo, 'chython/containers/molecule.py')
    flush = _keep_lists(_method(tree, 'MoleculeContainer', 'flush_cache', path), path)
    copy = _keep_lists(_method(tree, 'MoleculeContainer', 'copy', path), path)
    special = {}
    for name in ('add_bond', 'delete_atom', 'delete_bond'):
        special[name] = _bond_cmp(_method(tree, 'MoleculeContainer', name, path), path)
    enter = _method(tree, 'MoleculeContainer', '__enter__', path)
    kws = [(k.arg, k.value.value) for n in ast.walk(enter) if isinstance(n, ast.Call) and isinstance(n.func, ast.Attribute) and n.func.attr == 'copy'
           for k in n.keywords if isinstance(k.value, ast.Constant) and type(k.value.value) is bool]
    if sorted(kws) != sorted(dict(kws).items()) or set(dict(kws)) != {'keep_sssr', 'keep_components'}:
        raise TranslatorError(f'{path}:{enter.lineno}: __enter__: self.copy(keep_sssr=.., keep_components=..) expected')
    return flush, copy, special, dict(kws)


def standardize_facts(repo):
    path, tree = _parse(repo, 'chython/algorithms/standardize/molecule.py')
    fn = None
    for node in tree.body:
        if isinstance(node, ast.ClassDef) and node.name == 'Standardize':
            for f in node.body:
                if isinstance(f, ast.FunctionDef) and f.name == '__standardize':
                    fn = f
    if fn is None:
        raise TranslatorError(f'{path}: Standardize.__standardize not found')
    charge = [_int(n.comparators[0], path) for n in ast.walk(fn) if isinstance(n, ast.Compare) and len(n.ops) == 1 and isinstance(n.ops[0], ast.Gt)
              and ast.unparse(n.left) == 'a.charge']
    if len(charge) != 1:
        raise TranslatorError(f'{path}:{fn.lineno}: __standardize: one `a.charge > N` expected')
    drops = []
    for n in ast.walk(fn):
        if isinstance(n, ast.If) and isinstance(n.test, ast.BoolOp) and isinstance(n.test.op, ast.Or) and \
                any(isinstance(s, ast.Assign) and ast.unparse(s.targets[0]) == 'keep_sssr' for s in n.body):
            for c in n.test.values:
                if not (isinstance(c, ast.Compare) and len(c.ops) == 1 and isinstance(c.ops[0], ast.Eq) and ast.unparse(c.left) in ('b', 'bo')):
                    raise TranslatorError(f'{path}:{n.lineno}: __standardize: `b == N or bo == N` expected')
                drops.append((ast.unparse(c.left), _int(c.comparators[0], path)))
    if sorted(d[0] for d in drops) != ['b', 'bo']:
        raise TranslatorError(f'{path}:{fn.lineno}: __standardize: the keep_sssr = False condition was not found')
    return charge[0], dict(drops)


def ring_reads(repo):
    path, tree = _parse(repo, 'chython/algorithms/rings.py')
    out = []
    for name in TRACKED:
        fns = [f for c in tree.body if isinstance(c, ast.ClassDef) for f in c.body if isinstance(f, ast.FunctionDef) and f.name == name]
        if len(fns) != 1:
            raise TranslatorError(f'{path}: property {name} not found exactly once')
        f = fns[0]
        if not any(isinstance(d, ast.Name) and d.id == 'cached_property' for d in f.decorator_list):
            raise TranslatorError(f'{path}:{f.lineno}: {name} is not a cached_property')
        reads = [n.attr for n in sorted((n for n in ast.walk(f) if isinstance(n, ast.Attribute)), key=lambda n: (n.lineno, n.col_offset))
                 if isinstance(n.value, ast.Name) and n.value.id == 'self' and n.attr in TRACKED]
        out.append((name, list(dict.fromkeys(reads))))
    return out


def cstr(s):
    if '"' in s or '\\' in s:
        raise TranslatorError(f'unexpected character in name {s!r}')
    return f'"{s}"%string'


def clist(xs, f):
    return '[' + '; '.join(f(x) for x in xs) + ']'


def cz(n):
    return f'({n})' if n < 0 else str(n)


def main(repo='/repo', dest=None):
    dest = dest or gen_path('CacheTables.v')
    orders = bond_orders(repo)
    hi, lo = charge_bounds(repo)
    flush, copy, special, enter = molecule_facts(repo)
    pcharge, pdrops = standardize_facts(repo)
    reads = ring_reads(repo)
    b = lambda x: 'true' if x else 'false'
    text = f'''(* GENERATED by tools/gen_cache.py from chython/containers/bonds.py, periodictable/base/element.py, containers/molecule.py,
   algorithms/standardize/molecule.py, algorithms/rings.py -- do not edit *)
From Coq Require Import ZArith List String.
Import ListNotations.
Open Scope Z_scope.
Definition gen_bond_orders : list Z := {clist(orders, cz)}.
Definition gen_charge_hi : Z := {cz(hi)}.
Definition gen_charge_lo : Z := {cz(lo)}.
Definition gen_flush_sssr_names : list string := {clist(flush[0], cstr)}.
Definition gen_flush_components_name : string := {cstr(flush[1])}.
Definition gen_copy_sssr_names : list string := {clist(copy[0], cstr)}.
Definition gen_copy_components_name : string := {cstr(copy[1])}.
Definition gen_special_add_bond : list Z := {clist(special['add_bond'], cz)}.
Definition gen_special_delete_atom : list Z := {clist(special['delete_atom'], cz)}.
Definition gen_special_delete_bond : list Z := {clist(special['delete_bond'], cz)}.
Definition gen_enter_keep_sssr : bool := {b(enter['keep_sssr'])}.
Definition gen_enter_keep_components : bool := {b(enter['keep_components'])}.
Definition gen_patch_charge_hi : Z := {cz(pcharge)}.
Definition gen_patch_drop_old : Z := {cz(pdrops['b'])}.
Definition gen_patch_drop_new : Z := {cz(pdrops['bo'])}.
Definition gen_reads : list (string * list string) := {clist(reads, lambda r: '(' + cstr(r[0]) + ', ' + clist(r[1], cstr) + ')')}.
'''
    write_if_changed(dest, text)
    return dest


if __name__ == '__main__':
    print(main(*sys.argv[1:]))
