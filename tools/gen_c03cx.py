"""Translator: the `if contract:` block (CXSMILES fragment contraction) of chython/files/daylight/smiles.py:smiles() -> coq/gen/ContractBody.v.

Every statement of the block is translated in source order: the two lengths, the three index sets (the bounds are translated as
arithmetic over lr / lp / mol_count), the list of None, the if / elif chain of `for c in contract:` (which set is tested in which order,
which role list is read with which index shift, which set is reduced), the three filling loops (role list and index shift), the three
slices that cut new_molecules back into roles (bounds as arithmetic, Python slice semantics). The statement that only writes the log is
skipped. Anything of another shape raises TranslatorError (fail closed). Proofs.ContractTranslated proves the translation equal to
Model.Reader.contract_roles (obligation C03_contract_translated)."""
import ast
import os
import sys

sys.path.insert(0, os.path.dirname(__file__))
from coqfmt import *  # noqa

REL = 'chython/files/daylight/smiles.py'
SRC = {'reactants': 'R', 'products': 'P', 'reagents': 'G'}          # record['<role>'] : the molecule texts of the role
NUMS = ('lr', 'lp', 'mol_count')


def is_name(e, name):
    return isinstance(e, ast.Name) and e.id == name


class Tr:
    def __init__(self, path):
        self.path = path

    def err(self, node, what):
        raise TranslatorError(f'{self.path}:{getattr(node, "lineno", "?")}: {what}: {ast.dump(node)[:200]}')

    def arith(self, e, names=NUMS):
        if isinstance(e, ast.Constant) and type(e.value) is int:
            return f'({e.value})' if e.value < 0 else str(e.value)
        if isinstance(e, ast.Name) and e.id in names:
            return e.id
        if isinstance(e, ast.UnaryOp) and isinstance(e.op, ast.USub):
            return f'(- {self.arith(e.operand, names)})'
        if isinstance(e, ast.BinOp) and isinstance(e.op, (ast.Add, ast.Sub)):
            return f'({self.arith(e.left, names)} {"+" if isinstance(e.op, ast.Add) else "-"} {self.arith(e.right, names)})'
        self.err(e, 'arithmetic over lr / lp / mol_count expected')

    def role_item(self, e):
        """record['<role>'][<x or x - shift>] -> (Coq name of the role list, shift)"""
        if not (isinstance(e, ast.Subscript) and isinstance(e.value, ast.Subscript) and is_name(e.value.value, 'record')
                and isinstance(e.value.slice, ast.Constant) and e.value.slice.value in SRC):
            self.err(e, "record['<role>'][...] expected")
        idx = e.slice
        if is_name(idx, 'x'):
            shift = '0'
        elif isinstance(idx, ast.BinOp) and isinstance(idx.op, ast.Sub) and is_name(idx.left, 'x'):
            shift = self.arith(idx.right)
        elif isinstance(idx, ast.BinOp) and isinstance(idx.op, ast.Add) and is_name(idx.left, 'x'):
            shift = f'(- {self.arith(idx.right)})'
        else:
            self.err(idx, 'index x or x - <shift> expected')
        return SRC[e.value.slice.value], shift

    def set_range(self, s):
        """<set> = set(range(a[, b]))"""
        if not (isinstance(s, ast.Assign) and len(s.targets) == 1 and isinstance(s.targets[0], ast.Name) and s.targets[0].id in SRC
                and isinstance(s.value, ast.Call) and is_name(s.value.func, 'set') and len(s.value.args) == 1 and not s.value.keywords
                and isinstance(s.value.args[0], ast.Call) and is_name(s.value.args[0].func, 'range') and not s.value.args[0].keywords
                and len(s.value.args[0].args) in (1, 2)):
            self.err(s, '<role> = set(range(...)) expected')
        a = s.value.args[0].args
        lo, hi = ('0', self.arith(a[0])) if len(a) == 1 else (self.arith(a[0]), self.arith(a[1]))
        return s.targets[0].id, f'zrange {lo} {hi}'

    def branch(self, node):
        """if <set>.issuperset(c): new_molecules[c[0]] = '.'.join(record[..][..] for x in c); <set>.difference_update(c)"""
        t = node.test
        if not (isinstance(t, ast.Call) and isinstance(t.func, ast.Attribute) and t.func.attr == 'issuperset' and isinstance(t.func.value, ast.Name)
                and t.func.value.id in SRC and len(t.args) == 1 and is_name(t.args[0], 'c') and not t.keywords):
            self.err(t, '<set>.issuperset(c) expected')
        role = t.func.value.id
        if len(node.body) != 2:
            self.err(node, 'two statements per branch expected')
        a, u = node.body
        if not (isinstance(a, ast.Assign) and len(a.targets) == 1 and ast.unparse(a.targets[0]) == 'new_molecules[c[0]]'
                and isinstance(a.value, ast.Call) and isinstance(a.value.func, ast.Attribute) and a.value.func.attr == 'join'
                and isinstance(a.value.func.value, ast.Constant) and a.value.func.value.value == '.' and len(a.value.args) == 1
                and isinstance(a.value.args[0], ast.GeneratorExp) and len(a.value.args[0].generators) == 1
                and is_name(a.value.args[0].generators[0].target, 'x') and is_name(a.value.args[0].generators[0].iter, 'c')
                and not a.value.args[0].generators[0].ifs):
            self.err(a, "new_molecules[c[0]] = '.'.join(record[..][..] for x in c) expected")
        src, shift = self.role_item(a.value.args[0].elt)
        if not (isinstance(u, ast.Expr) and isinstance(u.value, ast.Call) and isinstance(u.value.func, ast.Attribute)
                and u.value.func.attr == 'difference_update' and isinstance(u.value.func.value, ast.Name) and u.value.func.value.id in SRC
                and len(u.value.args) == 1 and is_name(u.value.args[0], 'c')):
            self.err(u, '<set>.difference_update(c) expected')
        upd = u.value.func.value.id
        then = (f'cbind (cr_joined {src} {shift} c) (fun v => cbind (py_head c) (fun h => cbind (cr_set_new new_molecules h v) (fun new_molecules =>\n'
                f'     let {upd} := zdiff {upd} c in Ok (reactants, reagents, products, new_molecules))))')
        if len(node.orelse) == 1 and isinstance(node.orelse[0], ast.If):
            els = self.branch(node.orelse[0])
        else:
            # else: log.append(...)
            if not (len(node.orelse) == 1 and ast.unparse(node.orelse[0]).startswith('log.append(')):
                self.err(node, 'else: log.append(...) expected')
            els = 'Ok (reactants, reagents, products, new_molecules)'
        return f'if subset_z c {role} then\n    {then}\n  else {els}'

    def fill(self, s):
        """for x in <set>: new_molecules[x] = record[..][..]"""
        if not (isinstance(s, ast.For) and is_name(s.target, 'x') and isinstance(s.iter, ast.Name) and s.iter.id in SRC and not s.orelse
                and len(s.body) == 1 and isinstance(s.body[0], ast.Assign) and len(s.body[0].targets) == 1
                and ast.unparse(s.body[0].targets[0]) == 'new_molecules[x]'):
            self.err(s, 'for x in <set>: new_molecules[x] = ... expected')
        src, shift = self.role_item(s.body[0].value)
        return f'cbind (cr_fill {src} {shift} {s.iter.id} new_molecules) (fun new_molecules =>'

    def cut(self, s):
        """record['<role>'] = [x for x in new_molecules[lo:hi] if x is not None]"""
        if not (isinstance(s, ast.Assign) and len(s.targets) == 1 and isinstance(s.targets[0], ast.Subscript) and is_name(s.targets[0].value, 'record')
                and isinstance(s.targets[0].slice, ast.Constant) and s.targets[0].slice.value in SRC and isinstance(s.value, ast.ListComp)
                and is_name(s.value.elt, 'x') and len(s.value.generators) == 1 and is_name(s.value.generators[0].target, 'x')
                and len(s.value.generators[0].ifs) == 1 and ast.unparse(s.value.generators[0].ifs[0]) == 'x is not None'
                and isinstance(s.value.generators[0].iter, ast.Subscript) and is_name(s.value.generators[0].iter.value, 'new_molecules')
                and isinstance(s.value.generators[0].iter.slice, ast.Slice) and s.value.generators[0].iter.slice.step is None):
            self.err(s, "record['<role>'] = [x for x in new_molecules[..:..] if x is not None] expected")
        sl = s.value.generators[0].iter.slice
        lo = 'None' if sl.lower is None else f'(Some {self.arith(sl.lower)})'
        hi = 'None' if sl.upper is None else f'(Some {self.arith(sl.upper)})'
        return s.targets[0].slice.value, f'cr_some (py_slice new_molecules {lo} {hi})'


def main(repo='/repo', dest=None):
    dest = dest or gen_path('ContractBody.v')
    path = os.path.join(repo, REL)
    tree = ast.parse(open(path).read())
    fn = [n for n in tree.body if isinstance(n, ast.FunctionDef) and n.name == 'smiles']
    if len(fn) != 1:
        raise TranslatorError(f'{path}: function smiles not found')
    blocks = [n for n in ast.walk(fn[0]) if isinstance(n, ast.If) and is_name(n.test, 'contract')]
    if len(blocks) != 1 or blocks[0].orelse:
        raise TranslatorError(f'{path}: exactly one `if contract:` block without else expected')
    tr = Tr(path)
    body = blocks[0].body
    if len(body) != 14:
        raise TranslatorError(f'{path}:{blocks[0].lineno}: the contraction block is expected to have 14 statements, found {len(body)}')
    log, s_lr, s_lp, r1, r2, r3, nm, loop, f1, f2, f3, c1, c2, c3 = body
    if not (isinstance(log, ast.If) and not log.orelse and len(log.body) == 1 and ast.unparse(log.body[0]).startswith('log.append(')):
        tr.err(log, 'log-only statement expected')
    for s, name, role in ((s_lr, 'lr', 'reactants'), (s_lp, 'lp', 'products')):
        if ast.unparse(s) != f"{name} = len(record['{role}'])":
            tr.err(s, f"{name} = len(record['{role}']) expected")
    sets = dict(tr.set_range(s) for s in (r1, r2, r3))
    if set(sets) != set(SRC):
        tr.err(r1, 'the three index sets')
    t = ast.unparse(nm)
    if t not in ('new_molecules: List[Optional[str]] = [None] * mol_count', 'new_molecules = [None] * mol_count'):
        tr.err(nm, 'new_molecules = [None] * mol_count expected')
    if not (isinstance(loop, ast.For) and is_name(loop.target, 'c') and is_name(loop.iter, 'contract') and not loop.orelse and len(loop.body) == 1
            and isinstance(loop.body[0], ast.If)):
        tr.err(loop, 'for c in contract: <if chain> expected')
    step = tr.branch(loop.body[0])
    fills = [tr.fill(s) for s in (f1, f2, f3)]
    cuts = dict(tr.cut(s) for s in (c1, c2, c3))
    if set(cuts) != set(SRC):
        tr.err(c1, 'the three slices')
    sets_txt = '\n  '.join(f'let {k} := {v} in' for k, v in ((s.targets[0].id, sets[s.targets[0].id]) for s in (r1, r2, r3)))
    fills_txt = '\n  '.join(fills)
    out = f'''(* GENERATED by tools/gen_c03cx.py from {REL}:smiles (the `if contract:` block, statement by statement). Do not edit. *)
From Coq Require Import ZArith List Bool Ascii.
From Model Require Import PyBase Tokenize Parser Reader ContractPrims.
Import ListNotations.
Open Scope Z_scope.

(* the body of `for c in contract:`; the state: the three shrinking index sets and new_molecules *)
Definition gen_cr_step (R P G : list (list ascii)) (lr lp mol_count : Z) (st : cr_state) (c : list Z) : pyres cr_state :=
  let '(reactants, reagents, products, new_molecules) := st in
  {step}.

(* the whole block: R, P, G = record['reactants'], record['products'], record['reagents'] (molecule texts);
   result = the new (record['reactants'], record['products'], record['reagents']) *)
Definition gen_contract_roles (contract : list (list Z)) (R P G : list (list ascii)) (mol_count : Z)
  : pyres (list (list ascii) * list (list ascii) * list (list ascii)) :=
  let lr := Z.of_nat (List.length R) in
  let lp := Z.of_nat (List.length P) in
  {sets_txt}
  let new_molecules : list (option (list ascii)) := repeat None (Z.to_nat mol_count) in
  cbind (cfold (gen_cr_step R P G lr lp mol_count) (reactants, reagents, products, new_molecules) contract) (fun st =>
  let '(reactants, reagents, products, new_molecules) := st in
  {fills_txt}
  Ok ({cuts['reactants']},
      {cuts['products']},
      {cuts['reagents']}))))).
'''
    return write_if_changed(dest, out)


if __name__ == '__main__':
    main(*sys.argv[1:])
