#!/bin/bash
# tools/mk.sh <target.vo> ...   build Coq targets of /verif/coq under the shared lock, every coqc under a timeout
# (never build the whole tree; COQC_TIMEOUT seconds per file, default 900)
cd "$(dirname "$0")/../coq" || exit 2
if [ ! -f Makefile ]; then (cd .. && PYTHONPATH=/repo:harness:tools /venv/bin/python -c "import common; common.ensure_makefile()"); fi
exec flock .coq.lock make -j8 COQC="timeout ${COQC_TIMEOUT:-900} coqc" "$@"
