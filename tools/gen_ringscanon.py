"""Translator for C06: the bodies of chython/algorithms/rings.py:_canonic_ring and _ring_scissors -> coq/gen/RingsCanonBody.v.

Statement by statement (Python `ast`, fail closed): `n = min(ring)`, `x = ring.index(y)`, if / elif / else chains (an `if` whose
body always returns is followed by the rest of the block as its else part), tests `ndx == 0`, `ndx == len(ring) - 1`, `mdx == k`,
`ndx < mdx`, comparisons of two subscripts `ring[a] < ring[b]` / `ring[a] > ring[b]` (IndexError when a subscript fails), and
`return` of the ring, of a slice, or of a tuple display built from one leading element and starred slices.  Slices are emitted as
the slice helpers of coq/model/Rings.v, each of which names the Python slice it stands for (sl_rev_to1 = ring[:0:-1], sl_rev =
ring[::-1], sl_init = ring[:-1], sl_rev_from r i = ring[i::-1], sl_rev_after r i = ring[:i:-1], sl_from r i = ring[i:], sl_to r i =
ring[:i]).  coq/proofs/RingsCanonTie.v proves the translated functions equal to the hand-written canonic_ring / ring_scissors."""
import ast
import os
import sys

sys.path.insert(0, os.path.dirname(__file__))
from coqfmt import *  # noqa

PATH = 'chython/algorithms/rings.py'


def err(node, msg):
    raise TranslatorError(f'{PATH}:{getattr(node, "lineno", 0)}: {msg}: `{ast.unparse(node)[:120]}`')


def src(n):
    return ast.unparse(n)


def nat_expr(e, nats):
    if isinstance(e, ast.Constant) and type(e.value) is int and e.value >= 0:
        return str(e.value)
    if isinstance(e, ast.Name) and e.id in nats:
        return e.id
    if isinstance(e, ast.BinOp) and isinstance(e.op, (ast.Add, ast.Sub)):
        return f'({nat_expr(e.left, nats)} {"+" if isinstance(e.op, ast.Add) else "-"} {nat_expr(e.right, nats)})'
    if src(e) == 'len(ring)':
        return 'length ring'
    err(e, 'index expression not recognised')


def subscript(e, nats):
    """ring[k] / ring[-k] / ring[ndx +- 1] -> option Z"""
    if not (isinstance(e, ast.Subscript) and src(e.value) == 'ring') or isinstance(e.slice, ast.Slice):
        err(e, 'subscript of ring expected')
    i = e.slice
    if isinstance(i, ast.UnaryOp) and isinstance(i.op, ast.USub) and isinstance(i.operand, ast.Constant) and type(i.operand.value) is int and i.operand.value >= 1:
        return f'(at_neg ring {i.operand.value})'
    return f'(at_pos ring {nat_expr(i, nats)})'


def test(e, nats):
    """-> ('bool', text) or ('res', text)   (res: pyres bool, a failing subscript raises)"""
    if not (isinstance(e, ast.Compare) and len(e.ops) == 1):
        err(e, 'test not recognised')
    l, r, op = e.left, e.comparators[0], e.ops[0]
    if isinstance(l, ast.Subscript) or isinstance(r, ast.Subscript):
        a, b2 = subscript(l, nats), subscript(r, nats)
        if isinstance(op, ast.Lt):
            return 'res', f'lt_idx {a} {b2}'
        if isinstance(op, ast.Gt):
            return 'res', f'lt_idx {b2} {a}'
        err(e, 'comparison of subscripts: < or > expected')
    a, b2 = nat_expr(l, nats), nat_expr(r, nats)
    if isinstance(op, ast.Eq):
        return 'bool', f'Nat.eqb {a} {b2}'
    if isinstance(op, ast.Lt):
        return 'bool', f'Nat.ltb {a} {b2}'
    err(e, 'test not recognised')


SLICES = {':0:-1': 'sl_rev_to1 ring', '::-1': 'sl_rev ring', ':-1': 'sl_init ring'}


def slice_expr(e, nats):
    if not (isinstance(e, ast.Subscript) and src(e.value) == 'ring' and isinstance(e.slice, ast.Slice)):
        err(e, 'slice of ring expected')
    t = src(e.slice)
    if t in SLICES:
        return SLICES[t]
    s = e.slice
    name = lambda x: isinstance(x, ast.Name) and x.id in nats
    minus1 = lambda x: isinstance(x, ast.UnaryOp) and isinstance(x.op, ast.USub) and isinstance(x.operand, ast.Constant) and x.operand.value == 1
    if name(s.lower) and s.upper is None and minus1(s.step):
        return f'sl_rev_from ring {s.lower.id}'
    if s.lower is None and name(s.upper) and minus1(s.step):
        return f'sl_rev_after ring {s.upper.id}'
    if name(s.lower) and s.upper is None and s.step is None:
        return f'sl_from ring {s.lower.id}'
    if s.lower is None and name(s.upper) and s.step is None:
        return f'sl_to ring {s.upper.id}'
    err(e, 'slice not recognised')


def ret(e, nats, zs):
    if src(e) == 'ring':
        return 'Ok ring'
    if isinstance(e, ast.Subscript):
        return f'Ok ({slice_expr(e, nats)})'
    if isinstance(e, ast.Tuple):
        parts = []
        for k, x in enumerate(e.elts):
            if isinstance(x, ast.Starred):
                parts.append(('++', slice_expr(x.value, nats)))
            elif isinstance(x, ast.Name) and x.id in zs and k == 0:
                parts.append(('::', x.id))
            else:
                err(e, 'tuple element not recognised')
        text = parts[-1][1] if parts[-1][0] == '++' else None
        if text is None:
            err(e, 'a tuple display must end with a starred slice')
        for kind, p in reversed(parts[:-1]):
            text = f'{p} :: {text}' if kind == '::' else f'{p} ++ {text}'
        return f'Ok ({text})'
    err(e, 'return value not recognised')


def returns(stmts):
    """every path through stmts ends in a return"""
    if not stmts:
        return False
    s = stmts[-1]
    if isinstance(s, ast.Return):
        return True
    return isinstance(s, ast.If) and returns(s.body) and returns(s.orelse)


def block(stmts, nats, zs, ind='  '):
    if not stmts:
        raise TranslatorError(f'{PATH}: a path without return')
    s, rest = stmts[0], stmts[1:]
    if isinstance(s, ast.Return):
        if rest:
            err(s, 'statements after return')
        return ret(s.value, nats, zs)
    if isinstance(s, ast.Assign) and len(s.targets) == 1 and isinstance(s.targets[0], ast.Name):
        name, v = s.targets[0].id, s.value
        if src(v) == 'min(ring)':
            return f'match list_min ring with\n{ind}| None => Err ValueError\n{ind}| Some {name} =>\n{ind}  ' + block(rest, nats, zs | {name}, ind + '  ') + f'\n{ind}end'
        if isinstance(v, ast.Call) and src(v.func) == 'ring.index' and len(v.args) == 1 and isinstance(v.args[0], ast.Name) and v.args[0].id in zs:
            return (f'match index_nat {v.args[0].id} ring with\n{ind}| None => Err ValueError\n{ind}| Some {name} =>\n{ind}  '
                    + block(rest, nats | {name}, zs, ind + '  ') + f'\n{ind}end')
        err(s, 'assignment not recognised')
    if isinstance(s, ast.If):
        if not returns(s.body):
            err(s, 'an if body that does not return is not supported')
        other = s.orelse + rest          # the body always returns: what follows the statement continues the else part
        kind, t = test(s.test, nats)
        a, b2 = block(s.body, nats, zs, ind + '  '), block(other, nats, zs, ind + '  ')
        if kind == 'bool':
            return f'if {t} then\n{ind}  {a}\n{ind}else\n{ind}  {b2}'
        return f'match {t} with\n{ind}| Err e => Err e\n{ind}| Ok true => {a}\n{ind}| Ok false => {b2}\n{ind}end'
    err(s, 'statement not recognised')


def main(repo='/repo', dest=None):
    dest = dest or gen_path('RingsCanonBody.v')
    tree = ast.parse(open(os.path.join(repo, PATH)).read())
    fns = {n.name: n for n in tree.body if isinstance(n, ast.FunctionDef)}
    for name in ('_canonic_ring', '_ring_scissors'):
        if name not in fns:
            raise TranslatorError(f'{PATH}: {name} not found')
    c, sc = fns['_canonic_ring'], fns['_ring_scissors']
    if [a.arg for a in c.args.args] != ['ring'] or [a.arg for a in sc.args.args] != ['ring', 'n', 'm']:
        err(c, 'signatures')
    text = (f'(* GENERATED by tools/gen_ringscanon.py from {PATH}: _canonic_ring (lines {c.lineno}-{c.end_lineno}) and _ring_scissors '
            f'(lines {sc.lineno}-{sc.end_lineno}) -- do not edit. *)\n'
            'From Coq Require Import ZArith List Bool.\nFrom Model Require Import PyBase Graph Rings.\nImport ListNotations.\nOpen Scope Z_scope.\n\n'
            'Definition gen_canonic_ring (ring : list Z) : pyres (list Z) :=\n  ' + block(c.body, set(), set()) + '.\n\n'
            'Definition gen_ring_scissors (ring : list Z) (n m : Z) : pyres (list Z) :=\n  ' + block(sc.body, set(), {'n', 'm'}) + '.\n')
    write_if_changed(dest, text)
    return True


if __name__ == '__main__':
    print(main(*sys.argv[1:]))
