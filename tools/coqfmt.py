"""Helpers that turn Python values into Coq source text (used by every translator and by the
correspondence runners).  Nothing here interprets chython; it only prints literals."""
import os


def z(n):
    n = int(n)
    return f'({n})%Z' if n < 0 else f'{n}%Z'


def zraw(n):
    n = int(n)
    return f'({n})' if n < 0 else f'{n}'


def nat(n):
    assert 0 <= n < 5000, n
    return f'{int(n)}%nat'


def b(v):
    return 'true' if v else 'false'


def s(text):
    assert all(32 <= ord(c) < 127 for c in text), repr(text)
    return '"' + text.replace('"', '""') + '"%string'


def opt(v, f):
    return 'None' if v is None else f'(Some {f(v)})'


def lst(items, f=lambda x: x, per_line=0):
    items = [f(i) for i in items]
    if per_line and len(items) > per_line:
        rows = ['; '.join(items[i:i + per_line]) for i in range(0, len(items), per_line)]
        return '[' + ';\n   '.join(rows) + ']'
    return '[' + '; '.join(items) + ']'


def tup(*items):
    return '(' + ', '.join(items) + ')'


def write_if_changed(path, text):
    """Rewrite only on change, so that make stays incremental."""
    try:
        with open(path) as f:
            if f.read() == text:
                return False
    except FileNotFoundError:
        pass
    os.makedirs(os.path.dirname(path), exist_ok=True)
    tmp = path + '.tmp%d' % os.getpid()
    with open(tmp, 'w') as f:
        f.write(text)
    os.replace(tmp, path)
    return True


def gen_path(name):
    """where generated Coq files go: <coq dir>/gen/<name>; the coq dir is /verif/coq unless VERIF_COQ says otherwise
    (private copy used when a check runs against a scratch copy of the repository)"""
    return os.path.join(os.environ.get('VERIF_COQ') or os.path.join(os.path.dirname(os.path.dirname(os.path.abspath(__file__))), 'coq'), 'gen', name)


class TranslatorError(Exception):
    """Fail closed: the source has a shape the translator does not recognise."""
