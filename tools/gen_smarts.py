"""Translator (C08): the literals of the SMARTS path -> coq/gen/SmartsTables.v

  chython/files/daylight/tokenize.py
      iso_re, chg_re, mpp_re, str_re = compile(r'...')          pattern texts (the hand-written scanners of Model.Query
                                                                are for exactly these; pinned by theorem)
      charge_dict, replace_dict, not_dict                       module level dict displays
      _tokenize: the `token_type not in (...)` tuple of the '!' branch, the `tokens[-1][0] not in (...)` tuple of the
                 ring-mark branch, the token types tested after the loop
      _query_parse: the string literals `p` is compared with (a, A, !R, M), the tuple of primitive letters
                    `(t := p[0][0]) not in (...)`, and the (letter, key) pairs of the final if-chain
  chython/periodictable/base/query.py
      _validate, Query.hybridization.setter, ExtendedQuery.ring_sizes.setter, ExtendedQuery.charge.setter:
      the (operator, constant) pairs of their range tests
  chython/files/daylight/smarts.py
      cx_radicals = compile(r'...')                              pattern text
  chython/containers/bonds.py
      QueryBond.__init__: the tuple of allowed orders

Reads the Python AST only; fails closed (TranslatorError) on any other shape."""
import ast
import os
import sys

sys.path.insert(0, os.path.dirname(__file__))
from coqfmt import *  # noqa
from gen_tokens import cs, module_assign, literal_dict, compiled_pattern, function


def parse(repo, rel):
    path = os.path.join(repo, rel)
    try:
        return ast.parse(open(path).read()), rel
    except (OSError, SyntaxError) as e:
        raise TranslatorError(f'{rel}: {e}')


def const_tuple(node, kind, where):
    try:
        v = ast.literal_eval(node)
    except Exception:
        raise TranslatorError(f'{where}: not a literal tuple')
    if type(v) is not tuple or not all(type(x) is kind for x in v):
        raise TranslatorError(f'{where}: not a tuple of {kind.__name__}: {v!r}')
    return list(v)


def range_tests(fn, where):
    """(operator, constant) pairs of all comparisons of a name with an int constant, sorted and de-duplicated"""
    out = set()
    for node in ast.walk(fn):
        if isinstance(node, ast.Compare) and len(node.ops) == 1 and isinstance(node.left, ast.Name):
            c = node.comparators[0]
            try:
                v = ast.literal_eval(c)
            except Exception:
                continue
            if type(v) is int:
                out.add((type(node.ops[0]).__name__, v))
    if not out:
        raise TranslatorError(f'{where}: no range test found')
    return sorted(out)


def method(tree, cls, name, path, setter=False):
    for node in tree.body:
        if isinstance(node, ast.ClassDef) and node.name == cls:
            for f in node.body:
                if isinstance(f, ast.FunctionDef) and f.name == name:
                    is_setter = any(isinstance(d, ast.Attribute) and d.attr == 'setter' for d in f.decorator_list)
                    if is_setter == setter:
                        return f
    raise TranslatorError(f'{path}: {cls}.{name} not found')


def main(repo='/repo', dest=None):
    tk, p_tk = parse(repo, 'chython/files/daylight/tokenize.py')
    pats = [(n, compiled_pattern(module_assign(tk, n, p_tk), p_tk, n)) for n in ('iso_re', 'chg_re', 'mpp_re', 'str_re')]
    charge = literal_dict(module_assign(tk, 'charge_dict', p_tk), p_tk, 'charge_dict', str, int)
    repl = literal_dict(module_assign(tk, 'replace_dict', p_tk), p_tk, 'replace_dict', str, int)
    notd = literal_dict(module_assign(tk, 'not_dict', p_tk), p_tk, 'not_dict', str, list)

    tok = function(tk, '_tokenize', p_tk)
    notin = [n for n in ast.walk(tok) if isinstance(n, ast.Compare) and len(n.ops) == 1 and isinstance(n.ops[0], ast.NotIn)
             and isinstance(n.left, ast.Name) and n.left.id == 'token_type']
    if len(notin) != 1:
        raise TranslatorError(f'{p_tk}: expected exactly one `token_type not in (...)` in _tokenize, found {len(notin)}')
    not_after = const_tuple(notin[0].comparators[0], int, f'{p_tk}:{notin[0].lineno}')
    sub_notin = [n for n in ast.walk(tok) if isinstance(n, ast.Compare) and len(n.ops) == 1 and isinstance(n.ops[0], ast.NotIn)
                 and isinstance(n.left, ast.Subscript) and isinstance(n.comparators[0], ast.Tuple)]
    if len(sub_notin) != 1:
        raise TranslatorError(f'{p_tk}: expected exactly one `tokens[-1][0] not in (...)` in _tokenize, found {len(sub_notin)}')
    ring_after = const_tuple(sub_notin[0].comparators[0], int, f'{p_tk}:{sub_notin[0].lineno}')
    # the final checks of _tokenize: token types tested after the loop, in source order
    after = [n for n in tok.body if isinstance(n, ast.If)]
    if not after:
        raise TranslatorError(f'{p_tk}: no final if-chain in _tokenize')
    final_types = []
    node = after[-1]
    while True:
        t = node.test
        if (isinstance(t, ast.Compare) and isinstance(t.left, ast.Name) and t.left.id == 'token_type' and len(t.ops) == 1
                and isinstance(t.ops[0], ast.Eq) and isinstance(t.comparators[0], ast.Constant)):
            raises = [type(s).__name__ == 'Raise' and getattr(getattr(s.exc, 'func', None), 'id', '?') for s in node.body]
            final_types.append((t.comparators[0].value, raises[0] if len(raises) == 1 and raises[0] else '-'))
        elif isinstance(t, ast.Name) and t.id == 'token':
            final_types.append((-1, '-'))
        else:
            raise TranslatorError(f'{p_tk}:{node.lineno}: unrecognised final test of _tokenize')
        if len(node.orelse) == 1 and isinstance(node.orelse[0], ast.If):
            node = node.orelse[0]
        elif not node.orelse:
            break
        else:
            raise TranslatorError(f'{p_tk}:{node.lineno}: unrecognised else branch in the final tests of _tokenize')

    qp = function(tk, '_query_parse', p_tk)
    keywords = []
    letters = None
    keymap = []
    for n in ast.walk(qp):
        if isinstance(n, ast.Compare) and len(n.ops) == 1:
            c = n.comparators[0]
            if isinstance(n.left, ast.Name) and n.left.id == 'p' and isinstance(n.ops[0], ast.Eq) and isinstance(c, ast.Constant) \
                    and type(c.value) is str:
                keywords.append((n.lineno, c.value))
            elif isinstance(n.ops[0], ast.NotIn) and isinstance(n.left, ast.NamedExpr):
                if letters is not None:
                    raise TranslatorError(f'{p_tk}:{n.lineno}: two primitive letter tuples in _query_parse')
                letters = const_tuple(c, str, f'{p_tk}:{n.lineno}')
    if letters is None or any(len(x) != 1 for x in letters):
        raise TranslatorError(f'{p_tk}: primitive letter tuple of _query_parse not found')
    keywords = [k for _, k in sorted(keywords)]
    # `if t == 'D': out['neighbors'] = p ... else: out['hybridization'] = p`
    for n in ast.walk(qp):
        if isinstance(n, ast.If) and isinstance(n.test, ast.Compare) and isinstance(n.test.left, ast.Name) and n.test.left.id == 't':
            c = n.test.comparators[0]
            if not (isinstance(n.test.ops[0], ast.Eq) and isinstance(c, ast.Constant) and len(n.body) == 1
                    and isinstance(n.body[0], ast.Assign) and isinstance(n.body[0].targets[0], ast.Subscript)):
                raise TranslatorError(f'{p_tk}:{n.lineno}: unrecognised primitive dispatch')
            keymap.append((n.lineno, c.value, ast.literal_eval(n.body[0].targets[0].slice)))
            if n.orelse and not isinstance(n.orelse[0], ast.If):
                if not (len(n.orelse) == 1 and isinstance(n.orelse[0], ast.Assign)):
                    raise TranslatorError(f'{p_tk}:{n.lineno}: unrecognised primitive dispatch (else)')
                keymap.append((n.lineno + 1000, '*', ast.literal_eval(n.orelse[0].targets[0].slice)))
    keymap = [(a, b) for _, a, b in sorted(keymap)]
    if not keymap:
        raise TranslatorError(f'{p_tk}: primitive dispatch of _query_parse not found')

    q, p_q = parse(repo, 'chython/periodictable/base/query.py')
    r_validate = range_tests(function(q, '_validate', p_q), p_q + ':_validate')
    r_hyb = range_tests(method(q, 'Query', 'hybridization', p_q, True), p_q + ':hybridization')
    r_ring = range_tests(method(q, 'ExtendedQuery', 'ring_sizes', p_q, True), p_q + ':ring_sizes')
    r_chg = range_tests(method(q, 'ExtendedQuery', 'charge', p_q, True), p_q + ':charge')

    def guards(fn):
        """the tests of the top-level if / elif chain of a function, as normalised source text"""
        chain = [n for n in fn.body if isinstance(n, ast.If)]
        if len(chain) != 1:
            raise TranslatorError(f'{p_q}:{fn.lineno}: expected one if-chain in {fn.name}')
        out, node = [], chain[0]
        while True:
            out.append(ast.unparse(node.test))
            if len(node.orelse) == 1 and isinstance(node.orelse[0], ast.If):
                node = node.orelse[0]
            else:
                break
        return out
    g_validate = guards(function(q, '_validate', p_q))
    g_hyb = guards(method(q, 'Query', 'hybridization', p_q, True))
    g_ring = guards(method(q, 'ExtendedQuery', 'ring_sizes', p_q, True))

    sm, p_sm = parse(repo, 'chython/files/daylight/smarts.py')
    cx_src = compiled_pattern(module_assign(sm, 'cx_radicals', p_sm), p_sm, 'cx_radicals')
    # ---- smarts(): the tests of every if in source order and the calls that build a QueryBond
    smf = function(sm, 'smarts', p_sm)
    def if_tests_deep(fn):
        out = []
        def visit(stmts):
            for st in stmts:
                if isinstance(st, ast.If):
                    out.append(ast.unparse(st.test))
                for fld in ('body', 'orelse', 'handlers', 'finalbody'):
                    sub = getattr(st, fld, None)
                    if isinstance(sub, list):
                        visit([x for x in sub if isinstance(x, ast.stmt)] + [y for x in sub if isinstance(x, ast.ExceptHandler) for y in x.body])
        visit(fn.body)
        return out
    smarts_tests = if_tests_deep(smf)
    smarts_qb_calls = [ast.unparse(n) for n in ast.walk(smf) if isinstance(n, ast.Call) and getattr(n.func, 'id', None) == 'QueryBond']
    smarts_raises = sorted({ast.unparse(n.exc.func) for n in ast.walk(smf) if isinstance(n, ast.Raise) and isinstance(n.exc, ast.Call)})
    if not smarts_tests or not smarts_qb_calls:
        raise TranslatorError(f'{p_sm}: smarts(): no if tests / no QueryBond call found')

    # ---- branch order of the comparison methods, of calc_labels and of from_symbol / from_atom: the tests of every `if` / `elif`
    #      in source order (pre-order), as normalised source text, and the right-hand sides assigned to `hybridization`
    def if_tests(fn):
        out = []
        def visit(stmts):
            for st in stmts:
                if isinstance(st, ast.If):
                    out.append(ast.unparse(st.test))
                    visit(st.body)
                    visit(st.orelse)
                elif isinstance(st, (ast.For, ast.While, ast.With, ast.Try)):
                    visit(st.body)
                    visit(getattr(st, 'orelse', []))
        visit(fn.body)
        if not out:
            raise TranslatorError(f'{fn.name}: no if statement found')
        return out
    eq_tests = [(c, if_tests(method(q, c, '__eq__', p_q))) for c in ('QueryElement', 'AnyElement', 'ListElement', 'AnyMetal')]
    sym_tests = if_tests(method(q, 'QueryElement', 'from_symbol', p_q))
    fa = method(q, 'QueryElement', 'from_atom', p_q)
    fa_tests = if_tests(fa)
    fa_assign = [ast.unparse(n) for n in ast.walk(fa) if isinstance(n, ast.Assign) and isinstance(n.targets[0], ast.Attribute)
                 and getattr(n.targets[0].value, 'id', None) == 'query']
    fa_assign = sorted(fa_assign)
    bd0, p_bd0 = parse(repo, 'chython/containers/bonds.py')
    qb_tests = if_tests(method(bd0, 'QueryBond', '__eq__', p_bd0))
    mc, p_mc = parse(repo, 'chython/containers/molecule.py')
    cl = method(mc, 'MoleculeContainer', 'calc_labels', p_mc)
    cl_tests = if_tests(cl)
    cl_hyb = []
    def hyb_assigns(stmts):
        for st in stmts:
            if isinstance(st, ast.Assign) and getattr(st.targets[0], 'id', None) == 'hybridization':
                cl_hyb.append(ast.unparse(st.value))
            for fld in ('body', 'orelse'):
                if hasattr(st, fld) and isinstance(getattr(st, fld), list):
                    hyb_assigns(getattr(st, fld))
    hyb_assigns(cl.body)

    bd, p_bd = parse(repo, 'chython/containers/bonds.py')
    init = method(bd, 'QueryBond', '__init__', p_bd)
    tuples = set()
    for n in ast.walk(init):
        if isinstance(n, ast.Compare) and len(n.ops) == 1 and isinstance(n.ops[0], ast.NotIn):
            tuples.add(tuple(const_tuple(n.comparators[0], int, f'{p_bd}:{n.lineno}')))
    if len(tuples) != 1:
        raise TranslatorError(f'{p_bd}: QueryBond.__init__: expected one tuple of allowed orders, found {sorted(tuples)}')
    orders = list(tuples.pop())

    def tests(xs):
        return lst([tup(cs(o), zraw(v)) for o, v in xs])

    text = '\n'.join([
        '(* GENERATED by tools/gen_smarts.py from chython/files/daylight/tokenize.py, chython/periodictable/base/query.py',
        '   and chython/containers/bonds.py.  Do not edit. *)',
        'From Coq Require Import ZArith List String.',
        'Import ListNotations.',
        'Open Scope Z_scope.',
        '',
        '(* pattern texts of the four scans of _query_parse *)',
    ] + [f'Definition {n}_src : string := {cs(v)}.' for n, v in pats] + [
        '(* dict displays in source order *)',
        f'Definition st_charge_dict : list (string * Z) :=\n  {lst([tup(cs(k), zraw(v)) for k, v in charge], per_line=6)}.',
        f'Definition st_replace_dict : list (string * Z) := {lst([tup(cs(k), zraw(v)) for k, v in repl])}.',
        f'Definition st_not_dict : list (string * list Z) := {lst([tup(cs(k), lst(v, zraw)) for k, v in notd])}.',
        "(* token types after which a '!' may start a not-bond *)",
        f'Definition not_bond_after : list Z := {lst(not_after, zraw)}.',
        "(* token types a ring mark ;@ / ;!@ may follow *)",
        f'Definition ring_mark_after : list Z := {lst(ring_after, zraw)}.',
        '(* the tests after the loop of _tokenize: (token type, exception raised or "-"); -1 = `elif token` *)',
        f'Definition final_tests : list (Z * string) := {lst([tup(zraw(a), cs(b)) for a, b in final_types])}.',
        '(* _query_parse: whole-primitive keywords in source order, letters of valued primitives, letter -> key *)',
        f'Definition prim_keywords : list string := {lst(keywords, cs)}.',
        f'Definition prim_letters : list string := {lst(letters, cs)}.',
        f'Definition prim_keys : list (string * string) := {lst([tup(cs(a), cs(b)) for a, b in keymap])}.',
        '(* (operator, constant) pairs of the range tests of the query attribute setters *)',
        f'Definition validate_tests : list (string * Z) := {tests(r_validate)}.',
        f'Definition hybridization_tests : list (string * Z) := {tests(r_hyb)}.',
        f'Definition ring_sizes_tests : list (string * Z) := {tests(r_ring)}.',
        f'Definition charge_tests : list (string * Z) := {tests(r_chg)}.',
        '(* the type dispatch (if / elif tests) of _validate and of the hybridization / ring_sizes setters *)',
        f'Definition validate_guards : list string := {lst(g_validate, cs)}.',
        f'Definition hybridization_guards : list string := {lst(g_hyb, cs)}.',
        f'Definition ring_sizes_guards : list string := {lst(g_ring, cs)}.',
        '(* smarts.py: pattern text of the CXSMARTS radical block *)',
        f'Definition smarts_cx_radicals_src : string := {cs(cx_src)}.',
        '(* the tests of every if / elif of the comparison methods, in source order *)',
    ] + [f'Definition eq_tests_{c} : list string := {lst(t, cs, per_line=3)}.' for c, t in eq_tests] + [
        f'Definition eq_tests_QueryBond : list string := {lst(qb_tests, cs, per_line=3)}.',
        '(* QueryElement.from_symbol / from_atom: tests in source order, assignments to the query (sorted) *)',
        f'Definition from_symbol_tests : list string := {lst(sym_tests, cs)}.',
        f'Definition from_atom_tests : list string := {lst(fa_tests, cs, per_line=3)}.',
        f'Definition from_atom_assigns : list string := {lst(fa_assign, cs, per_line=2)}.',
        '(* MoleculeContainer.calc_labels: tests in source order and the values assigned to `hybridization` *)',
        f'Definition calc_labels_tests : list string := {lst(cl_tests, cs, per_line=3)}.',
        f'Definition calc_labels_hyb_values : list string := {lst(cl_hyb, cs)}.',
        '(* smarts(): tests of every if in source order, the QueryBond(...) calls, the exception classes it raises itself *)',
        f'Definition smarts_fn_tests : list string := {lst(smarts_tests, cs, per_line=1)}.',
        f'Definition smarts_qb_calls : list string := {lst(smarts_qb_calls, cs)}.',
        f'Definition smarts_raises : list string := {lst(smarts_raises, cs)}.',
        '(* QueryBond: allowed orders *)',
        f'Definition qbond_orders : list Z := {lst(orders, zraw)}.',
        ''])
    write_if_changed(dest or gen_path('SmartsTables.v'), text)


if __name__ == '__main__':
    main(*sys.argv[1:])
