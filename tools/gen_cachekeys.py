"""Translator (C19): what the memoisation layer of chython keeps and cross-stores, read from the Python AST (fail closed).

  chython/containers/molecule.py   MoleculeContainer.flush_cache : the key tuple kept under keep_sssr, the key kept under
                                   keep_components;  MoleculeContainer.copy : the same two lists as copied into the copy
  chython/algorithms/smiles.py     class Smiles: every `self.__dict__['<key>'] = ...` (method, key) - the entries a read stores
                                   besides its own memo entry
  chython/algorithms/isomorphism.py  the ring-size mask loops of _cython_compiled_structure / _cython_compiled_query:
                                   `if r > LIMIT: continue`, `v4 |= 1 << (BASE - r)`, `if not v4: v4 = FREE`
  every audited file               every call `<x>.flush_cache(keep_...=...)`: (file, function, keyword text) - the partial flushes

-> coq/gen/CacheKeys.v.  Proofs.DeterminismKeepProofs compares each generated value with the constant the hand-written
model / the check uses (a source edit breaks a named theorem)."""
import ast
import os
import sys

sys.path.insert(0, os.path.dirname(__file__))
from coqfmt import *  # noqa
import gen_setaudit


def find_method(tree, cls, name, path):
    for node in tree.body:
        if isinstance(node, ast.ClassDef) and node.name == cls:
            for sub in node.body:
                if isinstance(sub, ast.FunctionDef) and sub.name == name:
                    return sub
    raise TranslatorError(f'{path}: {cls}.{name} not found')


def kept_lists(fn, path):
    """the two `if keep_sssr:` / `if keep_components:` blocks of flush_cache / copy"""
    out = {}
    for node in fn.body:
        if isinstance(node, ast.If) and isinstance(node.test, ast.Name) and node.test.id in ('keep_sssr', 'keep_components'):
            keys = []
            for sub in ast.walk(node):
                # k in ('a', 'b', ...)
                if isinstance(sub, ast.Compare) and len(sub.ops) == 1 and isinstance(sub.ops[0], ast.In) and \
                        isinstance(sub.comparators[0], ast.Tuple) and isinstance(sub.left, ast.Name):
                    keys += [ast.literal_eval(e) for e in sub.comparators[0].elts]
                # 'key' in self.__dict__
                if isinstance(sub, ast.Compare) and len(sub.ops) == 1 and isinstance(sub.ops[0], ast.In) and \
                        isinstance(sub.left, ast.Constant) and isinstance(sub.left.value, str):
                    keys.append(sub.left.value)
            if not keys or not all(isinstance(k, str) for k in keys):
                raise TranslatorError(f'{path}:{fn.name}: the `if {node.test.id}:` block has an unexpected shape')
            if node.orelse:
                raise TranslatorError(f'{path}:{fn.name}: `if {node.test.id}:` has an else branch')
            out[node.test.id] = keys
    if set(out) != {'keep_sssr', 'keep_components'}:
        raise TranslatorError(f'{path}:{fn.name}: expected exactly the blocks keep_sssr and keep_components, found {sorted(out)}')
    return out


def cross_stores(tree, path):
    out = []
    for node in tree.body:
        if isinstance(node, ast.ClassDef) and node.name == 'Smiles':
            for fn in node.body:
                if not isinstance(fn, ast.FunctionDef):
                    continue
                stores = []
                for sub in ast.walk(fn):
                    if isinstance(sub, ast.Assign):
                        for tg in sub.targets:
                            if isinstance(tg, ast.Subscript) and ast.unparse(tg.value) == 'self.__dict__':
                                if not (isinstance(tg.slice, ast.Constant) and isinstance(tg.slice.value, str)):
                                    raise TranslatorError(f'{path}:{fn.name}: store into self.__dict__ with a computed key')
                                stores.append((sub.lineno, fn.name, tg.slice.value))
                out += [(f, k) for _, f, k in sorted(stores)]
    if not out:
        raise TranslatorError(f'{path}: no self.__dict__[...] store found in class Smiles')
    return out


def ring_mask_consts(fn, path):
    """for r in a.ring_sizes: if r > LIMIT: continue; v4 |= 1 << (BASE - r)   ...   if not v4: v4 = FREE"""
    for node in ast.walk(fn):
        if isinstance(node, ast.For) and ast.unparse(node.iter) == 'a.ring_sizes' and ast.unparse(node.target) == 'r':
            if len(node.body) != 2:
                break
            test, upd = node.body
            if not (isinstance(test, ast.If) and ast.unparse(test.test).startswith('r > ') and len(test.body) == 1 and isinstance(test.body[0], ast.Continue)
                    and not test.orelse):
                break
            limit = ast.literal_eval(test.test.comparators[0])
            if not (isinstance(upd, ast.AugAssign) and isinstance(upd.op, ast.BitOr) and ast.unparse(upd.target) == 'v4'):
                break
            v = upd.value
            if not (isinstance(v, ast.BinOp) and isinstance(v.op, ast.LShift) and ast.unparse(v.left) == '1' and isinstance(v.right, ast.BinOp)
                    and isinstance(v.right.op, ast.Sub) and ast.unparse(v.right.right) == 'r'):
                break
            base = ast.literal_eval(v.right.left)
            # the `if not v4: v4 = FREE` that follows the loop (same block)
            free = None
            for sub in ast.walk(fn):
                if isinstance(sub, ast.If) and ast.unparse(sub.test) == 'not v4' and len(sub.body) == 1 and isinstance(sub.body[0], ast.Assign) \
                        and ast.unparse(sub.body[0].targets[0]) == 'v4':
                    free = ast.literal_eval(sub.body[0].value)
            if free is None:
                break
            return int(limit), int(base), int(free)
    raise TranslatorError(f'{path}:{fn.name}: ring-size mask loop not recognised')


def partial_flushes(repo):
    out = []
    for rel in gen_setaudit.FILES:
        tree = ast.parse(open(os.path.join(repo, rel)).read())
        for qual, fn in gen_setaudit.functions(tree):
            todo = list(fn.body)
            while todo:
                n = todo.pop()
                for c in ast.iter_child_nodes(n):
                    if not isinstance(c, (ast.FunctionDef, ast.AsyncFunctionDef, ast.ClassDef)):
                        todo.append(c)
                if isinstance(n, ast.Call) and isinstance(n.func, ast.Attribute) and n.func.attr == 'flush_cache' and n.keywords:
                    out.append((rel, qual, ', '.join(sorted(ast.unparse(k) for k in n.keywords)), n.lineno))
    out.sort(key=lambda x: (x[0], x[3]))
    return [(a, b, c) for a, b, c, _ in out]


def extract(repo='/repo'):
    p_mol = os.path.join(repo, 'chython/containers/molecule.py')
    t_mol = ast.parse(open(p_mol).read())
    flush = kept_lists(find_method(t_mol, 'MoleculeContainer', 'flush_cache', p_mol), p_mol)
    copy = kept_lists(find_method(t_mol, 'MoleculeContainer', 'copy', p_mol), p_mol)
    p_smi = os.path.join(repo, 'chython/algorithms/smiles.py')
    cs = cross_stores(ast.parse(open(p_smi).read()), p_smi)
    p_iso = os.path.join(repo, 'chython/algorithms/isomorphism.py')
    t_iso = ast.parse(open(p_iso).read())
    rm_s = ring_mask_consts(find_method(t_iso, 'MoleculeIsomorphism', '_cython_compiled_structure', p_iso), p_iso)
    rm_q = ring_mask_consts(find_method(t_iso, 'QueryIsomorphism', '_cython_compiled_query', p_iso), p_iso)
    return {'flush': flush, 'copy': copy, 'cross': cs, 'ring_structure': rm_s, 'ring_query': rm_q, 'partial': partial_flushes(repo)}


def main(repo='/repo', dest=None):
    dest = dest or gen_path('CacheKeys.v')
    d = extract(repo)
    out = ['(* GENERATED by tools/gen_cachekeys.py from chython/containers/molecule.py, chython/algorithms/smiles.py,',
           '   chython/algorithms/isomorphism.py and the audited files. Do not edit. *)',
           'From Coq Require Import ZArith List String.', 'Import ListNotations.', 'Open Scope string_scope.', '',
           'Definition flush_keep_sssr : list string := ' + lst(d['flush']['keep_sssr'], s) + '.',
           'Definition flush_keep_components : list string := ' + lst(d['flush']['keep_components'], s) + '.',
           'Definition copy_keep_sssr : list string := ' + lst(d['copy']['keep_sssr'], s) + '.',
           'Definition copy_keep_components : list string := ' + lst(d['copy']['keep_components'], s) + '.',
           '(* (method of class Smiles, key stored into self.__dict__), in source order *)',
           'Definition smiles_cross_stores : list (string * string) := ' + lst([tup(s(f), s(k)) for f, k in d['cross']]) + '.',
           '(* every flush_cache(keep...) call of the audited files: (file, function, keywords) *)',
           'Definition partial_flush_calls : list (string * string * string) := [',
           ';\n'.join('  ' + tup(s(a), s(b), s(c)) for a, b, c in d['partial']), '].',
           'Close Scope string_scope.', 'Open Scope Z_scope.',
           '(* ring-size mask loop: (limit of `r > limit`, base of `1 << (base - r)`, value of the ring-free mask) *)',
           'Definition ring_mask_structure : Z * Z * Z := ' + tup(*[zraw(x) for x in d['ring_structure']]) + '.',
           'Definition ring_mask_query : Z * Z * Z := ' + tup(*[zraw(x) for x in d['ring_query']]) + '.', '']
    return write_if_changed(dest, '\n'.join(out))


if __name__ == '__main__':
    if len(sys.argv) > 1 and sys.argv[1] == '--print':
        import json
        print(json.dumps(extract(*(sys.argv[2:3] or ['/repo'])), indent=1))
    else:
        main(*sys.argv[1:])
