"""Translator: the two CXSMILES radical loops of chython/files/daylight/smiles.py:smiles() -> coq/gen/RadicalBody.v.

  molecule branch   for x in radicals: if x >= len(record['atoms']): raise ...; record['atoms'][x]['is_radical'] = True
                    -> gen_mol_radical_step
  reaction branch   atom_map = dict(enumerate(a for m in chain(record[..], record[..], record[..]) for a in m['atoms']))
                    -> gen_rxn_atom_table (the roles in the order of the chain)
                    for x in radicals: if x not in atom_map: raise ...; atom_map[x]['is_radical'] = True
                    -> gen_rxn_radical_step

Guards, their comparison operators and operands, the indexing expressions and the order of the roles in the chain are translated;
anything of another shape raises TranslatorError (fail closed). Proofs.RadicalTranslated proves the translated loops equal to
Model.Reader.set_radicals and the table equal to the flattening Model.Reader.read_reaction uses (obligations C03_radicals_translated*)."""
import ast
import os
import sys

sys.path.insert(0, os.path.dirname(__file__))
from coqfmt import *  # noqa

REL = 'chython/files/daylight/smiles.py'
ROLES = ('reactants', 'reagents', 'products')


def is_name(e, name):
    return isinstance(e, ast.Name) and e.id == name


def record_key(e):
    """record['<key>'] -> key"""
    if isinstance(e, ast.Subscript) and is_name(e.value, 'record') and isinstance(e.slice, ast.Constant) and isinstance(e.slice.value, str):
        return e.slice.value
    return None


def main(repo='/repo', dest=None):
    dest = dest or gen_path('RadicalBody.v')
    path = os.path.join(repo, REL)
    tree = ast.parse(open(path).read())
    fn = [n for n in tree.body if isinstance(n, ast.FunctionDef) and n.name == 'smiles']
    if len(fn) != 1:
        raise TranslatorError(f'{path}: function smiles not found')
    fn = fn[0]

    def err(node, what):
        raise TranslatorError(f'{path}:{getattr(node, "lineno", "?")}: {what}: {ast.dump(node)[:200]}')
    loops = [n for n in ast.walk(fn) if isinstance(n, ast.For) and is_name(n.target, 'x') and is_name(n.iter, 'radicals')]
    if len(loops) != 2:
        raise TranslatorError(f'{path}: two loops `for x in radicals:` expected, {len(loops)} found')
    # every statement that marks a radical must be inside one of the two loops
    marks = [n for n in ast.walk(fn) if isinstance(n, ast.Constant) and n.value == 'is_radical']
    inside = [n for lp in loops for n in ast.walk(lp) if isinstance(n, ast.Constant) and n.value == 'is_radical']
    if len(marks) != 2 or len(inside) != 2:
        raise TranslatorError(f"{path}: 'is_radical' is expected exactly once in each of the two loops")
    out = {}
    for lp in loops:
        if lp.orelse or len(lp.body) != 2 or not isinstance(lp.body[0], ast.If) or lp.body[0].orelse or len(lp.body[0].body) != 1:
            err(lp, 'loop body: one guard and one assignment expected')
        guard, assign = lp.body
        r = guard.body[0]
        if not (isinstance(r, ast.Raise) and isinstance(r.exc, ast.Call) and is_name(r.exc.func, 'IncorrectSmiles')):
            err(r, 'raise IncorrectSmiles expected')
        t = guard.test
        if not (isinstance(t, ast.Compare) and is_name(t.left, 'x') and len(t.ops) == 1):
            err(t, 'guard')
        if not (isinstance(assign, ast.Assign) and len(assign.targets) == 1 and isinstance(assign.value, ast.Constant) and assign.value.value is True):
            err(assign, '... = True expected')
        tg = assign.targets[0]
        if not (isinstance(tg, ast.Subscript) and isinstance(tg.slice, ast.Constant) and tg.slice.value == 'is_radical'
                and isinstance(tg.value, ast.Subscript) and is_name(tg.value.slice, 'x')):
            err(tg, "<atoms>[x]['is_radical'] expected")
        container = tg.value.value
        op, c = t.ops[0], t.comparators[0]
        if record_key(container) == 'atoms':
            # molecule branch: the list record['atoms']
            if not (isinstance(c, ast.Call) and is_name(c.func, 'len') and len(c.args) == 1 and record_key(c.args[0]) == 'atoms'):
                err(t, "comparison with len(record['atoms']) expected")
            cmpz = {ast.GtE: '(n <=? x)', ast.Gt: '(n <? x)', ast.Lt: '(x <? n)', ast.LtE: '(x <=? n)', ast.Eq: '(x =? n)'}.get(type(op))
            if cmpz is None:
                err(t, 'comparison operator')
            if 'mol' in out:
                err(lp, 'second molecule-branch loop')
            out['mol'] = f'let n := Z.of_nat (List.length atoms) in\n  if {cmpz} then ISm else list_mark atoms x'
        elif is_name(container, 'atom_map'):
            if not is_name(c, 'atom_map'):
                err(t, 'membership in atom_map expected')
            test = {ast.NotIn: 'negb (enum_has atom_map x)', ast.In: 'enum_has atom_map x'}.get(type(op))
            if test is None:
                err(t, 'membership operator')
            if 'rxn' in out:
                err(lp, 'second reaction-branch loop')
            out['rxn'] = f'if {test} then ISm else enum_mark atom_map x'
        else:
            err(tg, 'container of the marked atom')
    if set(out) != {'mol', 'rxn'}:
        raise TranslatorError(f'{path}: one molecule-branch and one reaction-branch loop expected')
    # atom_map = dict(enumerate(a for m in chain(record[..], ..) for a in m['atoms']))
    tabs = [n for n in ast.walk(fn) if isinstance(n, ast.Assign) and len(n.targets) == 1 and is_name(n.targets[0], 'atom_map')]
    if len(tabs) != 1:
        raise TranslatorError(f'{path}: exactly one assignment to atom_map expected')
    v = tabs[0].value
    if not (isinstance(v, ast.Call) and is_name(v.func, 'dict') and len(v.args) == 1 and not v.keywords and isinstance(v.args[0], ast.Call)
            and is_name(v.args[0].func, 'enumerate') and len(v.args[0].args) == 1 and not v.args[0].keywords
            and isinstance(v.args[0].args[0], ast.GeneratorExp)):
        err(tabs[0], 'dict(enumerate(<generator>)) expected')
    g = v.args[0].args[0]
    gens = g.generators
    if not (is_name(g.elt, 'a') and all(not x.ifs and not x.is_async for x in gens) and is_name(gens[-1].target, 'a')
            and ast.unparse(gens[-1].iter) == "m['atoms']" and is_name(gens[-2].target, 'm')):
        err(g, "`a for m in <molecules> for a in m['atoms']` expected")
    if len(gens) == 2:
        # for m in chain(record['..'], record['..'], record['..'])
        ch = gens[0].iter
        if not (isinstance(ch, ast.Call) and is_name(ch.func, 'chain') and not ch.keywords and ch.args):
            err(ch, 'chain(record[...], ...) expected')
        keys = [record_key(a) for a in ch.args]
    elif len(gens) == 3 and is_name(gens[0].target, 'k') and isinstance(gens[0].iter, ast.Tuple) and ast.unparse(gens[1].iter) == 'record[k]':
        # for k in ('..', '..', '..') for m in record[k]
        keys = [x.value if isinstance(x, ast.Constant) else None for x in gens[0].iter.elts]
    else:
        err(g, 'molecules of the atom table')
    if not keys or any(k not in ROLES for k in keys):
        err(g, 'roles of the atom table')
    table = ' ++ '.join(keys)
    text = f'''(* GENERATED by tools/gen_c03rad.py from {REL}:smiles (the CXSMILES radical loops). Do not edit. *)
From Coq Require Import ZArith List Bool.
From Model Require Import PyBase Tokenize Parser Reader RadicalPrims.
Import ListNotations.
Open Scope Z_scope.

(* molecule branch: the body of `for x in radicals:` (atoms = record['atoms']) *)
Definition gen_mol_radical_step (atoms : list arec) (x : Z) : pyres (list arec) :=
  {out['mol']}.

(* reaction branch: atom_map = dict(enumerate(a for m in chain({', '.join("record['" + k + "']" for k in keys)}) for a in m['atoms']))
   (each argument: the atom lists of the molecules of that role) *)
Definition gen_rxn_atom_table (reactants reagents products : list (list arec)) : list arec :=
  List.concat ({table}).

(* reaction branch: the body of `for x in radicals:` *)
Definition gen_rxn_radical_step (atom_map : list arec) (x : Z) : pyres (list arec) :=
  {out['rxn']}.
'''
    return write_if_changed(dest, text)


if __name__ == '__main__':
    main(*sys.argv[1:])
