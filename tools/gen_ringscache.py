"""Translator for C06: which cached ring / component views survive MoleculeContainer.flush_cache(keep_sssr=, keep_components=) and
MoleculeContainer.copy(keep_sssr=, keep_components=)  (chython/containers/molecule.py)  ->  coq/gen/RingsCacheKeys.v.

The body of flush_cache is translated statement by statement (ast, fail closed) into a Gallina function on the cache seen as an
association list {attribute name: value} in insertion order; of copy() the tail that fills copy.__dict__ is translated.
Recognised statements:  backup = {} | if <flag>: ... | for k, v in self.__dict__.items(): if k in (<string literals>): T[k] = v |
if '<name>' in self.__dict__: T['<name>'] = self.<name> | self.__dict__ = backup.
coq/proofs/RingsCacheTie.v proves what the translated functions keep (exactly the five ring views under keep_sssr, the component
list ONLY under keep_components) and the soundness contract of a partial flush."""
import ast
import os
import sys

sys.path.insert(0, os.path.dirname(__file__))
from coqfmt import *  # noqa

PATH = 'chython/containers/molecule.py'


def err(node, msg):
    raise TranslatorError(f'{PATH}:{getattr(node, "lineno", 0)}: {msg}: `{ast.unparse(node)[:120]}`')


def src(n):
    return ast.unparse(n)


def flag(e, flags):
    if isinstance(e, ast.Name) and e.id in flags:
        return e.id
    if isinstance(e, ast.BoolOp) and isinstance(e.op, (ast.Or, ast.And)):
        return '(' + (' || ' if isinstance(e.op, ast.Or) else ' && ').join(flag(v, flags) for v in e.values) + ')'
    if isinstance(e, ast.UnaryOp) and isinstance(e.op, ast.Not):
        return f'(negb {flag(e.operand, flags)})'
    err(e, 'flag expression not recognised')


def fill(stmts, target, flags):
    """statements that copy entries of self.__dict__ into `target` -> Gallina `let backup := ... in` lines"""
    out = ''
    for st in stmts:
        if isinstance(st, ast.If) and not st.orelse:
            t = st.test
            if isinstance(t, ast.Compare) and len(t.ops) == 1 and isinstance(t.ops[0], ast.In) and src(t.comparators[0]) == 'self.__dict__' \
                    and isinstance(t.left, ast.Constant) and isinstance(t.left.value, str):
                name = t.left.value
                if len(st.body) != 1 or src(st.body[0]) != f'{target}[{name!r}] = self.{name}':
                    err(st, f'`{target}[{name!r}] = self.{name}` expected')
                out += (f'  let backup := match cget cache {s(name)} with Some v => cput backup {s(name)} v | None => backup end in\n')
                continue
            inner = fill(st.body, target, flags)
            out += f'  let backup := if {flag(t, flags)} then (\n  {inner.replace(chr(10), chr(10) + "  ")}backup) else backup in\n'
            continue
        if isinstance(st, ast.For) and src(st.target) == '(k, v)' and src(st.iter) == 'self.__dict__.items()' and not st.orelse and len(st.body) == 1:
            c = st.body[0]
            if isinstance(c, ast.If) and not c.orelse and isinstance(c.test, ast.Compare) and len(c.test.ops) == 1 and isinstance(c.test.ops[0], ast.In) \
                    and src(c.test.left) == 'k' and isinstance(c.test.comparators[0], ast.Tuple) \
                    and all(isinstance(x, ast.Constant) and isinstance(x.value, str) for x in c.test.comparators[0].elts) \
                    and len(c.body) == 1 and src(c.body[0]) == f'{target}[k] = v':
                keys = [x.value for x in c.test.comparators[0].elts]
                out += (f'  let backup := fold_left (fun acc kv => if smem (fst kv) {lst(keys, s)} then cput acc (fst kv) (snd kv) else acc) cache backup in\n')
                continue
        err(st, 'statement not recognised')
    return out


def find(tree, name):
    for node in tree.body:
        if isinstance(node, ast.ClassDef) and node.name == 'MoleculeContainer':
            for f in node.body:
                if isinstance(f, ast.FunctionDef) and f.name == name:
                    return f
    raise TranslatorError(f'{PATH}: MoleculeContainer.{name} not found')


def main(repo='/repo', dest=None):
    dest = dest or gen_path('RingsCacheKeys.v')
    tree = ast.parse(open(os.path.join(repo, PATH)).read())
    fl = find(tree, 'flush_cache')
    if src(fl.args) != 'self, *, keep_sssr=False, keep_components=False':
        err(fl, 'flush_cache: signature')
    body = fl.body
    if src(body[0]) != 'backup = {}' or src(body[-1]) != 'self.__dict__ = backup':
        err(fl, 'flush_cache: `backup = {}` ... `self.__dict__ = backup` expected')
    flags = ('keep_sssr', 'keep_components')
    flush = fill(body[1:-1], 'backup', flags)
    cp = find(tree, 'copy')
    if src(cp.args) != 'self, *, keep_sssr=False, keep_components=False':
        err(cp, 'copy: signature')
    if src(cp.body[0]) != 'copy = super().copy()' or src(cp.body[-1]) != 'return copy':
        err(cp, 'copy: `copy = super().copy()` ... `return copy` expected')
    # the statements that touch copy.__dict__ are the tail of the function; everything before must not mention __dict__
    tail = [st for st in cp.body[1:-1] if '__dict__' in src(st)]
    head = [st for st in cp.body[1:-1] if '__dict__' not in src(st)]
    if cp.body[1:-1] != head + tail:
        err(cp, 'copy: the cache statements are expected at the end')
    copy = fill(tail, 'copy.__dict__', flags)
    text = (f'(* GENERATED by tools/gen_ringscache.py from {PATH}: MoleculeContainer.flush_cache (lines {fl.lineno}-{fl.end_lineno}) and the\n'
            f'   cache part of MoleculeContainer.copy (lines {cp.lineno}-{cp.end_lineno}) -- do not edit. *)\n'
            'From Coq Require Import String List Bool.\nImport ListNotations.\nOpen Scope string_scope.\n\n'
            'Section Cache.\nVariable V : Type.\nDefinition cache_t := list (string * V).\n'
            'Fixpoint cget (c : cache_t) (k : string) : option V :=\n  match c with [] => None | (k0, v) :: t => if String.eqb k0 k then Some v else cget t k end.\n'
            'Fixpoint cput (c : cache_t) (k : string) (v : V) : cache_t :=\n  match c with [] => [(k, v)] | (k0, v0) :: t => if String.eqb k0 k then (k0, v) :: t else (k0, v0) :: cput t k v end.\n'
            'Definition smem (k : string) (l : list string) : bool := existsb (String.eqb k) l.\n\n'
            '(* self.__dict__ after flush_cache(keep_sssr=..., keep_components=...) *)\n'
            'Definition gen_flush_cache (keep_sssr keep_components : bool) (cache : cache_t) : cache_t :=\n  let backup : cache_t := [] in\n'
            f'{flush}  backup.\n\n'
            '(* copy.__dict__ after copy(keep_sssr=..., keep_components=...)  (super().copy() starts with an empty cache) *)\n'
            'Definition gen_copy_cache (keep_sssr keep_components : bool) (cache : cache_t) : cache_t :=\n  let backup : cache_t := [] in\n'
            f'{copy}  backup.\nEnd Cache.\n')
    write_if_changed(dest, text)
    return True


if __name__ == '__main__':
    print(main(*sys.argv[1:]))
