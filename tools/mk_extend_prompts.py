#!/usr/bin/env python3
"""usage: mk_extend_prompts.py <round> <deadline HH:MM> <wave-map seeded/_waveN.json> [Cxx ...]  -> .prompts/extend<round>/Cxx.txt"""
import json, os, sys
V = os.path.dirname(os.path.dirname(os.path.abspath(__file__)))
rnd, deadline, wmap = sys.argv[1:4]
only = sys.argv[4:]
common = open(os.path.join(V, f'.prompts/extend{rnd}/common.txt')).read()
names = sorted(v for v in json.load(open(os.path.join(V, wmap))).values() if v != 'REJECTED')
for i in range(1, 21):
    pid = f'C{i:02d}'
    if only and pid not in only:
        continue
    lines = []
    for n in names:
        if not n.startswith(pid + '-'):
            continue
        rp = os.path.join(V, 'seeded', n, 'result.json')
        meta = json.load(open(os.path.join(V, 'seeded', n, 'meta.json')))
        if os.path.exists(rp):
            r = json.load(open(rp))
            st = ('CAUGHT (' + str(r.get('kind')) + ')') if r.get('caught') else 'MISSED'
        else:
            st = 'NOT RUN YET (run it yourself: python3 /verif/tools/run_seeded.py ' + n + ')'
        lines.append(f'  - /verif/seeded/{n}: {st} - {meta["summary"][:300]}')
    txt = common.replace('{ID}', pid).replace('{DEADLINE}', deadline).replace('{SEEDS}', '\n'.join(lines) or '  (none)')
    open(os.path.join(V, f'.prompts/extend{rnd}/{pid}.txt'), 'w').write(txt)
    print(pid, len(lines))
