"""Translator: the constants and test shapes of chython/algorithms/stereo.py and chython/periodictable/base/element.py that the
hand-written C20 models (coq/model/Rdkit.v, coq/model/RdkitRegistry.v) copy -> coq/gen/RdkitConsts.v

  stereo.py   module constants            H = 1, C = 6                                   -> stereo_H stereo_C : Z
              MoleculeStereo.tetrahedrons  `if sum(int(b) for b in env.values()) > 4`     -> tetra_max_bonds : Z        (op must be >)
                                           `all(b == 1 for b in env.values())`             -> tetra_bond_order : Z
                                           `atom == C and not atom.charge and not atom.is_radical`   (shape checked)
              stereogenic_tetrahedrons     `if len(env) in (3, 4)`                         -> tetra_env_sizes : list Z
                                           `atoms[x] != H`, `is_forming_single_bonds`      (shape checked)
              __chiral_centers             `any(len(x) < 8 for x in atoms_rings[n])`       -> ring_small_below : Z      (op must be <)
              __differentiation            `min(n1, n2, key=morgan.get)` (four choices of a reference substituent; shape checked)
              _chiral_morgan               `if not stereo_atoms and not stereo_bonds: return self.atoms_order`
                                                                                           -> plain_order_negated : bool * bool (both True)
  element.py  charge.setter                `elif value > 4 or value < -4: raise ValueError` -> charge_max charge_min : Z

Python `ast` only; fails closed (TranslatorError) on any other shape."""
import ast
import os
import sys

sys.path.insert(0, os.path.dirname(__file__))
from coqfmt import *  # noqa


def _fail(path, node, what):
    raise TranslatorError(f'{path}:{getattr(node, "lineno", "?")}: {what}')


def _func(cls, name, path, setter=False):
    found = []
    for node in cls.body:
        if isinstance(node, ast.FunctionDef) and node.name == name:
            is_setter = any(isinstance(d, ast.Attribute) and d.attr == 'setter' for d in node.decorator_list)
            if is_setter == setter:
                found.append(node)
    if len(found) != 1:
        raise TranslatorError(f'{path}: expected exactly one {"setter " if setter else ""}{name} in class {cls.name}, found {len(found)}')
    return found[0]


def _class(tree, name, path):
    found = [n for n in tree.body if isinstance(n, ast.ClassDef) and n.name == name]
    if len(found) != 1:
        raise TranslatorError(f'{path}: expected exactly one class {name}')
    return found[0]


def _int(node, path, what):
    if isinstance(node, ast.UnaryOp) and isinstance(node.op, ast.USub) and isinstance(node.operand, ast.Constant) and type(node.operand.value) is int:
        return -node.operand.value
    if not (isinstance(node, ast.Constant) and type(node.value) is int):
        _fail(path, node, f'{what}: expected an int literal')
    return node.value


def _module_const(tree, name, path):
    found = [n for n in tree.body if isinstance(n, ast.Assign) and len(n.targets) == 1 and getattr(n.targets[0], 'id', None) == name]
    if len(found) != 1:
        raise TranslatorError(f'{path}: expected exactly one module-level assignment of {name}')
    for node in ast.walk(tree):          # never rebound
        if isinstance(node, (ast.Assign, ast.AugAssign, ast.AnnAssign)) and node not in found:
            tg = node.targets if isinstance(node, ast.Assign) else [node.target]
            if any(getattr(x, 'id', None) == name for x in tg):
                _fail(path, node, f'{name} is rebound')
    return _int(found[0].value, path, name)


def _compares(fn):
    return [n for n in ast.walk(fn) if isinstance(n, ast.Compare)]


def _is_name(node, name):
    return isinstance(node, ast.Name) and node.id == name


def consts(repo='/repo'):
    out = {}
    path = os.path.join(repo, 'chython/algorithms/stereo.py')
    tree = ast.parse(open(path).read())
    out['stereo_H'] = _module_const(tree, 'H', path)
    out['stereo_C'] = _module_const(tree, 'C', path)
    cls = _class(tree, 'MoleculeStereo', path)

    # ---- tetrahedrons
    fn = _func(cls, 'tetrahedrons', path)
    cmps = _compares(fn)
    # atom == C
    if not any(len(c.ops) == 1 and isinstance(c.ops[0], ast.Eq) and _is_name(c.left, 'atom') and _is_name(c.comparators[0], 'C') for c in cmps):
        _fail(path, fn, 'tetrahedrons: `atom == C` not found')
    nots = [ast.unparse(n.operand) for n in ast.walk(fn) if isinstance(n, ast.UnaryOp) and isinstance(n.op, ast.Not)]
    if sorted(nots) != ['atom.charge', 'atom.is_radical']:
        _fail(path, fn, f'tetrahedrons: expected `not atom.charge and not atom.is_radical`, found negations of {nots}')
    eq1 = [c for c in cmps if len(c.ops) == 1 and isinstance(c.ops[0], ast.Eq) and _is_name(c.left, 'b')]
    if len(eq1) != 1:
        _fail(path, fn, 'tetrahedrons: expected one `b == <order>` test')
    out['tetra_bond_order'] = _int(eq1[0].comparators[0], path, 'tetrahedrons bond order')
    gt = [c for c in cmps if len(c.ops) == 1 and isinstance(c.ops[0], (ast.Gt, ast.GtE, ast.Lt, ast.LtE)) and isinstance(c.left, ast.Call) and getattr(c.left.func, 'id', None) == 'sum']
    if len(gt) != 1 or not isinstance(gt[0].ops[0], ast.Gt):
        _fail(path, fn, 'tetrahedrons: expected exactly `sum(...) > <n>`')
    out['tetra_max_bonds'] = _int(gt[0].comparators[0], path, 'tetrahedrons valence bound')
    if len(cmps) != 3:
        _fail(path, fn, f'tetrahedrons: {len(cmps)} comparisons, expected 3')

    # ---- stereogenic_tetrahedrons
    fn = _func(cls, 'stereogenic_tetrahedrons', path)
    cmps = _compares(fn)
    ins = [c for c in cmps if len(c.ops) == 1 and isinstance(c.ops[0], ast.In) and isinstance(c.left, ast.Call) and getattr(c.left.func, 'id', None) == 'len']
    if len(ins) != 1 or not isinstance(ins[0].comparators[0], (ast.Tuple, ast.List, ast.Set)):
        _fail(path, fn, 'stereogenic_tetrahedrons: expected `len(env) in (...)`')
    out['tetra_env_sizes'] = [_int(e, path, 'env size') for e in ins[0].comparators[0].elts]
    ne = [c for c in cmps if len(c.ops) == 1 and isinstance(c.ops[0], ast.NotEq)]
    if len(ne) != 1 or not _is_name(ne[0].comparators[0], 'H'):
        _fail(path, fn, 'stereogenic_tetrahedrons: expected `atoms[x] != H`')
    if len(cmps) != 2:
        _fail(path, fn, f'stereogenic_tetrahedrons: {len(cmps)} comparisons, expected 2')
    attrs = [n.attr for n in ast.walk(fn) if isinstance(n, ast.Attribute)]
    if attrs.count('is_forming_single_bonds') != 1:
        _fail(path, fn, 'stereogenic_tetrahedrons: expected one use of is_forming_single_bonds')
    anynot = [n for n in ast.walk(fn) if isinstance(n, ast.UnaryOp) and isinstance(n.op, ast.Not)]
    if len(anynot) != 1 or not ast.unparse(anynot[0].operand).endswith('.is_forming_single_bonds'):
        _fail(path, fn, 'stereogenic_tetrahedrons: expected `not atoms[x].is_forming_single_bonds`')

    # ---- __chiral_centers: ring cut-off
    fn = _func(cls, '__chiral_centers', path)
    cut = [c for c in _compares(fn) if len(c.ops) == 1 and isinstance(c.left, ast.Call) and getattr(c.left.func, 'id', None) == 'len'
           and isinstance(c.comparators[0], ast.Constant) and type(c.comparators[0].value) is int and _is_name(c.left.args[0], 'x')]
    if len(cut) != 1 or not isinstance(cut[0].ops[0], ast.Lt):
        _fail(path, fn, f'__chiral_centers: expected exactly one `len(x) < <n>` ring-size test, found {[ast.unparse(c) for c in cut]}')
    out['ring_small_below'] = cut[0].comparators[0].value

    # ---- _chiral_morgan: entry test
    fn = _func(cls, '_chiral_morgan', path)
    ifs = [n for n in fn.body if isinstance(n, ast.If)]
    if not ifs:
        _fail(path, fn, '_chiral_morgan: no top-level if')
    test = ifs[0].test
    ret = ifs[0].body
    if not (len(ret) == 1 and isinstance(ret[0], ast.Return) and ast.unparse(ret[0].value) == 'self.atoms_order' and not ifs[0].orelse):
        _fail(path, ifs[0], '_chiral_morgan: the first if must only `return self.atoms_order`')
    if not (isinstance(test, ast.BoolOp) and isinstance(test.op, ast.And) and len(test.values) == 2):
        _fail(path, ifs[0], '_chiral_morgan: entry test is not a two-operand `and`')
    neg = []
    names = []
    for v in test.values:
        if isinstance(v, ast.UnaryOp) and isinstance(v.op, ast.Not) and isinstance(v.operand, ast.Name):
            neg.append(True)
            names.append(v.operand.id)
        elif isinstance(v, ast.Name):
            neg.append(False)
            names.append(v.id)
        else:
            _fail(path, ifs[0], '_chiral_morgan: operand of the entry test is not a (negated) name')
    if names != ['stereo_atoms', 'stereo_bonds']:
        _fail(path, ifs[0], f'_chiral_morgan: entry test is over {names}')
    out['plain_order_negated'] = neg

    # ---- __differentiation: the reference substituent of a labelled double bond is the one of LOWER CANONICAL WEIGHT
    fn = _func(cls, '__differentiation', path)
    mins = [n for n in ast.walk(fn) if isinstance(n, ast.Call) and getattr(n.func, 'id', None) == 'min' and len(n.args) == 2
            and all(isinstance(a, ast.Name) for a in n.args)]
    for c in mins:
        kw = {k.arg: ast.unparse(k.value) for k in c.keywords}
        if kw != {'key': 'morgan.get'}:
            _fail(path, c, f'__differentiation: `{ast.unparse(c)}` does not choose by canonical weight (key=morgan.get)')
    if len(mins) != 4:
        _fail(path, fn, f'__differentiation: expected four `min(x, y, key=morgan.get)` choices, found {len(mins)}')
    out['differentiation_min_by_weight'] = len(mins)

    # ---- Element.charge setter
    path2 = os.path.join(repo, 'chython/periodictable/base/element.py')
    tree2 = ast.parse(open(path2).read())
    fn = _func(_class(tree2, 'Element', path2), 'charge', path2, setter=True)
    rng = [n for n in ast.walk(fn) if isinstance(n, ast.BoolOp) and isinstance(n.op, ast.Or)]
    if len(rng) != 1 or len(rng[0].values) != 2:
        _fail(path2, fn, 'charge setter: expected one `value > a or value < b` test')
    hi, lo = rng[0].values
    if not (isinstance(hi, ast.Compare) and isinstance(hi.ops[0], ast.Gt) and _is_name(hi.left, 'value') and
            isinstance(lo, ast.Compare) and isinstance(lo.ops[0], ast.Lt) and _is_name(lo.left, 'value')):
        _fail(path2, fn, 'charge setter: expected `value > a or value < b`')
    out['charge_max'] = _int(hi.comparators[0], path2, 'charge upper bound')
    out['charge_min'] = _int(lo.comparators[0], path2, 'charge lower bound')
    return out


def main(repo='/repo', dest=None):
    dest = dest or gen_path('RdkitConsts.v')
    c = consts(repo)
    text = ['(* GENERATED by tools/gen_rdkit_consts.py from chython/algorithms/stereo.py and chython/periodictable/base/element.py. Do not edit. *)',
            'From Coq Require Import ZArith List Bool.', 'Import ListNotations.', 'Open Scope Z_scope.', '',
            f'Definition stereo_H : Z := {zraw(c["stereo_H"])}.',
            f'Definition stereo_C : Z := {zraw(c["stereo_C"])}.',
            f'Definition tetra_bond_order : Z := {zraw(c["tetra_bond_order"])}.      (* all(b == . for b in env.values()) *)',
            f'Definition tetra_max_bonds : Z := {zraw(c["tetra_max_bonds"])}.       (* sum(...) > . : skipped *)',
            f'Definition tetra_env_sizes : list Z := {lst(c["tetra_env_sizes"], zraw)}.   (* len(env) in . *)',
            f'Definition ring_small_below : Z := {zraw(c["ring_small_below"])}.      (* any(len(x) < . for x in atoms_rings[n]) *)',
            f'Definition plain_order_negated : bool * bool := ({b(c["plain_order_negated"][0])}, {b(c["plain_order_negated"][1])}).'
            '   (* if [not] stereo_atoms and [not] stereo_bonds: return self.atoms_order *)',
            f'Definition differentiation_min_by_weight : Z := {zraw(c["differentiation_min_by_weight"])}.   (* min(n1, n2, key=morgan.get) choices in __differentiation *)',
            f'Definition charge_max : Z := {zraw(c["charge_max"])}.',
            f'Definition charge_min : Z := {zraw(c["charge_min"])}.', '']
    return write_if_changed(dest, '\n'.join(text))


if __name__ == '__main__':
    main(*sys.argv[1:])
