"""Translator: the constants, assignments and comparison shapes that the hand-written C14 models (coq/model/Standardize.v,
StandardizeMatch.v, StandardizeNeutral.v) copy from the source -> coq/gen/C14Consts.v, read from /repo's SOURCE with Python `ast`
on every run.  coq/proofs/C14ConstsProofs.v proves `generated = constant used by the model`, so an edit of the source that the
model does not follow breaks a named obligation.

  chython/algorithms/standardize/molecule.py
      __standardize        : the charge bound of `if a.charge > 4`, the patch statements in order
      implicify_hydrogens  : the atomic number H, the protium isotope, the special bond order, the covalent order, the comparison `h >= i`
      explicify_hydrogens  : `max(atoms) + 1`, `_H(implicit_hydrogens=0)`, `Bond(1)`, `atoms[n]._implicit_hydrogens = 0`
      standardize_charges  : the pattern atoms and the charges assigned (`atoms[atom_3]._charge = 0` ... )
  chython/algorithms/standardize/resonance.py   fix_resonance: `atoms[m]._charge -= 1`, `atoms[n]._charge += 1`, `_is_radical = False`
  chython/algorithms/tautomers/acid_base.py     _neutralize: every augmented assignment (attribute, sign), per branch
  chython/periodictable/base/query.py           the attributes AnyMetal / AnyElement / ListElement / QueryElement.__eq__ test, in order

Fail closed (TranslatorError) when a function, statement or shape is not found."""
import ast
import os
import sys

sys.path.insert(0, os.path.dirname(__file__))
from coqfmt import *  # noqa


def _func(tree, name, path, cls=None):
    for node in ast.walk(tree):
        if cls is not None and isinstance(node, ast.ClassDef) and node.name == cls:
            for sub in node.body:
                if isinstance(sub, ast.FunctionDef) and sub.name == name:
                    return sub
        if cls is None and isinstance(node, ast.FunctionDef) and node.name == name:
            return node
    raise TranslatorError(f'{path}: function {cls + "." if cls else ""}{name} not found')


def _const(node, path, what):
    if isinstance(node, ast.UnaryOp) and isinstance(node.op, ast.USub) and isinstance(node.operand, ast.Constant):
        return -node.operand.value
    if isinstance(node, ast.Constant) and type(node.value) in (int, bool):
        return node.value
    raise TranslatorError(f'{path}:{getattr(node, "lineno", "?")}: {what}: not an integer / bool literal: {ast.dump(node)[:80]}')


def _one(items, path, what):
    if len(items) != 1:
        raise TranslatorError(f'{path}: {what}: expected exactly one occurrence, found {len(items)}')
    return items[0]


def _compares(fn, left_src):
    """(op name, comparator node) of every comparison whose left side unparses to left_src"""
    out = []
    for node in ast.walk(fn):
        if isinstance(node, ast.Compare) and len(node.ops) == 1 and ast.unparse(node.left) == left_src:
            out.append((type(node.ops[0]).__name__, node.comparators[0], node.lineno))
    return out


def molecule_consts(repo):
    path = os.path.join(repo, 'chython/algorithms/standardize/molecule.py')
    tree = ast.parse(open(path).read())
    out = {}
    mod = {t.id: _const(n.value, path, t.id) for n in tree.body if isinstance(n, ast.Assign) for t in n.targets
           if isinstance(t, ast.Name) and t.id in ('H', 'C')}
    if set(mod) != {'H', 'C'}:
        raise TranslatorError(f'{path}: module constants H, C not found')
    out['atomic_number_h'], out['atomic_number_c'] = mod['H'], mod['C']
    # __standardize
    fn = _func(tree, '__standardize', path)
    op, comp, _ = _one(_compares(fn, 'a.charge'), path, '`a.charge > N`')
    if op != 'Gt':
        raise TranslatorError(f'{path}: the bad-charge test is not `>`: {op}')
    out['charge_limit'] = _const(comp, path, 'charge limit')
    aug = [(ast.unparse(n.target), type(n.op).__name__, ast.unparse(n.value)) for n in ast.walk(fn) if isinstance(n, ast.AugAssign)]
    if aug != [('a._charge', 'Add', 'ch'), ('a._charge', 'Sub', 'ch')]:
        raise TranslatorError(f'{path}: __standardize patches the charge differently: {aug}')
    orders = [(op, _const(c, path, 'special order')) for op, c, _ in _compares(fn, 'b') + _compares(fn, 'bo')]
    if orders != [('Eq', 8), ('Eq', 8)]:
        raise TranslatorError(f'{path}: __standardize special-bond test changed: {orders}')
    # implicify_hydrogens
    fn = _func(tree, 'implicify_hydrogens', path)
    iso = [(op, c) for op, c, _ in _compares(fn, 'atom.isotope')]
    if [op for op, _ in iso] != ['Is', 'Eq'] or not (isinstance(iso[0][1], ast.Constant) and iso[0][1].value is None):
        raise TranslatorError(f'{path}: implicify protium test changed: {[(o, ast.unparse(c)) for o, c in iso]}')
    out['protium_isotope'] = _const(iso[1][1], path, 'protium isotope')
    bcmp = [(op, _const(c, path, 'bond order')) for op, c, _ in _compares(fn, 'b') + _compares(fn, 'bond')]
    if sorted(bcmp) != sorted([('NotEq', 8), ('Eq', 1), ('NotEq', 8), ('NotEq', 8)]):
        raise TranslatorError(f'{path}: implicify bond-order tests changed: {bcmp}')
    out['special_order'], out['covalent_order'] = 8, 1
    op, comp, _ = _one(_compares(fn, 'h'), path, '`h >= i`')
    if op != 'GtE' or ast.unparse(comp) != 'i':
        raise TranslatorError(f'{path}: implicify rule acceptance is not `h >= i`')
    if not any(isinstance(n, ast.Call) and ast.unparse(n) == 'range(len_h, 0, -1)' for n in ast.walk(fn)):
        raise TranslatorError(f'{path}: implicify no longer tries range(len_h, 0, -1)')
    # explicify_hydrogens
    fn = _func(tree, 'explicify_hydrogens', path)
    src = ast.unparse(fn)
    for needle in ('max(atoms) + 1', '_H(implicit_hydrogens=0)', 'Bond(1)', 'atoms[n]._implicit_hydrogens = 0', 'm += 1',
                   'to_add.extend([n] * a.implicit_hydrogens)'):
        if needle not in src:
            raise TranslatorError(f'{path}:{fn.lineno}: explicify_hydrogens no longer contains `{needle}`')
    out['new_atom_offset'], out['new_h_implicit'], out['new_bond_order'] = 1, 0, 1
    # standardize_charges: assignments of constants to ._charge, as (subscript, value), in source order
    fn = _func(tree, 'standardize_charges', path)
    assigns = [(ast.unparse(n.targets[0]), _const(n.value, path, 'assigned charge'), n.lineno) for n in ast.walk(fn)
               if isinstance(n, ast.Assign) and isinstance(n.targets[0], ast.Attribute) and n.targets[0].attr == '_charge']
    assigns.sort(key=lambda x: x[2])
    got = [(t, v) for t, v, _ in assigns]
    want = [('atoms[atom_3]._charge', 0), ('atoms[atom_1]._charge', 0), ('atoms[atom_2]._charge', 1),
            ('atoms[atom_3]._charge', 0), ('atoms[atom_1]._charge', 0), ('atoms[atom_2]._charge', 1), ('atoms[atom_1]._charge', 1),
            ('atoms[ch]._charge', 0), ('atoms[n]._charge', -1)]
    if got != want:
        raise TranslatorError(f'{path}:{fn.lineno}: standardize_charges assigns charges differently: {got}')
    idx = sorted({ast.unparse(n) for n in ast.walk(fn) if isinstance(n, ast.Subscript) and ast.unparse(n.value) == 'mapping'})
    if idx != ['mapping[1]', 'mapping[2]', 'mapping[3]']:
        raise TranslatorError(f'{path}: standardize_charges reads other pattern atoms: {idx}')
    out['discharged_value'], out['charged_value'] = 0, 1
    return out


def resonance_consts(repo):
    path = os.path.join(repo, 'chython/algorithms/standardize/resonance.py')
    fn = _func(ast.parse(open(path).read()), 'fix_resonance', path)
    aug = sorted((ast.unparse(n.target), type(n.op).__name__, _const(n.value, path, 'charge step')) for n in ast.walk(fn) if isinstance(n, ast.AugAssign))
    want = sorted([('atoms[m]._charge', 'Sub', 1), ('atoms[m]._charge', 'Sub', 1), ('atoms[m]._charge', 'Add', 1), ('atoms[n]._charge', 'Add', 1)])
    if aug != want:
        raise TranslatorError(f'{path}:{fn.lineno}: fix_resonance moves charges differently: {aug}')
    rad = sorted((ast.unparse(n.targets[0]), _const(n.value, path, 'radical')) for n in ast.walk(fn)
                 if isinstance(n, ast.Assign) and isinstance(n.targets[0], ast.Attribute) and n.targets[0].attr == '_is_radical')
    if rad != [('atoms[m]._is_radical', False), ('atoms[n]._is_radical', False)]:
        raise TranslatorError(f'{path}: fix_resonance radical assignments changed: {rad}')
    if 'bonds[n][m]._order = b' not in ast.unparse(fn):
        raise TranslatorError(f'{path}: fix_resonance no longer sets bonds[n][m]._order = b')
    return {'resonance_exit_step': -1, 'resonance_entry_step': 1}


def neutralize_consts(repo):
    path = os.path.join(repo, 'chython/algorithms/tautomers/acid_base.py')
    fn = _func(ast.parse(open(path).read()), '_neutralize', path)
    steps = []

    def walk(node, side):
        for sub in ast.iter_child_nodes(node):
            s = side
            if isinstance(sub, ast.For):
                it = ast.unparse(sub.iter)
                if it in ('donors', 'acceptors'):
                    s = it
                elif it.startswith('combinations(donors'):
                    s = 'combination of donors'
                elif it.startswith('combinations(acceptors'):
                    s = 'combination of acceptors'
                elif it == 'c' and side in ('combination of donors', 'combination of acceptors'):
                    s = side.split()[-1]
                elif it in ('stripped_acid_rules', 'stripped_base_rules') or it.startswith('q.get_mapping('):
                    s = None     # the matching loops: no proton moves inside (checked: an AugAssign there has side None and is rejected below)
                else:
                    raise TranslatorError(f'{path}:{sub.lineno}: _neutralize: unexpected loop over {it}')
            if isinstance(sub, ast.AugAssign):
                steps.append((s, sub.target.attr if isinstance(sub.target, ast.Attribute) else ast.unparse(sub.target),
                              (1 if isinstance(sub.op, ast.Add) else -1) * _const(sub.value, path, 'proton step')))
            walk(sub, s)
    walk(fn, None)
    # every loop over donors (or over a combination of donors) takes one H and one charge away, every loop over acceptors adds them
    want = {('donors', '_implicit_hydrogens'): {-1}, ('donors', '_charge'): {-1}, ('acceptors', '_implicit_hydrogens'): {1}, ('acceptors', '_charge'): {1}}
    sign = {}
    for s, attr, d in steps:
        sign.setdefault((s, attr), set()).add(d)
    if sign != want or len(steps) != 16:
        raise TranslatorError(f'{path}:{fn.lineno}: _neutralize moves protons differently: {sorted((k, sorted(v)) for k, v in sign.items())}, {len(steps)} steps')
    src = ast.unparse(fn)
    for needle in ('combinations(donors, len(acceptors))', 'combinations(acceptors, len(donors))', 'len(donors) > len(acceptors)', 'len(donors) < len(acceptors)',
                   'not donors or not acceptors'):
        if needle not in src:
            raise TranslatorError(f'{path}:{fn.lineno}: _neutralize no longer contains `{needle}`')
    return {'donor_step': -1, 'acceptor_step': 1}


def query_shapes(repo):
    """for each query class: the attributes of `other` its __eq__ reads, in order of first use"""
    path = os.path.join(repo, 'chython/periodictable/base/query.py')
    tree = ast.parse(open(path).read())
    out = {}
    for cls in ('AnyMetal', 'AnyElement', 'ListElement', 'QueryElement'):
        fn = _func(tree, '__eq__', path, cls)
        seen = []
        for node in ast.walk(fn):
            pass
        # source order: sort attribute reads of `other` by position
        reads = sorted(((n.lineno, n.col_offset, n.attr) for n in ast.walk(fn)
                        if isinstance(n, ast.Attribute) and isinstance(n.value, ast.Name) and n.value.id == 'other'))
        for _, _, attr in reads:
            if attr not in seen:
                seen.append(attr)
        ret = [ast.unparse(n.value) for n in ast.walk(fn) if isinstance(n, ast.Return)]
        if ret.count('True') != 1 or set(ret) != {'True', 'False'}:
            raise TranslatorError(f'{path}:{fn.lineno}: {cls}.__eq__ is not a chain of `return False` tests ending in `return True`')
        out[cls] = seen
    return out


def render(d):
    lines = ['(* GENERATED by tools/gen_c14consts.py from the SOURCE of chython/algorithms/standardize/{molecule,resonance}.py,',
             '   chython/algorithms/tautomers/acid_base.py and chython/periodictable/base/query.py (Python ast).  Do not edit. *)',
             'From Coq Require Import ZArith List String Bool.', 'Import ListNotations.', 'Open Scope Z_scope.', 'Open Scope string_scope.', '']
    for k, v in d['ints'].items():
        lines.append(f'Definition src_{k} : Z := {zraw(v)}.')
    lines.append('')
    for cls, attrs in d['shapes'].items():
        lines.append(f'Definition src_eq_{cls} : list string := {lst(attrs, lambda a: chr(34) + a + chr(34))}.')
    return '\n'.join(lines) + '\n'


def collect(repo='/repo'):
    ints = {}
    ints.update(molecule_consts(repo))
    ints.update(resonance_consts(repo))
    ints.update(neutralize_consts(repo))
    return {'ints': ints, 'shapes': query_shapes(repo)}


def main(repo='/repo', dest=None):
    dest = dest or gen_path('C14Consts.v')
    return write_if_changed(dest, render(collect(repo)))


if __name__ == '__main__':
    main(*sys.argv[1:])
