"""Translator for C06: the constants that the hand-written ring models (coq/model/Rings.v, RingsFilter.v, RingsGen.v and
graph_of_not_special of Graph.v) copy from chython/algorithms/rings.py and chython/containers/molecule.py
-> coq/gen/RingsConsts.v.  Python `ast` only, fail closed (TranslatorError) on any shape it does not recognise."""
import ast
import os
import sys

sys.path.insert(0, os.path.dirname(__file__))
from coqfmt import *  # noqa


def _find(tree, name, cls=None, path=''):
    body = tree.body
    if cls is not None:
        for node in body:
            if isinstance(node, ast.ClassDef) and node.name == cls:
                body = node.body
                break
        else:
            raise TranslatorError(f'{path}: class {cls} not found')
    for node in body:
        if isinstance(node, ast.FunctionDef) and node.name == name:
            return node
    raise TranslatorError(f'{path}: function {name} not found')


def _compares(fn):
    return sorted((n for n in ast.walk(fn) if isinstance(n, ast.Compare)), key=lambda n: (n.lineno, n.col_offset))


def _src(node):
    return ast.unparse(node)


class _K(ast.NodeTransformer):
    def visit_Constant(self, node):
        return ast.Name(id='K', ctx=ast.Load()) if type(node.value) is int else node


def _shape(node):
    """source text with every integer literal replaced by K"""
    import copy
    return ast.unparse(_K().visit(copy.deepcopy(node)))


def _one(fn, text, path):
    """the unique comparison of fn whose shape (integer literals abstracted) is that of `text`; the literals are what is extracted"""
    want = _shape(ast.parse(text, mode='eval').body)
    hits = [c for c in _compares(fn) if _shape(c) == want]
    if len(hits) != 1:
        raise TranslatorError(f'{path}:{fn.lineno}: expected exactly one comparison `{text}` in {fn.name}, found {len(hits)}')
    return hits[0]


def _int(node, path):
    if isinstance(node, ast.Constant) and type(node.value) is int:
        return node.value
    raise TranslatorError(f'{path}:{getattr(node, "lineno", 0)}: integer literal expected, found {_src(node)}')


def main(repo='/repo', dest=None):
    dest = dest or gen_path('RingsConsts.v')
    rp = os.path.join(repo, 'chython/algorithms/rings.py')
    mp = os.path.join(repo, 'chython/containers/molecule.py')
    rt = ast.parse(open(rp).read())
    mt = ast.parse(open(mp).read())
    out = {}
    # _skin_graph: next(n for n, ms in bonds.items() if len(ms) <= 1)
    c = _one(_find(rt, '_skin_graph', path=rp), 'len(ms) <= 1', rp)
    out['skin_terminal_max'] = _int(c.comparators[0], rp)
    # not_special_connectivity: if b != 8
    c = _one(_find(rt, 'not_special_connectivity', 'Rings', rp), 'b != 8', rp)
    out['special_order'] = _int(c.comparators[0], rp)
    # calc_labels: if bond == 8: bond._in_ring = False; continue   (the first statement of the neighbour loop)
    fn = _find(mt, 'calc_labels', 'MoleculeContainer', mp)
    loops = [n for n in ast.walk(fn) if isinstance(n, ast.For) and _src(n.iter) == 'm_bond.items()']
    if len(loops) != 1 or not isinstance(loops[0].body[0], ast.If):
        raise TranslatorError(f'{mp}:{fn.lineno}: calc_labels: neighbour loop not recognised')
    first = loops[0].body[0]
    if _shape(first.test) != 'bond == K' or [_src(s) for s in first.body] != ['bond._in_ring = False', 'continue']:
        raise TranslatorError(f'{mp}:{first.lineno}: calc_labels: the special-bond branch is not `if bond == 8: bond._in_ring = False; continue`')
    out['labels_special_order'] = _int(first.test.comparators[0], mp)
    second = loops[0].body[1]
    if not (isinstance(second, ast.Assign) and _src(second.targets[0]) == 'bond._in_ring'):
        raise TranslatorError(f'{mp}:{second.lineno}: calc_labels: the ring mark assignment does not follow the special-bond branch')
    # aromatic_rings: bonds[ring[0]][ring[-1]] == 4 and all(bonds[n][m] == 4 ...)
    fn = _find(mt, 'aromatic_rings', 'MoleculeContainer', mp)
    vals = [_int(c.comparators[0], mp) for c in _compares(fn) if isinstance(c.ops[0], ast.Eq)]
    if len(vals) != 2 or vals[0] != vals[1]:
        raise TranslatorError(f'{mp}:{fn.lineno}: aromatic_rings: two equal `== order` tests expected, found {vals}')
    out['aromatic_order'] = vals[0]
    # _make_pid: distances = defaultdict(lambda: defaultdict(lambda: 1e9))
    fn = _find(rt, '_make_pid', path=rp)
    floats = [n.value for n in ast.walk(fn) if isinstance(n, ast.Constant) and type(n.value) is float]
    if len(floats) != 1 or floats[0] != int(floats[0]):
        raise TranslatorError(f'{rp}:{fn.lineno}: _make_pid: exactly one integral float default expected, found {floats}')
    out['pid_default_distance'] = int(floats[0])
    diffs = [_src(c) for c in _compares(fn)]
    for need in ('ij - ikj == 1', 'ij > ikj', 'ij == ikj', 'ikj - ij == 1'):
        if diffs.count(need) != 1:
            raise TranslatorError(f'{rp}:{fn.lineno}: _make_pid: comparison `{need}` expected once')
    out['pid_step'] = 1
    # _c_set: dij = di[j] * 2 ; dij + 1 ; c_num % 2
    fn = _find(rt, '_c_set', path=rp)
    muls = [n for n in ast.walk(fn) if isinstance(n, ast.BinOp) and isinstance(n.op, ast.Mult)]
    mods = [n for n in ast.walk(fn) if isinstance(n, ast.BinOp) and isinstance(n.op, ast.Mod)]
    adds = [n for n in ast.walk(fn) if isinstance(n, ast.BinOp) and isinstance(n.op, ast.Add) and _src(n.left) == 'dij']
    if len(muls) != 1 or _src(muls[0]) != 'di[j] * 2' or len(mods) != 1 or _src(mods[0]) != 'c_num % 2' or not adds or {_src(a) for a in adds} != {'dij + 1'}:
        raise TranslatorError(f'{rp}:{fn.lineno}: _c_set: `di[j] * 2`, `dij + 1`, `c_num % 2` expected')
    out['cset_factor'] = 2
    out['cset_odd_offset'] = 1
    # _is_condensed_ring: len(...) > 1 (neighbour rings), len(common) > 2 / == 2, == 1 (terminal atoms), len(term) != 2, 2 < len(mc) <= len(c) + 1
    fn = _find(rt, '_is_condensed_ring', path=rp)
    c = _one(fn, 'len(seen_rings[x].keys() & ck.keys()) > 1', rp)
    out['condensed_touch_min'] = _int(c.comparators[0], rp)
    c = _one(fn, 'len(common) > 2', rp)
    out['condensed_common_many'] = _int(c.comparators[0], rp)
    c = _one(fn, 'len(common) == 2', rp)
    out['condensed_common_pair'] = _int(c.comparators[0], rp)
    c = _one(fn, 'len(common.intersection(p_adj[n])) == 1', rp)
    out['condensed_terminal_contacts'] = _int(c.comparators[0], rp)
    c = _one(fn, 'len(term) != 2', rp)
    out['condensed_terminals'] = _int(c.comparators[0], rp)
    c = _one(fn, '2 < len(mc) <= len(c) + 1', rp)
    if not (isinstance(c.ops[0], ast.Lt) and isinstance(c.ops[1], ast.LtE)):
        raise TranslatorError(f'{rp}:{c.lineno}: _is_condensed_ring: `2 < len(mc) <= len(c) + 1` expected')
    out['condensed_push_min'] = _int(c.left, rp)
    out['condensed_push_slack'] = _int(c.comparators[1].right, rp)
    # _connected_rings: len(common) == 2 / > 2
    fn = _find(rt, '_connected_rings', path=rp)
    out['connected_common_pair'] = _int(_one(fn, 'len(common) == 2', rp).comparators[0], rp)
    out['connected_common_many'] = _int(_one(fn, 'len(common) > 2', rp).comparators[0], rp)
    # _rings_filter: if n_sssr == 1
    fn = _find(rt, '_rings_filter', path=rp)
    out['filter_single'] = _int(_one(fn, 'n_sssr == 1', rp).comparators[0], rp)
    text = ('(* GENERATED by tools/gen_rings.py from chython/algorithms/rings.py and chython/containers/molecule.py -- do not edit.\n'
            '   The constants the hand-written ring models copy from the source; proofs/RingsConstsProofs.v proves that the models use them. *)\n'
            'From Coq Require Import ZArith.\nOpen Scope Z_scope.\n\n' +
            '\n'.join(f'Definition {k} : Z := {z(v)}.' for k, v in out.items()) + '\n')
    write_if_changed(dest, text)
    return out


if __name__ == '__main__':
    print(main(*sys.argv[1:]))
