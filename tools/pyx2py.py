"""pyx -> Python transpiler for exactly the constructs used by chython/containers/_pack_v2.pyx and _unpack_v0v2.pyx.
Fail closed: any line it does not recognise raises Unsupported.  C semantics kept: every store into a C-typed variable
or array cell wraps to the C width and signedness; `/` is C division (cdivision, truncated on store); PyMem_Malloc
memory is poison until written (reading it raises); out-of-bounds array access raises."""
import ast, re, sys


class Unsupported(Exception):
    pass

CT = {'unsigned char': ('u', 8), 'char': ('s', 8), 'unsigned short': ('u', 16), 'short': ('s', 16),
      'unsigned int': ('u', 32), 'int': ('s', 32), 'unsigned long long': ('u', 64), 'bint': ('b', 1),
      'double': ('f', 64)}
PYT = {'object', 'dict', 'list', 'tuple', 'bytes'}
TYPE_RE = '|'.join(sorted(map(re.escape, list(CT) + list(PYT)), key=len, reverse=True))

RUNTIME = '''
from math import frexp as _frexp, ldexp
class _Poison:
    def __repr__(self): return 'POISON'
_P = _Poison()
class _Arr:
    def __init__(self, ct, n, fill=None):
        self.ct = ct; self.a = [(_P if fill is None else fill)] * n
    def __getitem__(self, i):
        if isinstance(i, slice):
            v = self.a[i]
            if any(x is _P for x in v): raise RuntimeError('read of uninitialised memory')
            return bytes(v)
        if i < 0 or i >= len(self.a): raise RuntimeError('out of bounds read %r' % i)
        v = self.a[i]
        if v is _P: raise RuntimeError('read of uninitialised memory at %d' % i)
        return v
    def __setitem__(self, i, v):
        if i < 0 or i >= len(self.a): raise RuntimeError('out of bounds write %r' % i)
        self.a[i] = _w(self.ct, v)
    def __bool__(self): return True
class _Ptr:
    def __init__(self, arr, off): self.arr = arr; self.off = off
    def __getitem__(self, i): return self.arr[self.off + i]
    def __setitem__(self, i, v): self.arr[self.off + i] = v
def _w(ct, v):
    kind, bits = ct
    if kind == 'f': return float(v)
    if kind == 'b': return bool(v)
    if isinstance(v, float): v = int(v)          # C truncation toward zero
    if isinstance(v, bool): v = int(v)
    v &= (1 << bits) - 1
    if kind == 's' and v >> (bits - 1): v -= 1 << bits
    return v
def _wt(cts, v):
    return tuple(_w(c, x) if c else x for c, x in zip(cts, v))
def _div(a, b):
    return a / b                                   # language_level=3: true division, truncated on store
class _Bytes:                                      # PyMem_Malloc result before the pointer cast
    def __init__(self, n): self.n = n
def PyMem_Malloc(n): return _Bytes(int(n))
def PyMem_Free(p): pass
def _castptr(ct, bits, b): return _Arr(ct, b.n // (bits // 8))
def memset(arr, val, nbytes):
    n = nbytes // (arr.ct[1] // 8)
    for i in range(n): arr.a[i] = val
def frexp_(x): return _frexp(x)
'''

def transpile(src: str, name: str) -> str:
    out = []
    ctypes = {}       # per function: var -> ctype   (flat namespace is enough for these files)
    arrays = {}
    lines = src.split('\n')
    i = 0
    while i < len(lines):
        ln = lines[i]; s = ln.strip(); ind = ln[:len(ln) - len(ln.lstrip())]
        i += 1
        if s.startswith('#') or not s:
            out.append(ln); continue
        if s.startswith(('cimport ', 'from cpython', 'from libc', '@cython.')):
            continue
        m = re.match(r'def (\w+)\((.*)\):$', s)
        if m:
            args = []
            for a in m.group(2).split(','):
                a = a.strip().replace(' not None', '')
                mm = re.match(r'(?:const )?(unsigned char\[::1\]|object)\s+(\w+)$', a)
                if not mm: raise Unsupported(f'{name}:{i}: unsupported def arg {a!r}')
                args.append(mm.group(2))
            out.append(f'{ind}def {m.group(1)}({", ".join(args)}):'); continue
        m = re.match(rf'cdef (void|{TYPE_RE}) (\w+)\((.*)\):$', s)
        if m:
            args = []
            for a in m.group(3).split(','):
                mm = re.match(rf'\s*({TYPE_RE})\s*(\*?)\s*(\w+)$', a)
                if not mm: raise Unsupported(f'{name}:{i}: unsupported cdef arg {a!r}')
                if not mm.group(2) and mm.group(1) in CT: ctypes[mm.group(3)] = CT[mm.group(1)]
                args.append(mm.group(3))
            out.append(f'{ind}def {m.group(2)}({", ".join(args)}):'); continue
        m = re.match(rf'cdef ({TYPE_RE})\[(\d+)\] (\w+)$', s.split(' #')[0].rstrip())       # cdef short[119] common_isotopes
        if m:
            arrays[m.group(3)] = CT[m.group(1)]
            out.append(f'{ind}{m.group(3)} = _Arr({CT[m.group(1)]!r}, {m.group(2)})')
            continue
        m = re.match(rf'cdef ({TYPE_RE}) (.*)$', s.split('  #')[0].split(' #')[0].rstrip())
        if m:
            base = m.group(1)
            for d in re.split(r',\s*(?![^\[]*\])', m.group(2)):
                d = d.strip()
                mm = re.match(r'(\*?)(\w+)(?:\[(\d+)\])?(?:\s*=\s*(.+))?$', d)
                if not mm: raise Unsupported(f'{name}:{i}: unsupported declarator {d!r}')
                ptr, var, dim, init = mm.groups()
                if base in PYT:
                    continue
                if ptr:
                    arrays[var] = CT[base]
                elif dim:
                    arrays[var] = CT[base]
                    out.append(f'{ind}{var} = _Arr({CT[base]!r}, {dim})')
                else:
                    ctypes[var] = CT[base]
                    if init is not None:
                        out.append(f'{ind}{var} = _w({CT[base]!r}, {init})')
            continue
        if s.startswith('cdef '):
            raise Unsupported(f'{name}:{i}: unsupported cdef line {s!r}')
        # statements: rewrite C-only syntax into Python syntax
        # multi-line list literal assignments are passed through
        t = ln
        t = re.sub(r'(\w+)\[:\]\s*=', r'\1 =', t)                                   # common_isotopes[:] = [...]
        t = re.sub(r'sizeof\(([a-z ]+)\)', lambda m: str(CT[m.group(1)][1] // 8), t)
        t = re.sub(r'<([a-z ]+?)\s*\*>\s*(PyMem_Malloc\()', lambda m: f'_castptr({CT[m.group(1)]!r}, {CT[m.group(1)][1]}, ' + m.group(2), t)
        if '_castptr(' in t: t = t.rstrip() + ')'
        t = re.sub(r'<([a-z ]+?)>\s*([A-Za-z_][\w\.]*)', lambda m: f'_w({CT[m.group(1)]!r}, {m.group(2)})', t)   # <T> name
        t = re.sub(r'&(\w+)\[([^\]]+)\]', r'_Ptr(\1, \2)', t)                       # &data[expr]
        t = re.sub(r'frexp\((\w+), &(\w+)\)', r'frexp_(\1)', t)
        if re.search(r'<[a-z ]+\*?>', t): raise Unsupported(f'{name}:{i}: unsupported cast in {s!r}')
        out.append(t)
    py = '\n'.join(out)
    tree = ast.parse(py)

    class W(ast.NodeTransformer):
        def wrap(self, ct, value):
            return ast.Call(ast.Name('_w', ast.Load()), [ast.Constant(ct), value], [])
        def tgt_ct(self, t):
            if isinstance(t, ast.Name) and t.id in ctypes: return ctypes[t.id]
            return None
        def visit_BinOp(self, node):
            self.generic_visit(node)
            if isinstance(node.op, ast.Div):
                return ast.Call(ast.Name('_div', ast.Load()), [node.left, node.right], [])
            return node
        def visit_Assign(self, node):
            self.generic_visit(node)
            # frexp special: f = frexp_(x) with e out-param -> f, e = frexp_(x)
            if isinstance(node.value, ast.Call) and getattr(node.value.func, 'id', '') == 'frexp_':
                node.targets = [ast.Tuple([node.targets[0], ast.Name('e', ast.Store())], ast.Store())]
                return node
            cts = []
            for t in node.targets:
                if isinstance(t, ast.Tuple):
                    if not isinstance(node.value, ast.Tuple) or len(node.targets) != 1:
                        if any(self.tgt_ct(e) for e in t.elts):
                            node.value = ast.Call(ast.Name('_wt', ast.Load()),
                                                  [ast.Constant(tuple(self.tgt_ct(e) for e in t.elts)), node.value], [])
                        return node
                    node.value.elts = [self.wrap(self.tgt_ct(e), v) if self.tgt_ct(e) else v
                                       for e, v in zip(t.elts, node.value.elts)]
                    return node
                cts.append(self.tgt_ct(t))
            cts = [c for c in cts if c]
            if cts:
                # chained typed targets: narrowest store happens right-to-left in C; these files only chain equal widths or array+var
                v = node.value
                for c in cts: v = self.wrap(c, v)
                node.value = v
            return node
        def visit_For(self, node):
            # `for j in range(...)` with a C-typed target: every value assigned to the target is converted to its C type
            # (the optimistic reading of Cython's loop code generation: wide counter, narrowing assignment)
            self.generic_visit(node)
            ct = self.tgt_ct(node.target)
            if ct is not None:
                tmp = ast.Name('_it_' + node.target.id, ast.Store())
                assign = ast.Assign([ast.Name(node.target.id, ast.Store())], self.wrap(ct, ast.Name('_it_' + node.target.id, ast.Load())))
                node.target = tmp
                node.body.insert(0, assign)
            elif isinstance(node.target, ast.Tuple) and any(self.tgt_ct(e) for e in node.target.elts):
                names = [e.id for e in node.target.elts]
                pre = []
                for e in node.target.elts:
                    c = self.tgt_ct(e)
                    if c is not None:
                        pre.append(ast.Assign([ast.Name(e.id, ast.Store())], self.wrap(c, ast.Name(e.id, ast.Load()))))
                node.body[0:0] = pre
            return node
        def visit_AugAssign(self, node):
            self.generic_visit(node)
            ct = self.tgt_ct(node.target)
            if ct is None: return node
            load = ast.Name(node.target.id, ast.Load())
            if isinstance(node.op, ast.Div):
                val = ast.Call(ast.Name('_div', ast.Load()), [load, node.value], [])
            else:
                val = ast.BinOp(load, node.op, node.value)
            return ast.Assign([ast.Name(node.target.id, ast.Store())], self.wrap(ct, val))
    tree = W().visit(tree)
    ast.fix_missing_locations(tree)
    return RUNTIME + '\n' + ast.unparse(tree) + '\n'

if __name__ == '__main__':
    print(transpile(open(sys.argv[1]).read(), sys.argv[1]))
