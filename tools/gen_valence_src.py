"""Translator (C04): the branch structure and the constants that coq/model/Valence.v and coq/model/ValenceArom.v copy by hand
from chython/containers/molecule.py (MoleculeContainer.calc_implicit, check_implicit) and
chython/algorithms/standardize/molecule.py (Standardize.implicify_hydrogens) -> coq/gen/ValenceSrc.v

  src_arom_value aroma explicit_sum : option (option Z)   the if / elif chain after the loop of calc_implicit
                                                          (None = falls through to the valence rules)
  src_calc_orders, src_check_orders                       the bond orders the two loops compare with (aromatic, any)
  src_support                                             the conjuncts of the `only neutral carbon` test, sorted
  src_hydrogen_value, src_check_aromatic_answer           what a hydrogen atom gets / what check_implicit answers on an aromatic bond
  src_impl_consts                                         implicify_hydrogens: single-bond order, any order (x2), bond-count threshold

Python `ast` only; fails closed (TranslatorError) on every shape it does not know."""
import ast
import os
import sys

sys.path.insert(0, os.path.dirname(__file__))
from coqfmt import *  # noqa

OPS = {ast.Eq: '{a} =? {b}', ast.NotEq: 'negb ({a} =? {b})', ast.Gt: '{b} <? {a}', ast.Lt: '{a} <? {b}', ast.GtE: '{b} <=? {a}', ast.LtE: '{a} <=? {b}'}
VARS = ('aroma', 'explicit_sum')


def _func(tree, cls, name, path):
    for node in tree.body:
        if isinstance(node, ast.ClassDef) and node.name == cls:
            for f in node.body:
                if isinstance(f, ast.FunctionDef) and f.name == name:
                    return f
    raise TranslatorError(f'{path}: {cls}.{name} not found')


def _test(t, where):
    """a test over aroma / explicit_sum as a Coq boolean"""
    if isinstance(t, ast.Name) and t.id in VARS:                       # truthiness of an int
        return f'negb ({t.id} =? 0)'
    if isinstance(t, ast.UnaryOp) and isinstance(t.op, ast.Not) and isinstance(t.operand, ast.Name) and t.operand.id in VARS:
        return f'({t.operand.id} =? 0)'
    if isinstance(t, ast.Compare) and len(t.ops) == 1 and isinstance(t.left, ast.Name) and t.left.id in VARS and type(t.ops[0]) in OPS and \
            isinstance(t.comparators[0], ast.Constant) and type(t.comparators[0].value) is int:
        return '(' + OPS[type(t.ops[0])].format(a=t.left.id, b=zraw(t.comparators[0].value)) + ')'
    raise TranslatorError(f'{where}:{t.lineno}: unknown test {ast.unparse(t)!r}')


def _is_store(st):
    return isinstance(st, ast.Assign) and len(st.targets) == 1 and isinstance(st.targets[0], ast.Attribute) and \
        st.targets[0].attr == '_implicit_hydrogens' and isinstance(st.targets[0].value, ast.Name) and st.targets[0].value.id == 'atom' and \
        isinstance(st.value, ast.Constant) and (st.value.value is None or type(st.value.value) is int)


def _block(body, where, returned):
    """value of a block of the chain: `atom._implicit_hydrogens = k` [return] | if ... [return].  `returned` = an enclosing
    block returns right after this one.  Every store must be followed by a return (here or in an enclosing block)."""
    body = list(body)
    ret = bool(body) and isinstance(body[-1], ast.Return) and body[-1].value is None
    if ret:
        body = body[:-1]
    if len(body) != 1:
        raise TranslatorError(f'{where}: a branch of the aromatic chain is not a single statement (+ return)')
    st = body[0]
    if _is_store(st):
        if not (ret or returned):
            raise TranslatorError(f'{where}:{st.lineno}: a stored value is not followed by return')
        return 'Some ' + ('None' if st.value.value is None else f'(Some {zraw(st.value.value)})')
    if isinstance(st, ast.If):
        return _chain(st, where, ret or returned)
    raise TranslatorError(f'{where}:{st.lineno}: unknown statement in the aromatic chain')


def _chain(node, where, returned):
    els = 'None' if not node.orelse else _block(node.orelse, where, returned)
    if not node.orelse and returned:
        raise TranslatorError(f'{where}:{node.lineno}: an inner test without else before a return')
    return f'(if {_test(node.test, where)} then {_block(node.body, where, returned)} else {els})'


def _loop_consts(fn, where, want_support):
    """the `for m, bond in self._bonds[n].items()` loop: `if bond == A: ... elif bond != B: ...`"""
    loops = [n for n in fn.body if isinstance(n, ast.For) and ast.unparse(n.target) == '(m, bond)' and ast.unparse(n.iter) == 'self._bonds[n].items()']
    if len(loops) != 1 or len(loops[0].body) != 1 or not isinstance(loops[0].body[0], ast.If):
        raise TranslatorError(f'{where}: the neighbour loop is not a single if / elif')
    top = loops[0].body[0]

    def bond_cmp(t, op):
        if isinstance(t, ast.Compare) and len(t.ops) == 1 and isinstance(t.ops[0], op) and isinstance(t.left, ast.Name) and t.left.id == 'bond' and \
                isinstance(t.comparators[0], ast.Constant) and type(t.comparators[0].value) is int:
            return t.comparators[0].value
        raise TranslatorError(f'{where}:{t.lineno}: unknown bond test {ast.unparse(t)!r}')
    arom = bond_cmp(top.test, ast.Eq)
    if len(top.orelse) != 1 or not isinstance(top.orelse[0], ast.If) or top.orelse[0].orelse:
        raise TranslatorError(f'{where}: the neighbour loop has no single elif')
    anyb = bond_cmp(top.orelse[0].test, ast.NotEq)
    inner = top.orelse[0].body
    if len(inner) != 2 or not all(isinstance(x, ast.AugAssign) and isinstance(x.op, ast.Add) for x in inner) or \
            ast.unparse(inner[0]) != 'explicit_sum += bond.order' or ast.unparse(inner[1]) != 'explicit_dict[bond.order, self._atoms[m].atomic_number] += 1':
        raise TranslatorError(f'{where}: the counting branch of the neighbour loop changed: {[ast.unparse(x) for x in inner]}')
    support = None
    if want_support:
        b_ = top.body
        if len(b_) != 1 or not isinstance(b_[0], ast.If) or not isinstance(b_[0].test, ast.BoolOp) or not isinstance(b_[0].test.op, ast.And):
            raise TranslatorError(f'{where}: the aromatic branch is not `if <a and b and c>: ... else: ...`')
        if [ast.unparse(x) for x in b_[0].body] != ['aroma += 1']:
            raise TranslatorError(f'{where}: the supported aromatic branch does not count the bond')
        oe = b_[0].orelse
        if len(oe) != 2 or not _is_store(oe[0]) or oe[0].value.value is not None or not isinstance(oe[1], ast.Return):
            raise TranslatorError(f'{where}: the unsupported aromatic branch does not store None and return')
        support = sorted(ast.unparse(x) for x in b_[0].test.values)
    else:
        if [ast.unparse(x) for x in top.body] != ['return False']:
            raise TranslatorError(f'{where}: check_implicit does not answer False on an aromatic bond')
    return arom, anyb, support


def _hydrogen_head(fn, where, kind):
    """`if (atom := self._atoms[n]) == H:` at the top: calc stores a constant and returns, check returns h == const"""
    st = fn.body[0] if not (isinstance(fn.body[0], ast.Expr) and isinstance(fn.body[0].value, ast.Constant)) else fn.body[1]
    if not isinstance(st, ast.If) or ast.unparse(st.test) != '(atom := self._atoms[n]) == H' or st.orelse:
        raise TranslatorError(f'{where}: the hydrogen test at the top changed')
    if kind == 'calc':
        if len(st.body) != 2 or not _is_store(st.body[0]) or st.body[0].value.value is None or not isinstance(st.body[1], ast.Return):
            raise TranslatorError(f'{where}: the hydrogen branch does not store a constant and return')
        return st.body[0].value.value
    src = [ast.unparse(x) for x in st.body]
    if len(src) != 1 or not src[0].startswith('return h == '):
        raise TranslatorError(f'{where}: the hydrogen branch of check_implicit changed')
    v = st.body[0].value.comparators[0]
    if not (isinstance(v, ast.Constant) and type(v.value) is int):
        raise TranslatorError(f'{where}: the hydrogen branch of check_implicit compares with a non-literal')
    return v.value


def _implicify_consts(fn, where):
    src = ast.unparse(fn)
    want = ["if sum((b != {any1} for b in bonds[n].values())) > {thr}:", "if b == {single}:", "elif b != {any2}:", "if m not in hi and bond != {any3}:",
            "if s.issubset(explicit_dict) and all((explicit_dict[k] >= c for k, c in d.items())) and (h >= i):", "for i in range(len_h, 0, -1):", "hi = hs[:i]",
            "if atom == H and (atom.isotope is None or atom.isotope == {iso}):", "if atoms[m] != H:"]
    import re
    vals = {}
    for w in want:
        pat = re.escape(w)
        for name in re.findall(r'\\\{(\w+)\\\}', pat):
            pat = pat.replace('\\{' + name + '\\}', f'(?P<{name}>-?\\d+)')
        ms = re.findall(pat, src)
        m = re.search(pat, src)
        if m is None or len(ms) != 1:
            raise TranslatorError(f'{where}: implicify_hydrogens: expected exactly one line of the form {w!r}')
        vals.update({k: int(v) for k, v in m.groupdict().items()})
    return vals


def _std_engine(fn, where):
    """Standardize.__standardize: which atoms the loop over a rule's matches collects for recalculation (hs) and what it writes.
    Returns (names added to hs at the top level of the atom_fix loop, attributes written there, names added at the top level of the
    bonds_fix loop, targets written there).  The collected names must be added unconditionally, after the renumbering through
    `mapping` and before anything can leave the loop body; the rule loop must end with `for n in hs: self.calc_implicit(n)`."""
    rule_loops = [n for n in fn.body if isinstance(n, ast.For) and 'enumerate(rules)' in ast.unparse(n.iter)]
    if len(rule_loops) != 1:
        raise TranslatorError(f'{where}: __standardize: the loop over the rules not found')
    rl = rule_loops[0]
    tail = [ast.unparse(x) for x in rl.body[-2:]]
    if tail != ['for n in hs:\n    self.calc_implicit(n)', 'fixed.update(hs)']:
        raise TranslatorError(f'{where}: __standardize: the rule loop no longer ends with the recalculation of hs: {tail}')
    if not any(ast.unparse(x) == 'hs = set()' for x in rl.body):
        raise TranslatorError(f'{where}: __standardize: hs is not a fresh set per rule')
    maps = [n for n in rl.body if isinstance(n, ast.For) and 'get_mapping' in ast.unparse(n.iter)]
    if len(maps) != 1:
        raise TranslatorError(f'{where}: __standardize: the loop over the matches not found')
    afix = [n for n in maps[0].body if isinstance(n, ast.For) and ast.unparse(n.iter) == 'atom_fix.items()']
    if len(afix) != 1 or ast.unparse(afix[0].target) != '(n, (ch, ir))':
        raise TranslatorError(f'{where}: __standardize: the atom_fix loop changed')
    bfix = [n for n in afix[0].orelse if isinstance(n, ast.For) and ast.unparse(n.iter) == 'bonds_fix']
    if len(bfix) != 1 or ast.unparse(bfix[0].target) != '(n, m, bo)':
        raise TranslatorError(f'{where}: __standardize: the bonds_fix loop (else branch of the atom_fix loop) changed')

    def collected(loop, renumbered):
        """top-level `hs.add(x)` statements of the loop body that come after `x = mapping[x]` and before any compound statement"""
        out, mapped = [], set()
        for st in loop.body:
            src = ast.unparse(st)
            if isinstance(st, ast.Assign) and len(st.targets) == 1 and isinstance(st.targets[0], ast.Name) and src == f'{st.targets[0].id} = mapping[{st.targets[0].id}]':
                mapped.add(st.targets[0].id)
            elif isinstance(st, ast.Expr) and src.startswith('hs.add(') and isinstance(st.value.args[0], ast.Name):
                if st.value.args[0].id not in mapped:
                    raise TranslatorError(f'{where}:{st.lineno}: hs.add of a pattern number (not renumbered through mapping)')
                out.append(st.value.args[0].id)
            elif isinstance(st, (ast.If, ast.For, ast.While, ast.Try, ast.With)):
                break
            elif isinstance(st, (ast.Break, ast.Continue, ast.Return, ast.Raise)):
                raise TranslatorError(f'{where}:{st.lineno}: the loop body can be left before hs is filled')
        if set(renumbered) - mapped:
            raise TranslatorError(f'{where}: {sorted(set(renumbered) - mapped)} not renumbered through mapping')
        return out

    def written(loop):
        out = set()
        for node in ast.walk(ast.Module(body=loop.body, type_ignores=[])):
            targets = node.targets if isinstance(node, ast.Assign) else [node.target] if isinstance(node, ast.AugAssign) else []
            for t in targets:
                if isinstance(t, (ast.Attribute, ast.Subscript)):
                    out.add(ast.unparse(t))
        return sorted(out)
    a_col, b_col = collected(afix[0], ['n']), collected(bfix[0], ['n', 'm'])
    a_names = {ast.unparse(st.targets[0]): ast.unparse(st.value) for st in afix[0].body if isinstance(st, ast.Assign) and isinstance(st.targets[0], ast.Name)}
    b_names = {ast.unparse(st.targets[0]): ast.unparse(st.value) for st in ast.walk(ast.Module(body=bfix[0].body, type_ignores=[]))
               if isinstance(st, ast.Assign) and len(st.targets) == 1 and isinstance(st.targets[0], ast.Name)}
    if a_names.get('a') != 'atoms[n]' or b_names.get('b') != 'bonds[n][m]':
        raise TranslatorError(f'{where}: __standardize: `a = atoms[n]` / `b = bonds[n][m]` changed: {a_names} {b_names}')
    return a_col, written(afix[0]), b_col, written(bfix[0])


def main(repo='/repo', dest=None):
    dest = dest or gen_path('ValenceSrc.v')
    path = os.path.join(repo, 'chython/containers/molecule.py')
    tree = ast.parse(open(path).read())
    calc = _func(tree, 'MoleculeContainer', 'calc_implicit', path)
    check = _func(tree, 'MoleculeContainer', 'check_implicit', path)
    # the chain after the loop: the first top-level `if` over aroma
    chains = [n for n in calc.body if isinstance(n, ast.If) and 'aroma' in ast.unparse(n.test)]
    if len(chains) != 1:
        raise TranslatorError(f'{path}: calc_implicit: expected one if / elif chain over aroma after the loop')
    # top level: every branch must end with its own return
    node, k = chains[0], 0
    while True:
        if not (node.body and isinstance(node.body[-1], ast.Return)):
            raise TranslatorError(f'{path}:{node.lineno}: a top-level aromatic branch does not return')
        if len(node.orelse) == 1 and isinstance(node.orelse[0], ast.If):
            node = node.orelse[0]
            continue
        if node.orelse:
            raise TranslatorError(f'{path}:{node.lineno}: the aromatic chain ends with a plain else')
        break
    arom_value = _chain(chains[0], path, False)
    # what follows the chain must be the rule lookup
    after = calc.body[calc.body.index(chains[0]) + 1:]
    if [type(x) for x in after] != [ast.Try, ast.For, ast.Assign] or not _is_store(after[2]) or after[2].value.value is not None:
        raise TranslatorError(f'{path}: calc_implicit: the rule lookup after the aromatic chain changed shape')
    c4, c8, support = _loop_consts(calc, path + ' calc_implicit', True)
    k4, k8, _ = _loop_consts(check, path + ' check_implicit', False)
    hv = _hydrogen_head(calc, path + ' calc_implicit', 'calc')
    hc = _hydrogen_head(check, path + ' check_implicit', 'check')
    spath = os.path.join(repo, 'chython/algorithms/standardize/molecule.py')
    stree = ast.parse(open(spath).read())
    consts = {}
    for node in stree.body:
        if isinstance(node, ast.Assign) and len(node.targets) == 1 and isinstance(node.targets[0], ast.Name) and node.targets[0].id in ('H', 'C'):
            if not (isinstance(node.value, ast.Constant) and type(node.value.value) is int):
                raise TranslatorError(f'{spath}: {node.targets[0].id} is not an int literal')
            consts[node.targets[0].id] = node.value.value
    if set(consts) != {'H', 'C'}:
        raise TranslatorError(f'{spath}: module constants H / C not found')
    iv = _implicify_consts(_func(stree, 'Standardize', 'implicify_hydrogens', spath), spath)
    a_col, a_wr, b_col, b_wr = _std_engine(_func(stree, 'Standardize', '_Standardize__standardize', spath) if any(
        isinstance(f, ast.FunctionDef) and f.name == '_Standardize__standardize' for c in stree.body if isinstance(c, ast.ClassDef) for f in c.body)
        else _func(stree, 'Standardize', '__standardize', spath), spath)
    text = ('(* GENERATED by tools/gen_valence_src.py from chython/containers/molecule.py and chython/algorithms/standardize/molecule.py -- do not edit *)\n'
            'From Coq Require Import ZArith List String Bool.\nImport ListNotations.\nOpen Scope Z_scope.\n\n'
            '(* the if / elif chain after the neighbour loop of calc_implicit: Some v = store v and return, None = go on to the rules *)\n'
            f'Definition src_arom_value (aroma explicit_sum : Z) : option (option Z) :=\n  {arom_value}.\n\n'
            f'Definition src_calc_orders : Z * Z := ({zraw(c4)}, {zraw(c8)}).\n'
            f'Definition src_check_orders : Z * Z := ({zraw(k4)}, {zraw(k8)}).\n'
            f'Definition src_support : list string := {lst(support, s)}.\n'
            f'Definition src_hydrogen_value : Z := {zraw(hv)}.\n'
            f'Definition src_check_hydrogen_value : Z := {zraw(hc)}.\n'
            '(* implicify_hydrogens: H and C of the module, isotope of a plain hydrogen, order of the H bond, any order (hydrogen bond count, hydrogen\n'
            '   bonds, bonds of the heavy atom), number of non-8 bonds a hydrogen may have *)\n'
            f'Definition src_impl_consts : list Z := {lst([consts["H"], consts["C"], iv["iso"], iv["single"], iv["any1"], iv["any2"], iv["any3"], iv["thr"]], zraw)}.\n'
            '(* Standardize.__standardize, per match of a rule: the (renumbered) names added to hs unconditionally at the top of the atom_fix loop / of the\n'
            '   bonds_fix loop, and everything the two loops assign to (a = atoms[n], b = bonds[n][m]); the rule loop ends with `for n in hs: self.calc_implicit(n)` *)\n'
            f'Definition src_std_afix_collects : list string := {lst(a_col, s)}.\n'
            f'Definition src_std_afix_writes : list string := {lst(a_wr, s)}.\n'
            f'Definition src_std_bfix_collects : list string := {lst(b_col, s)}.\n'
            f'Definition src_std_bfix_writes : list string := {lst(b_wr, s)}.\n')
    write_if_changed(dest, text)
    return dest


if __name__ == '__main__':
    print(main(*sys.argv[1:]))
