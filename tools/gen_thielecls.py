"""Translator for C05: the decisions of the ring loop `for ring in self.sssr:` of Thiele.thiele
(chython/algorithms/aromatics/thiele.py) as Coq functions of the ring size, the number of sp2 atoms and the attributes of
the atoms -> coq/gen/ThieleCls.v.  coq/proofs/KekuleGenTie.v proves that Model.Thiele.ring_step / ring_step_t are built from
exactly these decisions, so an edit of a ring size, an element tuple, a neighbour bound or of the branch order in the source
breaks a named theorem.  Python `ast` only, fail closed (TranslatorError) on any shape it does not recognise."""
import ast
import os
import sys

sys.path.insert(0, os.path.dirname(__file__))
from coqfmt import *  # noqa

REL = 'chython/algorithms/aromatics/thiele.py'
KEK = 'chython/algorithms/aromatics/kekule.py'


def _err(node, msg):
    raise TranslatorError(f'{REL}:{getattr(node, "lineno", "?")}: {msg}: {ast.unparse(node)[:140]}')


def _u(node):
    return ast.unparse(node)


class Tr:
    """conditions over: lr, sp2 (integers), the atom a = atoms[n] (z = atomic number, c = charge), deg = len(bonds[n]),
    nsc = len(nsc[n]), taut = fix_tautomers"""

    def __init__(self, consts):
        self.consts = consts

    def term(self, node):
        """integer valued terms"""
        s = _u(node)
        if s in ('lr', 'sp2'):
            return s
        if s == 'sp2 + 1':
            return '(sp2 + 1)'
        if s in ('len(bonds[n])', 'b', '(b := len(bonds[n]))'):
            return 'deg'
        if s == 'len(nsc[n])':
            return 'nsc'
        if s in ('a.charge', '(a := atoms[n]).charge'):
            return 'c'
        if isinstance(node, ast.Constant) and type(node.value) is int:
            return zraw(node.value)
        if isinstance(node, ast.UnaryOp) and isinstance(node.op, ast.USub) and isinstance(node.operand, ast.Constant) and type(node.operand.value) is int:
            return zraw(-node.operand.value)
        return None

    def is_atom(self, node):
        return _u(node) in ('a', 'atoms[n]', '(a := atoms[n])')

    def elem(self, node):
        if isinstance(node, ast.Name) and node.id in self.consts:
            return zraw(self.consts[node.id])
        if isinstance(node, ast.Constant) and type(node.value) is int:        # `a != 5`
            return zraw(node.value)
        _err(node, 'element constant expected')

    def cmp1(self, op, l, r, node):
        if isinstance(op, ast.Eq):
            return f'({l} =? {r})'
        if isinstance(op, ast.NotEq):
            return f'(negb ({l} =? {r}))'
        if isinstance(op, ast.Lt):
            return f'({l} <? {r})'
        if isinstance(op, ast.Gt):
            return f'({r} <? {l})'
        _err(node, 'comparison operator not recognised')

    def cond(self, node):
        if isinstance(node, ast.BoolOp):
            op = ' && ' if isinstance(node.op, ast.And) else ' || '
            return '(' + op.join(self.cond(v) for v in node.values) + ')'
        if isinstance(node, ast.UnaryOp) and isinstance(node.op, ast.Not):
            return f'(negb {self.cond(node.operand)})'
        s = _u(node)
        if s == 'fix_tautomers':
            return 'taut'
        if s in ('a.charge', '(a := atoms[n]).charge'):
            return '(negb (c =? 0))'
        if s == 'lr % 2':
            return '(negb (lr mod 2 =? 0))'
        if isinstance(node, ast.Compare):
            if self.is_atom(node.left) and len(node.ops) == 1:
                op, right = node.ops[0], node.comparators[0]
                if isinstance(op, (ast.Eq, ast.NotEq)):
                    e = f'(z =? {self.elem(right)})'
                elif isinstance(op, (ast.In, ast.NotIn)) and isinstance(right, ast.Tuple) and right.elts:
                    e = '(' + ' || '.join(f'(z =? {self.elem(x)})' for x in right.elts) + ')'
                else:
                    _err(node, 'atom comparison not recognised')
                return f'(negb {e})' if isinstance(op, (ast.NotEq, ast.NotIn)) else e
            terms = [self.term(x) for x in [node.left] + list(node.comparators)]
            if all(t is not None for t in terms):
                return '(' + ' && '.join(self.cmp1(op, terms[i], terms[i + 1], node) for i, op in enumerate(node.ops)) + ')'
        _err(node, 'condition not recognised')

    def chain(self, body, don, ind):
        """hetero-atom chain: `continue` -> None ; falling through -> Some don (don: donors.append(n) happened)"""
        if not body:
            return f'Some {don}'
        st, rest = body[0], body[1:]
        if isinstance(st, ast.Continue):
            return 'None'
        if isinstance(st, ast.Expr) and _u(st) == 'donors.append(n)':
            return self.chain(rest, 'true', ind)
        if isinstance(st, ast.If):
            pad = '  ' * ind
            return (f'if {self.cond(st.test)}\n{pad}then {self.chain(list(st.body) + rest, don, ind + 1)}\n'
                    f'{pad}else {self.chain(list(st.orelse) + rest, don, ind + 1)}')
        _err(st, 'statement of the hetero-atom chain not recognised')


RING_ADD = ['n, *_, m = ring', 'rings[n].add(m)', 'rings[m].add(n)', 'for n, m in zip(ring, ring[1:]):\n    rings[n].add(m)\n    rings[m].add(n)']


def _expect(nodes, texts, what):
    got = [_u(x) for x in nodes]
    if got != texts:
        raise TranslatorError(f'{REL}: {what}: expected {texts}, found {got}')


def main(repo):
    with open(os.path.join(repo, KEK)) as f:
        ktree = ast.parse(f.read())
    with open(os.path.join(repo, REL)) as f:
        tree = ast.parse(f.read())
    # element names: thiele.py either defines them as kekule.py does or imports them from there
    consts = {}
    for t in (ktree, tree):
        for node in t.body:
            if isinstance(node, ast.Assign) and len(node.targets) == 1 and isinstance(node.targets[0], ast.Name) and \
                    isinstance(node.value, ast.Constant) and type(node.value.value) is int and node.targets[0].id[:1].isupper():
                if t is tree or node.targets[0].id not in consts:
                    consts[node.targets[0].id] = node.value.value
    fn = None
    for node in tree.body:
        if isinstance(node, ast.ClassDef) and node.name == 'Thiele':
            for sub in node.body:
                if isinstance(sub, ast.FunctionDef) and sub.name == 'thiele':
                    fn = sub
    if fn is None:
        raise TranslatorError(f'{REL}: Thiele.thiele not found')
    loops = [st for st in fn.body if isinstance(st, ast.For) and _u(st.target) == 'ring' and _u(st.iter) == 'self.sssr']
    if len(loops) != 1 or loops[0].orelse:
        raise TranslatorError(f'{REL}: exactly one `for ring in self.sssr:` expected at the top level of thiele()')
    body = loops[0].body
    if len(body) != 5:
        raise TranslatorError(f'{REL}: ring loop: 5 statements expected, found {len(body)}')
    tr = Tr(consts)
    _expect(body[:1], ['lr = len(ring)'], 'ring loop statement 1')
    s2, s3, s4, s5 = body[1:]
    if not (isinstance(s2, ast.If) and not s2.orelse and [_u(x) for x in s2.body] == ['continue'] and isinstance(s2.test, ast.UnaryOp) and isinstance(s2.test.op, ast.Not)):
        _err(s2, '`if not <size test>: continue` expected')
    size_ok = tr.cond(s2.test.operand)
    if not (isinstance(s3, ast.If) and not s3.orelse and [_u(x) for x in s3.body] == ['continue'] and isinstance(s3.test, ast.Call) and _u(s3.test.func) == 'any'
            and len(s3.test.args) == 1 and isinstance(s3.test.args[0], ast.GeneratorExp) and len(s3.test.args[0].generators) == 1
            and _u(s3.test.args[0].generators[0].target) == 'n' and _u(s3.test.args[0].generators[0].iter) == 'ring' and not s3.test.args[0].generators[0].ifs):
        _err(s3, '`if any(<atom test> for n in ring): continue` expected')
    atom_bad = tr.cond(s3.test.args[0].elt)
    if not (isinstance(s4, ast.Assign) and _u(s4.targets[0]) == 'sp2' and isinstance(s4.value, ast.Call) and _u(s4.value.func) == 'sum'
            and isinstance(s4.value.args[0], ast.GeneratorExp) and _u(s4.value.args[0].generators[0].target) == 'n' and _u(s4.value.args[0].generators[0].iter) == 'ring'
            and not s4.value.args[0].generators[0].ifs and isinstance(s4.value.args[0].elt, ast.Compare) and _u(s4.value.args[0].elt.left) == 'atoms[n].hybridization'
            and isinstance(s4.value.args[0].elt.ops[0], ast.Eq)):
        _err(s4, '`sp2 = sum(atoms[n].hybridization == K for n in ring)` expected')
    hyb_sp2 = tr.term(s4.value.args[0].elt.comparators[0])
    # the if / elif / elif of the three kinds
    if not isinstance(s5, ast.If):
        _err(s5, 'if / elif / elif over the ring kinds expected')
    k_benz = tr.cond(s5.test)
    b1 = s5.body
    if not (len(b1) == 1 and isinstance(b1[0], ast.If)):
        _err(s5, 'benzene-like branch: one if / else expected')
    k_tetra = tr.cond(b1[0].test)
    _expect(b1[0].body, ['tetracycles.append(ring)'], 'four-membered ring branch')
    eb = b1[0].orelse
    if not (len(eb) == 5 and isinstance(eb[0], ast.If) and not eb[0].orelse and len(eb[0].body) == 1):
        _err(b1[0], 'benzene-like else branch: acceptor test + ring adding expected')
    acc_ring = tr.cond(eb[0].test)
    upd = eb[0].body[0]
    if not (isinstance(upd, ast.Expr) and isinstance(upd.value, ast.Call) and _u(upd.value.func) == 'acceptors.update' and isinstance(upd.value.args[0], ast.GeneratorExp)):
        _err(upd, 'acceptors.update(n for n in ring if <test>) expected')
    ge = upd.value.args[0]
    if not (_u(ge.elt) == 'n' and _u(ge.generators[0].target) == 'n' and _u(ge.generators[0].iter) == 'ring' and len(ge.generators[0].ifs) == 1):
        _err(upd, 'acceptors.update(n for n in ring if <test>) expected')
    acceptor = tr.cond(ge.generators[0].ifs[0])
    _expect(eb[1:], RING_ADD, 'benzene-like branch: ring adding')
    if not (len(s5.orelse) == 1 and isinstance(s5.orelse[0], ast.If)):
        _err(s5, 'elif of the hetero rings expected')
    h = s5.orelse[0]
    k_het = tr.cond(h.test)
    hb = h.body
    if len(hb) != 7:
        _err(h, 'hetero branch: 7 statements expected')
    t = hb[0]
    if not (isinstance(t, ast.Try) and len(t.body) == 1 and len(t.handlers) == 1 and _u(t.handlers[0].type) == 'StopIteration' and [_u(x) for x in t.handlers[0].body] == ['continue']
            and not t.orelse and not t.finalbody and isinstance(t.body[0], ast.Assign) and _u(t.body[0].targets[0]) == 'n'):
        _err(t, 'try: n = next(...) except StopIteration: continue expected')
    nx = t.body[0].value
    if not (isinstance(nx, ast.Call) and _u(nx.func) == 'next' and len(nx.args) == 1 and isinstance(nx.args[0], ast.GeneratorExp) and _u(nx.args[0].elt) == 'n'
            and _u(nx.args[0].generators[0].iter) == 'ring' and len(nx.args[0].generators[0].ifs) == 1 and isinstance(nx.args[0].generators[0].ifs[0], ast.Compare)
            and _u(nx.args[0].generators[0].ifs[0].left) == 'atoms[n].hybridization' and isinstance(nx.args[0].generators[0].ifs[0].ops[0], ast.Eq)):
        _err(t, 'n = next(n for n in ring if atoms[n].hybridization == K) expected')
    hyb_sp3 = tr.term(nx.args[0].generators[0].ifs[0].comparators[0])
    if not isinstance(hb[1], ast.If):
        _err(hb[1], 'hetero-atom chain expected')
    hetero = tr.chain([hb[1]], 'false', 2)
    _expect(hb[2:], ['pyrroles.add(n)'] + RING_ADD, 'hetero branch: pyrroles.add + ring adding')
    if not (len(h.orelse) == 1 and isinstance(h.orelse[0], ast.If) and not h.orelse[0].orelse):
        _err(h, 'elif of the freak rings expected')
    k_freak = tr.cond(h.orelse[0].test)
    _expect(h.orelse[0].body, ['freaks.append(ring)'], 'freak branch')
    text = ('(* GENERATED by tools/gen_thielecls.py from chython/algorithms/aromatics/thiele.py (Thiele.thiele, `for ring in self.sssr:`) -- do not edit.\n'
            '   Every decision of the ring loop as the source writes it.  z = atomic number, c = charge, deg = len(bonds[n]),\n'
            '   nsc = len(not_special_connectivity[n]), taut = fix_tautomers.  proofs/KekuleGenTie.v proves that the model is built from them. *)\n'
            'From Coq Require Import ZArith Bool.\nOpen Scope Z_scope.\n\n'
            f'Definition gen_th_size_ok (lr : Z) : bool := {size_ok}.\n'
            f'Definition gen_th_atom_bad (z nsc : Z) : bool := {atom_bad}.\n'
            f'Definition gen_th_hyb_sp2 : Z := {hyb_sp2}.\nDefinition gen_th_hyb_sp3 : Z := {hyb_sp3}.\n'
            '(* 1 = four-membered all-sp2 ring, 2 = benzene-like, 3 = one sp3 hetero atom, 4 = freak candidate, 0 = skipped *)\n'
            'Definition gen_th_kind (lr sp2 : Z) : Z :=\n'
            f'  if {k_benz} then (if {k_tetra} then 1 else 2) else if {k_het} then 3 else if {k_freak} then 4 else 0.\n'
            f'Definition gen_th_acc_ring (lr : Z) (taut : bool) : bool := {acc_ring}.\n'
            f'Definition gen_th_acceptor (z c : Z) : bool := {acceptor}.\n'
            '(* the sp3 atom of a hetero ring: None = ring skipped, Some d = ring accepted, d = the atom is recorded as hydrogen donor *)\n'
            f'Definition gen_th_hetero (z c lr deg : Z) (taut : bool) : option bool :=\n  {hetero}.\n')
    write_if_changed(gen_path('ThieleCls.v'), text)
    return consts


if __name__ == '__main__':
    print(main(sys.argv[1] if len(sys.argv) > 1 else '/repo'))
