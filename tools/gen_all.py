"""Registry of translators: name -> function(repo) that (re)writes one file under coq/gen/."""
import gen_elements
import gen_runtime
import gen_stereo

TRANSLATORS = {
    'elements': lambda repo: gen_elements.main(repo),
    'runtime': lambda repo: gen_runtime.main(repo),
    'stereo': lambda repo: gen_stereo.main(repo),
}
