"""Registry of translators: name -> function(repo) that (re)writes one file under coq/gen/."""
import gen_elements
import gen_runtime

TRANSLATORS = {
    'elements': lambda repo: gen_elements.main(repo),
    'runtime': lambda repo: gen_runtime.main(repo),
}
