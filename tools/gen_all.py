"""Registry of translators: every tools/gen_<name>.py with a main(repo) function is a translator called <name>;
it (re)writes files under coq/gen/ (only on change) and raises coqfmt.TranslatorError when the source has a shape it
does not recognise (fail closed)."""
import glob
import importlib
import os

TRANSLATORS = {}
for path in sorted(glob.glob(os.path.join(os.path.dirname(os.path.abspath(__file__)), 'gen_*.py'))):
    name = os.path.basename(path)[4:-3]
    if name == 'all':
        continue
    mod = importlib.import_module('gen_' + name)
    if hasattr(mod, 'main'):
        TRANSLATORS[name] = (lambda m: (lambda repo: m.main(repo)))(mod)
