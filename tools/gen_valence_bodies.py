"""Translator (C04): the BODIES of Element._compiled_valence_rules, Element.valence_rules and Element.atomic_mass
(chython/periodictable/base/element.py) statement by statement into Gallina -> coq/gen/ValenceBodies.v

  src_compiled_valence_rules (self : elem) : pyres rtable
  src_valence_rules (self : elem) (charge : Z) (is_radical : bool) (valence : Z) : pyres (list rule)
  src_atomic_mass (self : elem) (isotope : option Z) : pyres Z             (x 10^24, floats = exact decimals of their literals)

A small typed statement compiler over Python `ast` (assignments, if / else, `for` over range / list / slice with tuple targets,
`rules[k].append(v)`, `s.add(k)`, `d[k] += 1`, generator sums, try / except KeyError: raise, early return); the run-time library is
Model.ValenceSrcLib (exception monad, monadic fold).  Loop-carried state = the names assigned in a loop body that exist before it;
a subscript that can raise is bound (in evaluation order) before the statement that holds it.  Everything else raises
coqfmt.TranslatorError (fail closed): unknown statements, expressions, types, a name read where it may be undefined.
The hand-written Valence.compiled_rules / valence_rules / atomic_mass_e24 are proved equal to these on all 118 elements
(proofs/ValenceBodiesProofs.v), so an edit of these bodies that changes any table, lookup or mass breaks a named theorem."""
import ast
import os
import sys

sys.path.insert(0, os.path.dirname(__file__))
from coqfmt import *  # noqa

# types: 'int' 'bool' 'str' 'zlist' 'exclist' (list of (int, bool, int, env)) 'env' (list of (int, str)) 'rtable' 'edict' 'eset'
#        'sdict' (str -> int) 'decdict' (int -> float) 'e12' (a float, x 10^12) 'e24' (a product of two floats) 'optint' 'rules' ('tuple', [...])
SELF_ATTRS = {'_common_valences': ('(e_common self)', 'zlist'), 'atomic_number': ('(e_num self)', 'int'),
              '_valences_exceptions': ('(e_exc self)', 'exclist'), 'isotopes_masses': ('(e_mass self)', 'decdict'),
              'isotopes_distribution': ('(e_dist self)', 'decdict')}
ELEM_OF = {'zlist': 'int', 'exclist': ('tuple', ['int', 'bool', 'int', 'env']), 'env': ('tuple', ['int', 'str'])}
CLASSES_IDIOM = '{x.__name__: x.atomic_number.fget(None) for x in Element.__subclasses__()}'
EMPTY = {'rtable': '([] : rtable)', 'edict': '([] : edict)', 'eset': '([] : list ekey)'}


class Ctx:
    def __init__(self, where, extra_self=None, molecule=False, hydrogen_alias=False):
        self.where = where
        self.n = 0
        self.molecule = molecule                    # `self` is a MoleculeContainer: self.atoms() = (number, atom) pairs in insertion order
        self.hydrogen_alias = hydrogen_alias        # the module imports the hydrogen class as _H
        self.self_attrs = dict(SELF_ATTRS)
        self.self_attrs.update(extra_self or {})

    def fresh(self):
        self.n += 1
        return f'x{self.n}'

    def err(self, node, msg):
        raise TranslatorError(f'{self.where}:{getattr(node, "lineno", "?")}: {msg}: {ast.unparse(node)[:120]!r}')


def ident(name):
    if name in ('set', 'end', 'fun', 'let', 'in', 'match', 'with', 'if', 'then', 'else', 'at', 'as', 'fix', 'self', 'Ok', 'Err'):
        return name + '_'
    return name


def expr(cx, node, env, binds):
    """-> (coq term, type); failing sub-expressions are appended to `binds` as (name, monadic term) in evaluation order"""
    if isinstance(node, ast.Constant):
        if node.value is True or node.value is False:
            return b(node.value), 'bool'
        if type(node.value) is int:
            return zraw(node.value), 'int'
        if type(node.value) is str:
            return s(node.value), 'str'
        if type(node.value) is float and node.value == 0.0:
            return '0', 'e24'                        # the start value 0. of a sum of masses
        cx.err(node, 'unknown constant')
    if isinstance(node, ast.Name):
        if node.id not in env:
            cx.err(node, 'name may be undefined here')
        return ident(node.id), env[node.id]
    if isinstance(node, ast.Attribute) and isinstance(node.value, ast.Name) and node.value.id == 'self':
        if node.attr not in cx.self_attrs:
            cx.err(node, 'unknown attribute of self')
        return cx.self_attrs[node.attr]
    if isinstance(node, ast.Attribute) and isinstance(node.value, ast.Name) and env.get(node.value.id) == 'atom':
        a = ident(node.value.id)
        pure = {'charge': (f'(a_chg {a})', 'int'), 'is_radical': (f'(a_rad {a})', 'bool'), 'implicit_hydrogens': (f'(a_h {a})', 'optint')}
        if node.attr in pure:
            return pure[node.attr]
        if node.attr == 'atomic_mass':              # Element.atomic_mass of the atom's class (translated above, tied by C04_atomic_mass_follows_source)
            x = cx.fresh()
            binds.append((x, f'atomic_mass_e24 (a_num {a}) (a_iso {a})'))
            return x, 'e24'
        if node.attr == 'atomic_symbol':            # the class name; an atom that is no Element instance is outside the model (OtherError)
            x = cx.fresh()
            binds.append((x, f'py_symbol {a}'))
            return x, 'str'
        cx.err(node, 'unknown attribute of an atom')
    if isinstance(node, ast.Attribute) and node.attr == 'atomic_mass' and ast.unparse(node.value) == '_H()' and cx.hydrogen_alias:
        x = cx.fresh()
        binds.append((x, 'atomic_mass_e24 1 None'))
        return x, 'e24'
    if isinstance(node, ast.Call) and ast.unparse(node) == 'self.atoms()' and cx.molecule:
        return '(m_atoms self)', 'atoms'
    if isinstance(node, ast.Tuple):
        parts = [expr(cx, x, env, binds) for x in node.elts]
        return '(' + ', '.join(p[0] for p in parts) + ')', ('tuple', [p[1] for p in parts])
    if isinstance(node, ast.BinOp) and type(node.op) in (ast.Add, ast.Sub, ast.Mult):
        l, lt = expr(cx, node.left, env, binds)
        r, rt = expr(cx, node.right, env, binds)
        if lt == rt == 'int' and type(node.op) in (ast.Add, ast.Sub):
            return f'({l} {"+" if isinstance(node.op, ast.Add) else "-"} {r})', 'int'
        if lt == rt == 'e12' and isinstance(node.op, ast.Mult):
            return f'({l} * {r})', 'e24'
        if lt == rt == 'e24' and isinstance(node.op, ast.Add):
            return f'({l} + {r})', 'e24'
        if lt == 'optint' and rt == 'e24' and isinstance(node.op, ast.Mult):      # None * float raises TypeError
            x = cx.fresh()
            binds.append((x, f'py_some {l}'))
            return f'({x} * {r})', 'e24'
        cx.err(node, f'arithmetic on {lt} / {rt}')
    if isinstance(node, ast.Subscript):
        v, vt = expr(cx, node.value, env, binds)
        sl = node.slice
        if isinstance(sl, ast.Slice):
            if vt == 'zlist' and sl.upper is None and sl.step is None and isinstance(sl.lower, ast.Constant) and type(sl.lower.value) is int and sl.lower.value >= 0:
                return f'(py_slice_from {v} {zraw(sl.lower.value)})', 'zlist'
            cx.err(node, 'unknown slice')
        if vt == 'zlist' and isinstance(sl, ast.Constant) and type(sl.value) is int and sl.value >= 0:
            x = cx.fresh()
            binds.append((x, f'py_index {v} {zraw(sl.value)}'))
            return x, 'int'
        k, kt = expr(cx, sl, env, binds)
        if vt == 'sdict' and kt == 'str':
            x = cx.fresh()
            binds.append((x, f'py_sdict_get {v} {k}'))
            return x, 'int'
        if vt == 'decdict' and kt == 'int':
            x = cx.fresh()
            binds.append((x, f'py_decdict_get {v} {k}'))
            return x, 'e12'
        if vt == 'decdict' and kt == 'optint':            # mass[self.isotope] behind the `is None` guard
            x, y = cx.fresh(), cx.fresh()
            binds.append((x, f'py_some {k}'))
            binds.append((y, f'py_decdict_get {v} {x}'))
            return y, 'e12'
        if vt == 'rtable' and kt == ('tuple', ['int', 'bool', 'int']):
            x = cx.fresh()
            binds.append((x, f'py_rtable_get {v} {k}'))
            return x, 'rules'
        cx.err(node, f'unknown subscript of {vt} by {kt}')
    if isinstance(node, ast.Call) and isinstance(node.func, ast.Name) and not node.keywords:
        f = node.func.id
        if f == 'defaultdict' and len(node.args) == 1 and isinstance(node.args[0], ast.Name) and node.args[0].id in ('list', 'int'):
            t = 'rtable' if node.args[0].id == 'list' else 'edict'
            return EMPTY[t], t
        if f == 'set' and not node.args:
            return EMPTY['eset'], 'eset'
        if f == 'dict' and len(node.args) == 1:
            v, vt = expr(cx, node.args[0], env, binds)
            if vt in ('rtable', 'edict'):
                return v, vt
        if f == 'range' and len(node.args) == 1:
            v, vt = expr(cx, node.args[0], env, binds)
            if vt == 'int':
                return f'(zrange 0 {v})', 'zlist'
        if f == 'sum' and len(node.args) == 1 and isinstance(node.args[0], ast.GeneratorExp):
            return gen_sum(cx, node.args[0], env, binds)
        if f == 'sum' and len(node.args) == 2 and isinstance(node.args[0], ast.GeneratorExp) and isinstance(node.args[1], ast.Constant) and \
                type(node.args[1].value) is float and node.args[1].value == 0.0:
            return gen_sum(cx, node.args[0], env, binds, want='e24')
        if f == 'any' and len(node.args) == 1 and isinstance(node.args[0], ast.GeneratorExp):
            return gen_sum(cx, node.args[0], env, binds, want='bool')
        if f == 'Counter' and len(node.args) == 1 and isinstance(node.args[0], ast.GeneratorExp) and cx.molecule:
            return gen_sum(cx, node.args[0], env, binds, want='str')
        if f == 'dict' and len(node.args) == 1 and isinstance(node.args[0], ast.Name) and env.get(node.args[0].id) == 'counter':
            return ident(node.args[0].id), 'counter'
        cx.err(node, 'unknown call')
    if isinstance(node, ast.Call) and isinstance(node.func, ast.Attribute) and node.func.attr == 'items' and not node.args and not node.keywords:
        v, vt = expr(cx, node.func.value, env, binds)
        if vt == 'decdict':
            return f'(py_decdict_items {v})', 'decitems'
        cx.err(node, 'items() of an unknown type')
    if isinstance(node, ast.Dict) and not node.keys:
        return EMPTY['edict'], 'edict'
    if isinstance(node, ast.DictComp) and ast.unparse(node) == CLASSES_IDIOM:
        return 'Valence.elements_classes', 'sdict'          # Valence.elements_classes: (symbol, number) of Gen.Elements.elements, last duplicate wins on lookup
    cx.err(node, 'unknown expression')


def gen_sum(cx, g, env, binds, want=None):
    """sum(gen) / sum(gen, 0.) / any(gen) / Counter(gen): a monadic fold over the iterable, in order (any() stops at the first true
    element; the elements it skips cannot raise here or the translation is refused)"""
    if len(g.generators) != 1 or g.generators[0].ifs or g.generators[0].is_async:
        cx.err(g, 'unknown generator')
    it, itt = expr(cx, g.generators[0].iter, env, binds)
    elem = {'decitems': ('tuple', ['int', 'e12']), 'atoms': ('tuple', ['int', 'atom'])}.get(itt) or ELEM_OF.get(itt) or cx.err(g, f'cannot iterate {itt}')
    pat, inner = target(cx, g.generators[0].target, elem, dict(env))
    ib = []
    v, vt = expr(cx, g.elt, inner, ib)
    if want is None and vt in ('int', 'e24') or want == vt == 'e24':
        init, step, rt = '0', f'Ok (acc + {v})', vt
    elif want is None and vt == 'optint':           # 0 + None raises TypeError
        y = cx.fresh()
        ib.append((y, f'py_some {v}'))
        init, step, rt = '0', f'Ok (acc + {y})', 'int'
    elif want == vt == 'bool':
        if ib:
            cx.err(g, 'an element of any() can raise')
        init, step, rt = 'false', f'Ok (acc || {v})', 'bool'
    elif want == vt == 'str':
        init, step, rt = '([] : list (string * Z))', f'Ok (sincr acc {v} 1)', 'counter'
    else:
        cx.err(g, f'fold of {vt}')
    body = wrap_binds(ib, step)
    x = cx.fresh()
    binds.append((x, f"pfold (fun acc {pat} => {body}) {it} {init}"))
    return x, rt


def target(cx, t, typ, env):
    """loop / generator target -> (coq pattern, env extended)"""
    if isinstance(t, ast.Name):
        if isinstance(typ, tuple):
            cx.err(t, 'a tuple bound to one name')
        env[t.id] = typ
        return ident(t.id), env
    if isinstance(t, ast.Tuple) and isinstance(typ, tuple) and len(t.elts) == len(typ[1]) and all(isinstance(x, ast.Name) for x in t.elts):
        names = []
        for x, ty in zip(t.elts, typ[1]):
            if x.id == '_':
                names.append('_')
            else:
                env[x.id] = ty
                names.append(ident(x.id))
        return "'(" + ', '.join(names) + ')', env
    cx.err(t, 'unknown loop target')


def truth(cx, node, env, binds, first=True):
    """a test as a Coq bool; only the first operand of `and` may hold a sub-expression that can raise (evaluation order)"""
    if isinstance(node, ast.BoolOp) and isinstance(node.op, ast.And):
        parts = []
        for i, x in enumerate(node.values):
            nb = []
            parts.append(truth(cx, x, env, nb, first and i == 0))
            if nb and not (first and i == 0):
                cx.err(x, 'an operand of `and` after the first can raise (short circuit)')
            binds.extend(nb)
        return '(' + ' && '.join(parts) + ')'
    if isinstance(node, ast.Compare) and len(node.ops) == 1:
        op = node.ops[0]
        if isinstance(op, (ast.Is, ast.IsNot)) and isinstance(node.comparators[0], ast.Constant) and node.comparators[0].value is None:
            v, vt = expr(cx, node.left, env, binds)
            if vt != 'optint':
                cx.err(node, f'`is None` on {vt}')
            return f'(is_none {v})' if isinstance(op, ast.Is) else f'(negb (is_none {v}))'
        l, lt = expr(cx, node.left, env, binds)
        r, rt = expr(cx, node.comparators[0], env, binds)
        if lt == rt == 'int' and type(op) in (ast.Eq, ast.NotEq):
            return f'({l} =? {r})' if isinstance(op, ast.Eq) else f'(negb ({l} =? {r}))'
        cx.err(node, f'unknown comparison of {lt} / {rt}')
    v, vt = expr(cx, node, env, binds)
    if vt == 'int':
        return f'(negb ({v} =? 0))'
    if vt == 'bool':
        return v
    cx.err(node, f'truth value of {vt}')


def wrap_binds(binds, term):
    for x, m in reversed(binds):
        term = f'pbind ({m}) (fun {x} => {term})'
    return term


def assigned(stmts):
    """names (re)bound or mutated by the statements"""
    out = set()
    for st in stmts:
        for node in ast.walk(st):
            if isinstance(node, ast.Assign):
                for t in node.targets:
                    for x in ast.walk(t):
                        if isinstance(x, ast.Name):
                            out.add(x.id)
            elif isinstance(node, ast.AugAssign):
                x = node.target
                while isinstance(x, (ast.Subscript, ast.Attribute)):
                    x = x.value
                if isinstance(x, ast.Name):
                    out.add(x.id)
            elif isinstance(node, ast.For):
                for x in ast.walk(node.target):
                    if isinstance(x, ast.Name):
                        out.add(x.id)
            elif isinstance(node, ast.Expr) and isinstance(node.value, ast.Call) and isinstance(node.value.func, ast.Attribute):
                x = node.value.func.value
                while isinstance(x, (ast.Subscript, ast.Attribute)):
                    x = x.value
                if isinstance(x, ast.Name):
                    out.add(x.id)
    return out


def pack(names):
    names = [ident(n) for n in names]
    return 'tt' if not names else names[0] if len(names) == 1 else '(' + ', '.join(names) + ')'


def pat(names):
    names = [ident(n) for n in names]
    return '_' if not names else names[0] if len(names) == 1 else "'(" + ', '.join(names) + ')'


def block(cx, stmts, env, final):
    """statements -> a term of type pyres T; `final(env)` gives the term after the last statement (None: the block must return)"""
    if not stmts:
        if final is None:
            raise TranslatorError(f'{cx.where}: a path of the function ends without return')
        return final(env)
    st, rest = stmts[0], stmts[1:]
    if isinstance(st, ast.Expr) and isinstance(st.value, ast.Constant) and isinstance(st.value.value, str):
        return block(cx, rest, env, final)
    binds = []
    if isinstance(st, ast.Return):
        if rest or st.value is None:
            cx.err(st, 'return with statements after it / without a value')
        v, vt = expr(cx, st.value, env, binds)
        if vt == 'e12':
            v = f'({v} * 10 ^ 12)'
        return wrap_binds(binds, f'Ok {v}')
    if isinstance(st, ast.Assign) and len(st.targets) == 1 and isinstance(st.targets[0], ast.Name):
        v, vt = expr(cx, st.value, env, binds)
        env = dict(env)
        env[st.targets[0].id] = vt
        return wrap_binds(binds, f'let {ident(st.targets[0].id)} := {v} in\n  {block(cx, rest, env, final)}')
    if isinstance(st, ast.AugAssign) and isinstance(st.op, ast.Add) and isinstance(st.target, ast.Subscript) and isinstance(st.target.value, ast.Name) and \
            isinstance(st.value, ast.Constant) and st.value.value == 1 and type(st.value.value) is int:
        d = st.target.value.id
        if env.get(d) == 'counter':
            return block_counter(cx, st, rest, env, final)
        if env.get(d) != 'edict':
            cx.err(st, 'd[k] += 1 on something that is not a defaultdict(int)')
        k, kt = expr(cx, st.target.slice, env, binds)
        if kt != ('tuple', ['int', 'int']):
            cx.err(st, f'key of type {kt}')
        return wrap_binds(binds, f'let {ident(d)} := eincr {ident(d)} {k} in\n  {block(cx, rest, env, final)}')
    if isinstance(st, ast.AugAssign) and isinstance(st.op, ast.Add) and isinstance(st.target, ast.Subscript) and isinstance(st.target.value, ast.Name) and \
            env.get(st.target.value.id) == 'counter':
        c = ident(st.target.value.id)
        k, kt = expr(cx, st.target.slice, env, binds)
        v, vt = expr(cx, st.value, env, binds)
        if kt != 'str' or vt != 'int':
            cx.err(st, f'counter[{kt}] += {vt}')
        return wrap_binds(binds, f'let {c} := sincr {c} {k} {v} in\n  {block(cx, rest, env, final)}')
    if isinstance(st, ast.Expr) and isinstance(st.value, ast.Call) and isinstance(st.value.func, ast.Attribute) and len(st.value.args) == 1 and not st.value.keywords:
        f, recv, arg = st.value.func.attr, st.value.func.value, st.value.args[0]
        if f == 'append' and isinstance(recv, ast.Subscript) and isinstance(recv.value, ast.Name) and env.get(recv.value.id) == 'rtable':
            k, kt = expr(cx, recv.slice, env, binds)
            v, vt = expr(cx, arg, env, binds)
            if kt != ('tuple', ['int', 'bool', 'int']) or vt != ('tuple', ['eset', 'edict', 'int']) or not isinstance(arg, ast.Tuple):
                cx.err(st, f'rules[{kt}].append({vt})')
            parts = [expr(cx, x, env, [])[0] for x in arg.elts]
            d = ident(recv.value.id)
            return wrap_binds(binds, f'let {d} := rt_append {d} {k} (mkRule {parts[0]} {parts[1]} {parts[2]}) in\n  {block(cx, rest, env, final)}')
        if f == 'add' and isinstance(recv, ast.Name) and env.get(recv.id) == 'eset':
            k, kt = expr(cx, arg, env, binds)
            if kt != ('tuple', ['int', 'int']):
                cx.err(st, f'set.add({kt})')
            return wrap_binds(binds, f'let {ident(recv.id)} := eadd {ident(recv.id)} {k} in\n  {block(cx, rest, env, final)}')
        cx.err(st, 'unknown method call')
    if isinstance(st, ast.For) and not st.orelse:
        it, itt = expr(cx, st.iter, env, binds)
        if itt not in ELEM_OF:
            cx.err(st, f'cannot iterate {itt}')
        carried = sorted(assigned(st.body) & set(env))
        p, inner = target(cx, st.target, ELEM_OF[itt], dict(env))
        body = block(cx, st.body, inner, lambda e: f'Ok {pack(carried)}')
        tnames = {x.id for x in ast.walk(st.target) if isinstance(x, ast.Name)}
        after = {k: v for k, v in env.items() if k not in tnames}   # names bound by / inside the loop are not available after it (fail closed on a later read)
        loop = f'pfold (fun {pat(carried)} {p} =>\n  {body}) {it} {pack(carried)}'
        return wrap_binds(binds, f'pbind ({loop}) (fun {pat(carried)} =>\n  {block(cx, rest, after, final)})')
    if isinstance(st, ast.If):
        c = truth(cx, st.test, env, binds)
        returns = bool(st.body) and isinstance(st.body[-1], ast.Return)
        if returns and not st.orelse:                   # if c: ...; return v   <rest>      ==      if c then ... else <rest>
            return wrap_binds(binds, f'if {c} then ({block(cx, st.body, dict(env), None)})\n  else ({block(cx, rest, dict(env), final)})')
        outs = sorted((assigned(st.body) | assigned(st.orelse)) & set(env))
        t1 = block(cx, st.body, dict(env), lambda e: f'Ok {pack(outs)}')
        t2 = block(cx, st.orelse, dict(env), lambda e: f'Ok {pack(outs)}')
        return wrap_binds(binds, f'pbind (if {c} then ({t1})\n  else ({t2})) (fun {pat(outs)} =>\n  {block(cx, rest, dict(env), final)})')
    if isinstance(st, ast.Try) and not rest and not st.orelse and not st.finalbody and len(st.handlers) == 1 and isinstance(st.handlers[0].type, ast.Name) and \
            st.handlers[0].name is None and len(st.handlers[0].body) == 1 and isinstance(st.handlers[0].body[0], ast.Raise) and \
            isinstance(st.handlers[0].body[0].exc, ast.Name) and st.handlers[0].body[0].cause is None:
        caught, raised = st.handlers[0].type.id, st.handlers[0].body[0].exc.id
        known = ('KeyError', 'ValueError', 'IndexError', 'TypeError', 'ValenceError')
        if caught not in known or raised not in known:
            cx.err(st, 'unknown exception class')
        return f'py_except ({block(cx, st.body, dict(env), None)}) {caught} {raised}'
    cx.err(st, 'unknown statement')


def block_counter(cx, st, rest, env, final):
    binds = []
    c = ident(st.target.value.id)
    k, kt = expr(cx, st.target.slice, env, binds)
    if kt != 'str':
        cx.err(st, f'counter[{kt}] += 1')
    return wrap_binds(binds, f'let {c} := sincr {c} {k} 1 in\n  {block(cx, rest, env, final)}')


def func(tree, cls, name, path, prop=None):
    for node in tree.body:
        if isinstance(node, ast.ClassDef) and node.name == cls:
            fs = [f for f in node.body if isinstance(f, ast.FunctionDef) and f.name == name]
            if prop is not None:        # the getter among the definitions of a property
                fs = [f for f in fs if any(ast.unparse(d) == prop for d in f.decorator_list)]
            if len(fs) == 1:
                return fs[0]
    raise TranslatorError(f'{path}: {cls}.{name} not found (or not unique)')


def main(repo='/repo', dest=None):
    dest = dest or gen_path('ValenceBodies.v')
    path = os.path.join(repo, 'chython/periodictable/base/element.py')
    tree = ast.parse(open(path).read())
    f1 = func(tree, 'Element', '_compiled_valence_rules', path, 'class_cached_property')
    f2 = func(tree, 'Element', 'valence_rules', path)
    f3 = func(tree, 'Element', 'atomic_mass', path, 'property')
    if [a.arg for a in f1.args.args] != ['self'] or [a.arg for a in f2.args.args] != ['self', 'valence'] or [a.arg for a in f3.args.args] != ['self']:
        raise TranslatorError(f'{path}: signatures changed')
    t1 = block(Ctx(path), f1.body, {}, None)
    # valence_rules reads the compiled table of the class and the state of the atom
    cx2 = Ctx(path, {'_compiled_valence_rules': ('table', 'rtable'), 'charge': ('charge', 'int'), 'is_radical': ('is_radical', 'bool')})
    t2 = block(cx2, f2.body, {'valence': 'int'}, None)
    cx3 = Ctx(path, {'isotope': ('isotope', 'optint')})
    t3 = block(cx3, f3.body, {}, None)
    mpath = os.path.join(repo, 'chython/containers/molecule.py')
    mtree = ast.parse(open(mpath).read())
    alias = any(isinstance(n, ast.ImportFrom) and n.module == 'periodictable' and n.level == 2 and any(a.name == 'H' and a.asname == '_H' for a in n.names) for n in mtree.body)
    counter = any(isinstance(n, ast.ImportFrom) and n.module == 'collections' and any(a.name == 'Counter' and a.asname is None for a in n.names) for n in mtree.body)
    if not alias or not counter:
        raise TranslatorError(f'{mpath}: `from ..periodictable import H as _H` / `from collections import Counter` not found')
    totals = {}
    for name in ('molecular_charge', 'is_radical', 'molecular_mass', 'brutto'):
        fn = func(mtree, 'MoleculeContainer', name, mpath, 'cached_property')
        if [a.arg for a in fn.args.args] != ['self']:
            raise TranslatorError(f'{mpath}: signature of {name} changed')
        totals[name] = block(Ctx(mpath, {}, molecule=True, hydrogen_alias=True), fn.body, {}, None)
    for name, target_ in (('__int__', 'self.molecular_charge'), ('__float__', 'self.molecular_mass')):
        fn = func(mtree, 'MoleculeContainer', name, mpath)
        body = [x for x in fn.body if not (isinstance(x, ast.Expr) and isinstance(x.value, ast.Constant))]
        if len(body) != 1 or not isinstance(body[0], ast.Return) or ast.unparse(body[0].value) != target_:
            raise TranslatorError(f'{mpath}: {name} no longer returns {target_}')
    text = ('(* GENERATED by tools/gen_valence_bodies.py from chython/periodictable/base/element.py (bodies of Element._compiled_valence_rules,\n'
            '   valence_rules, atomic_mass) and chython/containers/molecule.py (molecular_charge, is_radical, molecular_mass, brutto), translated statement by statement -- do not edit *)\n'
            'From Coq Require Import ZArith List String Bool.\nFrom Model Require Import PyBase Graph PeriodicTable Valence ValenceSrcLib.\nFrom Gen Require Import Elements.\n'
            'Import ListNotations.\nOpen Scope Z_scope.\n\n'
            f'Definition src_compiled_valence_rules (self : elem) : pyres rtable :=\n  {t1}.\n\n'
            '(* `table` = self._compiled_valence_rules (an exception while compiling it propagates before the lookup) *)\n'
            f'Definition src_valence_rules_in (table : rtable) (charge : Z) (is_radical : bool) (valence : Z) : pyres (list rule) :=\n  {t2}.\n'
            'Definition src_valence_rules (self : elem) (charge : Z) (is_radical : bool) (valence : Z) : pyres (list rule) :=\n'
            '  pbind (src_compiled_valence_rules self) (fun table => src_valence_rules_in table charge is_radical valence).\n\n'
            '(* floats are the exact decimals of their literals: a single float x 10^12, a product (and the returned mass) x 10^24 *)\n'
            f'Definition src_atomic_mass (self : elem) (isotope : option Z) : pyres Z :=\n  {t3}.\n\n'
            '(* chython/containers/molecule.py: the totals (int(mol) / float(mol) return molecular_charge / molecular_mass); a.atomic_mass is\n'
            '   Valence.atomic_mass_e24 (= src_atomic_mass of the atom\'s class, theorem atomic_mass_follows_source) *)\n'
            f'Definition src_molecular_charge (self : mol) : pyres Z :=\n  {totals["molecular_charge"]}.\n'
            f'Definition src_is_radical (self : mol) : pyres bool :=\n  {totals["is_radical"]}.\n'
            f'Definition src_molecular_mass (self : mol) : pyres Z :=\n  {totals["molecular_mass"]}.\n'
            f'Definition src_brutto (self : mol) : pyres (list (string * Z)) :=\n  {totals["brutto"]}.\n')
    write_if_changed(dest, text)
    return dest


if __name__ == '__main__':
    print(main(*sys.argv[1:]))
