"""Translator for C06: the BODY of chython/algorithms/rings.py:_make_pid -> coq/gen/RingsPidBody.v.

The function is translated statement by statement (Python `ast`, fail closed: anything that is not one of the statement /
expression shapes below raises TranslatorError) into Gallina functions over the state (pid1, pid2, distances) written with the
dictionary primitives of coq/model/RingsGen.v (viv2 = read p[i][j] through both defaultdict levels, set2 = p[i][j] = cell,
set3 = p[i][j][key] = path, compose = the path-joining dict comprehension, dupdate = dict.update, dist_get / dist_has / dist_set):

    gen_pid_init_step   body of  `for c in chains:`          (first loop)
    gen_pid_j           body of  `for j in pid1:`            (the five-way if / elif chain on ij vs ikj and what each branch stores)
    gen_pid_i           body of  `for i in pid1:`
    gen_pid_k           body of  `for k in pid1:`
    gen_make_pid        the whole function

coq/proofs/RingsPidTie.v proves each equal to the hand-written model function (pid_init_step, pid_j, pid_i, pid_k, make_pid), so an
edit of the source that changes a test, the order of the branches, a stored value or drops / adds a statement breaks a named lemma.

Python evaluation order is kept: in `X[i][j] = E` the value E is evaluated before X[i] is looked up; in `X[i][j].update(E)` the
cell X[i][j] is looked up (and created when missing) before E is evaluated."""
import ast
import os
import sys

sys.path.insert(0, os.path.dirname(__file__))
from coqfmt import *  # noqa

PATH = 'chython/algorithms/rings.py'

COMP_TEMPLATE = ('{(ni, mj): ip[:-1] + jp for ((ni, _), ip), ((_, mj), jp) in '
                 'zip(pid1[A].items(), pid1[B].items())}')


def err(node, msg):
    raise TranslatorError(f'{PATH}:{getattr(node, "lineno", 0)}: _make_pid: {msg}: `{ast.unparse(node)[:120]}`')


def src(node):
    return ast.unparse(node)


class Tr:
    """translation context: which Python names are tables / aliases of table rows / integer locals"""

    def __init__(self, tables, dist_read, dist_write, rows_read, rows_write, ints):
        self.tables = tables            # python name -> Gallina state variable   (pid1 -> p1, pid2 -> p2)
        self.dist_read = dist_read      # python name of the distance table that is read     -> Gallina variable
        self.dist_write = dist_write    # python name of the distance table that is written  -> Gallina variable
        self.rows_read = rows_read      # alias of a row of the read table:  di -> 'i'
        self.rows_write = rows_write    # alias of a row of the written table: ndi -> 'i'
        self.ints = set(ints)           # integer-valued names in scope (loop variables, locals)
        self.fresh = 0

    def tmp(self, base):
        self.fresh += 1
        return f'{base}{self.fresh}'

    # ---- integer expressions
    def int_expr(self, e):
        if isinstance(e, ast.Constant) and type(e.value) is int:
            return zraw(e.value)
        if isinstance(e, ast.Name) and e.id in self.ints:
            return e.id
        if isinstance(e, ast.BinOp) and isinstance(e.op, (ast.Add, ast.Sub)):
            return f'({self.int_expr(e.left)} {"+" if isinstance(e.op, ast.Add) else "-"} {self.int_expr(e.right)})'
        if isinstance(e, ast.Subscript):
            # row[j] with row an alias of distances[x];  distances[x][y]
            v, idx = e.value, e.slice
            if isinstance(v, ast.Name) and v.id in self.rows_read:
                return f'(dist_get {list(self.dist_read.values())[0]} {self.rows_read[v.id]} {self.int_expr(idx)})'
            if isinstance(v, ast.Subscript) and isinstance(v.value, ast.Name) and v.value.id in self.dist_read:
                return f'(dist_get {self.dist_read[v.value.id]} {self.int_expr(v.slice)} {self.int_expr(idx)})'
        if isinstance(e, ast.Call) and src(e.func) == 'len' and len(e.args) == 1 and isinstance(e.args[0], ast.Name) and e.args[0].id == 'c':
            return '(Z.of_nat (length c))'
        err(e, 'integer expression not recognised')

    def test(self, e):
        if isinstance(e, ast.BoolOp) and isinstance(e.op, ast.Or):
            return '(' + ' || '.join(self.test(v) for v in e.values) + ')'
        if isinstance(e, ast.BoolOp) and isinstance(e.op, ast.And) and len(e.values) == 3:
            # n in distances and m in distances[n] and distances[n][m] != di
            a, b2, c = e.values
            d = list(self.dist_read)[0]
            dv = self.dist_read[d]
            if (isinstance(a, ast.Compare) and isinstance(a.ops[0], ast.In) and isinstance(b2, ast.Compare) and isinstance(b2.ops[0], ast.In)
                    and src(a.comparators[0]) == d and src(b2.comparators[0]) == f'{d}[{src(a.left)}]'
                    and isinstance(c, ast.Compare) and isinstance(c.ops[0], ast.NotEq) and src(c.left) == f'{d}[{src(a.left)}][{src(b2.left)}]'):
                n, m = self.int_expr(a.left), self.int_expr(b2.left)
                return f'(dist_has {dv} {n} {m} && negb (dist_get {dv} {n} {m} =? {self.int_expr(c.comparators[0])}))'
            err(e, 'conjunction not recognised')
        if isinstance(e, ast.Compare) and len(e.ops) == 1:
            l, r = self.int_expr(e.left), self.int_expr(e.comparators[0])
            op = e.ops[0]
            if isinstance(op, ast.Eq):
                return f'({l} =? {r})'
            if isinstance(op, ast.Gt):
                return f'({r} <? {l})'
            if isinstance(op, ast.Lt):
                return f'({l} <? {r})'
        err(e, 'test not recognised')

    # ---- table cells
    def cell(self, e):
        """X[a][b] with X a path table -> (gallina table variable, a, b)"""
        if (isinstance(e, ast.Subscript) and isinstance(e.value, ast.Subscript) and isinstance(e.value.value, ast.Name)
                and e.value.value.id in self.tables):
            return self.tables[e.value.value.id], self.int_expr(e.value.slice), self.int_expr(e.slice)
        return None

    def comprehension(self, e):
        """the path-joining comprehension over zip(pid1[a][b].items(), pid1[b][c].items()) -> (a, b, c)"""
        if not isinstance(e, ast.DictComp):
            return None
        try:
            z1, z2 = e.generators[0].iter.args
            c1, c2 = self.cell(z1.func.value), self.cell(z2.func.value)
        except Exception:
            err(e, 'dict comprehension not recognised')
        if c1 is None or c2 is None or c1[0] != 'p1' or c2[0] != 'p1' or c1[2] != c2[1]:
            err(e, 'dict comprehension does not join pid1[a][b] with pid1[b][c]')
        want = COMP_TEMPLATE.replace('pid1[A]', src(z1.func.value)).replace('pid1[B]', src(z2.func.value))
        if ast.dump(ast.parse(want, mode='eval').body) != ast.dump(e):
            err(e, 'dict comprehension is not the path-joining comprehension')
        return c1[1], c1[2], c2[2]

    # ---- statements (continuation style: returns Gallina text ending in the state tuple)
    def block(self, stmts, final):
        if not stmts:
            return final
        s, rest = stmts[0], stmts[1:]
        if isinstance(s, ast.If):
            if rest:
                err(s, 'statements after an if / elif chain are not supported')
            return f'if {self.test(s.test)} then\n  {self.block(s.body, final)}\nelse {self.block(s.orelse, final)}'
        if isinstance(s, ast.Assign):
            tgts, val = s.targets, s.value
            # integer local
            if len(tgts) == 1 and isinstance(tgts[0], ast.Name) and self.is_int_read(val):
                name = tgts[0].id
                text = f'let {name} := {self.int_expr(val)} in\n  '
                self.ints.add(name)
                return text + self.block(rest, final)
            # distance writes (chained targets are assigned left to right)
            if all(self.dist_target(t) for t in tgts):
                v = self.int_expr(val)
                dv = list(self.dist_write.values())[0]
                text = ''
                for t in tgts:
                    a, c = self.dist_target(t)
                    text += f'let {dv} := dist_set {dv} {a} {c} {v} in\n  '
                return text + self.block(rest, final)
            if len(tgts) == 1:
                t = tgts[0]
                # X[a][b][(u, v)] = c  /  c[::-1]
                if isinstance(t, ast.Subscript) and self.cell(t.value) and isinstance(t.slice, ast.Tuple) and len(t.slice.elts) == 2:
                    tv, a, c = self.cell(t.value)
                    u, v = (self.int_expr(x) for x in t.slice.elts)
                    if src(val) == 'c':
                        pv = 'c'
                    elif src(val) == 'c[::-1]':
                        pv = '(rev c)'
                    else:
                        err(s, 'stored path not recognised')
                    return f'let {tv} := set3 {tv} {a} {c} ({u}, {v}) {pv} in\n  ' + self.block(rest, final)
                tc = self.cell(t)
                if tc:
                    tv, a, c = tc
                    vc = self.cell(val)
                    if vc:                       # X[i][j] = Y[i][j]
                        sv, a2, c2 = vc
                        x = self.tmp('v')
                        return (f"let '({x}, {sv}) := viv2 {sv} {a2} {c2} in\n  let {tv} := set2 {tv} {a} {c} {x} in\n  "
                                + self.block(rest, final))
                    if isinstance(val, ast.Dict) and not val.keys:      # X[i][j] = {}
                        return f'let {tv} := set2 {tv} {a} {c} [] in\n  ' + self.block(rest, final)
                    comp = self.comprehension(val)
                    if comp:                     # X[i][j] = {comprehension}
                        x = self.tmp('v')
                        return (f"let '({x}, p1) := compose p1 {comp[0]} {comp[1]} {comp[2]} in\n  let {tv} := set2 {tv} {a} {c} {x} in\n  "
                                + self.block(rest, final))
            err(s, 'assignment not recognised')
        if isinstance(s, ast.Expr) and isinstance(s.value, ast.Call) and isinstance(s.value.func, ast.Attribute) and s.value.func.attr == 'update' \
                and len(s.value.args) == 1 and not s.value.keywords:
            tc = self.cell(s.value.func.value)
            arg = s.value.args[0]
            # .update({comprehension}) : the comprehension is wrapped in a dict display `{...}` only syntactically (it IS the dict comprehension)
            comp = self.comprehension(arg)
            if tc and comp:
                tv, a, c = tc
                x, cellv = self.tmp('v'), self.tmp('cell')
                return (f"let '(_, {tv}) := viv2 {tv} {a} {c} in\n  let '({x}, p1) := compose p1 {comp[0]} {comp[1]} {comp[2]} in\n  "
                        f"let '({cellv}, {tv}) := viv2 {tv} {a} {c} in\n  let {tv} := set2 {tv} {a} {c} (dupdate {cellv} {x}) in\n  "
                        + self.block(rest, final))
            err(s, 'update not recognised')
        err(s, 'statement not recognised')

    def is_int_read(self, val):
        try:
            self.int_expr(val)
            return True
        except TranslatorError:
            return False

    def dist_target(self, t):
        """row[x] with row an alias of a row of the written table, or written[x][y] -> (a, b)"""
        if isinstance(t, ast.Subscript):
            if isinstance(t.value, ast.Name) and t.value.id in self.rows_write:
                return self.rows_write[t.value.id], self.int_expr(t.slice)
            if isinstance(t.value, ast.Subscript) and isinstance(t.value.value, ast.Name) and t.value.value.id in self.dist_write:
                return self.int_expr(t.value.slice), self.int_expr(t.slice)
        return None


def _skip(stmt, test_src):
    """`if <test>: continue`"""
    return isinstance(stmt, ast.If) and src(stmt.test) == test_src and len(stmt.body) == 1 and isinstance(stmt.body[0], ast.Continue) and not stmt.orelse


def _expect(stmt, text):
    if src(stmt) != text:
        err(stmt, f'expected `{text}`')


# ---------------------------------------------------------------------------------------------------- _c_set
def _cset_entries(stmts, names):
    """statements of the j-loop body after the local assignments: appends / continue / if-elif-else -> Gallina list of entries"""
    if not stmts:
        return '[]'
    s, rest = stmts[0], stmts[1:]
    if isinstance(s, ast.Continue):
        return '[]'
    if isinstance(s, ast.If):
        if rest:
            # `if t: ...; continue` followed by more statements: the rest is the else part
            if s.orelse or not isinstance(s.body[-1], ast.Continue):
                err(s, 'statements after an if / elif chain are not supported')
            return f'(if {_cset_test(s.test, names)} then {_cset_entries(s.body, names)}\n   else {_cset_entries(rest, names)})'
        return f'(if {_cset_test(s.test, names)} then {_cset_entries(s.body, names)}\n   else {_cset_entries(s.orelse, names)})'
    if isinstance(s, ast.Expr) and isinstance(s.value, ast.Call) and src(s.value.func) == 'c_set.append' and len(s.value.args) == 1 \
            and isinstance(s.value.args[0], ast.Tuple) and len(s.value.args[0].elts) == 3:
        num, a, b2 = s.value.args[0].elts
        if src(a) != 'p1ij':
            err(s, 'second component must be p1ij')
        if isinstance(b2, ast.Constant) and b2.value is None:
            third = 'None'
        elif src(b2) == 'p2ij':
            third = '(Some p2ij)'
        else:
            err(s, 'third component must be p2ij or None')
        return f'(({_cset_int(num, names)}, p1ij, {third}) :: {_cset_entries(rest, names)})'
    err(s, '_c_set: statement not recognised')


def _cset_int(e, names):
    if isinstance(e, ast.Constant) and type(e.value) is int:
        return zraw(e.value)
    if isinstance(e, ast.Name) and e.id in names:
        return e.id
    if isinstance(e, ast.BinOp) and isinstance(e.op, (ast.Add, ast.Mult)):
        return f'({_cset_int(e.left, names)} {"+" if isinstance(e.op, ast.Add) else "*"} {_cset_int(e.right, names)})'
    if src(e) == 'di[j]':
        return '(dist_get d i j)'
    err(e, '_c_set: integer expression not recognised')


def _cset_test(e, names):
    if isinstance(e, ast.UnaryOp) and isinstance(e.op, ast.Not) and src(e.operand) in ('p2ij', 'p1ij'):
        return f'(gen_is_nil {src(e.operand)})'
    if isinstance(e, ast.Compare) and len(e.ops) == 1 and isinstance(e.ops[0], ast.Eq) and src(e.left) in ('len(p1ij)', 'len(p2ij)'):
        v = e.comparators[0]
        if isinstance(v, ast.Constant) and type(v.value) is int and v.value >= 0:
            return f'(Nat.eqb (length {src(e.left)[4:-1]}) {v.value})'
    err(e, '_c_set: test not recognised')


def _ring_expr(e):
    """c1 + c2[-2:0:-1]"""
    if isinstance(e, ast.BinOp) and isinstance(e.op, ast.Add) and isinstance(e.left, ast.Name) and isinstance(e.right, ast.Subscript) \
            and isinstance(e.right.value, ast.Name) and src(e.right.slice) == '-2:0:-1':
        return e.left.id, e.right.value.id
    err(e, '_c_set: ring expression `c1 + c2[-2:0:-1]` expected')


def _inner(body):
    """c = c1 + c2[-2:0:-1]; if len(c) == len(set(c)): yield _canonic_ring(c)   -> (first path name, second path name)"""
    if len(body) != 2 or not isinstance(body[0], ast.Assign) or src(body[0].targets[0]) != 'c':
        err(body[0], '_c_set: `c = ...` expected')
    _expect(body[1], 'if len(c) == len(set(c)):\n    yield _canonic_ring(c)')
    return _ring_expr(body[0].value)


def _loops(stmts):
    """loop nest of one parity branch -> Gallina list of raw rings"""
    if len(stmts) != 1 or not isinstance(stmts[0], ast.For) or stmts[0].orelse:
        err(stmts[0], '_c_set: a single for loop expected')
    f = stmts[0]
    if src(f.target) == 'c1' and src(f.iter) == 'p1ij':
        g = f.body
        if len(g) != 1 or not isinstance(g[0], ast.For) or src(g[0].target) != 'c2' or src(g[0].iter) != 'p2ij' or g[0].orelse:
            err(f, '_c_set: `for c2 in p2ij` expected inside `for c1 in p1ij`')
        a, b2 = _inner(g[0].body)
        if (a, b2) != ('c1', 'c2'):
            err(f, '_c_set: c1 + c2[-2:0:-1] expected')
        return ('match p2o with\n      | None => []\n      | Some p2ij => flat_map (fun c1 => map (fun c2 => c1 ++ sl_mid_rev c2) p2ij) p1ij\n      end')
    if src(f.target) == '(c1, c2)' and src(f.iter) == 'zip(p1ij, p1ij[1:])':
        a, b2 = _inner(f.body)
        if (a, b2) != ('c1', 'c2'):
            err(f, '_c_set: c1 + c2[-2:0:-1] expected')
        return 'map (fun cc => fst cc ++ sl_mid_rev (snd cc)) (combine p1ij (tl p1ij))'
    err(f, '_c_set: loop not recognised')


def cset_text(tree):
    fn = [n for n in tree.body if isinstance(n, ast.FunctionDef) and n.name == '_c_set']
    if len(fn) != 1:
        raise TranslatorError(f'{PATH}: _c_set not found')
    fn = fn[0]
    if src(fn.args) != 'pid1, pid2, pid1l' or len(fn.body) != 4:
        err(fn, '_c_set: signature / four top-level statements expected')
    _expect(fn.body[0], 'c_set = []')
    _expect(fn.body[1], 'seen = set()')
    li, lo = fn.body[2], fn.body[3]
    if not (isinstance(li, ast.For) and src(li.target) == '(i, p1i)' and src(li.iter) == 'pid1.items()' and len(li.body) == 4 and not li.orelse):
        err(li, '_c_set: first loop')
    _expect(li.body[0], 'seen.add(i)')
    _expect(li.body[1], 'di = pid1l[i]')
    _expect(li.body[2], 'p2i = pid2[i]')
    lj = li.body[3]
    if not (isinstance(lj, ast.For) and src(lj.target) == '(j, p1ij)' and src(lj.iter) == 'p1i.items()' and not lj.orelse):
        err(lj, '_c_set: loop over j')
    bj = lj.body
    if not _skip(bj[0], 'j in seen'):
        err(bj[0], '`if j in seen: continue` expected')
    _expect(bj[1], 'p1ij = list(p1ij.values())')
    _expect(bj[2], 'p2ij = list(p2i[j].values())')
    if not (isinstance(bj[3], ast.Assign) and src(bj[3].targets[0]) == 'dij'):
        err(bj[3], '`dij = ...` expected')
    dij = _cset_int(bj[3].value, set())
    entries = _cset_entries(bj[4:], {'dij'})
    if not (isinstance(lo, ast.For) and src(lo.target) == '(c_num, p1ij, p2ij)' and src(lo.iter) == 'sorted(c_set, key=itemgetter(0))'
            and len(lo.body) == 1 and isinstance(lo.body[0], ast.If) and not lo.orelse):
        err(lo, '_c_set: second loop')
    par = lo.body[0]
    t = par.test
    if not (isinstance(t, ast.BinOp) and isinstance(t.op, ast.Mod) and src(t.left) == 'c_num' and isinstance(t.right, ast.Constant)
            and type(t.right.value) is int and t.right.value > 0):
        err(t, '_c_set: `c_num % 2` expected')
    odd, even = _loops(par.body), _loops(par.orelse)
    return (f'\n(* ---- {PATH}:_c_set (lines {fn.lineno}-{fn.end_lineno}) ---- *)\n'
            'Definition gen_is_nil {A} (l : list A) : bool := match l with [] => true | _ => false end.\n\n'
            '(* body of `for j, p1ij in p1i.items():` -- which (c_num, p1ij, p2ij) entries a pair of atoms contributes *)\n'
            'Definition gen_cset_j (p2 : d1) (d : dist) (seen : list Z) (i : Z) (jc : Z * d3) : list cs_entry :=\n'
            '  let j := fst jc in\n  if zmem j seen then [] else\n  let p1ij := d3vals (snd jc) in\n  let p2ij := d3vals (lookup2 p2 i j) in\n'
            f'  let dij := {dij} in\n  {entries}.\n\n'
            '(* `for i, p1i in pid1.items(): seen.add(i) ...` *)\n'
            'Fixpoint gen_cset_rows (p1 : d1) (p2 : d1) (d : dist) (seen : list Z) : list cs_entry :=\n  match p1 with\n  | [] => []\n'
            "  | (i, row) :: t => let seen' := seen ++ [i] in flat_map (gen_cset_j p2 d seen' i) row ++ gen_cset_rows t p2 d seen'\n  end.\n\n"
            '(* body of `for c_num, p1ij, p2ij in sorted(c_set, key=itemgetter(0)):` *)\n'
            'Definition gen_rings_of_entry (e : cs_entry) : pyres (list ring) :=\n'
            "  let '(c_num, p1ij, p2o) := e in\n  let raw :=\n"
            f'    if negb (c_num mod {t.right.value} =? 0) then\n      {odd}\n    else {even} in\n'
            '  map_res canonic_ring (filter nodup_b raw).\n\n'
            "Definition gen_c_set (pids : d1 * d1 * dist) : pyres (list ring) :=\n  let '(p1, p2, d) := pids in\n"
            '  concat_res (map gen_rings_of_entry (sort_cs (gen_cset_rows p1 p2 d []))).\n')


def main(repo='/repo', dest=None):
    dest = dest or gen_path('RingsPidBody.v')
    tree = ast.parse(open(os.path.join(repo, PATH)).read())
    fn = [n for n in tree.body if isinstance(n, ast.FunctionDef) and n.name == '_make_pid']
    if len(fn) != 1:
        raise TranslatorError(f'{PATH}: _make_pid not found')
    fn = fn[0]
    body = fn.body
    if len(body) != 7:
        err(fn, f'seven top-level statements expected, found {len(body)}')
    _expect(body[0], 'pid1 = defaultdict(lambda: defaultdict(dict))')
    _expect(body[1], 'pid2 = defaultdict(lambda: defaultdict(dict))')
    if src(body[2]).replace('1000000000.0', 'K') != 'distances = defaultdict(lambda: defaultdict(lambda: K))':   # the value of K: tools/gen_rings.py
        err(body[2], 'distance table')
    _expect(body[3], 'chains = sorted(paths, key=len)')
    loop1, loopk, ret = body[4], body[5], body[6]
    _expect(ret, 'return (pid1, pid2, distances)')
    # ---- first loop
    if not (isinstance(loop1, ast.For) and src(loop1.target) == 'c' and src(loop1.iter) == 'chains' and not loop1.orelse):
        err(loop1, 'first loop')
    b1 = loop1.body
    _expect(b1[0], 'di = len(c) - 1')
    _expect(b1[1], 'n, m = (c[0], c[-1])')
    _expect(b1[2], 'nn, mm = (c[1], c[-2])')
    tr = Tr({'pid1': 'p1', 'pid2': 'p2'}, {'distances': 'd'}, {'distances': 'd'}, {}, {}, ['n', 'm', 'nn', 'mm'])
    init = ("let '(p1, p2, d) := st in\n  let di := (Z.of_nat (length c) - 1) in\n  let n := nth_z c 0 in let m := last c 0 in\n  "
            "let nn := nth_z c 1 in let mm := nth_z c (length c - 2) in\n  ")
    tr.ints.add('di')
    init += tr.block(b1[3:], '(p1, p2, d)')
    # ---- main loop
    if not (isinstance(loopk, ast.For) and src(loopk.target) == 'k' and src(loopk.iter) == 'pid1' and not loopk.orelse and len(loopk.body) == 5):
        err(loopk, 'main loop')
    bk = loopk.body
    _expect(bk[0], 'new_distances = defaultdict(dict)')
    _expect(bk[1], 'dk = distances[k]')
    _expect(bk[2], 'ndk = new_distances[k]')
    _expect(bk[4], 'distances = new_distances')
    loopi = bk[3]
    if not (isinstance(loopi, ast.For) and src(loopi.target) == 'i' and src(loopi.iter) == 'pid1' and not loopi.orelse and len(loopi.body) == 5):
        err(loopi, 'loop over i')
    bi = loopi.body
    if not _skip(bi[0], 'i == k'):
        err(bi[0], '`if i == k: continue` expected')
    _expect(bi[1], 'di = distances[i]')
    _expect(bi[2], 'ndi = new_distances[i]')
    tri = Tr({'pid1': 'p1', 'pid2': 'p2'}, {'distances': 'dold'}, {'new_distances': 'dn'}, {'di': 'i', 'dk': 'k'}, {'ndi': 'i', 'ndk': 'k'},
             ['i', 'j', 'k'])
    loopj = bi[4]
    if not (isinstance(loopj, ast.For) and src(loopj.target) == 'j' and src(loopj.iter) == 'pid1' and not loopj.orelse):
        err(loopj, 'loop over j')
    i_text = ("if i =? k then st else\n  let '(p1, p2, dn) := st in\n  " +
              tri.block([bi[3]], 'fold_left (gen_pid_j k i dold) ks (p1, p2, dn)'))
    bj = loopj.body
    if not _skip(bj[0], 'j == k or j == i'):
        err(bj[0], '`if j == k or j == i: continue` expected')
    trj = Tr({'pid1': 'p1', 'pid2': 'p2'}, {'distances': 'dold'}, {'new_distances': 'dn'}, {'di': 'i', 'dk': 'k'}, {'ndi': 'i', 'ndk': 'k'},
             ['i', 'j', 'k'])
    j_text = ("let '(p1, p2, dn) := st in\n  if (j =? k) || (j =? i) then st else\n  " + trj.block(bj[1:], '(p1, p2, dn)'))
    text = (f'(* GENERATED by tools/gen_ringspid.py from {PATH}:_make_pid (lines {fn.lineno}-{fn.end_lineno}) -- do not edit.\n'
            '   Statement-by-statement translation of the function body; proofs/RingsPidTie.v proves it equal to the hand-written model. *)\n'
            'From Coq Require Import ZArith List Bool.\nFrom Model Require Import PyBase Graph Rings RingsGen.\nImport ListNotations.\nOpen Scope Z_scope.\n\n'
            f'(* body of `for c in chains:` *)\nDefinition gen_pid_init_step (st : d1 * d1 * dist) (c : path) : d1 * d1 * dist :=\n  {init}.\n\n'
            f'(* body of `for j in pid1:` *)\nDefinition gen_pid_j (k i : Z) (dold : dist) (st : d1 * d1 * dist) (j : Z) : d1 * d1 * dist :=\n  {j_text}.\n\n'
            f'(* body of `for i in pid1:` *)\nDefinition gen_pid_i (ks : list Z) (k : Z) (dold : dist) (st : d1 * d1 * dist) (i : Z) : d1 * d1 * dist :=\n  {i_text}.\n\n'
            '(* body of `for k in pid1:`  (new_distances = defaultdict(dict) ... distances = new_distances) *)\n'
            "Definition gen_pid_k (ks : list Z) (st : d1 * d1 * dist) (k : Z) : d1 * d1 * dist :=\n  let '(p1, p2, dold) := st in\n"
            '  fold_left (gen_pid_i ks k dold) ks (p1, p2, []).\n\n'
            '(* the whole function: chains = sorted(paths, key=len); first loop; main loop over the keys of pid1; return *)\n'
            'Definition gen_make_pid (paths : list path) : d1 * d1 * dist :=\n  let st := fold_left gen_pid_init_step (sort_paths paths) ([], [], []) in\n'
            '  let ks := keys (fst (fst st)) in\n  fold_left (gen_pid_k ks) ks st.\n')
    text += cset_text(tree)
    write_if_changed(dest, text)
    return {'lines': (fn.lineno, fn.end_lineno)}


if __name__ == '__main__':
    print(main(*sys.argv[1:]))
