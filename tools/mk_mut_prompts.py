#!/usr/bin/env python3
"""Write the prompts of a mutation wave: .prompts/mut<wave>/Cxx.txt from .prompts/mutant2.txt, the property text and the summaries
of the earlier seeded changes of that property (so the new ones use other mechanisms).  usage: mk_mut_prompts.py <wave>"""
import json, os, sys, glob
V = os.path.dirname(os.path.dirname(os.path.abspath(__file__)))
wave = sys.argv[1]
tmpl = open(os.path.join(V, '.prompts/mutant3.txt')).read()
os.makedirs(os.path.join(V, f'.prompts/mut{wave}'), exist_ok=True)
for line in open(os.path.join(V, 'properties.jsonl')):
    p = json.loads(line)
    pid = p['id']
    prev = []
    for d in sorted(glob.glob(os.path.join(V, 'seeded', pid + '-*'))):
        m = json.load(open(os.path.join(d, 'meta.json')))
        prev.append('  - ' + m['summary'].replace('\n', ' ')[:260] + ' [files: ' + ', '.join(os.path.basename(f) for f in m.get('files', [])) + ']')
    avoid = ('\nEarlier rounds already produced the following changes for this property. Yours must use DIFFERENT functions / mechanisms and need DIFFERENT '
             'kinds of input or history to manifest (do not vary one of these):\n' + '\n'.join(prev) + '\n') if prev else ''
    files = ', '.join(p['anchors']['files'])
    txt = (tmpl.replace('{WT}', f'/tmp/wt{wave}_{pid}').replace('{ID}', pid).replace('{TITLE}', p['title'])
           .replace('{STATEMENT}', p['statement']).replace('{QUANT}', p['quantifier']['text']).replace('{FILES}', files).replace('{AVOID}', avoid))
    open(os.path.join(V, f'.prompts/mut{wave}/{pid}.txt'), 'w').write(txt)
    print(pid, len(prev), len(txt))
