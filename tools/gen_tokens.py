"""Translator: the tables of chython/files/daylight/tokenize.py and the two CXSMILES regular expressions of
chython/files/daylight/smiles.py -> coq/gen/TokenTables.v

  tokenize.py   replace_dict {str: int}, not_dict {str: [int]}, charge_dict {str: int}      (module level dict displays)
                atom_re = compile(r'...')                                                    (pattern text, pinned by a theorem)
                the five `s in '<literal>'` character classes of _tokenize, in source order  (bond, up/down, organic,
                                                                                              aromatic, C/B symbols)
                the `element in (...)` tuple of aromatic bracket symbols of _atom_parse
  smiles.py     cx_fragments = compile(r'...'), cx_radicals = compile(r'...')               (pattern texts, pinned)

Reads literals from the Python AST only; fails closed (TranslatorError) on any other shape."""
import ast
import os
import sys

sys.path.insert(0, os.path.dirname(__file__))
from coqfmt import *  # noqa


def cs(text):
    if not all(32 <= ord(c) < 127 for c in text):
        raise TranslatorError(f'non printable character in table string {text!r}')
    return '"' + text.replace('"', '""') + '"%string'


def module_assign(tree, name, path):
    for node in tree.body:
        if isinstance(node, ast.Assign) and len(node.targets) == 1 and getattr(node.targets[0], 'id', None) == name:
            return node.value
    raise TranslatorError(f'{path}: {name} not found')


def literal_dict(node, path, name, kt, vt):
    if not isinstance(node, ast.Dict):
        raise TranslatorError(f'{path}:{getattr(node, "lineno", 0)}: {name} is not a dict display')
    out = []
    for k, v in zip(node.keys, node.values):
        if k is None:
            raise TranslatorError(f'{path}:{node.lineno}: ** unpacking in {name}')
        try:
            kk, vv = ast.literal_eval(k), ast.literal_eval(v)
        except Exception:
            raise TranslatorError(f'{path}:{node.lineno}: non-literal entry in {name}')
        if type(kk) is not kt:
            raise TranslatorError(f'{path}:{node.lineno}: key {kk!r} of {name} is not {kt.__name__}')
        if vt is int and type(vv) is not int:
            raise TranslatorError(f'{path}:{node.lineno}: value {vv!r} of {name} is not int')
        if vt is list and not (type(vv) is list and all(type(x) is int for x in vv)):
            raise TranslatorError(f'{path}:{node.lineno}: value {vv!r} of {name} is not a list of int')
        out.append((kk, vv))
    return out


def compiled_pattern(node, path, name):
    if not (isinstance(node, ast.Call) and getattr(node.func, 'id', None) == 'compile' and len(node.args) == 1
            and not node.keywords and isinstance(node.args[0], ast.Constant) and type(node.args[0].value) is str):
        raise TranslatorError(f'{path}:{getattr(node, "lineno", 0)}: {name} is not compile(<string literal>)')
    return node.args[0].value


def function(tree, name, path):
    for node in tree.body:
        if isinstance(node, ast.FunctionDef) and node.name == name:
            return node
    raise TranslatorError(f'{path}: function {name} not found')


def in_literals(fn, var, kind):
    """all `<var> in <literal>` tests of a function, in source order"""
    out = []
    for node in ast.walk(fn):
        if (isinstance(node, ast.Compare) and isinstance(node.left, ast.Name) and node.left.id == var
                and len(node.ops) == 1 and isinstance(node.ops[0], ast.In)):
            c = node.comparators[0]
            try:
                v = ast.literal_eval(c)
            except Exception:
                continue
            if type(v) is kind:
                out.append((node.lineno, node.col_offset, v))
    return [v for _, _, v in sorted(out)]


def main(repo='/repo', dest=None):
    dest = dest or gen_path('TokenTables.v')
    p_t = os.path.join(repo, 'chython/files/daylight/tokenize.py')
    p_s = os.path.join(repo, 'chython/files/daylight/smiles.py')
    t_t = ast.parse(open(p_t).read())
    t_s = ast.parse(open(p_s).read())
    replace_dict = literal_dict(module_assign(t_t, 'replace_dict', p_t), p_t, 'replace_dict', str, int)
    not_dict = literal_dict(module_assign(t_t, 'not_dict', p_t), p_t, 'not_dict', str, list)
    charge_dict = literal_dict(module_assign(t_t, 'charge_dict', p_t), p_t, 'charge_dict', str, int)
    atom_re = compiled_pattern(module_assign(t_t, 'atom_re', p_t), p_t, 'atom_re')
    cxf = compiled_pattern(module_assign(t_s, 'cx_fragments', p_s), p_s, 'cx_fragments')
    cxr = compiled_pattern(module_assign(t_s, 'cx_radicals', p_s), p_s, 'cx_radicals')
    classes = in_literals(function(t_t, '_tokenize', p_t), 's', str)
    if len(classes) != 5:
        raise TranslatorError(f'{p_t}: expected 5 `s in <string literal>` tests in _tokenize, found {len(classes)}: {classes!r}')
    arom = in_literals(function(t_t, '_atom_parse', p_t), 'element', tuple)
    if len(arom) != 1 or not all(type(x) is str for x in arom[0]):
        raise TranslatorError(f'{p_t}: expected one `element in (<str>, ...)` test in _atom_parse, found {arom!r}')
    for k, _ in replace_dict + not_dict:
        if len(k) != 1:
            raise TranslatorError(f'{p_t}: bond symbol {k!r} is not a single character')
    names = ('bond_chars', 'updown_chars', 'organic_chars', 'aromatic_chars', 'cb_chars')
    out = ['(* GENERATED by tools/gen_tokens.py from chython/files/daylight/tokenize.py and smiles.py. Do not edit. *)',
           'From Coq Require Import ZArith List String.', 'Import ListNotations.', 'Open Scope Z_scope.', '',
           '(* dict displays in source order (a later duplicate key would win in Python: lookups use the last binding) *)',
           'Definition replace_dict : list (string * Z) :=\n  ' + lst([tup(cs(k), zraw(v)) for k, v in replace_dict], per_line=6) + '.',
           'Definition not_dict : list (string * list Z) :=\n  ' + lst([tup(cs(k), lst(v, zraw)) for k, v in not_dict], per_line=4) + '.',
           'Definition charge_dict : list (string * Z) :=\n  ' + lst([tup(cs(k), zraw(v)) for k, v in charge_dict], per_line=6) + '.',
           '(* the `s in "..."` character classes of _tokenize, in source order *)']
    for n, v in zip(names, classes):
        out.append(f'Definition {n} : string := {cs(v)}.')
    out += ['(* bracket symbols that make an aromatic (type 8) atom in _atom_parse *)',
            'Definition aromatic_elements : list string := ' + lst(arom[0], cs) + '.',
            '(* pattern texts; the hand-written matchers of Model.Tokenize / Model.Reader are for exactly these (pinned by theorem) *)',
            f'Definition atom_re_src : string := {cs(atom_re)}.',
            f'Definition cx_fragments_src : string := {cs(cxf)}.',
            f'Definition cx_radicals_src : string := {cs(cxr)}.', '']
    return write_if_changed(dest, '\n'.join(out))


if __name__ == '__main__':
    main(*sys.argv[1:])
