"""Translator (C16): function bodies of chython/reactor/base.py, statement by statement -> coq/gen/ReactorBody.v

    g_get_deleted : nat -> list Z -> graph -> list (Z * Z) -> pyres (list Z)            (the whole body of BaseReactor._get_deleted)
                    fuel   self._to_delete  structure._bonds  mapping
    g_patcher_keep : satoms sbonds to_delete tetrahedrons natoms nbonds stereo_atoms stereo_bonds
                     -> pyres (natoms * nbonds * stereo_atoms * stereo_bonds)
                    (BaseReactor._patcher from `patched_atoms = set(new)` to the end of `for n, bs in sbonds.items()`: the two loops
                     that copy the atoms the template does not name and the bonds that survive, with their stereo bookkeeping;
                     the prologue of _patcher is checked to bind satoms/sbonds/natoms/nbonds/to_delete/stereo_* as assumed)

A small imperative-to-functional translation (continuation style: what follows a compound statement is repeated in each of
its branches; a loop becomes a fold over the tuple of the variables of the enclosing scope that its body assigns or mutates).
Python sets of atom numbers are lists (`for x in s` walks the list: the iteration order of a set is an INPUT of the model),
Python lists that are only used as a stack (append / pop() / truth test) are lists whose head is the top.
FAIL CLOSED: every statement / expression outside the fragment below raises TranslatorError; a name that is read where Python
scoping would make it depend on an earlier loop iteration or on the branch taken is `unknown name` (raises too).

  statements : `return e` (not inside a loop); `x = e`; `x, y = e1, e2`; `if / elif / else`; `continue`;
               `for v in <set var | adj[e]>: ...` (no else, no break); `while <test>: ...` (fuelled: py_while, no else, no break);
               `s.add(e)`, `s.update(t)` on a set built in this function; `l.append(e)` on a stack built in this function
  expressions: names; `<param>.<attr>` listed in PARAMS; `d[e]` (KeyError when missing); `l.pop()` (IndexError when empty);
               `set()`, `{e}`, `[e]`, `True`, `False`; `{d[x] for x in s}`; `set(d.values()).difference(s)`
  tests      : `x`, `not x` (truth value of a set / stack / bool), `a in s`, `a not in s`, `and`, `or`
  records    : (second function) `for k, v in d.items()`, `d[k] = v`, `d[k][j] = v`, `d[k] = x = v` (x stays an alias of the slot:
               `x._stereo = e` rewrites the slot), `{}`, `a.copy(hydrogens=True)` = Model.Reactor.plain_atom, `b.copy()` = plain,
               `x.stereo`, `e is not None`, `k in d[j]` (KeyError when j is missing), `l.append(e)` / `l.append((e, f))` on a list
The generated function is proved EQUAL to the hand-written Model.Reactor.get_deleted (proofs/ReactorBodyTie.v), so the
theorems of props/C16.v about get_deleted are theorems about the translated source text."""
import ast
import os
import sys

sys.path.insert(0, os.path.dirname(__file__))
from coqfmt import *  # noqa

SOURCE = 'chython/reactor/base.py'
CLASS = 'BaseReactor'
# parameters and the attributes of parameters the body may read: python expression -> (coq name, kind, coq type)
GD_PARAMS = [('self._to_delete', 'self_to_delete', 'set', 'list Z'),
             ('structure._bonds', 'structure_bonds', 'adj', 'graph'),
             ('mapping', 'mapping', 'map', 'list (Z * Z)')]
GD_ARGS = ['self', 'structure', 'mapping']
# the region of _patcher: what its free names are bound to (checked against the prologue of the function by `prologue`)
PK_PROLOGUE = {'satoms': 'structure._atoms', 'sbonds': 'structure._bonds', 'to_delete': 'self._get_deleted(structure, mapping)',
               'new': 'structure.__class__()', 'natoms': 'new._atoms', 'nbonds': 'new._bonds', 'stereo_atoms': '[]', 'stereo_bonds': '[]'}
PK_PARAMS = [('structure.stereogenic_tetrahedrons', 'tetrahedrons', 'set', 'list Z'),
             ('set(new)', '(py_set (keys natoms))', 'set', None)]   # new._atoms is natoms (prologue): iterating `new` lists its keys
# name -> (kind, built here / may be mutated); order = order of the state tuples
PK_ENV = [('satoms', 'atoms', False, 'list (Z * atom)'), ('sbonds', 'bonds', False, 'list (Z * list (Z * bond))'),
          ('to_delete', 'set', False, 'list Z'), ('natoms', 'atoms', True, 'list (Z * atom)'),
          ('nbonds', 'bonds', True, 'list (Z * list (Z * bond))'), ('stereo_atoms', 'ilist', True, 'list Z'),
          ('stereo_bonds', 'plist', True, 'list (Z * Z)')]
PK_RESULT = ['natoms', 'nbonds', 'stereo_atoms', 'stereo_bonds']

DICT_ELEM = {'adj': 'set', 'map': 'int', 'atoms': 'atom', 'bonds': 'nbrs', 'nbrs': 'bond', 'ratoms': 'ratom'}
ATOM_SET = {'charge': ('int', 'set_a_chg'), 'is_radical': ('bool', 'set_a_rad'), '_stereo': ('ostereo', 'set_a_stereo'),
            '_implicit_hydrogens': ('oint', 'set_a_h')}
RATOM_GET = {'charge': ('int', 'r_chg'), 'is_radical': ('bool', 'r_rad'), 'stereo': ('ostereo', 'r_stereo'), 'isotope': ('oint', 'r_iso'),
             'atomic_number': ('int', 'r_num')}

PRELUDE = r"""(* GENERATED by tools/gen_reactorbody.py from chython/reactor/base.py (BaseReactor._get_deleted, part of _patcher). Do not edit. *)
From Coq Require Import ZArith List Bool.
From Model Require Import PyBase Graph Reactor.
Import ListNotations.
Open Scope Z_scope.

(* ---- the fixed vocabulary of the translation ---- *)
Definition py_set (l : list Z) : list Z := nodup Z.eq_dec l.                                  (* set(iterable) *)
Definition py_nonempty {A} (l : list A) : bool := match l with [] => false | _ => true end.   (* truth value of a container *)
Definition py_is_some {A} (o : option A) : bool := match o with Some _ => true | None => false end.   (* x is not None *)
Definition set_a_stereo (a : atom) (s : option bool) : atom := mkAtom (a_num a) (a_iso a) (a_chg a) (a_rad a) (a_h a) s.  (* a._stereo = s *)
Definition set_a_chg (a : atom) (c : Z) : atom := mkAtom (a_num a) (a_iso a) c (a_rad a) (a_h a) (a_stereo a).            (* a.charge = c *)
Definition set_a_rad (a : atom) (r : bool) : atom := mkAtom (a_num a) (a_iso a) (a_chg a) r (a_h a) (a_stereo a).          (* a.is_radical = r *)
Definition set_a_h (a : atom) (h : option Z) : atom := mkAtom (a_num a) (a_iso a) (a_chg a) (a_rad a) h (a_stereo a).     (* a._implicit_hydrogens = h *)
Definition set_b_stereo (b : bond) (s : option bool) : bond := mkBond (b_ord b) s.                                        (* b._stereo = s *)
Definition copy_atom (a : atom) : atom := mkAtom (a_num a) (a_iso a) (a_chg a) (a_rad a) None None.                       (* a.copy() *)
(* an atom of the replacement as _patcher reads it: its class and the attributes the code looks at *)
Inductive rkind := KAny | KQuery | KElement.                                            (* AnyElement / QueryElement / Element *)
Record gratom := mkGR {
  r_kind : rkind; r_num : Z; r_iso : option Z; r_chg : Z; r_rad : bool; r_stereo : option bool;
  r_h : option Z;      (* Element.implicit_hydrogens *)
  r_hs : list Z        (* QueryElement.implicit_hydrogens (a tuple) *)
}.
Definition is_kind (k : rkind) (ra : gratom) : bool :=
  match k, r_kind ra with KAny, KAny | KQuery, KQuery | KElement, KElement => true | _, _ => false end.
(* for v in l: body   (body : state -> v -> state or exception) *)
Definition py_for {S A : Type} (l : list A) (body : S -> A -> pyres S) (s : S) : pyres S := fold_res body l s.
(* while cond: body   (Python has no bound; running out of fuel is the model artefact Err OtherError) *)
Fixpoint py_while {S : Type} (fuel : nat) (cond : S -> bool) (body : S -> pyres S) (s : S) : pyres S :=
  match fuel with
  | O => Err OtherError
  | S f => if cond s then match body s with Ok s' => py_while f cond body s' | Err e => Err e end else Ok s
  end.
(* [f x for x in l] where f may raise *)
Fixpoint py_map_res {A B : Type} (f : A -> pyres B) (l : list A) : pyres (list B) :=
  match l with
  | [] => Ok []
  | x :: r => match f x with
              | Err e => Err e
              | Ok v => match py_map_res f r with Err e => Err e | Ok vs => Ok (v :: vs) end
              end
  end.
"""


class Tr:
    def __init__(self, path, params, args, skip=()):
        self.path = path
        self.params = params
        self.args = args
        self.skip = set(skip)
        self.tmp = 0

    def err(self, node, what):
        raise TranslatorError(f'{self.path}:{getattr(node, "lineno", "?")}: {what}: {ast.dump(node)[:200]}')

    def fresh(self, base):
        self.tmp += 1
        return f'{base}_{self.tmp}'

    # ------------------------------------------------------------------ expressions (continuation style: k(kind, text, env) -> text)
    def param(self, e):
        src = ast.unparse(e)
        for py, coq, kind, _ in self.params:
            if src == py:
                return kind, coq
        return None

    def attr(self, e, env):
        """x.<attribute> of a record variable -> (kind, text) or None"""
        if not (isinstance(e, ast.Attribute) and isinstance(e.value, ast.Name) and e.value.id in env):
            return None
        x, kind = e.value.id, env[e.value.id][0]
        if kind in ('atom', 'bond') and e.attr == 'stereo':
            return 'ostereo', f'({"a" if kind == "atom" else "b"}_stereo {x})'
        if kind.startswith('ratom'):
            if e.attr in RATOM_GET:
                return RATOM_GET[e.attr][0], f'({RATOM_GET[e.attr][1]} {x})'
            if e.attr == 'implicit_hydrogens' and kind == 'ratom:Element':
                return 'oint', f'(r_h {x})'
            if e.attr == 'implicit_hydrogens' and kind == 'ratom:Query':
                return 'ituple', f'(r_hs {x})'
        return None

    def expr(self, e, env, k, pad):
        """emit the evaluation of e (left to right, exceptions propagate) and continue with k(kind, coq text, env)"""
        if isinstance(e, ast.Name):
            if e.id in env:
                return k(env[e.id][0], e.id, env)
            p = self.param(e)
            if p:
                return k(p[0], p[1], env)
            self.err(e, 'unknown name')
        if isinstance(e, (ast.Attribute, ast.Call)):
            p = self.param(e)
            if p:
                return k(p[0], p[1], env)
        if isinstance(e, ast.Attribute):
            a = self.attr(e, env)
            if a:
                return k(a[0], a[1], env)
            self.err(e, 'attribute')
        if (isinstance(e, ast.BinOp) and isinstance(e.op, ast.Add) and isinstance(e.left, ast.Name) and env.get(e.left.id, (None,))[0] == 'int'
                and isinstance(e.right, ast.Constant) and type(e.right.value) is int and e.right.value >= 0):
            return k('int', f'({e.left.id} + {e.right.value})', env)
        if isinstance(e, ast.Constant) and e.value is True:
            return k('bool', 'true', env)
        if isinstance(e, ast.Constant) and e.value is False:
            return k('bool', 'false', env)
        if isinstance(e, ast.Dict) and not e.keys:
            return k('emptydict', '[]', env)
        if isinstance(e, ast.Tuple) and len(e.elts) == 2 and all(isinstance(x, ast.Name) and env.get(x.id, (None,))[0] == 'int' for x in e.elts):
            return k('pair', f'({e.elts[0].id}, {e.elts[1].id})', env)
        if isinstance(e, ast.Subscript) and isinstance(e.slice, ast.Constant) and e.slice.value == 0 and (self.attr(e.value, env) or ('',))[0] == 'ituple':
            t = self.attr(e.value, env)[1]
            v = self.fresh('first')
            return f'{pad}match {t} with\n{pad}| [] => Err IndexError\n{pad}| {v} :: _ =>\n' + k('int', v, env) + f'\n{pad}end'
        if isinstance(e, ast.Subscript):
            def after_value(kind, d, env1):
                if kind not in DICT_ELEM:
                    self.err(e, 'subscript of something that is not a dict')

                def after_key(kk, key, env2):
                    if kk != 'int':
                        self.err(e, 'dict key is not an atom number')
                    v = self.fresh('item')
                    return (f'{pad}match zget {d} {key} with\n{pad}| None => Err KeyError\n{pad}| Some {v} =>\n'
                            + k(DICT_ELEM[kind], v, env2) + f'\n{pad}end')
                return self.expr(e.slice, env1, after_key, pad)
            return self.expr(e.value, env, after_value, pad)
        if isinstance(e, ast.Call):
            f = e.func
            # a.copy(hydrogens=True) of an atom, b.copy() of a bond
            if isinstance(f, ast.Attribute) and f.attr == 'copy' and isinstance(f.value, ast.Name) and not e.args:
                kind = env.get(f.value.id, (None,))[0]
                kw = [(w.arg, ast.unparse(w.value)) for w in e.keywords]
                if kind == 'atom' and kw == [('hydrogens', 'True')]:
                    return k('atom', f'(plain_atom {f.value.id})', env)
                if kind == 'atom' and not kw:
                    return k('atom', f'(copy_atom {f.value.id})', env)
                if kind == 'bond' and not kw:
                    return k('bond', f'(plain {f.value.id})', env)
                self.err(e, 'copy')
            # Bond(int(rb)): a new bond of the order of rb, without label
            if (isinstance(f, ast.Name) and f.id == 'Bond' and len(e.args) == 1 and not e.keywords and isinstance(e.args[0], ast.Call)
                    and isinstance(e.args[0].func, ast.Name) and e.args[0].func.id == 'int' and len(e.args[0].args) == 1 and not e.args[0].keywords
                    and isinstance(e.args[0].args[0], ast.Name) and env.get(e.args[0].args[0].id, (None,))[0] == 'bond'):
                return k('bond', f'(mkBond (b_ord {e.args[0].args[0].id}) None)', env)
            # Element.from_atomic_number(ra.atomic_number): the element class = its atomic number
            if ast.unparse(f) == 'Element.from_atomic_number' and len(e.args) == 1 and not e.keywords:
                a = self.attr(e.args[0], env)
                if not a or a[0] != 'int':
                    self.err(e, 'from_atomic_number')
                return k('elemclass', a[1], env)
            # e(ra.isotope, charge=ra.charge, is_radical=ra.is_radical): a new atom without hydrogen count and label
            if isinstance(f, ast.Name) and env.get(f.id, (None,))[0] == 'elemclass':
                got = [self.attr(x, env) for x in e.args] + [self.attr(w.value, env) for w in e.keywords]
                if len(e.args) != 1 or [w.arg for w in e.keywords] != ['charge', 'is_radical'] or None in got \
                        or [g[0] for g in got] != ['oint', 'int', 'bool']:
                    self.err(e, 'element constructor')
                return k('atom', f'(mkAtom {f.id} {got[0][1]} {got[1][1]} {got[2][1]} None None)', env)
            if e.keywords:
                self.err(e, 'keyword arguments')
            # set()
            if isinstance(f, ast.Name) and f.id == 'set' and not e.args:
                return k('set', '[]', env)
            # l.pop()
            if isinstance(f, ast.Attribute) and f.attr == 'pop' and not e.args and isinstance(f.value, ast.Name):
                name = f.value.id
                if env.get(name, (None,))[0] != 'stack' or not env[name][1]:
                    self.err(e, 'pop() of something that is not a stack built here')
                v = self.fresh('top')
                return (f'{pad}match {name} with\n{pad}| [] => Err IndexError\n{pad}| {v} :: {name} =>\n'
                        + k('int', v, env) + f'\n{pad}end')
            # set(d.values()).difference(s)
            if (isinstance(f, ast.Attribute) and f.attr == 'difference' and len(e.args) == 1 and isinstance(f.value, ast.Call)
                    and isinstance(f.value.func, ast.Name) and f.value.func.id == 'set' and len(f.value.args) == 1
                    and not f.value.keywords):
                inner = f.value.args[0]
                if not (isinstance(inner, ast.Call) and isinstance(inner.func, ast.Attribute) and inner.func.attr == 'values'
                        and not inner.args and not inner.keywords):
                    self.err(e, 'set(...) of something that is not d.values()')

                def after_d(kind, d, env1):
                    if kind != 'map':
                        self.err(e, '.values() of something that is not an int->int dict')

                    def after_s(ks, s, env2):
                        if ks != 'set':
                            self.err(e, 'difference with something that is not a set')
                        return k('set', f'(zdiff (py_set (map snd {d})) {s})', env2)
                    return self.expr(e.args[0], env1, after_s, pad)
                return self.expr(inner.func.value, env, after_d, pad)
            self.err(e, 'call')
        if isinstance(e, ast.Set) and len(e.elts) == 1:
            return self.expr(e.elts[0], env, lambda kk, t, env1: k('set', f'[{t}]', env1) if kk == 'int' else self.err(e, 'set element'), pad)
        if isinstance(e, ast.List) and len(e.elts) == 1:
            return self.expr(e.elts[0], env, lambda kk, t, env1: k('stack', f'[{t}]', env1) if kk == 'int' else self.err(e, 'list element'), pad)
        if isinstance(e, ast.SetComp):
            if len(e.generators) != 1:
                self.err(e, 'comprehension with several generators')
            g = e.generators[0]
            if g.ifs or g.is_async or not isinstance(g.target, ast.Name):
                self.err(e, 'comprehension shape')
            x = g.target.id

            def after_iter(kind, it, env1):
                if kind != 'set':
                    self.err(e, 'comprehension over something that is not a set')
                inner_env = dict(env1)
                inner_env[x] = ('int', False)
                body = self.expr(e.elt, inner_env,
                                 lambda kk, t, _e: f'{pad}    Ok {t}' if kk == 'int' else self.err(e, 'comprehension element'), pad + '    ')
                v = self.fresh('comp')
                return (f'{pad}match py_map_res (fun {x} =>\n{body}) {it} with\n{pad}| Err e => Err e\n{pad}| Ok {v} =>\n'
                        + k('set', f'(py_set {v})', env1) + f'\n{pad}end')
            return self.expr(g.iter, env, after_iter, pad)
        self.err(e, 'expression')

    # ------------------------------------------------------------------ tests
    def test(self, t, env):
        """a test that cannot raise -> boolean Coq text"""
        if isinstance(t, ast.Name):
            kind = env.get(t.id, (None,))[0] or (self.param(t) or (None,))[0]
            if kind in ('set', 'stack'):
                return f'py_nonempty {self.pure(t, env)[1]}'
            if kind == 'bool':
                return t.id
            self.err(t, 'truth value')
        if isinstance(t, ast.Attribute):
            p = self.param(t)
            if p and p[0] in ('set', 'stack'):
                return f'py_nonempty {p[1]}'
            self.err(t, 'truth value')
        if isinstance(t, ast.UnaryOp) and isinstance(t.op, ast.Not):
            return f'negb ({self.test(t.operand, env)})'
        if isinstance(t, ast.BoolOp):
            op = ' || ' if isinstance(t.op, ast.Or) else ' && '
            return '(' + op.join(self.test(v, env) for v in t.values) + ')'
        if isinstance(t, ast.Compare) and len(t.ops) == 1 and isinstance(t.ops[0], (ast.In, ast.NotIn)):
            ka, a = self.pure(t.left, env)
            ks, s = self.pure(t.comparators[0], env)
            if ka != 'int':
                self.err(t, 'membership of something that is not an atom number')
            r = self.member(t, a, ks, s)
            return r if isinstance(t.ops[0], ast.In) else f'negb ({r})'
        if (isinstance(t, ast.Compare) and len(t.ops) == 1 and isinstance(t.ops[0], (ast.IsNot, ast.Is)) and isinstance(t.comparators[0], ast.Constant)
                and t.comparators[0].value is None):
            k, x = self.pure(t.left, env)
            if k != 'ostereo':
                self.err(t, '`is [not] None` of something that is not a stereo label')
            return f'py_is_some {x}' if isinstance(t.ops[0], ast.IsNot) else f'negb (py_is_some {x})'
        if isinstance(t, ast.Compare) and len(t.ops) == 1 and isinstance(t.ops[0], (ast.NotEq, ast.Eq)):
            (k1, x1), (k2, x2) = self.pure(t.left, env), self.pure(t.comparators[0], env)
            if (k1, k2) != ('bond', 'bond'):
                self.err(t, 'comparison of things that are not bonds')
            r = f'(b_ord {x1} =? b_ord {x2})'      # Bond.__eq__ compares the orders
            return r if isinstance(t.ops[0], ast.Eq) else f'negb {r}'
        self.err(t, 'test')

    def member(self, node, a, ks, s):
        if ks == 'set':
            return f'zmem {a} {s}'
        if ks in ('atoms', 'bonds', 'nbrs', 'map', 'adj'):
            return f'zmem {a} (keys {s})'
        self.err(node, 'membership in something that is not a set or dict')

    def pure(self, e, env):
        """an operand that cannot raise -> (kind, text)"""
        if isinstance(e, ast.Name) and e.id in env:
            return env[e.id][0], e.id
        a = self.attr(e, env)
        if a:
            return a
        p = self.param(e) if isinstance(e, (ast.Name, ast.Attribute, ast.Call)) else None
        if not p:
            self.err(e, 'unknown name' if isinstance(e, ast.Name) else 'operand of a test must be a name')
        return p

    def cond(self, t, env, k, pad):
        """if-test -> k(boolean text); the one raising form is `a in d[j]` / `a not in d[j]` standing alone"""
        if (isinstance(t, ast.Compare) and len(t.ops) == 1 and isinstance(t.ops[0], (ast.In, ast.NotIn))
                and isinstance(t.comparators[0], ast.Subscript)):
            ka, a = self.pure(t.left, env)
            if ka != 'int':
                self.err(t, 'membership of something that is not an atom number')

            def after(ks, s, _env):
                r = self.member(t, a, ks, s)
                return k(r if isinstance(t.ops[0], ast.In) else f'negb ({r})')
            return self.expr(t.comparators[0], env, after, pad)
        return k(self.test(t, env))

    def branch(self, t, env, kthen, kelse, pad):
        """if t: kthen(env') else: kelse(env'') -- the branches may see different scopes (walrus, isinstance)"""
        neg = False
        while isinstance(t, ast.UnaryOp) and isinstance(t.op, ast.Not) and isinstance(t.operand, (ast.NamedExpr, ast.UnaryOp)):
            t, neg = t.operand, not neg
        if neg:
            kthen, kelse = kelse, kthen
        # A or B or ... with walrus bindings: tested from left to right, each with the scope the earlier ones left behind
        if isinstance(t, ast.BoolOp) and isinstance(t.op, ast.Or) and any(isinstance(x, ast.NamedExpr) for x in ast.walk(t)) and not neg:
            rest = t.values[1] if len(t.values) == 2 else ast.BoolOp(op=ast.Or(), values=t.values[1:])
            return self.branch(t.values[0], env, kthen, lambda e: self.branch(rest, e, kthen, kelse, pad + '  '), pad)
        # (x := d.get(k)) is None
        if (isinstance(t, ast.Compare) and len(t.ops) == 1 and isinstance(t.ops[0], ast.Is) and isinstance(t.comparators[0], ast.Constant)
                and t.comparators[0].value is None and isinstance(t.left, ast.NamedExpr) and not neg):
            v = t.left.value
            if not (isinstance(v, ast.Call) and isinstance(v.func, ast.Attribute) and v.func.attr == 'get' and isinstance(v.func.value, ast.Name)
                    and len(v.args) == 1 and not v.keywords and isinstance(v.args[0], ast.Name)):
                self.err(t, 'walrus')
            d, key, x = v.func.value.id, v.args[0].id, t.left.target.id
            if env.get(d, (None,))[0] not in ('bonds', 'nbrs') or env.get(key, (None,))[0] != 'int' or x in self.args or x in env:
                self.err(t, 'walrus over something that is not a dict of bonds')
            e2 = dict(env)
            e2[x] = (DICT_ELEM[env[d][0]], False, None)
            return (f'{pad}match zget {d} {key} with\n{pad}| None =>\n' + kthen(dict(env)) + f'\n{pad}| Some {x} =>\n' + kelse(e2) + f'\n{pad}end')
        # (m := d.get(k)) as a truth value: a missing key and the number 0 are both false (Model.Reactor.truthy_get)
        if isinstance(t, ast.NamedExpr):
            v = t.value
            if not (isinstance(v, ast.Call) and isinstance(v.func, ast.Attribute) and v.func.attr == 'get' and isinstance(v.func.value, ast.Name)
                    and len(v.args) == 1 and not v.keywords and isinstance(v.args[0], ast.Name)):
                self.err(t, 'walrus')
            d, key, m = v.func.value.id, v.args[0].id, t.target.id
            if env.get(d, (None,))[0] != 'map' or env.get(key, (None,))[0] != 'int' or m in self.args:
                self.err(t, 'walrus over something that is not an int->int dict')
            e1, e2 = dict(env), dict(env)
            self.drop_aliases(e1, [m])
            self.drop_aliases(e2, [m])
            e1[m] = ('int', False, None)
            e2.pop(m, None)      # None / 0: not an atom number; reading it before it is re-bound is refused
            return (f'{pad}match truthy_get {d} {key} with\n{pad}| Some {m} =>\n' + kthen(e1) + f'\n{pad}| None =>\n' + kelse(e2) + f'\n{pad}end')
        if (isinstance(t, ast.Call) and isinstance(t.func, ast.Name) and t.func.id == 'isinstance' and len(t.args) == 2 and not t.keywords
                and isinstance(t.args[0], ast.Name) and isinstance(t.args[1], ast.Name)):
            x, cls = t.args[0].id, t.args[1].id
            kind = env.get(x, (None,))[0]
            if not kind or not kind.startswith('ratom') or cls not in ('AnyElement', 'Element'):
                self.err(t, 'isinstance')
            e1, e2 = dict(env), dict(env)
            if cls == 'AnyElement':
                e1[x], e2[x] = ('ratom:Any', False, None), ('ratom:notAny', False, None)
            else:
                e1[x] = ('ratom:Element', False, None)
                e2[x] = ('ratom:Query' if kind == 'ratom:notAny' else kind, False, None)
            return (f'{pad}if is_kind {"KAny" if cls == "AnyElement" else "KElement"} {x}\n{pad}then\n' + kthen(e1) + f'\n{pad}else\n' + kelse(e2))
        if isinstance(t, ast.Attribute) and (self.attr(t, env) or ('',))[0] == 'ituple':
            return f'{pad}if py_nonempty {self.attr(t, env)[1]}\n{pad}then\n' + kthen(dict(env)) + f'\n{pad}else\n' + kelse(dict(env))
        return self.cond(t, env, lambda c: f'{pad}if {c}\n{pad}then\n' + kthen(dict(env)) + f'\n{pad}else\n' + kelse(dict(env)), pad)

    # ------------------------------------------------------------------ which variables a block assigns or mutates
    def writes(self, stmts):
        out = []

        def add(n):
            if n not in out:
                out.append(n)

        def base(x):
            while isinstance(x, (ast.Subscript, ast.Attribute)):
                x = x.value
            return x.id if isinstance(x, ast.Name) else None
        for node in stmts:
            bare = {id(x.target) for x in ast.walk(node) if isinstance(x, ast.AnnAssign) and x.value is None}   # `x: T` binds nothing
            for sub in ast.walk(node):
                if isinstance(sub, ast.Name) and isinstance(sub.ctx, ast.Store) and id(sub) not in bare:
                    add(sub.id)
                elif isinstance(sub, (ast.Subscript, ast.Attribute)) and isinstance(sub.ctx, ast.Store):
                    b = base(sub)
                    if b is None:
                        self.err(sub, 'assignment target')
                    add(b)
                elif isinstance(sub, ast.Call) and isinstance(sub.func, ast.Attribute) and isinstance(sub.func.value, ast.Name):
                    if sub.func.attr in ('add', 'update', 'append', 'pop', 'remove', 'discard', 'clear', 'extend', 'insert',
                                         'difference_update', 'intersection_update', 'symmetric_difference_update', 'sort', 'reverse',
                                         'popitem', 'setdefault'):
                        add(sub.func.value.id)
                elif isinstance(sub, (ast.AugAssign, ast.Delete, ast.Global, ast.Nonlocal, ast.Lambda, ast.FunctionDef,
                                      ast.ClassDef, ast.Try, ast.With, ast.Yield, ast.YieldFrom, ast.Await, ast.Break)):
                    self.err(sub, 'statement outside the fragment')
        return out

    @staticmethod
    def tup(names):
        return 'tt' if not names else names[0] if len(names) == 1 else '(' + ', '.join(names) + ')'

    @staticmethod
    def pat(names):
        return '_' if not names else names[0] if len(names) == 1 else "'(" + ', '.join(names) + ')'

    @staticmethod
    def drop_aliases(env, names):
        """an object variable stays an alias of a dict slot only while neither the dict variable nor the key variable is re-bound"""
        for x, v in list(env.items()):
            if len(v) > 2 and v[2] and any(x in names for x in v[2]):
                env[x] = (v[0], False, None)

    # ------------------------------------------------------------------ statements
    def store(self, s, target, kind, text, env, pad):
        """`target = <value text of kind>` for a Name / d[k] / d[k][j] target -> (coq lets, new env)"""
        env = dict(env)
        if isinstance(target, ast.Name):
            if target.id in self.args or any(target.id == c for _, c, _, _ in self.params):
                self.err(s, 'assignment to a parameter')
            self.drop_aliases(env, [target.id])
            env[target.id] = (kind, kind in ('set', 'stack'), None)
            return f'{pad}let {target.id} := {text} in\n', env
        if isinstance(target, ast.Subscript) and isinstance(target.value, ast.Name) and isinstance(target.slice, ast.Name):
            d, key = target.value.id, target.slice.id
            if d not in env or not env[d][1] or env[d][0] not in ('atoms', 'bonds', 'map') or env.get(key, (None,))[0] != 'int':
                self.err(s, 'item assignment into something that is not a dict built here')
            want = DICT_ELEM[env[d][0]]
            if kind != want and not (kind == 'emptydict' and want == 'nbrs'):
                self.err(s, f'item of kind {kind} stored into a dict of {want}')
            return f'{pad}let {d} := zset {d} {key} {text} in\n', env
        self.err(s, 'assignment target')

    def block(self, stmts, env, tail, in_loop, ind):
        """Coq text (type pyres _) of running stmts in scope env; tail(env, ind) = what happens when the block falls off its end"""
        pad = '  ' * ind
        if not stmts:
            return tail(env, ind)
        s, rest = stmts[0], stmts[1:]

        def go(env1, ind1=ind):
            return self.block(rest, env1, tail, in_loop, ind1)

        if isinstance(s, ast.Return):
            if in_loop:
                self.err(s, 'return inside a loop')
            if s.value is None:
                self.err(s, 'return without value')
            return self.expr(s.value, env, lambda kk, t, _e: f'{pad}Ok {t}' if kk == 'set' else self.err(s, 'returned value is not a set'), pad)
        if isinstance(s, ast.Continue):
            if not in_loop:
                self.err(s, 'continue outside a loop')
            return tail(env, ind)
        if isinstance(s, ast.If):
            return self.branch(s.test, env, lambda e1: self.block(list(s.body) + rest, e1, tail, in_loop, ind + 1),
                               lambda e2: self.block(list(s.orelse) + rest, e2, tail, in_loop, ind + 1), pad)
        if isinstance(s, ast.AnnAssign) and s.value is None and isinstance(s.target, ast.Name):
            return go(env)                     # a bare annotation `x: T` does nothing at run time
        if isinstance(s, ast.Raise) and s.cause is None and isinstance(s.exc, ast.Call) and isinstance(s.exc.func, ast.Name) \
                and s.exc.func.id in ('ValueError', 'KeyError', 'TypeError', 'IndexError'):
            return f'{pad}Err {s.exc.func.id}'
        if isinstance(s, ast.Assign) and ast.unparse(s).replace(' ', '') in self.skip:
            return go(env)                     # coordinates are not modelled (listed in SKIP, nothing else is skipped)
        if isinstance(s, ast.Assign):
            t = s.targets[0]
            # d[k][j] = e  (the value first, then d[k] is looked up, then the item is stored)
            if (len(s.targets) in (1, 2) and isinstance(t, ast.Subscript) and isinstance(t.value, ast.Subscript)
                    and isinstance(t.value.value, ast.Name) and isinstance(t.value.slice, ast.Name) and isinstance(t.slice, ast.Name)
                    and (len(s.targets) == 1 or (isinstance(s.targets[1], ast.Name) and isinstance(s.value, ast.Call)))):
                d, k1, k2 = t.value.value.id, t.value.slice.id, t.slice.id
                if d not in env or not env[d][1] or env[d][0] != 'bonds' or any(env.get(x, (None,))[0] != 'int' for x in (k1, k2)):
                    self.err(s, 'nested item assignment into something that is not the adjacency built here')

                def k(kind, text, env1):
                    if kind != 'bond':
                        self.err(s, 'the stored item is not a bond')
                    v = self.fresh('inner')
                    more = ''
                    if len(s.targets) == 2:          # d[k][j] = x = <new object>: x stays the object in the slot
                        x = s.targets[1].id
                        if x in self.args or x in (d, k1, k2):
                            self.err(s, 'assignment target')
                        tmp = self.fresh('value')
                        more, text = f'{pad}let {tmp} := {text} in\n', tmp
                        env1 = dict(env1)
                        self.drop_aliases(env1, [x])
                        env1[x] = ('bond', True, (d, k1, k2))
                    return (more + f'{pad}match zget {d} {k1} with\n{pad}| None => Err KeyError\n{pad}| Some {v} =>\n'
                            f'{pad}let {d} := zset {d} {k1} (zset {v} {k2} {text}) in\n'
                            + (f'{pad}let {s.targets[1].id} := {text} in\n' if len(s.targets) == 2 else '') + go(env1) + f'\n{pad}end')
                return self.expr(s.value, env, k, pad)
            # b._stereo = e   where b is a bond built here that sits in the slot d[k][j]
            if (len(s.targets) == 1 and isinstance(t, ast.Attribute) and t.attr == '_stereo' and isinstance(t.value, ast.Name)
                    and env.get(t.value.id, (None,))[0] == 'bond'):
                x = t.value.id
                v = env[x]
                if not (v[1] and len(v) > 2 and v[2] and len(v[2]) == 3):
                    self.err(s, 'attribute assignment to a bond that was not built in this function')
                d, k1, k2 = v[2]
                ko, o = self.pure(s.value, env)
                if ko != 'ostereo':
                    self.err(s, 'stereo label expected')
                inner = self.fresh('inner')
                return (f'{pad}let {x} := set_b_stereo {x} {o} in\n{pad}match zget {d} {k1} with\n{pad}| None => Err KeyError\n{pad}| Some {inner} =>\n'
                        f'{pad}let {d} := zset {d} {k1} (zset {inner} {k2} {x}) in\n' + go(env) + f'\n{pad}end')
            # x.<attr> = e   where x is an atom built here (a copy / a new element); if it already sits in a dict slot the slot is rewritten
            if len(s.targets) == 1 and isinstance(t, ast.Attribute) and t.attr in ATOM_SET and isinstance(t.value, ast.Name):
                x = t.value.id
                v = env.get(x)
                if not v or v[0] != 'atom' or not (v[1] or (len(v) > 2 and v[2])):
                    self.err(s, 'attribute assignment to an object that was not built in this function')
                want, setter = ATOM_SET[t.attr]

                def k(kind, text, env1):
                    if kind == 'int' and want == 'oint':
                        kind, text = 'oint', f'(Some {text})'
                    if kind != want:
                        self.err(s, f'{want} expected, found {kind}')
                    out = f'{pad}let {x} := {setter} {x} {text} in\n'
                    if len(v) > 2 and v[2]:
                        out += f'{pad}let {v[2][0]} := zset {v[2][0]} {v[2][1]} {x} in\n'
                    return out + go(env1)
                return self.expr(s.value, env, k, pad)
            if isinstance(t, ast.Tuple):
                if len(s.targets) != 1:
                    self.err(s, 'chained tuple assignment')
                if not (isinstance(s.value, ast.Tuple) and len(s.value.elts) == len(t.elts)):
                    self.err(s, 'tuple assignment shape')
                pairs = [([tt], v) for tt, v in zip(t.elts, s.value.elts)]
                # right-hand sides are evaluated before any target is bound: only values that read no variable are accepted
                for _, v in pairs:
                    if any(isinstance(x, ast.Name) and x.id != 'set' for x in ast.walk(v)):
                        self.err(s, 'tuple assignment whose values read variables')
            else:
                pairs = [(list(s.targets), s.value)]   # a = b = e : e once, then the targets from left to right

            def bind(i, env1):
                if i == len(pairs):
                    return go(env1)
                targets, v = pairs[i]
                into_slot = isinstance(v, ast.Name) and env1.get(v.id, (None,))[0] == 'atom' and all(isinstance(x, ast.Subscript) for x in targets)
                if isinstance(v, ast.Name) and v.id in env1 and env1[v.id][1] and not into_slot:
                    self.err(s, 'alias of a mutable container built here')

                def k(kind, text, env2):
                    out = ''
                    if len(targets) > 1:
                        tmp = self.fresh('value')
                        out += f'{pad}let {tmp} := {text} in\n'
                        text = tmp
                    slot = None
                    for tt in targets:
                        if isinstance(tt, ast.Name) and kind in ('set', 'stack') and isinstance(v, (ast.Name, ast.Attribute)):
                            lets, env2 = self.store(s, tt, kind, text, env2, pad)
                            env2[tt.id] = (kind, False, None)      # alias of a parameter / another variable: read-only
                        else:
                            lets, env2 = self.store(s, tt, kind, text, env2, pad)
                        out += lets
                        if isinstance(tt, ast.Subscript):
                            slot = (tt.value.id, tt.slice.id)
                    if kind in ('atom', 'bond'):
                        names = [tt.id for tt in targets if isinstance(tt, ast.Name)]
                        fresh_obj = isinstance(v, ast.Call)          # a copy: no other reference exists
                        if len(names) > 1 or (names and not fresh_obj and slot):
                            self.err(s, 'several names for one object')
                        for nme in names:
                            env2[nme] = (kind, fresh_obj, slot if fresh_obj else None)
                        if into_slot and slot:             # d[k] = x : x stays the object in the slot
                            env2[v.id] = (kind, env2[v.id][1], slot)
                    return out + bind(i + 1, env2)
                return self.expr(v, env1, k, pad)
            return bind(0, env)
        if isinstance(s, ast.Expr) and isinstance(s.value, ast.Call) and isinstance(s.value.func, ast.Attribute) \
                and isinstance(s.value.func.value, ast.Name) and len(s.value.args) == 1 and not s.value.keywords:
            name, meth, arg = s.value.func.value.id, s.value.func.attr, s.value.args[0]
            if name not in env or not env[name][1]:
                self.err(s, 'mutation of a container that was not built in this function')
            kind = env[name][0]

            def k(ka, a, env1):
                if (kind, meth, ka) == ('set', 'add', 'int'):
                    new = f'zadd {a} {name}'
                elif (kind, meth, ka) == ('set', 'update', 'set'):
                    new = f'zunion {a} {name}'
                elif (kind, meth, ka) == ('stack', 'append', 'int'):
                    new = f'{a} :: {name}'
                elif (kind, meth, ka) in (('ilist', 'append', 'int'), ('plist', 'append', 'pair')):
                    new = f'{name} ++ [{a}]'
                else:
                    self.err(s, 'method call')
                return f'{pad}let {name} := {new} in\n' + go(env1)
            return self.expr(arg, env, k, pad)
        if isinstance(s, (ast.For, ast.While)):
            if s.orelse:
                self.err(s, 'loop with else')
            written = self.writes(s.body)
            state = [n for n in env if n in written]
            inner_tail = lambda env1, ind1: '  ' * ind1 + f'Ok {self.tup(state)}'  # noqa: E731
            okpat = self.pat(state).lstrip(chr(39))
            if isinstance(s, ast.For):
                # for v in <set>   |   for k, v in <dict>.items()
                items = (isinstance(s.iter, ast.Call) and isinstance(s.iter.func, ast.Attribute) and s.iter.func.attr in ('items', 'atoms')
                         and not s.iter.args and not s.iter.keywords)
                if items:
                    if not (isinstance(s.target, ast.Tuple) and len(s.target.elts) == 2 and all(isinstance(x, ast.Name) for x in s.target.elts)):
                        self.err(s, 'loop target of .items()')
                    names = [x.id for x in s.target.elts]
                    it_expr = s.iter.func.value
                else:
                    if not isinstance(s.target, ast.Name):
                        self.err(s, 'loop target')
                    names = [s.target.id]
                    it_expr = s.iter
                for v in names:
                    # (the body may re-bind its own loop variable: `n = mapping[n]`; the next iteration binds it afresh)
                    if v in env or names.count(v) > 1:
                        self.err(s, 'loop variable shadows a variable')
                    if any(isinstance(x, ast.Name) and x.id == v for x in ast.walk(s.iter)):
                        self.err(s, 'loop variable inside its iterable')
                if isinstance(it_expr, ast.Name) and it_expr.id in written:
                    self.err(s, 'the iterated container is changed inside the loop')

                def k(kind, it, env1):
                    benv = dict(env1)
                    if items:
                        if kind not in (('ratoms',) if s.iter.func.attr == 'atoms' else ('atoms', 'bonds', 'nbrs')):
                            self.err(s, '.items() / .atoms() of something that is not a dict of atoms / bonds')
                        benv[names[0]] = ('int', False, None)
                        benv[names[1]] = (DICT_ELEM[kind], False, None)
                        vpat = f"'({names[0]}, {names[1]})"
                    else:
                        if kind != 'set':
                            self.err(s, 'iteration over something that is not a set of atom numbers')
                        benv[names[0]] = ('int', False, None)
                        vpat = names[0]
                    body = self.block(list(s.body), benv, inner_tail, True, ind + 2)
                    return (f'{pad}match py_for {it} (fun {self.pat(state)} {vpat} =>\n{body}) {self.tup(state)} with\n'
                            f'{pad}| Err e => Err e\n{pad}| Ok {okpat} =>\n' + go(env1) + f'\n{pad}end')
                return self.expr(it_expr, env, k, pad)
            c = self.test(s.test, env)
            body = self.block(list(s.body), dict(env), inner_tail, True, ind + 2)
            return (f'{pad}match py_while fuel (fun {self.pat(state)} => {c}) (fun {self.pat(state)} =>\n{body}) {self.tup(state)} with\n'
                    f'{pad}| Err e => Err e\n{pad}| Ok {okpat} =>\n' + go(env) + f'\n{pad}end')
        self.err(s, 'statement')


def find(tree, path, name):
    for node in tree.body:
        if isinstance(node, ast.ClassDef) and node.name == CLASS:
            for sub in node.body:
                if isinstance(sub, ast.FunctionDef) and sub.name == name:
                    return sub
    raise TranslatorError(f'{path}: {CLASS}.{name} not found')


def body_of(fn, path, args):
    a = fn.args
    if [x.arg for x in a.args] != args or a.vararg or a.kwarg or a.kwonlyargs or a.posonlyargs or a.defaults or fn.decorator_list:
        raise TranslatorError(f'{path}:{fn.lineno}: signature of {fn.name} changed')
    body = list(fn.body)
    if body and isinstance(body[0], ast.Expr) and isinstance(body[0].value, ast.Constant) and isinstance(body[0].value.value, str):
        body = body[1:]
    return body


def get_deleted(tree, path):
    fn = find(tree, path, '_get_deleted')
    body = body_of(fn, path, GD_ARGS)
    tr = Tr(path, GD_PARAMS, GD_ARGS)

    def no_return(env, ind):
        raise TranslatorError(f'{path}:{fn.lineno}: a path through _get_deleted ends without return')
    text = tr.block(body, {}, no_return, False, 1)
    sig = ' '.join(f'({c} : {t})' for _, c, _, t in GD_PARAMS)
    return (f'\n(* {CLASS}._get_deleted, lines {fn.lineno}-{fn.end_lineno} of {SOURCE} *)\n'
            f'Definition g_get_deleted (fuel : nat) {sig} : pyres (list Z) :=\n{text}.\n')


def patcher_keep(tree, path):
    fn = find(tree, path, '_patcher')
    body = body_of(fn, path, GD_ARGS)
    start = [i for i, st in enumerate(body) if isinstance(st, ast.Assign) and ast.unparse(st) == 'patched_atoms = set(new)']
    if len(start) != 1:
        raise TranslatorError(f'{path}:{fn.lineno}: `patched_atoms = set(new)` not found exactly once at the top level of _patcher')
    i = start[0]
    region = body[i:i + 3]
    if len(body) < i + 4 or not all(isinstance(x, ast.For) for x in region[1:]) \
            or ast.unparse(region[1].iter) != 'satoms.items()' or ast.unparse(region[2].iter) != 'sbonds.items()' \
            or not (isinstance(body[i + 3], ast.For) and ast.unparse(body[i + 3].iter) == 'new.atoms()'):
        raise TranslatorError(f'{path}:{body[i].lineno}: the two loops after `patched_atoms = set(new)` are not where they were')
    prologue(body, i, PK_PROLOGUE, path, fn)
    tr = Tr(path, PK_PARAMS, GD_ARGS + ['new'])
    env = {n: (kind, owned, None) for n, kind, owned, _ in PK_ENV}
    text = tr.block(region, env, lambda env1, ind: '  ' * ind + f'Ok {Tr.tup(PK_RESULT)}', False, 1)
    sig = ' '.join(f'({n} : {t})' for n, _, owned, t in PK_ENV if not owned) + ' (tetrahedrons : list Z) ' + \
        ' '.join(f'({n} : {t})' for n, _, owned, t in PK_ENV if owned)
    return (f'\n(* {CLASS}._patcher, lines {region[0].lineno}-{region[-1].end_lineno} of {SOURCE}: the atoms the template does not name and the\n'
            f'   bonds that survive; satoms / sbonds = structure._atoms / _bonds, natoms / nbonds = new._atoms / _bonds *)\n'
            f'Definition g_patcher_keep {sig}\n  : pyres (list (Z * atom) * list (Z * list (Z * bond)) * list Z * list (Z * Z)) :=\n{text}.\n')


PA_PROLOGUE = dict(PK_PROLOGUE, max_atom='max(satoms)')
PA_PARAMS = [('self._replacement', 'replacement_atoms', 'ratoms', 'list (Z * gratom)')]
PA_ENV = [('satoms', 'atoms', False, 'list (Z * atom)'), ('natoms', 'atoms', True, 'list (Z * atom)'),
          ('nbonds', 'bonds', True, 'list (Z * list (Z * bond))'), ('mapping', 'map', True, 'list (Z * Z)'),
          ('max_atom', 'int', False, 'Z'), ('stereo_atoms', 'ilist', True, 'list Z')]
PA_RESULT = ['natoms', 'nbonds', 'mapping', 'max_atom', 'stereo_atoms']
PA_SKIP = ['a.xy=ra.xy', 'a.xy=sa.xy']       # coordinates are not modelled


def prologue(body, i, expected, path, fn):
    """every name the region reads is bound once, at the top level before it, to what the environment of the region assumes"""
    bound = {}
    for st in body[:i]:
        for sub in ast.walk(st):
            if isinstance(sub, ast.Name) and isinstance(sub.ctx, ast.Store) and sub.id in expected:
                if not (isinstance(st, ast.Assign) and len(st.targets) == 1 and st.targets[0] is sub) or sub.id in bound:
                    raise TranslatorError(f'{path}:{st.lineno}: {sub.id} is bound in an unexpected way before the translated region')
                bound[sub.id] = ast.unparse(st.value)
            elif (isinstance(sub, ast.Call) and isinstance(sub.func, ast.Attribute) and isinstance(sub.func.value, ast.Name)
                  and sub.func.value.id in ('satoms', 'sbonds', 'to_delete') and sub.func.attr not in ('items', 'get', 'keys', 'values')):
                raise TranslatorError(f'{path}:{st.lineno}: {sub.func.value.id} may be changed before the translated region')
            elif isinstance(sub, (ast.Subscript, ast.Attribute)) and isinstance(sub.ctx, (ast.Store, ast.Del)):
                x = sub
                while isinstance(x, (ast.Subscript, ast.Attribute)):
                    x = x.value
                if isinstance(x, ast.Name) and x.id in ('satoms', 'sbonds', 'to_delete', 'structure'):
                    raise TranslatorError(f'{path}:{st.lineno}: {x.id} is changed before the translated region')
    if bound != expected:
        raise TranslatorError(f'{path}:{fn.lineno}: prologue of _patcher changed: {bound}')


def patcher_atoms(tree, path):
    fn = find(tree, path, '_patcher')
    body = body_of(fn, path, GD_ARGS)
    start = [i for i, st in enumerate(body) if isinstance(st, ast.For) and ast.unparse(st.iter) == 'self._replacement.atoms()']
    if len(start) != 1:
        raise TranslatorError(f'{path}:{fn.lineno}: the loop over self._replacement.atoms() not found exactly once at the top level of _patcher')
    i = start[0]
    if len(body) < i + 2 or not (isinstance(body[i + 1], ast.For) and ast.unparse(body[i + 1].iter) == 'self._replacement._bonds.items()'):
        raise TranslatorError(f'{path}:{body[i].lineno}: the loop over the replacement atoms is not followed by the loop over the replacement bonds')
    prologue(body, i, PA_PROLOGUE, path, fn)
    tr = Tr(path, PA_PARAMS, GD_ARGS + ['new'], PA_SKIP)
    env = {n: (kind, owned, None) for n, kind, owned, _ in PA_ENV}
    text = tr.block([body[i]], env, lambda env1, ind: '  ' * ind + f'Ok {Tr.tup(PA_RESULT)}', False, 1)
    sig = '(replacement_atoms : list (Z * gratom)) ' + ' '.join(f'({n} : {t})' for n, _, _, t in PA_ENV)
    return (f'\n(* {CLASS}._patcher, lines {body[i].lineno}-{body[i].end_lineno} of {SOURCE}: the atoms the replacement names (re-used or new), the\n'
            f'   extension of the mapping by the new atoms; coordinates (a.xy = ...) are not modelled *)\n'
            f'Definition g_patcher_atoms {sig}\n  : pyres (list (Z * atom) * list (Z * list (Z * bond)) * list (Z * Z) * Z * list Z) :=\n{text}.\n')


PB_PARAMS = [('self._replacement._bonds', 'replacement_bonds', 'bonds', 'list (Z * list (Z * bond))')]
PB_ENV = [('sbonds', 'bonds', False, 'list (Z * list (Z * bond))'), ('mapping', 'map', False, 'list (Z * Z)'),
          ('nbonds', 'bonds', True, 'list (Z * list (Z * bond))'), ('stereo_bonds', 'plist', True, 'list (Z * Z)')]
PB_RESULT = ['nbonds', 'stereo_bonds']


def patcher_rbonds(tree, path):
    fn = find(tree, path, '_patcher')
    body = body_of(fn, path, GD_ARGS)
    start = [i for i, st in enumerate(body) if isinstance(st, ast.For) and ast.unparse(st.iter) == 'self._replacement._bonds.items()']
    if len(start) != 1:
        raise TranslatorError(f'{path}:{fn.lineno}: the loop over self._replacement._bonds.items() not found exactly once at the top level of _patcher')
    i = start[0]
    if i < 1 or not (isinstance(body[i - 1], ast.For) and ast.unparse(body[i - 1].iter) == 'self._replacement.atoms()') \
            or len(body) < i + 2 or ast.unparse(body[i + 1]) != 'patched_atoms = set(new)':
        raise TranslatorError(f'{path}:{body[i].lineno}: the loop over the replacement bonds is not between the atom loop and `patched_atoms = set(new)`')
    prologue(body, i - 1, PA_PROLOGUE, path, fn)
    tr = Tr(path, PB_PARAMS, ['self', 'structure', 'new'])
    env = {n: (kind, owned, None) for n, kind, owned, _ in PB_ENV}
    text = tr.block([body[i]], env, lambda env1, ind: '  ' * ind + f'Ok {Tr.tup(PB_RESULT)}', False, 1)
    sig = '(replacement_bonds : list (Z * list (Z * bond))) ' + ' '.join(f'({n} : {t})' for n, _, _, t in PB_ENV)
    return (f'\n(* {CLASS}._patcher, lines {body[i].lineno}-{body[i].end_lineno} of {SOURCE}: the bonds the replacement names (order of the patch,\n'
            f'   back-links share the bond, label of the patch or a queue entry when the structure has a labelled bond of the same order there) *)\n'
            f'Definition g_patcher_rbonds {sig}\n  : pyres (list (Z * list (Z * bond)) * list (Z * Z)) :=\n{text}.\n')


def main(repo='/repo', dest=None):
    path = os.path.join(repo, SOURCE)
    try:
        tree = ast.parse(open(path).read())
    except (OSError, SyntaxError) as e:
        raise TranslatorError(f'{path}: {e}')
    out = PRELUDE + get_deleted(tree, path) + patcher_atoms(tree, path) + patcher_rbonds(tree, path) + patcher_keep(tree, path)
    write_if_changed(dest or gen_path('ReactorBody.v'), out)


if __name__ == '__main__':
    main(*sys.argv[1:])
