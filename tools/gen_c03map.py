"""Translator: the numbering code of chython/files/_mapping.py -> coq/gen/MappingBody.v.

  postprocess_parsed_molecule     the whole function -> gen_pp_molecule : bool -> bool -> list Z -> pyres (list Z)
                                  (the body of its loop, statement by statement -> gen_mol_number_step)
  postprocess_parsed_reaction     the body of the loop `for m in tmp:` that numbers the atoms of one role -> gen_rxn_number_step;
                                  the first free number `length = count(max(max(maps[..], default=0), ...) + 1)` -> gen_rxn_first_number

The loop bodies are translated structurally (if / elif / else chains in source order, raise, list.append, set.add, next(length));
the fixed statements around the loop of postprocess_parsed_molecule are recognised by their exact (ast.unparse) text. Statements that
only write the log (data['log'] / molecule['log']) are skipped: the log is not part of the model. Anything else raises
TranslatorError (fail closed). Proofs.MappingTranslated proves the translated loops equal to Model.Reader.number_loop and the translated
function equal to Model.Reader.pp_molecule (obligations C03_numbering_translated*)."""
import ast
import os
import sys

sys.path.insert(0, os.path.dirname(__file__))
from coqfmt import *  # noqa

REL = 'chython/files/_mapping.py'


def is_name(e, name):
    return isinstance(e, ast.Name) and e.id == name


class Tr:
    def __init__(self, path, out):
        self.path, self.out, self.n = path, out, 0

    def err(self, node, what):
        raise TranslatorError(f'{self.path}:{getattr(node, "lineno", "?")}: {what}: {ast.dump(node)[:200]}')

    def fresh(self):
        self.n += 1
        return f'k{self.n}'

    def is_log(self, s):
        """statements that only touch data['log'] / molecule['log']"""
        t = ast.unparse(s)
        if t == "if data.get('log') is None:\n    data['log'] = []":
            return True
        if (isinstance(s, ast.Expr) and isinstance(s.value, ast.Call) and isinstance(s.value.func, ast.Attribute) and s.value.func.attr == 'append'
                and ast.unparse(s.value.func.value) in ("data['log']", "molecule['log']") and len(s.value.args) == 1
                and isinstance(s.value.args[0], (ast.JoinedStr, ast.Constant))):
            return True
        return False

    def test(self, t):
        if isinstance(t, ast.UnaryOp) and isinstance(t.op, ast.Not) and is_name(t.operand, 'm'):
            return '(m =? 0)'
        if isinstance(t, ast.UnaryOp) and isinstance(t.op, ast.Not) and is_name(t.operand, 'ignore'):
            return 'negb ignore'
        if isinstance(t, ast.Compare) and is_name(t.left, 'm') and len(t.ops) == 1 and isinstance(t.ops[0], ast.In) and is_name(t.comparators[0], 'used'):
            return 'zmem m (n_used st)'
        self.err(t, 'test')

    def simple(self, s, k):
        if isinstance(s, ast.Expr) and isinstance(s.value, ast.Call) and isinstance(s.value.func, ast.Attribute) and len(s.value.args) == 1 and not s.value.keywords:
            obj, meth, arg = s.value.func.value, s.value.func.attr, s.value.args[0]
            if is_name(obj, self.out) and meth == 'append':
                if is_name(arg, 'm'):
                    return f'let st := n_append st m in {k}'
                if isinstance(arg, ast.Call) and is_name(arg.func, 'next') and len(arg.args) == 1 and is_name(arg.args[0], 'length') and not arg.keywords:
                    return f'let st := n_append_next st in {k}'
            if is_name(obj, 'used') and meth == 'add' and is_name(arg, 'm'):
                return f'let st := n_use st m in {k}'
        self.err(s, 'statement')

    def stmts(self, body, cont, ind):
        body = [s for s in body if not self.is_log(s)]
        if not body:
            return cont
        head, rest = body[0], body[1:]
        pad = '\n' + ' ' * ind
        if isinstance(head, ast.Raise):
            if rest:
                self.err(rest[0], 'statement after raise')
            e = head.exc
            if not (isinstance(e, ast.Call) and is_name(e.func, 'MappingError')):
                self.err(head, 'raise')
            return 'Err ValueError'                    # MappingError is a ValueError
        if isinstance(head, ast.If):
            if rest:
                k = self.fresh()
                inner = self.stmts(rest, cont, ind + 2)
                return f'let {k} := fun st : nstate => {inner} in{pad}{self.if_(head, f"{k} st", ind)}'
            return self.if_(head, cont, ind)
        return self.simple(head, self.stmts(rest, cont, ind))

    def if_(self, node, cont, ind):
        pad = '\n' + ' ' * ind
        then = self.stmts(node.body, cont, ind + 2)
        if len(node.orelse) == 1 and isinstance(node.orelse[0], ast.If):
            return f'if {self.test(node.test)} then{pad}  ({then}){pad}else {self.if_(node.orelse[0], cont, ind)}'
        els = self.stmts(node.orelse, cont, ind + 2) if node.orelse else cont
        return f'if {self.test(node.test)} then{pad}  ({then}){pad}else{pad}  ({els})'


def find_func(repo, name):
    path = os.path.join(repo, REL)
    tree = ast.parse(open(path).read())
    for node in tree.body:
        if isinstance(node, ast.FunctionDef) and node.name == name:
            return path, node
    raise TranslatorError(f'{path}: function {name} not found')


def expect(path, node, text):
    got = ast.unparse(node)
    if got != text:
        raise TranslatorError(f'{path}:{getattr(node, "lineno", "?")}: expected `{text}`, found `{got[:200]}`')


def main(repo='/repo', dest=None):
    dest = dest or gen_path('MappingBody.v')
    # ---- postprocess_parsed_molecule
    path, fn = find_func(repo, 'postprocess_parsed_molecule')
    if ast.unparse(fn.args) != 'data, *, remap=False, ignore=True':
        raise TranslatorError(f'{path}: postprocess_parsed_molecule signature: {ast.unparse(fn.args)}')
    body = [s for s in fn.body if not (isinstance(s, ast.Expr) and isinstance(s.value, ast.Constant))]
    if len(body) != 2 or not isinstance(body[0], ast.If) or not is_name(body[0].test, 'remap'):
        raise TranslatorError(f'{path}: postprocess_parsed_molecule: `if remap: ... else: ...` and the final assignment expected')
    top, last = body
    expect(path, last, "data['mapping'] = remapped")
    if len(top.body) != 1 or len(top.orelse) != 3:
        raise TranslatorError(f'{path}: postprocess_parsed_molecule: shape of the two branches')
    expect(path, top.body[0], "remapped = list(range(1, len(data['atoms']) + 1))")
    expect(path, top.orelse[0], "length = count(max((x.get('parsed_mapping') or 0 for x in data['atoms'])) + 1)")
    expect(path, top.orelse[1], 'remapped, used = ([], set())')
    loop = top.orelse[2]
    if not (isinstance(loop, ast.For) and ast.unparse(loop.target) == '(n, atom)' and ast.unparse(loop.iter) == "enumerate(data['atoms'])" and not loop.orelse
            and len(loop.body) >= 2):
        raise TranslatorError(f'{path}:{loop.lineno}: loop over enumerate(data["atoms"]) expected')
    expect(path, loop.body[0], "m = atom.get('parsed_mapping')")
    mol_step = Tr(path, 'remapped').stmts(loop.body[1:], 'Ok st', 2)
    # ---- postprocess_parsed_reaction: the loop `for m in tmp:`
    path, fn = find_func(repo, 'postprocess_parsed_reaction')
    loops = [n for n in ast.walk(fn) if isinstance(n, ast.For) and is_name(n.target, 'm') and is_name(n.iter, 'tmp')]
    if len(loops) != 1 or loops[0].orelse:
        raise TranslatorError(f'{path}: postprocess_parsed_reaction: exactly one loop `for m in tmp:` expected')
    outer = [n for n in ast.walk(fn) if isinstance(n, ast.For) and loops[0] in n.body]
    if len(outer) != 1 or [ast.unparse(s) for s in outer[0].body[:-1]] != ['used = set()', 'maps[i] = _remap = []'] or outer[0].body[-1] is not loops[0] \
            or ast.unparse(outer[0].target) != '(i, tmp)' or ast.unparse(outer[0].iter) != 'maps.items()':
        raise TranslatorError(f'{path}: postprocess_parsed_reaction: the numbering loop is expected inside `for i, tmp in maps.items(): used = set(); maps[i] = _remap = []`')
    rxn_step = Tr(path, '_remap').stmts(loops[0].body, 'Ok st', 2)
    # length = count(max(max(maps['..'], default=0), max(maps['..'], default=0), max(maps['..'], default=0)) + 1)
    starts = [n for n in ast.walk(fn) if isinstance(n, ast.Assign) and len(n.targets) == 1 and is_name(n.targets[0], 'length')]
    if len(starts) != 1:
        raise TranslatorError(f'{path}: postprocess_parsed_reaction: exactly one assignment to length expected')
    v = starts[0].value
    if not (isinstance(v, ast.Call) and is_name(v.func, 'count') and len(v.args) == 1 and not v.keywords and isinstance(v.args[0], ast.BinOp)
            and isinstance(v.args[0].op, ast.Add) and isinstance(v.args[0].right, ast.Constant) and type(v.args[0].right.value) is int
            and isinstance(v.args[0].left, ast.Call) and is_name(v.args[0].left.func, 'max') and not v.args[0].left.keywords and v.args[0].left.args):
        raise TranslatorError(f'{path}:{starts[0].lineno}: length = count(max(...) + <int>) expected: {ast.unparse(starts[0])}')
    terms = []
    for a in v.args[0].left.args:
        if not (isinstance(a, ast.Call) and is_name(a.func, 'max') and len(a.args) == 1 and isinstance(a.args[0], ast.Subscript) and is_name(a.args[0].value, 'maps')
                and isinstance(a.args[0].slice, ast.Constant) and a.args[0].slice.value in ('reactants', 'products', 'reagents')
                and len(a.keywords) == 1 and a.keywords[0].arg == 'default' and isinstance(a.keywords[0].value, ast.Constant)
                and type(a.keywords[0].value.value) is int):
            raise TranslatorError(f"{path}:{starts[0].lineno}: max(maps['<role>'], default=<int>) expected: {ast.unparse(a)}")
        terms.append(f'py_max_default {a.args[0].slice.value} {a.keywords[0].value.value}')
    first = f'({terms[0]})'
    for t in terms[1:]:
        first = f'(Z.max {first} ({t}))'
    first_number = f'{first} + {v.args[0].right.value}'
    out = f'''(* GENERATED by tools/gen_c03map.py from {REL} (statement by statement). Do not edit. *)
From Coq Require Import ZArith List Bool.
From Model Require Import PyBase MappingPrims.
Import ListNotations.
Open Scope Z_scope.

(* postprocess_parsed_molecule: the body of `for n, atom in enumerate(data['atoms']):` after `m = atom.get('parsed_mapping')` *)
Definition gen_mol_number_step (ignore : bool) (st : nstate) (m : Z) : pyres nstate :=
  {mol_step}.

(* postprocess_parsed_molecule(data, remap=, ignore=) -> data['mapping']; maps = [x.get('parsed_mapping') or 0 for x in data['atoms']] *)
Definition gen_pp_molecule (remap ignore : bool) (maps : list Z) : pyres (list Z) :=
  if remap then
    (* remapped = list(range(1, len(data['atoms']) + 1)) *)
    Ok (zrange 1 (Z.of_nat (List.length maps) + 1))
  else
    (* length = count(max(x.get('parsed_mapping') or 0 for x in data['atoms']) + 1) ; remapped, used = [], set() ; the loop *)
    nbind (py_max maps) (fun mx =>
    nbind (nfold (gen_mol_number_step ignore) (mkN [] [] (mx + 1)) maps) (fun st =>
    Ok (n_out st))).

(* postprocess_parsed_reaction: the body of `for m in tmp:` (numbering of the atoms of one role; used = set(), _remap = [] before it) *)
Definition gen_rxn_number_step (ignore : bool) (st : nstate) (m : Z) : pyres nstate :=
  {rxn_step}.

(* postprocess_parsed_reaction: the first number given to an unmapped atom (the argument of count(...)); reactants / products / reagents =
   the maps of all atoms of the role (0 for an atom without map) *)
Definition gen_rxn_first_number (reactants products reagents : list Z) : Z :=
  {first_number}.
'''
    return write_if_changed(dest, out)


if __name__ == '__main__':
    main(*sys.argv[1:])
