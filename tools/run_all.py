#!/usr/bin/env python3
"""Run every claimed check (MANIFEST.json) on the unchanged tree and validate its evidence file.
usage: tools/run_all.py [--tier quick|thorough] [-j N] [ids...]"""
import concurrent.futures as cf
import json
import os
import subprocess
import sys
import time

VERIF = os.path.dirname(os.path.dirname(os.path.abspath(__file__)))


def main(argv):
    tier, jobs, ids = 'quick', 3, []
    it = iter(argv)
    for a in it:
        if a == '--tier':
            tier = next(it)
        elif a == '-j':
            jobs = int(next(it))
        else:
            ids.append(a)
    man = json.load(open(os.path.join(VERIF, 'MANIFEST.json')))
    checks = [c for c in man['checks'] if not ids or c['property_id'] in ids]

    def one(c):
        pid = c['property_id']
        ev = c['evidence_file']
        try:
            os.remove(ev)
        except OSError:
            pass
        t0 = time.time()
        r = subprocess.run(c['quick_cmd' if tier == 'quick' else 'thorough_cmd'], shell=True, cwd=VERIF, capture_output=True, text=True,
                           env=dict(os.environ, VERIF_SEED=os.environ.get('VERIF_SEED', '1'), VERIF_TIER=tier))
        viol = [l for l in r.stdout.split('\n') if l.startswith('VIOLATION')]
        known = sum(1 for l in r.stdout.split('\n') if l.startswith('KNOWN-FINDING'))
        v = subprocess.run(['python3-vt', '-c', 'import json,jsonschema,sys; jsonschema.validate(json.load(open(sys.argv[1])), json.load(open("/root/.vp/EVIDENCE.schema.json")))', ev],
                           capture_output=True, text=True)
        evok = v.returncode == 0
        try:
            e = json.load(open(ev))
            c = e['coverage']
            # what the acceptance run also requires of a proof-level record
            evok = evok and e['level'] == 'proof' and c['obligations'] == c['discharged'] and c['obligations'] > 0 and bool(c['samples']) \
                and e['property_id'] == pid
        except Exception:
            evok = False
        return pid, r.returncode, viol, known, evok, time.time() - t0, r.stdout[-600:] if r.returncode else ''

    bad = 0
    with cf.ThreadPoolExecutor(max_workers=jobs) as ex:
        for pid, rc, viol, known, evok, dt, tail in ex.map(one, checks):
            status = 'OK ' if rc == 0 and not viol and evok else 'BAD'
            bad += status == 'BAD'
            print(f'{status} {pid} exit={rc} violations={len(viol)} known={known} evidence_valid={evok} {dt:.0f}s')
            if status == 'BAD':
                print('   ', '\n    '.join(viol[:3]), tail)
    return 1 if bad else 0


if __name__ == '__main__':
    sys.exit(main(sys.argv[1:]))
