"""Translator (C07): the control skeleton of chython/algorithms/isomorphism.py that the hand-written model coq/model/Iso.v copies --
comparison operators and call directions of __lt__/__le__/__gt__/__ge__/is_equal, the automorphism_filter arguments, how
searching_scope is tested, the single/multi component split, how an empty candidate leaves the loops, the `or match_stereo`
of MoleculeIsomorphism.get_mapping, the guards of _get_automorphism_mapping -> coq/gen/IsoOps.v.
Python ast only; every method must have exactly the recognised shape, anything else raises TranslatorError (fail closed)."""
import ast
import os
import sys

sys.path.insert(0, os.path.dirname(__file__))
from coqfmt import *  # noqa

CMP = {ast.Lt: 'CLt', ast.LtE: 'CLe', ast.Gt: 'CGt', ast.GtE: 'CGe', ast.Eq: 'CEq', ast.NotEq: 'CNe'}


def err(path, node, msg):
    raise TranslatorError(f'{path}:{getattr(node, "lineno", "?")}: {msg}')


def method(tree, cls, name, path):
    for node in tree.body:
        if isinstance(node, ast.ClassDef) and node.name == cls:
            for f in node.body:
                if isinstance(f, ast.FunctionDef) and f.name == name:
                    return f
    raise TranslatorError(f'{path}: {cls}.{name} not found')


def function(tree, name, path):
    for node in tree.body:
        if isinstance(node, ast.FunctionDef) and node.name == name:
            return node
    raise TranslatorError(f'{path}: function {name} not found')


def body_of(fn):
    """statements without the docstring"""
    b = fn.body
    if b and isinstance(b[0], ast.Expr) and isinstance(b[0].value, ast.Constant) and isinstance(b[0].value.value, str):
        b = b[1:]
    return b


def len_of(node, path):
    if isinstance(node, ast.Call) and isinstance(node.func, ast.Name) and node.func.id == 'len' and len(node.args) == 1 and isinstance(node.args[0], ast.Name):
        return node.args[0].id
    err(path, node, 'len(<name>) expected')


def len_guard(stmt, path):
    """`if len(self) OP len(other): return False` -> OP (as written with self on the left)"""
    if not (isinstance(stmt, ast.If) and not stmt.orelse and isinstance(stmt.test, ast.Compare) and len(stmt.test.ops) == 1
            and len(stmt.body) == 1 and isinstance(stmt.body[0], ast.Return) and isinstance(stmt.body[0].value, ast.Constant)
            and stmt.body[0].value.value is False):
        err(path, stmt, '`if len(self) OP len(other): return False` expected')
    if (len_of(stmt.test.left, path), len_of(stmt.test.comparators[0], path)) != ('self', 'other'):
        err(path, stmt, 'len(self) OP len(other) expected')
    op = CMP.get(type(stmt.test.ops[0]))
    if op is None:
        err(path, stmt, 'comparison operator not recognised')
    return op


def sub_call(stmt, path):
    """`return X.is_substructure(Y)` -> swapped? (False: self.is_substructure(other))"""
    v = stmt.value if isinstance(stmt, ast.Return) else None
    if not (isinstance(v, ast.Call) and isinstance(v.func, ast.Attribute) and v.func.attr == 'is_substructure' and isinstance(v.func.value, ast.Name)
            and len(v.args) == 1 and isinstance(v.args[0], ast.Name) and not v.keywords):
        err(path, stmt, '`return a.is_substructure(b)` expected')
    pair = (v.func.value.id, v.args[0].id)
    if pair == ('self', 'other'):
        return False
    if pair == ('other', 'self'):
        return True
    err(path, stmt, 'self/other expected')


def next_probe(stmts, path):
    """try: next(self.get_mapping(other, automorphism_filter=K)) / except StopIteration: return False / return True -> K"""
    if not (len(stmts) == 2 and isinstance(stmts[0], ast.Try) and isinstance(stmts[1], ast.Return) and isinstance(stmts[1].value, ast.Constant)
            and stmts[1].value.value is True):
        err(path, stmts[0], 'try/next/return True expected')
    t = stmts[0]
    if not (len(t.body) == 1 and isinstance(t.body[0], ast.Expr) and isinstance(t.body[0].value, ast.Call) and getattr(t.body[0].value.func, 'id', None) == 'next'
            and len(t.handlers) == 1 and getattr(t.handlers[0].type, 'id', None) == 'StopIteration' and not t.orelse and not t.finalbody
            and len(t.handlers[0].body) == 1 and isinstance(t.handlers[0].body[0], ast.Return) and t.handlers[0].body[0].value.value is False):
        err(path, t, 'next(...) probe with `except StopIteration: return False` expected')
    call = t.body[0].value.args[0]
    if not (isinstance(call, ast.Call) and isinstance(call.func, ast.Attribute) and call.func.attr == 'get_mapping' and getattr(call.func.value, 'id', None) == 'self'
            and len(call.args) == 1 and getattr(call.args[0], 'id', None) == 'other' and len(call.keywords) == 1 and call.keywords[0].arg == 'automorphism_filter'
            and isinstance(call.keywords[0].value, ast.Constant) and type(call.keywords[0].value.value) is bool):
        err(path, call, 'self.get_mapping(other, automorphism_filter=<bool>) expected')
    return call.keywords[0].value.value


def main(repo='/repo', dest=None):
    dest = dest or gen_path('IsoOps.v')
    path = os.path.join(repo, 'chython/algorithms/isomorphism.py')
    tree = ast.parse(open(path).read())
    out = {}
    # comparison operators
    for name in ('__lt__', '__gt__'):
        b_ = body_of(method(tree, 'Isomorphism', name, path))
        if len(b_) != 2:
            err(path, b_[0], f'{name}: two statements expected')
        out[name] = (len_guard(b_[0], path), sub_call(b_[1], path))
    for name in ('__le__', '__ge__'):
        b_ = body_of(method(tree, 'Isomorphism', name, path))
        if len(b_) != 1:
            err(path, b_[0], f'{name}: one statement expected')
        out[name] = sub_call(b_[0], path)
    b_ = body_of(method(tree, 'Isomorphism', 'is_substructure', path))
    out['sub_filter'] = next_probe(b_, path)
    b_ = body_of(method(tree, 'Isomorphism', 'is_equal', path))
    if len(b_) != 3:
        err(path, b_[0], 'is_equal: three statements expected')
    out['eq_guard'] = len_guard(b_[0], path)
    out['eq_filter'] = next_probe(b_[1:], path)
    # Isomorphism._get_mapping
    gm = method(tree, 'Isomorphism', '_get_mapping', path)
    is_not_none = truthy = 0
    for node in ast.walk(gm):
        if isinstance(node, ast.Compare) and getattr(node.left, 'id', None) == 'searching_scope':
            if len(node.ops) == 1 and isinstance(node.ops[0], ast.IsNot) and isinstance(node.comparators[0], ast.Constant) and node.comparators[0].value is None:
                is_not_none += 1
            else:
                err(path, node, 'searching_scope compared in an unknown way')
        if isinstance(node, (ast.If, ast.While, ast.IfExp)) and getattr(node.test, 'id', None) == 'searching_scope':
            truthy += 1
        if isinstance(node, ast.UnaryOp) and isinstance(node.op, ast.Not) and getattr(node.operand, 'id', None) == 'searching_scope':
            truthy += 1
        if isinstance(node, ast.BoolOp) and any(getattr(v, 'id', None) == 'searching_scope' for v in node.values):
            truthy += 1
    split = [n for n in gm.body if isinstance(n, ast.If) and isinstance(n.test, ast.Compare) and isinstance(n.test.left, ast.Call)
             and getattr(n.test.left.func, 'id', None) == 'len' and getattr(n.test.left.args[0], 'id', None) == 'components']
    if len(split) != 1 or len(split[0].test.ops) != 1 or not isinstance(split[0].test.ops[0], ast.Eq) \
            or not (isinstance(split[0].test.comparators[0], ast.Constant) and type(split[0].test.comparators[0].value) is int) or not split[0].orelse:
        err(path, gm, '`if len(components) == <int>: ... else: ...` expected once in _get_mapping')
    single_len = split[0].test.comparators[0].value
    exits = []
    for branch in (split[0].body, split[0].orelse):
        found = [n for stmt in branch for n in ast.walk(stmt) if isinstance(n, ast.If) and isinstance(n.test, ast.UnaryOp) and isinstance(n.test.op, ast.Not)
                 and getattr(n.test.operand, 'id', None) == 'candidate']
        if len(found) != 1 or len(found[0].body) != 1 or not isinstance(found[0].body[0], (ast.Continue, ast.Break)) or found[0].orelse:
            err(path, gm, '`if not candidate: continue|break` expected once per branch')
        exits.append('LoopContinue' if isinstance(found[0].body[0], ast.Continue) else 'LoopBreak')
    perms = [n for n in ast.walk(split[0]) if isinstance(n, ast.Call) and getattr(n.func, 'id', None) == 'permutations']
    if len(perms) != 1 or len(perms[0].args) != 2 or not (isinstance(perms[0].args[0], ast.Attribute) and perms[0].args[0].attr == 'connected_components') \
            or len_of(perms[0].args[1], path) != 'components':
        err(path, gm, 'permutations(other.connected_components, len(components)) expected')
    inits = [n for n in ast.walk(split[0]) if isinstance(n, ast.Assign) and getattr(n.targets[0], 'id', None) == 'mapping']
    if len(inits) != 1 or not (isinstance(inits[0].value, ast.Dict) and not inits[0].value.keys):
        err(path, gm, '`mapping = {}` expected in the multi-component branch')
    # MoleculeIsomorphism.get_mapping: automorphism_filter=automorphism_filter or match_stereo
    mg = method(tree, 'MoleculeIsomorphism', 'get_mapping', path)
    calls = [n for n in ast.walk(mg) if isinstance(n, ast.Call) and isinstance(n.func, ast.Attribute) and n.func.attr == '_get_mapping']
    if len(calls) != 1:
        err(path, mg, 'one self._get_mapping call expected')
    kw = {k.arg: k.value for k in calls[0].keywords}
    v = kw.get('automorphism_filter')
    if isinstance(v, ast.BoolOp) and isinstance(v.op, ast.Or) and [getattr(x, 'id', None) for x in v.values] == ['automorphism_filter', 'match_stereo']:
        ms_or = True
    elif isinstance(v, ast.Name) and v.id == 'automorphism_filter':
        ms_or = False
    else:
        err(path, calls[0], 'automorphism_filter=automorphism_filter [or match_stereo] expected')
    # _get_automorphism_mapping
    am = function(tree, '_get_automorphism_mapping', path)
    b_ = body_of(am)
    g = b_[0]
    if not (isinstance(g, ast.If) and isinstance(g.test, ast.Compare) and len(g.test.ops) == 1 and len_of(g.test.left, path) == 'atoms'
            and isinstance(g.test.comparators[0], ast.Call) and getattr(g.test.comparators[0].func, 'id', None) == 'len'
            and len(g.body) == 1 and isinstance(g.body[0], ast.Return) and g.body[0].value is None):
        err(path, g, '`if len(atoms) OP len(set(atoms.values())): return` expected')
    auto_guard = CMP.get(type(g.test.ops[0]))
    singles = [n for n in b_ if isinstance(n, ast.If) and isinstance(n.test, ast.Compare) and isinstance(n.test.left, ast.Call)
               and getattr(n.test.left.func, 'id', None) == 'len' and getattr(n.test.left.args[0], 'id', None) == 'mappers']
    if len(singles) != 1 or not isinstance(singles[0].test.ops[0], ast.Eq) or not isinstance(singles[0].test.comparators[0], ast.Constant):
        err(path, am, '`if len(mappers) == <int>:` expected once')
    auto_single = singles[0].test.comparators[0].value
    copies = [n for n in ast.walk(am) if isinstance(n, ast.Call) and isinstance(n.func, ast.Attribute) and n.func.attr == 'copy']
    if len(copies) != 1:
        err(path, am, 'match[0].copy() expected once')
    text = ['(* GENERATED by tools/gen_isoops.py from chython/algorithms/isomorphism.py. Do not edit. *)',
            'From Coq Require Import ZArith List Bool.', 'Import ListNotations.', 'Open Scope Z_scope.', '',
            'Inductive cmpop := CLt | CLe | CGt | CGe | CEq | CNe.',
            'Inductive loop_exit := LoopContinue | LoopBreak.', '',
            '(* `if len(self) OP len(other): return False` and the direction of the is_substructure call (true: other.is_substructure(self)) *)',
            f'Definition gen_lt_guard : cmpop := {out["__lt__"][0]}.', f'Definition gen_lt_swapped : bool := {b(out["__lt__"][1])}.',
            f'Definition gen_gt_guard : cmpop := {out["__gt__"][0]}.', f'Definition gen_gt_swapped : bool := {b(out["__gt__"][1])}.',
            f'Definition gen_le_swapped : bool := {b(out["__le__"])}.', f'Definition gen_ge_swapped : bool := {b(out["__ge__"])}.',
            f'Definition gen_equal_guard : cmpop := {out["eq_guard"]}.',
            '(* automorphism_filter= argument of the get_mapping probe in is_substructure / is_equal *)',
            f'Definition gen_sub_filter : bool := {b(out["sub_filter"])}.', f'Definition gen_equal_filter : bool := {b(out["eq_filter"])}.',
            '(* Isomorphism._get_mapping: how often searching_scope is compared with `is not None` / used by truthiness *)',
            f'Definition gen_scope_is_not_none_tests : nat := {is_not_none}%nat.', f'Definition gen_scope_truthiness_tests : nat := {truthy}%nat.',
            '(* `if len(components) == N:` single-component branch; how `if not candidate:` leaves the loop in the single / multi branch *)',
            f'Definition gen_single_branch_len : Z := {zraw(single_len)}.', f'Definition gen_empty_candidate_exits : list loop_exit := [{"; ".join(exits)}].',
            '(* MoleculeIsomorphism.get_mapping: automorphism_filter=automorphism_filter or match_stereo *)',
            f'Definition gen_match_stereo_filter_or : bool := {b(ms_or)}.',
            '(* _get_automorphism_mapping: `if len(atoms) OP len(set(atoms.values())): return`, `if len(mappers) == N:` *)',
            f'Definition gen_auto_unique_guard : cmpop := {auto_guard}.', f'Definition gen_auto_single_len : Z := {zraw(auto_single)}.', '']
    return write_if_changed(dest, '\n'.join(text))


if __name__ == '__main__':
    main(*sys.argv[1:])
