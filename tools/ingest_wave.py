#!/usr/bin/env python3
"""Confirm and store the results of a mutation wave: /tmp/wt<wave>_Cxx/out/{a,b} -> seeded/Cxx-<next free letter> (tools/verify_seed.py).
usage: tools/ingest_wave.py <wave> [Cxx ...]     keeps seeded/_wave<wave>.json (source dir -> seed name) so a re-run skips what is done"""
import glob, json, os, string, subprocess, sys
V = os.path.dirname(os.path.dirname(os.path.abspath(__file__)))
wave = sys.argv[1]
only = sys.argv[2:]
mp = os.path.join(V, 'seeded', f'_wave{wave}.json')
done = json.load(open(mp)) if os.path.exists(mp) else {}
for wt in sorted(glob.glob(f'/tmp/wt{wave}_C*')):
    pid = wt.rsplit('_', 1)[1]
    if only and pid not in only:
        continue
    for sub in ('a', 'b'):
        src = os.path.join(wt, 'out', sub)
        if src in done or not os.path.exists(os.path.join(src, 'meta.json')) or not os.path.exists(os.path.join(src, 'patch.diff')):
            continue
        used = {os.path.basename(d).split('-')[1] for d in glob.glob(os.path.join(V, 'seeded', pid + '-*'))}
        letter = next(c for c in string.ascii_lowercase if c not in used)
        name = f'{pid}-{letter}'
        r = subprocess.run([sys.executable, os.path.join(V, 'tools', 'verify_seed.py'), src, name], capture_output=True, text=True)
        print(r.stdout.strip()[-600:], r.stderr.strip()[-300:])
        done[src] = name if r.returncode == 0 else 'REJECTED'
        json.dump(done, open(mp, 'w'), indent=1)
